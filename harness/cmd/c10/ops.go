package main

import (
	"errors"
	"fmt"
	"io"
	"math"
	"strings"

	"github.com/pinealctx/neptune/bytex"
	"verifharness/vh"
)

// op is one call on a BufferX / ReaderX; k is the constructor name of `op` in C10_Model.v.
type op struct {
	k   string
	u   uint64 // unsigned payload, float64 bit pattern
	i   int64  // signed payload, byte count n, position pos
	b   bool
	s   []byte // string / raw bytes / rewrite payload
	lim uint32
}

func (o op) coq() string {
	switch o.k {
	case "WU8", "WU16", "WU32", "WU64", "WF64", "WVarU64", "WVarU32":
		return fmt.Sprintf("(%s %s)", o.k, vh.CoqZu(o.u))
	case "WI16", "WI32", "WI64", "WVarI64", "WVarI32":
		return fmt.Sprintf("(%s %s)", o.k, vh.CoqZ(o.i))
	case "WBool":
		return fmt.Sprintf("(WBool %s)", vh.CoqBool(o.b))
	case "WStr", "WRaw":
		return fmt.Sprintf("(%s %s)", o.k, vh.CoqBytes(o.s))
	case "WLimStr":
		return fmt.Sprintf("(WLimStr %s %s)", vh.CoqZu(uint64(o.lim)), vh.CoqBytes(o.s))
	case "RLimStr":
		return fmt.Sprintf("(RLimStr %s)", vh.CoqZu(uint64(o.lim)))
	case "RRead", "RReadN", "RZReadN":
		return fmt.Sprintf("(%s %s)", o.k, vh.CoqZ(o.i))
	case "XReWrite":
		return fmt.Sprintf("(XReWrite %s %s)", vh.CoqZ(o.i), vh.CoqBytes(o.s))
	case "XReWriteU32":
		return fmt.Sprintf("(XReWriteU32 %s %s)", vh.CoqZ(o.i), vh.CoqZu(o.u))
	}
	return o.k // constructors without arguments
}

// outc is one observed outcome (constructor of `outcome`).
type outc struct {
	k  string // done int bool bytes err panic
	z  string // decimal
	b  bool
	bs []byte
	e  string // constructor of `err`
}

func (o outc) coq() string {
	switch o.k {
	case "done":
		return "ODone"
	case "int":
		if strings.HasPrefix(o.z, "-") {
			return "(OInt (" + o.z + ")%Z)"
		}
		return "(OInt " + o.z + "%Z)"
	case "bool":
		return "(OBool " + vh.CoqBool(o.b) + ")"
	case "bytes":
		return "(OBytes " + vh.CoqBytes(o.bs) + ")"
	case "err":
		return "(OErr " + o.e + ")"
	}
	return "OPanic"
}

var done = outc{k: "done"}

func errOut(err error) outc {
	switch {
	case errors.Is(err, io.EOF):
		return outc{k: "err", e: "EEOF"}
	case errors.Is(err, io.ErrUnexpectedEOF):
		return outc{k: "err", e: "EUnexpected"}
	case errors.Is(err, bytex.ErrByteBufferEmpty):
		return outc{k: "err", e: "EEmpty"}
	case errors.Is(err, bytex.ErrReadWrongNum):
		return outc{k: "err", e: "EWrongNum"}
	case errors.Is(err, bytex.ErrSizeLimit):
		return outc{k: "err", e: "ESizeLimit"}
	case strings.Contains(err.Error(), "varint overflows"):
		return outc{k: "err", e: "EOverflow"}
	}
	return outc{k: "err", e: "EOther"}
}
func uOut(v uint64, err error) outc {
	if err != nil {
		return errOut(err)
	}
	return outc{k: "int", z: fmt.Sprintf("%d", v)}
}
func iOut(v int64, err error) outc {
	if err != nil {
		return errOut(err)
	}
	return outc{k: "int", z: fmt.Sprintf("%d", v)}
}
func bytesOut(p []byte, err error) outc {
	if err != nil {
		return errOut(err)
	}
	return outc{k: "bytes", bs: append([]byte{}, p...)}
}

// doBuf performs one call on the real BufferX; a panic of the implementation is an observed outcome.
func doBuf(b *bytex.BufferX, o op) (out outc) {
	defer func() {
		if r := recover(); r != nil {
			out = outc{k: "panic"}
		}
	}()
	switch o.k {
	case "WU8":
		b.WriteU8(byte(o.u))
	case "WBool":
		b.WriteBool(o.b)
	case "WU16":
		b.WriteU16(uint16(o.u))
	case "WI16":
		b.WriteI16(int16(o.i))
	case "WU32":
		b.WriteU32(uint32(o.u))
	case "WI32":
		b.WriteI32(int32(o.i))
	case "WU64":
		b.WriteU64(o.u)
	case "WI64":
		b.WriteI64(o.i)
	case "WF64":
		b.WriteF64(math.Float64frombits(o.u))
	case "WVarU64":
		b.WriteVarU64(o.u)
	case "WVarI64":
		b.WriteVarI64(o.i)
	case "WVarU32":
		b.WriteVarU32(uint32(o.u))
	case "WVarI32":
		b.WriteVarI32(int32(o.i))
	case "WStr":
		b.WriteString(string(o.s))
	case "WLimStr":
		if err := b.WriteLimitString(o.lim, string(o.s)); err != nil {
			return errOut(err)
		}
	case "WRaw":
		b.Write(o.s)
	case "RU8":
		v, err := b.ReadU8()
		return uOut(uint64(v), err)
	case "RBool":
		v, err := b.ReadBool()
		if err != nil {
			return errOut(err)
		}
		return outc{k: "bool", b: v}
	case "RU16":
		v, err := b.ReadU16()
		return uOut(uint64(v), err)
	case "RI16":
		v, err := b.ReadI16()
		return iOut(int64(v), err)
	case "RU32":
		v, err := b.ReadU32()
		return uOut(uint64(v), err)
	case "RI32":
		v, err := b.ReadI32()
		return iOut(int64(v), err)
	case "RU64":
		v, err := b.ReadU64()
		return uOut(v, err)
	case "RI64":
		v, err := b.ReadI64()
		return iOut(v, err)
	case "RF64":
		v, err := b.ReadF64()
		return uOut(math.Float64bits(v), err)
	case "RVarU64":
		v, err := b.ReadVarU64()
		return uOut(v, err)
	case "RVarI64":
		v, err := b.ReadVarI64()
		return iOut(v, err)
	case "RVarU32":
		v, err := b.ReadVarU32()
		return uOut(uint64(v), err)
	case "RVarI32":
		v, err := b.ReadVarI32()
		return iOut(int64(v), err)
	case "RStr":
		v, err := b.ReadString()
		return bytesOut([]byte(v), err)
	case "RLimStr":
		v, err := b.ReadLimitString(o.lim)
		return bytesOut([]byte(v), err)
	case "RRead":
		p := make([]byte, o.i)
		err := b.Read(p)
		return bytesOut(p, err)
	case "RReadN":
		p, err := b.ReadN(int(o.i))
		return bytesOut(p, err)
	case "RZReadN":
		p, err := b.ZReadN(int(o.i))
		return bytesOut(p, err)
	case "XReWrite":
		b.ReWrite(int(o.i), o.s)
	case "XReWriteU32":
		b.ReWriteU32(int(o.i), uint32(o.u))
	case "XLen":
		return iOut(int64(b.Len()), nil)
	case "XBytes":
		return bytesOut(b.Bytes(), nil)
	case "XReset":
		b.Reset()
	default:
		panic("c10: unknown op " + o.k)
	}
	return done
}

// doRx performs one call on the real ReaderX.
func doRx(x *bytex.ReaderX, o op) (out outc) {
	defer func() {
		if r := recover(); r != nil {
			out = outc{k: "panic"}
		}
	}()
	switch o.k {
	case "RU8":
		v, err := x.ReadByte()
		return uOut(uint64(v), err)
	case "RBool":
		v, err := x.ReadBool()
		if err != nil {
			return errOut(err)
		}
		return outc{k: "bool", b: v}
	case "RU16":
		v, err := x.ReadU16()
		return uOut(uint64(v), err)
	case "RI16":
		v, err := x.ReadI16()
		return iOut(int64(v), err)
	case "RU32":
		v, err := x.ReadU32()
		return uOut(uint64(v), err)
	case "RI32":
		v, err := x.ReadI32()
		return iOut(int64(v), err)
	case "RU64":
		v, err := x.ReadU64()
		return uOut(v, err)
	case "RI64":
		v, err := x.ReadI64()
		return iOut(v, err)
	case "RF64":
		v, err := x.ReadF64()
		return uOut(math.Float64bits(v), err)
	case "RStr":
		v, err := x.ReadString()
		return bytesOut([]byte(v), err)
	case "RLimStr":
		v, err := x.ReadLimitString(o.lim)
		return bytesOut([]byte(v), err)
	case "RRead":
		p := make([]byte, o.i)
		err := x.Read(p)
		return bytesOut(p, err)
	case "RReadN":
		p, err := x.ReadN(int(o.i))
		return bytesOut(p, err)
	case "RZReadN":
		p, err := x.ZReadN(int(o.i))
		return bytesOut(p, err)
	}
	panic("c10: not a ReaderX op " + o.k)
}

// chunkSrc is the fragmenting io.Reader of the model: every Read delivers at most the rest of the first chunk
// (an empty chunk is a (0, nil) read); when eofLast is set the last data comes together with io.EOF.
type chunkSrc struct {
	chunks  [][]byte
	eofLast bool
	calls   int
}

func (s *chunkSrc) Read(p []byte) (int, error) {
	s.calls++
	if len(s.chunks) == 0 {
		return 0, io.EOF
	}
	c := s.chunks[0]
	k := len(c)
	if len(p) < k {
		k = len(p)
	}
	copy(p, c[:k])
	if k == len(c) {
		s.chunks = s.chunks[1:]
		if len(s.chunks) == 0 && s.eofLast {
			return k, io.EOF
		}
		return k, nil
	}
	s.chunks[0] = c[k:]
	return k, nil
}
func (s *chunkSrc) rest() []byte {
	var r []byte
	for _, c := range s.chunks {
		r = append(r, c...)
	}
	return r
}

func coqOps(ops []op) string {
	s := make([]string, len(ops))
	for i, o := range ops {
		s[i] = o.coq()
	}
	return vh.CoqList(s)
}
func coqOuts(os []outc) string {
	s := make([]string, len(os))
	for i, o := range os {
		s[i] = o.coq()
	}
	return vh.CoqList(s)
}
func coqChunks(cs [][]byte) string {
	s := make([]string, len(cs))
	for i, c := range cs {
		s[i] = vh.CoqBytes(c)
	}
	return vh.CoqList(s)
}
func descOps(ops []op) []string {
	s := make([]string, len(ops))
	for i, o := range ops {
		s[i] = strings.ReplaceAll(o.coq(), "%Z", "")
	}
	return s
}
func descOuts(os []outc) []string {
	s := make([]string, len(os))
	for i, o := range os {
		s[i] = strings.ReplaceAll(o.coq(), "%Z", "")
	}
	return s
}
