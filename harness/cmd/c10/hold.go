package main

import (
	"fmt"
	"math/rand"

	"github.com/pinealctx/neptune/bytex"
	"verifharness/vh"
)

// doBufHold performs one call like doBuf, but the caller KEEPS what the call returned, uncopied: the Go string of
// ReadString / ReadLimitString and the slice of ReadN.  again() renders the kept value once more, later.
// (ZReadN is documented "no copy" and Bytes() hands out the buffer itself: aliasing is their contract, so their
// results are snapshotted like everything else and are not part of the comparison.)
func doBufHold(b *bytex.BufferX, o op) (out outc, again func() outc, held bool) {
	defer func() {
		if r := recover(); r != nil {
			out = outc{k: "panic"}
			again = func() outc { return out }
		}
	}()
	switch o.k {
	case "RStr", "RLimStr":
		var v string
		var err error
		if o.k == "RStr" {
			v, err = b.ReadString()
		} else {
			v, err = b.ReadLimitString(o.lim)
		}
		out = bytesOut([]byte(v), err)
		if err == nil {
			return out, func() outc { return bytesOut([]byte(v), nil) }, true
		}
	case "RReadN":
		p, err := b.ReadN(int(o.i))
		out = bytesOut(p, err)
		if err == nil {
			return out, func() outc { return bytesOut(p, nil) }, true
		}
	default:
		out = doBuf(b, o)
	}
	snap := out
	return out, func() outc { return snap }, false
}

// genHold: the codec loop of a caller that keeps decoded values: messages are written and read back on the same
// buffer (a small sized one that rewinds when drained, one that is Reset between messages, or one that reads the
// caller's own receive slice which the caller refills afterwards); at the end every kept value is looked at again.
func genHold(r *rand.Rand, e *vh.Env) []vh.Case {
	L := 1 + r.Intn(8) // all strings of one case have the same length: a later message lands exactly on an earlier one
	msg := func() (ws, rs []op) {
		for k := 0; k < 1+r.Intn(3); k++ {
			switch r.Intn(6) {
			case 0:
				ws = append(ws, op{k: "WU32", u: pickU(r, 32)})
				rs = append(rs, op{k: "RU32"})
			case 1:
				s := pickBytes(r, L)
				ws = append(ws, op{k: "WLimStr", lim: uint32(L + r.Intn(2)), s: s})
				rs = append(rs, op{k: "RLimStr", lim: uint32(L + 1)})
			case 2:
				s := pickBytes(r, L)
				ws = append(ws, op{k: "WRaw", s: s})
				rs = append(rs, op{k: []string{"RReadN", "RReadN", "RZReadN"}[r.Intn(3)], i: int64(L)})
			default:
				ws = append(ws, op{k: "WStr", s: pickBytes(r, L)})
				rs = append(rs, op{k: "RStr"})
			}
		}
		return
	}
	var init, callerBuf []byte
	var b *bytex.BufferX
	class := ""
	var pending []op // reads of the messages that are already in the caller's slice
	switch r.Intn(3) {
	case 0:
		class = "hold/sized-buffer"
		b = bytex.NewSizedBufferX(r.Intn(14))
	case 1:
		class = "hold/reset-and-reuse"
		b = bytex.NewBufferX()
	default:
		class = "hold/caller-slice"
		tmp := bytex.NewBufferX()
		for k := 0; k < 1+r.Intn(3); k++ {
			ws, rs := msg()
			for _, w := range ws {
				doBuf(tmp, w)
			}
			pending = append(pending, rs...)
		}
		init = cp(tmp.Bytes())
		callerBuf = cp(init)
		b = bytex.NewReadableBufferX(callerBuf)
	}
	var ops []op
	var obs []outc
	var agains []func() outc
	nheld := 0
	maxLen := b.Len()
	do := func(o op) {
		out, again, held := doBufHold(b, o)
		ops = append(ops, o)
		obs = append(obs, out)
		agains = append(agains, again)
		if held {
			nheld++
		}
		if b.Len() > maxLen {
			maxLen = b.Len()
		}
	}
	for _, rd := range pending {
		do(rd)
	}
	for m := 0; m < 2+r.Intn(4); m++ {
		if class == "hold/reset-and-reuse" || r.Intn(3) == 0 {
			do(op{k: "XReset"})
		}
		ws, rs := msg()
		for _, w := range ws {
			do(w)
		}
		for _, rd := range rs {
			do(rd)
		}
	}
	// the buffer is used once more for something else
	do(op{k: "XReset"})
	fill := make([]byte, maxLen)
	for i := range fill {
		fill[i] = 0xEE
	}
	do(op{k: "WRaw", s: fill})
	final := cp(b.Bytes())
	// ... and the caller refills its own receive slice
	for i := range callerBuf {
		callerBuf[i] = 0xDD
	}
	now := make([]outc, len(agains))
	for i, f := range agains {
		now[i] = f()
	}
	return []vh.Case{{
		Coq:        fmt.Sprintf("(CHold %s %s %s %s %s)", vh.CoqBytes(init), coqOps(ops), coqOuts(obs), vh.CoqBytes(final), coqOuts(now)),
		Class:      class,
		Nontrivial: nheld > 0,
		Desc: map[string]interface{}{"kind": "hold-results", "init": ints(init), "ops": descOps(ops), "obs": descOuts(obs),
			"kept_values_looked_at_again": descOuts(now), "final": ints(final)},
	}}
}
