package main

import (
	"encoding/binary"
	"math/rand"
	"runtime"
	"sync"
	"sync/atomic"

	"verifharness/vh"
)

// "private instances in parallel": parN goroutines, released together by a spin barrier, each with its OWN bytes, its own
// BufferX and its own ReaderX over its own source (nothing is shared by the caller), decode their streams again and
// again.  Every observation of every goroutine is one CLarge case that Coq judges against the model's decode of that
// goroutine's own bytes - which is what must come out under every schedule, because the instances share nothing by
// contract.  To keep the volume small only the first observation of a goroutine and the observations that differ from
// it are emitted (the comparison in Go selects, it does not judge).
const parN = 8

func parProgram(r *rand.Rand, g int) (segs []seg, data []byte, ops []op) {
	lit := func(b []byte) {
		if len(segs) > 0 && segs[len(segs)-1].lit != nil {
			segs[len(segs)-1].lit = append(segs[len(segs)-1].lit, b...)
		} else {
			segs = append(segs, seg{lit: cp(b)})
		}
		data = append(data, b...)
	}
	small := func() {
		b := newBuf(r)
		w := genWrite(r, []string{"WU8", "WBool", "WU16", "WI16", "WU32", "WI32", "WU64", "WI64", "WF64"}, true)
		doBuf(b, w)
		lit(b.Bytes())
		ops = append(ops, readerOf(r, w, true))
	}
	total := 0
	for k := 0; k < 3+r.Intn(4); k++ {
		small()
		// lengths spread from a few bytes to tens of KiB: the wider the copy, the wider any window on shared scratch
		n := []int{1 + r.Intn(40), 200 + r.Intn(3000), 8000 + r.Intn(12000), 20000 + r.Intn(25000)}[r.Intn(4)]
		if total+n > 70000 {
			n = 1 + r.Intn(300)
		}
		total += n
		read := []string{"RStr", "RStr", "RLimStr", "RLimStr", "RReadN", "RZReadN", "RRead"}[r.Intn(7)]
		switch read {
		case "RStr", "RLimStr":
			var pre [4]byte
			binary.LittleEndian.PutUint32(pre[:], uint32(n))
			lit(pre[:])
			if read == "RStr" {
				ops = append(ops, op{k: "RStr"})
			} else {
				ops = append(ops, op{k: "RLimStr", lim: uint32(n + r.Intn(2))})
			}
		default:
			ops = append(ops, op{k: read, i: int64(n)})
		}
		// recognisable per goroutine: start value and step depend on g
		s := seg{n: n, x: (g*31 + k*7) % 256, step: 1 + 2*((g*13+k)%100)}
		segs = append(segs, s)
		data = append(data, genBytes(s.n, s.x, s.step)...)
	}
	small()
	return
}

func genParallel(r *rand.Rand, e *vh.Env) []vh.Case {
	iters := 120
	if e.Thorough || e.Search {
		iters = 400
	}
	type worker struct {
		rnd   *rand.Rand
		segs  []seg
		data  []byte
		ops   []op
		wrap  string
		chunk int
		eofl  bool
		out   []vh.Case
	}
	ws := make([]*worker, parN)
	for g := range ws {
		w := &worker{rnd: rand.New(rand.NewSource(r.Int63()))}
		w.segs, w.data, w.ops = parProgram(w.rnd, g)
		w.wrap = []string{"chunkSrc", "chunkSrc", "bufio4096", "bytes.Reader", "iotest.HalfReader"}[w.rnd.Intn(5)]
		w.chunk = []int{0, 4096, 65536, 30011}[w.rnd.Intn(4)]
		w.eofl = w.rnd.Intn(2) == 0
		ws[g] = w
	}
	var arrived int32
	var wg sync.WaitGroup
	for g, w := range ws {
		wg.Add(1)
		go func(g int, w *worker) {
			defer wg.Done()
			// spin barrier: all goroutines start decoding at the same moment
			atomic.AddInt32(&arrived, 1)
			for atomic.LoadInt32(&arrived) < parN {
				runtime.Gosched()
			}
			first := ""
			for it := 0; it < iters; it++ {
				ops := append([]op{}, w.ops...)
				c := runLarge(w.rnd, w.segs, w.data, ops, w.wrap, w.chunk, w.eofl, "parallel")
				if it == 0 {
					first = c.Coq
					w.out = append(w.out, c)
				} else if c.Coq != first && len(w.out) < 4 {
					c.Class = "parallel-differs/" + w.wrap
					w.out = append(w.out, c)
				}
			}
		}(g, w)
	}
	wg.Wait()
	var cases []vh.Case
	for g, w := range ws {
		for _, c := range w.out {
			if d, ok := c.Desc.(map[string]interface{}); ok {
				d["kind"] = "private-instances-in-parallel"
				d["goroutine"] = g
				d["goroutines"] = parN
				d["iterations"] = iters
			}
			cases = append(cases, c)
		}
	}
	return cases
}
