package main

import (
	"encoding/binary"
	"fmt"
	"io"
	"math/rand"
	"strings"

	"github.com/pinealctx/neptune/bytex"
	"verifharness/vh"
)

// Large values (64 KiB and more).  No large literal goes into a case term: the source bytes are segments, the big ones
// expanded from the byte generator that C10_Large.v defines too (gen_bytes), and every observed byte string is printed as
// its digest (length, first / last eight bytes, sum of the bytes, sum of the prefix sums), which Coq computes on the
// model's result.

// genBytes is gen_bytes of C10_Large.v: byte i = (x_i + c_i) mod 256, x advances by step, c by one every 251 bytes.
func genBytes(n, x, step int) []byte {
	out := make([]byte, n)
	x, step = x%256, step%256
	c, k := 0, 250
	for i := range out {
		out[i] = byte((x + c) % 256)
		x = (x + step) % 256
		if k == 0 {
			c = (c + 1) % 256
			k = 250
		} else {
			k--
		}
	}
	return out
}

type seg struct {
	lit        []byte
	n, x, step int // generated when lit == nil
}

func coqSegs(ss []seg) string {
	out := make([]string, len(ss))
	for i, s := range ss {
		if s.lit != nil {
			out[i] = "(SLit " + vh.CoqBytes(s.lit) + ")"
		} else {
			out[i] = fmt.Sprintf("(SGen %d%%Z %d%%Z %d%%Z)", s.n, s.x, s.step)
		}
	}
	return vh.CoqList(out)
}
func descSegs(ss []seg) []string {
	out := make([]string, len(ss))
	for i, s := range ss {
		if s.lit != nil {
			out[i] = fmt.Sprintf("lit %v", ints(s.lit))
		} else {
			out[i] = fmt.Sprintf("gen_bytes n=%d x=%d step=%d", s.n, s.x, s.step)
		}
	}
	return out
}

// digest form of an outcome (constructor of `dout`)
func (o outc) dcoq() string {
	if o.k != "bytes" {
		return "(DOut " + o.coq() + ")"
	}
	l := o.bs
	head := l
	if len(head) > 8 {
		head = head[:8]
	}
	tail := l
	if len(tail) > 8 {
		tail = tail[len(tail)-8:]
	}
	var s1, s2 uint64
	for _, b := range l {
		s1 += uint64(b)
		s2 += s1
	}
	return fmt.Sprintf("(DBytes %d%%Z %s %s %d%%Z %d%%Z)", len(l), vh.CoqBytes(head), vh.CoqBytes(tail), s1, s2)
}
func coqDouts(os []outc) string {
	s := make([]string, len(os))
	for i, o := range os {
		s[i] = o.dcoq()
	}
	return vh.CoqList(s)
}
func descDouts(os []outc) []string {
	s := make([]string, len(os))
	for i, o := range os {
		s[i] = strings.ReplaceAll(o.dcoq(), "%Z", "")
	}
	return s
}

const largeCap = 4 << 20

var largeLens = []int{65535, 65536, 65537, 131071, 131072, 131073, 131072, 196608, 262144, 196608, 262144}

// one large value: how it is written (kind) and read (op)
type largeItem struct {
	n    int
	read string // RStr RLimStr RReadN RZReadN RRead
	lim  int    // for RLimStr: n, n+1 or n-1
}

func largeProgram(r *rand.Rand, items []largeItem) (segs []seg, data []byte, ops []op) {
	lit := func(b []byte) {
		if len(segs) > 0 && segs[len(segs)-1].lit != nil {
			segs[len(segs)-1].lit = append(segs[len(segs)-1].lit, b...)
		} else {
			segs = append(segs, seg{lit: cp(b)})
		}
		data = append(data, b...)
	}
	small := func() {
		b := bytex.NewBufferX()
		w := genWrite(r, []string{"WU8", "WU16", "WU32", "WI64", "WBool"}, true)
		doBuf(b, w)
		lit(b.Bytes())
		ops = append(ops, readerOf(r, w, true))
	}
	for _, it := range items {
		if r.Intn(2) == 0 {
			small()
		}
		switch it.read {
		case "RStr", "RLimStr":
			var pre [4]byte
			binary.LittleEndian.PutUint32(pre[:], uint32(it.n))
			lit(pre[:])
			if it.read == "RStr" {
				ops = append(ops, op{k: "RStr"})
			} else {
				ops = append(ops, op{k: "RLimStr", lim: uint32(it.lim)})
			}
		default:
			ops = append(ops, op{k: it.read, i: int64(it.n)})
		}
		s := seg{n: it.n, x: r.Intn(256), step: 1 + 2*r.Intn(100)}
		segs = append(segs, s)
		data = append(data, genBytes(s.n, s.x, s.step)...)
		small()
	}
	return
}

func runLarge(r *rand.Rand, segs []seg, data []byte, ops []op, wrap string, chunk int, eofLast bool, class string) vh.Case {
	bb := bytex.NewReadableBufferX(cp(data))
	obsB := make([]outc, 0, len(ops))
	for i := range ops {
		// after a refused or failed read the next string read may find payload bytes where a length should be: a hostile
		// announced length is not passed to the stream reader's ReadString (it allocates it); both sides read a u32 instead
		if ops[i].k == "RStr" || ops[i].k == "RLimStr" {
			if rest := bb.Bytes(); len(rest) >= 4 {
				n := binary.LittleEndian.Uint32(rest[:4])
				if n > largeCap && (ops[i].k == "RStr" || n <= ops[i].lim) {
					ops[i] = op{k: "RU32"}
				}
			}
		}
		obsB = append(obsB, doBuf(bb, ops[i]))
	}
	restB := outc{k: "bytes", bs: cp(bb.Bytes())}
	// chunk sizes: chunk > 0 = equal chunks, chunk < 0 = random sizes, 0 = everything at once
	var sizes []int
	var cs [][]byte
	for i := 0; i < len(data) && chunk != 0; {
		k := chunk
		if chunk < 0 {
			k = 20000 + r.Intn(70000)
		}
		if i+k > len(data) {
			k = len(data) - i
		}
		sizes = append(sizes, k)
		cs = append(cs, data[i:i+k])
		i += k
	}
	if chunk == 0 {
		cs = oneChunk(data)
	}
	top, remaining, mcs, meof := wrapSource(r, wrap, data, cs, eofLast)
	if len(mcs) != len(cs) { // the wrapper reads the whole slice itself (bytes.Reader, strings.Reader)
		sizes = nil
	}
	rx := bytex.NewReaderX(top)
	obsR := make([]outc, 0, len(ops))
	for _, o := range ops {
		// an implementation that has already diverged may stand in front of a hostile length: refuse that call
		if o.k == "RStr" || o.k == "RLimStr" {
			if rem := remaining(); rem >= 4 && rem <= len(data) {
				n := binary.LittleEndian.Uint32(data[len(data)-rem:][:4])
				if n > largeCap && (o.k == "RStr" || n <= o.lim) {
					obsR = append(obsR, outc{k: "err", e: "EOther"})
					continue
				}
			}
		}
		obsR = append(obsR, doRx(rx, o))
	}
	rest, _ := io.ReadAll(top)
	restR := outc{k: "bytes", bs: rest}
	zs := make([]string, len(sizes))
	for i, k := range sizes {
		zs[i] = fmt.Sprintf("%d%%Z", k)
	}
	return vh.Case{
		Coq: fmt.Sprintf("(CLarge %s %s %s %s %s %s %s %s)", coqSegs(segs), vh.CoqList(zs), vh.CoqBool(meof), coqOps(ops),
			coqDouts(obsR), restR.dcoq(), coqDouts(obsB), restB.dcoq()),
		Class:      class + "/" + wrap,
		Nontrivial: true,
		Desc: map[string]interface{}{"kind": "large-values", "source": wrap, "segments": descSegs(segs), "chunk_sizes": sizes,
			"eof_with_last_data": meof, "ops": descOps(ops), "readerx": descDouts(obsR), "readerx_rest": descDouts([]outc{restR})[0],
			"bufferx": descDouts(obsB), "bufferx_rest": descDouts([]outc{restB})[0]},
	}
}

var largeWraps = []string{"chunkSrc", "chunkSrc", "bufio4096", "bufio64", "bytes.Reader", "iotest.HalfReader", "io.LimitedReader", "dataErrReader"}
var largeReads = []string{"RStr", "RStr", "RLimStr", "RReadN", "RZReadN", "RRead"}

func genLarge(r *rand.Rand, e *vh.Env) []vh.Case {
	n := largeLens[r.Intn(len(largeLens))]
	if (e.Thorough || e.Search) && r.Intn(12) == 0 {
		n = 1 << 20
	}
	it := largeItem{n: n, read: largeReads[r.Intn(len(largeReads))]}
	it.lim = n + []int{0, 0, 1, -1}[r.Intn(4)]
	items := []largeItem{it}
	if n <= 131073 && r.Intn(3) == 0 { // a second value behind the first one
		m := largeLens[r.Intn(6)]
		items = append(items, largeItem{n: m, read: largeReads[r.Intn(len(largeReads))], lim: m})
	}
	segs, data, ops := largeProgram(r, items)
	chunk := []int{0, 65536, 4096, -1, -1, 70001}[r.Intn(6)]
	if len(data) > 300000 && chunk > 0 && chunk < 32768 {
		chunk = 65536
	}
	if r.Intn(8) == 0 && len(data) > 10 { // truncated somewhere inside
		cut := r.Intn(len(data))
		segs, data = truncSegs(segs, cut), data[:cut]
	}
	return []vh.Case{runLarge(r, segs, data, ops, largeWraps[r.Intn(len(largeWraps))], chunk, r.Intn(2) == 0, "large/"+it.read)}
}

func truncSegs(ss []seg, cut int) []seg {
	var out []seg
	for _, s := range ss {
		l := s.n
		if s.lit != nil {
			l = len(s.lit)
		}
		if cut <= 0 {
			break
		}
		if l > cut {
			if s.lit != nil {
				s.lit = s.lit[:cut]
			} else {
				s.n = cut
			}
			l = cut
		}
		out = append(out, s)
		cut -= l
	}
	return out
}

// fixed cases: exact multiples of 64 KiB through every reader of byte strings
func largeCorpus() []vh.Case {
	r := rand.New(rand.NewSource(20))
	var cases []vh.Case
	for _, fx := range []struct {
		it    largeItem
		wrap  string
		chunk int
	}{
		{largeItem{n: 131072, read: "RStr"}, "chunkSrc", 4096},
		{largeItem{n: 196608, read: "RReadN"}, "bufio4096", 65536},
		{largeItem{n: 262144, read: "RZReadN"}, "iotest.HalfReader", 70001},
		{largeItem{n: 131072, read: "RLimStr", lim: 131072}, "bytes.Reader", 0},
		{largeItem{n: 65536, read: "RStr"}, "chunkSrc", -1},
	} {
		segs, data, ops := largeProgram(r, []largeItem{fx.it})
		c := runLarge(r, segs, data, ops, fx.wrap, fx.chunk, false, "corpus/large/"+fx.it.read)
		cases = append(cases, c)
	}
	return cases
}
