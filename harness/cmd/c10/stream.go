package main

import (
	"bufio"
	"bytes"
	"encoding/binary"
	"fmt"
	"io"
	"math/rand"
	"strings"
	"testing/iotest"

	"github.com/pinealctx/neptune/bytex"
	"verifharness/vh"
)

// dataErrReader: like iotest.DataErrReader (the final data comes together with the error), with a visible buffer.
type dataErrReader struct {
	r      io.Reader
	unread []byte
	data   []byte
}

func (r *dataErrReader) Read(p []byte) (n int, err error) {
	// loop because the first call needs two reads: one to get data and a second to look for an error
	for {
		if len(r.unread) == 0 {
			n1, err1 := r.r.Read(r.data)
			r.unread = r.data[0:n1]
			err = err1
		}
		if n > 0 || err != nil {
			break
		}
		n = copy(p, r.unread)
		r.unread = r.unread[n:]
	}
	return
}

// wrapSource: the concrete io.Reader handed to NewReaderX.  The model is the same for all of them (an io.Reader
// delivering these bytes in some fragmentation); remaining() = bytes ReaderX has not consumed yet.
func wrapSource(r *rand.Rand, kind string, data []byte, cs [][]byte, eofLast bool) (top io.Reader, remaining func() int, mcs [][]byte, meof bool) {
	src := &chunkSrc{eofLast: eofLast}
	for _, c := range cs {
		src.chunks = append(src.chunks, cp(c))
	}
	under := func() int { return len(src.rest()) }
	switch kind {
	case "bufio16", "bufio64", "bufio4096":
		size := map[string]int{"bufio16": 16, "bufio64": 64, "bufio4096": 4096}[kind]
		var br *bufio.Reader
		if size == 4096 && r.Intn(2) == 0 {
			br = bufio.NewReader(src)
		} else {
			br = bufio.NewReaderSize(src, size)
		}
		return br, func() int { return br.Buffered() + under() }, cs, eofLast
	case "bytes.Reader":
		rd := bytes.NewReader(cp(data))
		return rd, rd.Len, oneChunk(data), false
	case "strings.Reader":
		rd := strings.NewReader(string(data))
		return rd, rd.Len, oneChunk(data), false
	case "io.LimitedReader":
		return &io.LimitedReader{R: src, N: int64(len(data) + 1 + r.Intn(5))}, under, cs, eofLast
	case "iotest.OneByteReader":
		return iotest.OneByteReader(src), under, cs, eofLast
	case "iotest.HalfReader":
		return iotest.HalfReader(src), under, cs, eofLast
	case "dataErrReader":
		// (like iotest.DataErrReader it expects its own source to report the error after the data)
		src.eofLast = false
		d := &dataErrReader{r: src, data: make([]byte, 1024)}
		return d, func() int { return len(d.unread) + under() }, cs, true
	}
	return src, under, cs, eofLast
}

func oneChunk(data []byte) [][]byte {
	if len(data) == 0 {
		return nil
	}
	return [][]byte{cp(data)}
}

var wrapKinds = []string{"chunkSrc", "chunkSrc", "chunkSrc", "chunkSrc", "bufio16", "bufio16", "bufio64", "bufio4096",
	"bytes.Reader", "strings.Reader", "io.LimitedReader", "iotest.OneByteReader", "iotest.HalfReader", "dataErrReader"}

// lengths around the windows of the buffered readers
var windowLens = []int{15, 16, 17, 15, 16, 17, 63, 64, 65, 63, 64, 65, 31, 33, 4095, 4096, 4097}

func streamProgram(r *rand.Rand) (data []byte, ops []op, kind string, wrap string) {
	wrap = wrapKinds[r.Intn(len(wrapKinds))]
	switch x := r.Intn(12); {
	case x < 6: // a valid stream (possibly truncated) with its own readers
		kind = "typed"
		n := r.Intn(7)
		if r.Intn(8) == 0 {
			n = 8 + r.Intn(12)
		}
		b := bytex.NewBufferX()
		for i := 0; i < n; i++ {
			w := genWrite(r, streamWriteKinds, true)
			if doBuf(b, w).k != "done" {
				continue
			}
			ops = append(ops, readerOf(r, w, false))
		}
		data = cp(b.Bytes())
		if r.Intn(3) == 0 && len(data) > 0 {
			kind = "typed-truncated"
			data = data[:r.Intn(len(data))]
		}
		if r.Intn(3) == 0 {
			ops = append(ops, genRead(r, streamReadKinds)) // one read past the end
		}
	case x < 8: // strings against the limit and the available bytes
		kind = "string"
		n := []uint32{0, 0, 1, 2, 5, 9, 300, 65536, 1 << 31, ^uint32(0)}[r.Intn(10)]
		var pre [4]byte
		binary.LittleEndian.PutUint32(pre[:], n)
		data = append(data, pre[:[]int{4, 4, 4, 4, 3, 1, 0}[r.Intn(7)]]...)
		if len(data) == 4 && n <= 300 {
			avail := int(n) + r.Intn(3) - 1
			if avail < 0 {
				avail = 0
			}
			data = append(data, pickBytes(r, avail)...)
		}
		if r.Intn(2) == 0 {
			ops = append(ops, op{k: "RStr"})
		} else {
			ops = append(ops, op{k: "RLimStr", lim: n + uint32(r.Intn(3)) - 1})
		}
		ops = append(ops, genRead(r, streamReadKinds))
	case x < 10: // strings and byte counts around the windows of buffered sources, between other fields
		kind = "window"
		wrap = []string{"bufio16", "bufio16", "bufio64", "bufio64", "bufio4096", "chunkSrc", "dataErrReader", "iotest.HalfReader"}[r.Intn(8)]
		b := bytex.NewBufferX()
		for i := 0; i < 1+r.Intn(3); i++ {
			if r.Intn(2) == 0 {
				w := genWrite(r, []string{"WU8", "WU32", "WBool", "WI64"}, true)
				doBuf(b, w)
				ops = append(ops, readerOf(r, w, false))
			}
			l := windowLens[r.Intn(len(windowLens))]
			if wrap == "bufio4096" && r.Intn(2) == 0 {
				l = 4095 + r.Intn(3)
			}
			if l > 4000 && len(data) > 0 {
				l = 17 // at most one long value per case
			}
			payload := pickBytes(r, l)
			if l > 4000 {
				for j := range payload { // keep the case term small
					payload[j] = byte(j % 7)
				}
			}
			var w op
			switch r.Intn(3) {
			case 0:
				w = op{k: "WStr", s: payload}
			case 1:
				w = op{k: "WLimStr", lim: uint32(l + r.Intn(2)), s: payload}
			default:
				w = op{k: "WRaw", s: payload}
			}
			doBuf(b, w)
			rd := readerOf(r, w, false)
			if w.k == "WRaw" && r.Intn(2) == 0 {
				rd = op{k: "RZReadN", i: int64(l)}
			}
			ops = append(ops, rd)
			data = cp(b.Bytes())
		}
		data = cp(b.Bytes())
		if r.Intn(4) == 0 {
			ops = append(ops, op{k: "RU8"})
		}
	default:
		kind = "random"
		data = pickBytes(r, r.Intn(30))
		for k := 0; k < 1+r.Intn(6); k++ {
			ops = append(ops, genRead(r, streamReadKinds))
		}
	}
	return
}

func bigChunks(r *rand.Rand, data []byte) ([][]byte, string) {
	if r.Intn(3) == 0 {
		return [][]byte{cp(data)}, "all-at-once"
	}
	var cs [][]byte
	for i := 0; i < len(data); {
		k := 200 + r.Intn(1300)
		if i+k > len(data) {
			k = len(data) - i
		}
		cs = append(cs, cp(data[i:i+k]))
		i += k
	}
	return cs, "random"
}

func genStream(r *rand.Rand, e *vh.Env) []vh.Case {
	data, ops, kind, wrap := streamProgram(r)
	return []vh.Case{runStream(r, data, ops, kind, wrap, r.Intn(2) == 0)}
}

func runStream(r *rand.Rand, data []byte, ops []op, kind, wrap string, eofLast bool) vh.Case {
	// buffer reader first; it also tells where a hostile announced length would make the stream reader allocate
	bb := bytex.NewReadableBufferX(cp(data))
	obsB := make([]outc, 0, len(ops))
	for i := range ops {
		if ops[i].k == "RStr" || ops[i].k == "RLimStr" {
			if rest := bb.Bytes(); len(rest) >= 4 {
				n := binary.LittleEndian.Uint32(rest[:4])
				if n > prefixCap && (ops[i].k == "RStr" || n <= ops[i].lim) {
					ops[i] = op{k: "RU32"}
				}
			}
		}
		obsB = append(obsB, doBuf(bb, ops[i]))
	}
	restB := cp(bb.Bytes())
	var cs [][]byte
	var cname string
	if len(data) > 1000 {
		cs, cname = bigChunks(r, data)
	} else {
		cs, cname = chunkings(r, data)
	}
	top, remaining, mcs, meof := wrapSource(r, wrap, data, cs, eofLast)
	rx := bytex.NewReaderX(top)
	obsR := make([]outc, 0, len(ops))
	for _, o := range ops {
		// the guard above assumed that the stream reader is where the buffer reader was; an implementation that has
		// already diverged may stand elsewhere, in front of a hostile length: refuse that call (EOther is an outcome
		// the model never produces, so such a case can only be judged as a divergence)
		if o.k == "RStr" || o.k == "RLimStr" {
			if rem := remaining(); rem >= 4 && rem <= len(data) {
				n := binary.LittleEndian.Uint32(data[len(data)-rem:][:4])
				if n > prefixCap && (o.k == "RStr" || n <= o.lim) {
					obsR = append(obsR, outc{k: "err", e: "EOther"})
					continue
				}
			}
		}
		obsR = append(obsR, doRx(rx, o))
	}
	restR, _ := io.ReadAll(top)
	return vh.Case{
		Coq: fmt.Sprintf("(CStream %s %s %s %s %s %s %s)", coqChunks(mcs), vh.CoqBool(meof), coqOps(ops),
			coqOuts(obsR), vh.CoqBytes(restR), coqOuts(obsB), vh.CoqBytes(restB)),
		Class:      "stream/" + kind + "/" + wrap,
		Nontrivial: len(data) > 0 && len(ops) > 0,
		Desc: map[string]interface{}{"kind": "stream", "source": wrap, "chunking": cname, "chunks": intss(mcs), "eof_with_last_data": meof,
			"ops": descOps(ops), "readerx": descOuts(obsR), "readerx_rest": ints(restR), "bufferx": descOuts(obsB), "bufferx_rest": ints(restB)},
	}
}
