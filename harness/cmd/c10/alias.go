package main

import (
	"fmt"

	"github.com/pinealctx/neptune/bytex"
	"verifharness/vh"
)

// Class rewrite-alias (round 8): ReWrite whose argument is a slice of the buffer's OWN bytes (b.Bytes()[from:from+m]),
// e.g. shifting a body in place to make room for a length header. The case is an ordinary CReWrite: the payload
// recorded in the case term is a copy of the argument taken BEFORE the call ("the bytes passed in"), the call itself
// gets the aliasing slice. The model (rewrite_at = copy semantics of the values passed) is unchanged.
//
// The members are a fixed enumeration, independent of the seed; member number k is replayed by "alias:k".

type aliasMember struct {
	n, skip      int // n unread bytes, after `skip` consumed ones (Bytes() then starts inside the array)
	from, m, pos int // argument = Bytes()[from:from+m], destination position pos
}

func aliasMembers() []aliasMember {
	var ms []aliasMember
	full := func(n, skip int) {
		for from := 0; from <= n; from++ {
			for m := 0; from+m <= n; m++ {
				for pos := 0; pos <= n; pos++ {
					ms = append(ms, aliasMember{n, skip, from, m, pos})
				}
			}
		}
	}
	full(4, 0)
	full(6, 2)
	// the header idiom: body of n-4 bytes moved right by 4, and moved back
	for _, n := range []int{8, 20, 36, 68, 260} {
		ms = append(ms, aliasMember{n, 0, 0, n - 4, 4}, aliasMember{n, 0, 4, n - 4, 0}, aliasMember{n, 3, 0, n - 4, 4})
	}
	// other distances, argument reaching past the end of the destination (clamped), out-of-range positions
	for _, d := range []int{1, 2, 7, 8, 9, 31, 32, 33} {
		ms = append(ms,
			aliasMember{64, 0, 0, 64 - d, d}, aliasMember{64, 0, d, 64 - d, 0},
			aliasMember{64, 1, 0, 64, d}, aliasMember{64, 0, 5, 40, 5 + d})
	}
	ms = append(ms, aliasMember{8, 0, 0, 8, 9}, aliasMember{8, 0, 2, 4, -1}, aliasMember{8, 2, 0, 8, 8}, aliasMember{0, 0, 0, 0, 0})
	return ms
}

func aliasCase(k int) []vh.Case {
	ms := aliasMembers()
	if k < 0 || k >= len(ms) {
		return nil
	}
	a := ms[k]
	b := bytex.NewBufferX()
	raw := make([]byte, a.skip+a.n)
	for i := range raw {
		raw[i] = byte(1 + (i*7+k)%251) // neighbours differ, no zero bytes
	}
	b.Write(raw)
	if a.skip > 0 {
		_ = b.Read(make([]byte, a.skip))
	}
	b0 := cp(b.Bytes())
	arg := b.Bytes()[a.from : a.from+a.m] // shares memory with the buffer
	o := op{k: "XReWrite", i: int64(a.pos), s: cp(arg)}
	out := func() (out outc) {
		defer func() {
			if r := recover(); r != nil {
				out = outc{k: "panic"}
			}
		}()
		b.ReWrite(a.pos, arg)
		return outc{k: "done"}
	}()
	b1 := cp(b.Bytes())
	d := descOps([]op{o})[0]
	return []vh.Case{{
		Coq:        fmt.Sprintf("(CReWrite %s %s %s %s)", vh.CoqBytes(b0), o.coq(), out.coq(), vh.CoqBytes(b1)),
		Class:      "rewrite-alias/XReWrite",
		Nontrivial: true,
		Replay:     fmt.Sprintf("alias:%d", k),
		Desc: map[string]interface{}{"kind": "rewrite-alias", "before": ints(b0), "op": d,
			"argument": fmt.Sprintf("b.Bytes()[%d:%d] (shares memory with the buffer; op shows its content at the call)", a.from, a.from+a.m),
			"outcome":  descOuts([]outc{out})[0], "after": ints(b1)},
	}}
}
