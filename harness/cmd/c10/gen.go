package main

import (
	"encoding/binary"
	"fmt"
	"math/rand"

	"github.com/pinealctx/neptune/bytex"
	"verifharness/vh"
)

// a ReaderX string read allocates the announced length before reading: announced lengths above this are not
// passed to ReadString of the stream reader (the harness additionally runs under ulimit -v)
const prefixCap = 8192

// ---------------------------------------------------------------- values biased to the boundaries the code branches on

func pickU(r *rand.Rand, bits uint) uint64 {
	max := uint64(1)<<bits - 1
	if bits == 64 {
		max = ^uint64(0)
	}
	switch r.Intn(10) {
	case 0:
		return 0
	case 1:
		return max
	case 2:
		return max - uint64(r.Intn(3))
	case 3:
		return (max >> 1) + uint64(r.Intn(3)) // around the sign bit
	case 4:
		// 7-bit group boundaries of the varint
		k := uint(1 + r.Intn(10))
		v := uint64(1) << ((7 * k) % 64)
		return (v - uint64(r.Intn(2))) & max
	case 5:
		// byte boundaries
		k := uint(1 + r.Intn(8))
		v := uint64(1) << ((8 * k) % 64)
		return (v - uint64(r.Intn(2))) & max
	case 6:
		return uint64(r.Intn(300)) & max
	}
	return r.Uint64() & max
}

func pickI(r *rand.Rand, bits uint) int64 {
	min := -(int64(1) << (bits - 1))
	max := int64(1)<<(bits-1) - 1
	switch r.Intn(10) {
	case 0:
		return min
	case 1:
		return max
	case 2:
		return -1
	case 3:
		return 0
	case 4:
		// zig-zag group boundaries: -64 / 63 | -65 / 64, -8192 / 8191 ...
		k := uint(1 + r.Intn(9))
		v := int64(1) << ((7*k - 1) % 63)
		c := []int64{v - 1, v, -v, -v - 1}[r.Intn(4)]
		if c < min || c > max {
			return min + 1
		}
		return c
	case 5:
		return min + int64(r.Intn(3))
	case 6:
		return max - int64(r.Intn(3))
	case 7:
		return int64(r.Intn(300)) - 150
	}
	u := r.Uint64()
	return int64(u) >> (64 - bits)
}

func pickF64(r *rand.Rand) uint64 {
	switch r.Intn(8) {
	case 0:
		return 0x7ff8000000000001 // quiet NaN with payload
	case 1:
		return 0x7ff0000000000001 + uint64(r.Int63n(1<<51)) // signalling NaN payloads
	case 2:
		return 0xfff8000000000000 | uint64(r.Int63n(1<<51)) // negative NaNs
	case 3:
		return 0x8000000000000000 // -0
	case 4:
		return 0x7ff0000000000000 // +Inf
	case 5:
		return uint64(r.Intn(4)) // denormals
	}
	return r.Uint64()
}

func pickBytes(r *rand.Rand, n int) []byte {
	p := make([]byte, n)
	mode := r.Intn(4)
	for i := range p {
		switch mode {
		case 0:
			p[i] = byte(r.Intn(256))
		case 1:
			p[i] = byte(0x80 + r.Intn(128)) // varint continuation bytes
		case 2:
			p[i] = byte(r.Intn(4))
		default:
			p[i] = []byte{0, 1, 0x7f, 0x80, 0xff, byte(r.Intn(256))}[r.Intn(6)]
		}
	}
	return p
}

func pickLen(r *rand.Rand) int {
	switch r.Intn(12) {
	case 0, 1, 2:
		return 0
	case 3, 4:
		return 1
	case 5:
		return 4
	case 6:
		return 20 + r.Intn(20)
	}
	return 2 + r.Intn(7)
}

var writeKinds = []string{"WU8", "WBool", "WU16", "WI16", "WU32", "WI32", "WU64", "WI64", "WF64",
	"WVarU64", "WVarI64", "WVarU32", "WVarI32", "WStr", "WLimStr", "WRaw"}
var streamWriteKinds = []string{"WU8", "WBool", "WU16", "WI16", "WU32", "WI32", "WU64", "WI64", "WF64", "WStr", "WLimStr", "WRaw"}
var readKinds = []string{"RU8", "RBool", "RU16", "RI16", "RU32", "RI32", "RU64", "RI64", "RF64",
	"RVarU64", "RVarI64", "RVarU32", "RVarI32", "RStr", "RLimStr", "RRead", "RReadN", "RZReadN"}
var streamReadKinds = []string{"RU8", "RBool", "RU16", "RI16", "RU32", "RI32", "RU64", "RI64", "RF64",
	"RStr", "RLimStr", "RRead", "RReadN", "RZReadN"}

// a typed write; fit = the limit of a limited string admits the string
func genWrite(r *rand.Rand, kinds []string, fit bool) op {
	k := kinds[r.Intn(len(kinds))]
	o := op{k: k}
	switch k {
	case "WU8":
		o.u = pickU(r, 8)
	case "WBool":
		o.b = r.Intn(2) == 0
	case "WU16":
		o.u = pickU(r, 16)
	case "WI16":
		o.i = pickI(r, 16)
	case "WU32", "WVarU32":
		o.u = pickU(r, 32)
	case "WI32", "WVarI32":
		o.i = pickI(r, 32)
	case "WU64", "WVarU64":
		o.u = pickU(r, 64)
	case "WI64", "WVarI64":
		o.i = pickI(r, 64)
	case "WF64":
		o.u = pickF64(r)
	case "WStr", "WRaw":
		o.s = pickBytes(r, pickLen(r))
	case "WLimStr":
		o.s = pickBytes(r, pickLen(r))
		n := uint32(len(o.s))
		switch r.Intn(5) {
		case 0:
			o.lim = n // exactly at the limit
		case 1:
			o.lim = n + 1
		case 2:
			o.lim = ^uint32(0)
		case 3:
			o.lim = n + uint32(r.Intn(50))
		default:
			if fit || n == 0 {
				o.lim = n
			} else {
				o.lim = n - 1 // over the limit: the write is refused
			}
		}
	}
	return o
}

func readerOf(r *rand.Rand, w op, canonical bool) op {
	switch w.k {
	case "WStr":
		return op{k: "RStr"}
	case "WLimStr":
		return op{k: "RLimStr", lim: w.lim}
	case "WRaw":
		if !canonical && len(w.s) > 0 {
			return op{k: []string{"RRead", "RReadN", "RZReadN"}[r.Intn(3)], i: int64(len(w.s))}
		}
		return op{k: "RRead", i: int64(len(w.s))}
	}
	return op{k: "R" + w.k[1:]}
}

func genRead(r *rand.Rand, kinds []string) op {
	k := kinds[r.Intn(len(kinds))]
	o := op{k: k}
	switch k {
	case "RLimStr":
		o.lim = []uint32{0, 1, 2, 3, 4, 5, 8, 255, 256, ^uint32(0)}[r.Intn(10)]
	case "RRead":
		o.i = int64([]int{0, 0, 1, 2, 3, 5, 9, 17}[r.Intn(8)])
	case "RReadN", "RZReadN":
		o.i = int64([]int{-5, -1, 0, 0, 1, 2, 3, 5, 9, 17}[r.Intn(10)])
	}
	return o
}

func newBuf(r *rand.Rand) *bytex.BufferX {
	switch r.Intn(3) {
	case 0:
		return bytex.NewBufferX()
	case 1:
		return bytex.NewSizedBufferX(r.Intn(9))
	}
	return bytex.NewReadableBufferX(nil)
}

func cp(p []byte) []byte { return append([]byte{}, p...) }

// byte slices as number lists (encoding/json would print base64)
func ints(p []byte) []int {
	r := make([]int, len(p))
	for i, x := range p {
		r[i] = int(x)
	}
	return r
}
func intss(cs [][]byte) [][]int {
	r := make([][]int, len(cs))
	for i, c := range cs {
		r[i] = ints(c)
	}
	return r
}

// ---------------------------------------------------------------- round: writes, the same reads, truncations

func genRound(r *rand.Rand, e *vh.Env) []vh.Case {
	n := 1 + r.Intn(6)
	switch r.Intn(10) {
	case 0:
		n = 0
	case 1:
		n = 10 + r.Intn(21) // up to 30 values
	}
	ws := make([]op, n)
	for i := range ws {
		ws[i] = genWrite(r, writeKinds, true)
	}
	// a third of the programs contain limited strings over their limit: refused writes in the middle of a sequence that
	// goes on (the accepted writes must still read back)
	if n > 0 && r.Intn(3) == 0 {
		for k := 0; k < 1+r.Intn(2); k++ {
			s := pickBytes(r, 1+r.Intn(8))
			lim := uint32(len(s) - 1)
			if r.Intn(3) == 0 {
				lim = uint32(r.Intn(len(s)))
			}
			at := r.Intn(len(ws) + 1)
			ws = append(ws[:at], append([]op{{k: "WLimStr", lim: lim, s: s}}, ws[at:]...)...)
		}
	}
	allUpTo := 20
	if e.Thorough || e.Search {
		allUpTo = 48
	}
	return roundCases(r, ws, allUpTo)
}

// roundCases: one CRound and the CTrunc cases of the same stream (every cut when the stream has at most allUpTo bytes)
func roundCases(r *rand.Rand, ws []op, allUpTo int) []vh.Case {
	var cases []vh.Case
	// CRound
	b := newBuf(r)
	var obs []outc
	for _, w := range ws {
		obs = append(obs, doBuf(b, w))
	}
	enc := cp(b.Bytes())
	obs = append(obs, outc{k: "bytes", bs: enc})
	// the reads belong to the accepted writes; a limited string over its limit is refused and is not part of the sequence
	var aws, rs []op
	for _, w := range ws {
		if w.k == "WLimStr" && uint32(len(w.s)) > w.lim {
			continue
		}
		aws = append(aws, w)
		rs = append(rs, readerOf(r, w, true))
	}
	for _, rd := range rs {
		obs = append(obs, doBuf(b, rd))
	}
	obs = append(obs, doBuf(b, op{k: "XLen"}))
	class := "round/full"
	if len(aws) != len(ws) {
		class = "round/with-refused-writes"
	}
	cases = append(cases, vh.Case{
		Coq:        fmt.Sprintf("(CRound %s %s)", coqOps(ws), coqOuts(obs)),
		Class:      class,
		Nontrivial: len(ws) > 0,
		Desc:       map[string]interface{}{"kind": "round", "writes": descOps(ws), "reads": descOps(rs), "obs": descOuts(obs)},
	})
	ws = aws // the truncation experiments use the stream of the accepted writes
	// CTrunc: every truncation point of a short stream; the codec boundaries (+-1) and random points of a long one
	total := len(enc)
	cutSet := map[int]bool{}
	if total <= allUpTo {
		for c := 0; c <= total; c++ {
			cutSet[c] = true
		}
	} else {
		cutSet[0], cutSet[total], cutSet[total-1] = true, true, true
		// boundaries
		bb := bytex.NewBufferX()
		bounds := []int{0}
		for _, w := range ws {
			doBuf(bb, w)
			bounds = append(bounds, bb.Len())
		}
		for k := 0; k < 5; k++ {
			x := bounds[r.Intn(len(bounds))] + r.Intn(3) - 1
			if x >= 0 && x <= total {
				cutSet[x] = true
			}
		}
		for k := 0; k < 3; k++ {
			cutSet[r.Intn(total+1)] = true
		}
	}
	for cut := 0; cut <= total; cut++ {
		if !cutSet[cut] {
			continue
		}
		tb := bytex.NewReadableBufferX(cp(enc[:cut]))
		var tobs []outc
		for _, rd := range rs {
			tobs = append(tobs, doBuf(tb, rd))
		}
		tobs = append(tobs, doBuf(tb, op{k: "XLen"}))
		cases = append(cases, vh.Case{
			Coq:        fmt.Sprintf("(CTrunc %s %s %s %s)", coqOps(ws), vh.CoqZ(int64(total)), vh.CoqZ(int64(cut)), coqOuts(tobs)),
			Class:      "round/trunc",
			Nontrivial: cut < total,
			Desc:       map[string]interface{}{"kind": "trunc", "writes": descOps(ws), "total": total, "cut": cut, "obs": descOuts(tobs)},
		})
	}
	return cases
}

// ---------------------------------------------------------------- hist: arbitrary histories

func genHist(r *rand.Rand, e *vh.Env) []vh.Case {
	var init []byte
	var b *bytex.BufferX
	if r.Intn(2) == 0 {
		init = pickBytes(r, r.Intn(25))
		b = bytex.NewReadableBufferX(cp(init))
	} else {
		b = newBuf(r)
	}
	n := 1 + r.Intn(25)
	ops := make([]op, 0, n)
	obs := make([]outc, 0, n)
	for i := 0; i < n; i++ {
		var o op
		switch x := r.Intn(100); {
		case x < 35:
			o = genWrite(r, writeKinds, false)
		case x < 75:
			o = genRead(r, readKinds)
		case x < 85:
			o = genRewriteOp(r, b.Len())
		case x < 90:
			o = op{k: "XLen"}
		case x < 96:
			o = op{k: "XBytes"}
		default:
			o = op{k: "XReset"}
		}
		refusedW := o.k == "WLimStr" && uint32(len(o.s)) > o.lim
		if refusedW {
			// look at the buffer before and after a refused write
			q := op{k: []string{"XLen", "XBytes"}[r.Intn(2)]}
			ops = append(ops, q)
			obs = append(obs, doBuf(b, q))
		}
		ops = append(ops, o)
		obs = append(obs, doBuf(b, o))
		if refusedW {
			q := op{k: []string{"XLen", "XBytes"}[r.Intn(2)]}
			ops = append(ops, q)
			obs = append(obs, doBuf(b, q))
		}
	}
	final := cp(b.Bytes())
	return []vh.Case{{
		Coq:        fmt.Sprintf("(CHist %s %s %s %s)", vh.CoqBytes(init), coqOps(ops), coqOuts(obs), vh.CoqBytes(final)),
		Class:      "hist/mixed",
		Nontrivial: true,
		Desc:       map[string]interface{}{"kind": "hist", "init": ints(init), "ops": descOps(ops), "obs": descOuts(obs), "final": ints(final)},
	}}
}

func genRewriteOp(r *rand.Rand, l int) op {
	var pos int
	switch r.Intn(8) {
	case 0:
		pos = -1 - r.Intn(3)
	case 1:
		pos = l + 1 + r.Intn(3)
	case 2:
		pos = l
	case 3:
		pos = 0
	case 4:
		pos = l - 4 + r.Intn(3) - 1 // the last place a u32 fits, +-1
	default:
		pos = r.Intn(l + 1)
	}
	if r.Intn(2) == 0 {
		return op{k: "XReWriteU32", i: int64(pos), u: pickU(r, 32)}
	}
	return op{k: "XReWrite", i: int64(pos), s: pickBytes(r, r.Intn(10))}
}

// ---------------------------------------------------------------- arb: crafted / arbitrary bytes as decoder input

func genArb(r *rand.Rand, e *vh.Env) []vh.Case {
	var data []byte
	var ops []op
	class := "arb/random"
	switch r.Intn(4) {
	case 0: // varints: runs of continuation bytes around the ten-byte rule
		class = "arb/varint"
		for k := 0; k < 1+r.Intn(3); k++ {
			run := []int{0, 1, 4, 8, 9, 9, 10, 10, 11, 12}[r.Intn(10)]
			for j := 0; j < run; j++ {
				data = append(data, byte(0x80+r.Intn(128)))
			}
			if r.Intn(6) != 0 {
				data = append(data, []byte{0, 1, 2, 0x7f, 3}[r.Intn(5)])
			}
			ops = append(ops, op{k: []string{"RVarU64", "RVarI64", "RVarU32", "RVarI32"}[r.Intn(4)]})
		}
		if r.Intn(3) == 0 {
			ops = append(ops, genRead(r, readKinds))
		}
	case 1: // strings: announced length vs. available bytes vs. limit
		class = "arb/string"
		n := []uint32{0, 1, 2, 5, 9, 255, 256, 65536, 1 << 31, ^uint32(0)}[r.Intn(10)]
		var pre [4]byte
		binary.LittleEndian.PutUint32(pre[:], n)
		data = append(data, pre[:r.Intn(5)]...)
		if len(data) == 4 {
			avail := int(n) + r.Intn(3) - 1
			if n > 300 {
				avail = r.Intn(6)
			}
			if avail < 0 {
				avail = 0
			}
			data = append(data, pickBytes(r, avail)...)
		}
		if r.Intn(2) == 0 {
			ops = append(ops, op{k: "RStr"})
		} else {
			lim := n + uint32(r.Intn(3)) - 1 // n-1, n, n+1 (wraps at the ends on purpose)
			ops = append(ops, op{k: "RLimStr", lim: lim})
		}
		ops = append(ops, genRead(r, readKinds))
	default:
		data = pickBytes(r, r.Intn(40))
		for k := 0; k < 1+r.Intn(8); k++ {
			ops = append(ops, genRead(r, readKinds))
		}
	}
	if r.Intn(3) == 0 {
		ops = append(ops, op{k: "XLen"})
	}
	b := bytex.NewReadableBufferX(cp(data))
	obs := make([]outc, 0, len(ops))
	for _, o := range ops {
		obs = append(obs, doBuf(b, o))
	}
	final := cp(b.Bytes())
	return []vh.Case{{
		Coq:        fmt.Sprintf("(CHist %s %s %s %s)", vh.CoqBytes(data), coqOps(ops), coqOuts(obs), vh.CoqBytes(final)),
		Class:      class,
		Nontrivial: len(data) > 0,
		Desc:       map[string]interface{}{"kind": "arbitrary-bytes", "init": ints(data), "ops": descOps(ops), "obs": descOuts(obs), "final": ints(final)},
	}}
}

// ---------------------------------------------------------------- rewrite

func genRewrite(r *rand.Rand, e *vh.Env) []vh.Case {
	b := newBuf(r)
	b.Write(pickBytes(r, r.Intn(17)))
	if b.Len() > 0 && r.Intn(2) == 0 {
		// consume a prefix: positions are relative to the unread region
		p := make([]byte, r.Intn(b.Len()+1))
		_ = b.Read(p)
	}
	if r.Intn(3) == 0 {
		b.Write(pickBytes(r, r.Intn(6)))
	}
	b0 := cp(b.Bytes())
	o := genRewriteOp(r, len(b0))
	out := doBuf(b, o)
	b1 := cp(b.Bytes())
	return []vh.Case{{
		Coq:        fmt.Sprintf("(CReWrite %s %s %s %s)", vh.CoqBytes(b0), o.coq(), out.coq(), vh.CoqBytes(b1)),
		Class:      "rewrite/" + o.k,
		Nontrivial: true,
		Desc:       map[string]interface{}{"kind": "rewrite", "before": ints(b0), "op": descOps([]op{o})[0], "outcome": descOuts([]outc{out})[0], "after": ints(b1)},
	}}
}

// ---------------------------------------------------------------- stream: ReaderX vs BufferX

func chunkings(r *rand.Rand, data []byte) ([][]byte, string) {
	mode := r.Intn(6)
	var cs [][]byte
	name := ""
	switch mode {
	case 0:
		name = "one-byte"
		for _, x := range data {
			cs = append(cs, []byte{x})
		}
	case 1:
		name = "all-at-once"
		if len(data) > 0 || r.Intn(2) == 0 {
			cs = append(cs, cp(data))
		}
	case 2, 3:
		name = "random"
		for i := 0; i < len(data); {
			k := 1 + r.Intn(5)
			if i+k > len(data) {
				k = len(data) - i
			}
			cs = append(cs, cp(data[i:i+k]))
			i += k
		}
	default:
		name = "with-empty-chunks"
		for i := 0; i < len(data); {
			if r.Intn(3) == 0 {
				cs = append(cs, []byte{})
				continue
			}
			k := 1 + r.Intn(4)
			if i+k > len(data) {
				k = len(data) - i
			}
			cs = append(cs, cp(data[i:i+k]))
			i += k
		}
		if r.Intn(2) == 0 {
			cs = append(cs, []byte{})
		}
	}
	return cs, name
}

// ---------------------------------------------------------------- fixed corpus

func corpus() []vh.Case {
	r := rand.New(rand.NewSource(10))
	var cases []vh.Case
	add := func(cs []vh.Case, replay string) {
		for _, c := range cs {
			c.Class = "corpus/" + c.Class
			cases = append(cases, c)
		}
	}
	// the empty string, NaN payloads, extremes, limits exactly met: all truncation points
	add(roundCases(r, []op{{k: "WStr"}, {k: "WLimStr"}, {k: "WF64", u: 0x7ff0000000000001}, {k: "WI64", i: -1 << 63},
		{k: "WVarU64", u: ^uint64(0)}, {k: "WVarI64", i: -1 << 63}, {k: "WRaw"}, {k: "WLimStr", lim: 2, s: []byte("hi")}, {k: "WBool", b: true}}, 1000), "")
	// defect 7: a reader delivering one byte at a time; defect 8: the empty string through the stream reader
	for _, fix := range []struct {
		data []byte
		ops  []op
	}{
		{[]byte{1, 2, 3, 4, 5, 6, 7, 8, 9, 10, 11, 12}, []op{{k: "RU32"}, {k: "RU64"}}},
		{[]byte{0, 0, 0, 0, 0, 0, 0, 0}, []op{{k: "RStr"}, {k: "RLimStr", lim: 0}, {k: "RZReadN", i: 0}}},
	} {
		bb := bytex.NewReadableBufferX(cp(fix.data))
		src := &chunkSrc{}
		var cs [][]byte
		for _, x := range fix.data {
			cs = append(cs, []byte{x})
			src.chunks = append(src.chunks, []byte{x})
		}
		rx := bytex.NewReaderX(src)
		var obsB, obsR []outc
		for _, o := range fix.ops {
			obsB = append(obsB, doBuf(bb, o))
			obsR = append(obsR, doRx(rx, o))
		}
		cases = append(cases, vh.Case{
			Coq: fmt.Sprintf("(CStream %s false %s %s %s %s %s)", coqChunks(cs), coqOps(fix.ops),
				coqOuts(obsR), vh.CoqBytes(src.rest()), coqOuts(obsB), vh.CoqBytes(cp(bb.Bytes()))),
			Class: "corpus/stream", Nontrivial: true,
			Desc: map[string]interface{}{"kind": "stream", "chunks": intss(cs), "ops": descOps(fix.ops), "readerx": descOuts(obsR), "bufferx": descOuts(obsB)},
		})
	}
	// buffered sources and values one byte longer than their window; a refused write in the middle of a sequence
	long := make([]byte, 4097)
	for i := range long {
		long[i] = byte(i % 5)
	}
	for _, fx := range []struct {
		wrap string
		s    []byte
	}{{"bufio16", []byte("seventeen bytes!!")}, {"bufio64", long[:65]}, {"bufio4096", long}} {
		b := bytex.NewBufferX()
		b.WriteU8(7)
		b.WriteString(string(fx.s))
		b.WriteU8(9)
		c := runStream(r, cp(b.Bytes()), []op{{k: "RU8"}, {k: "RStr"}, {k: "RU8"}}, "window", fx.wrap, false)
		c.Class = "corpus/" + c.Class
		cases = append(cases, c)
	}
	add(roundCases(r, []op{{k: "WU32", u: 1}, {k: "WLimStr", lim: 3, s: []byte("toolong")}, {k: "WLimStr", lim: 4, s: []byte("tool")}, {k: "WU64", u: 99}}, 1000), "")
	return cases
}
