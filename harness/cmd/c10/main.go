// Command c10: correspondence harness for property C10 (bytex.BufferX / bytex.ReaderX).
//
// Every case is one experiment on the real package; the observed outcomes are printed as a Coq term of type
// `case` (coq/theories/C10_Check.v) and judged there by case_accept (= exactly what the model does) and
// case_holds (= the clauses of the property).
package main

import (
	"fmt"
	"math/rand"
	"strconv"
	"strings"

	"verifharness/vh"
)

type genFn func(r *rand.Rand, e *vh.Env) []vh.Case

var gens = map[string]genFn{
	"round":    genRound,    // typed writes then the same typed reads (CRound) + truncations of the same stream (CTrunc)
	"hist":     genHist,     // arbitrary histories of writes / mismatched reads / rewrites / queries (CHist)
	"arb":      genArb,      // crafted and arbitrary bytes as decoder input (CHist with init)
	"rewrite":  genRewrite,  // Bytes(); ReWrite / ReWriteU32; Bytes()  (CReWrite)
	"stream":   genStream,   // ReaderX over a fragmenting source of several concrete reader types vs. BufferX (CStream)
	"large":    genLarge,    // values of 64 KiB and more through both readers, compressed case terms (CLarge)
	"parallel": genParallel, // 8 goroutines, each with private instances over its own bytes, decoding at the same time (CLarge)
	"hold":     genHold,     // results of reads kept uncopied while the buffer is reused, looked at again at the end (CHold)
}

// order matters for reproducibility (map iteration is random)
var genOrder = []string{"round", "hist", "arb", "rewrite", "stream", "hold"}

func main() {
	vh.Main("c10", func(e *vh.Env) {
		if e.Replay != "" {
			parts := strings.SplitN(e.Replay, ":", 2)
			if parts[0] == "alias" && len(parts) == 2 { // fixed members: the number is the member, not a seed
				k, err := strconv.Atoi(parts[1])
				if err != nil {
					panic(err)
				}
				for _, c := range aliasCase(k) {
					e.Emit(c)
				}
				return
			}
			g, ok := gens[parts[0]]
			if !ok || len(parts) != 2 {
				panic("c10: bad replay argument " + e.Replay)
			}
			sub, err := strconv.ParseInt(parts[1], 10, 64)
			if err != nil {
				panic(err)
			}
			for _, c := range g(rand.New(rand.NewSource(sub)), e) {
				c.Replay = e.Replay
				e.Emit(c)
			}
			return
		}
		// fixed corpus first: the two repaired defects and the boundary cases the design names
		for _, c := range corpus() {
			e.Emit(c)
		}
		for _, c := range varintCorpus(rand.New(rand.NewSource(11))) {
			e.Emit(c)
		}
		// the large-value cases are expensive to evaluate: they are spread over the case files, one every few hundred cases
		pendingLarge := largeCorpus()
		vol := map[string]int{
			"round":    e.Scale(160, 2000),
			"hist":     e.Scale(500, 8000),
			"arb":      e.Scale(500, 8000),
			"rewrite":  e.Scale(300, 4000),
			"stream":   e.Scale(700, 12000),
			"hold":     e.Scale(250, 4000),
			"large":    e.Scale(8, 60),
			"parallel": e.Scale(3, 20),
			"reuse":    e.Scale(8, 100),
		}
		if e.Search && e.Focus != "" {
			f := strings.SplitN(e.Focus, "/", 2)[0]
			if _, ok := vol[f]; ok {
				for k := range vol {
					if k == f {
						vol[k] = vol[k] * 3 / 2
					} else {
						vol[k] /= 8
					}
				}
			}
		}
		for i := 0; i < vol["large"]; i++ {
			sub := e.Rnd.Int63()
			for _, c := range genLarge(rand.New(rand.NewSource(sub)), e) {
				c.Replay = fmt.Sprintf("large:%d", sub)
				pendingLarge = append(pendingLarge, c)
			}
		}
		for i := 0; i < vol["reuse"]; i++ {
			sub := e.Rnd.Int63()
			for _, c := range genReuse(rand.New(rand.NewSource(sub)), e) {
				c.Replay = fmt.Sprintf("reuse:%d", sub)
				pendingLarge = append(pendingLarge, c)
			}
		}
		for i := 0; i < vol["parallel"]; i++ {
			sub := e.Rnd.Int63()
			for _, c := range genParallel(rand.New(rand.NewSource(sub)), e) {
				c.Replay = fmt.Sprintf("parallel:%d", sub)
				pendingLarge = append(pendingLarge, c)
			}
		}
		counts := map[string]int{}
		emitted := 0
		for _, name := range genOrder {
			for i := 0; i < vol[name]; i++ {
				sub := e.Rnd.Int63()
				for _, c := range gens[name](rand.New(rand.NewSource(sub)), e) {
					c.Replay = fmt.Sprintf("%s:%d", name, sub)
					counts[c.Class]++
					e.Emit(c)
					emitted++
					if emitted%100 == 0 && len(pendingLarge) > 0 {
						e.Emit(pendingLarge[0])
						pendingLarge = pendingLarge[1:]
					}
				}
			}
		}
		for _, c := range pendingLarge {
			e.Emit(c)
		}
		// round 8: ReWrite with an argument that is a slice of the buffer itself; fixed members, after everything
		// else so that no random stream of the classes above moves
		for k := range aliasMembers() {
			for _, c := range aliasCase(k) {
				e.Emit(c)
			}
		}
		e.Meta["generator"] = "c10/v6"
		e.Meta["experiments"] = vol
		e.Meta["string_prefix_cap_stream"] = prefixCap
	})
}
