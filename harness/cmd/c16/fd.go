package main

import (
	"fmt"
	"os"
	"strconv"
	"syscall"
)

// fdPlug makes ln.Accept fail with a genuine temporary error (EMFILE, net.Error.Temporary() == true) through the
// public API only: the descriptor table of the process is filled up to a lowered RLIMIT_NOFILE with descriptors of
// /dev/null, so that accept4 cannot obtain one.  One slot is released for each client connection the harness itself
// has to open.  Every step is verified positively (a dup that must fail / succeed); if the table is not in the
// expected state the scenario is abandoned (counted, never reported).
type fdPlug struct {
	old     syscall.Rlimit
	dummies []*os.File
	active  bool
}

func highestFd() (int, error) {
	ents, err := os.ReadDir("/proc/self/fd")
	if err != nil {
		return 0, err
	}
	hi := 0
	for _, e := range ents {
		if n, err := strconv.Atoi(e.Name()); err == nil && n > hi {
			hi = n
		}
	}
	return hi, nil
}

func tableFull() bool {
	fd, err := syscall.Dup(0)
	if err == nil {
		_ = syscall.Close(fd)
		return false
	}
	return err == syscall.EMFILE
}

func (p *fdPlug) exhaust() error {
	if p.active {
		return fmt.Errorf("already exhausted")
	}
	if err := syscall.Getrlimit(syscall.RLIMIT_NOFILE, &p.old); err != nil {
		return err
	}
	hi, err := highestFd()
	if err != nil {
		return err
	}
	lim := p.old
	lim.Cur = uint64(hi + 40)
	if lim.Cur > p.old.Cur {
		lim.Cur = p.old.Cur
	}
	if err := syscall.Setrlimit(syscall.RLIMIT_NOFILE, &lim); err != nil {
		return err
	}
	p.active = true
	for {
		f, err := os.Open("/dev/null")
		if err != nil {
			break
		}
		p.dummies = append(p.dummies, f)
		if len(p.dummies) > 100000 {
			break
		}
	}
	if !tableFull() || len(p.dummies) == 0 {
		p.restore()
		return fmt.Errorf("descriptor table could not be filled")
	}
	return nil
}

// releaseOne frees exactly one slot (for a connection the harness is about to open itself).
func (p *fdPlug) releaseOne() error {
	if !p.active || len(p.dummies) == 0 {
		return fmt.Errorf("nothing to release")
	}
	f := p.dummies[len(p.dummies)-1]
	p.dummies = p.dummies[:len(p.dummies)-1]
	return f.Close()
}

func (p *fdPlug) restore() {
	if !p.active {
		return
	}
	for _, f := range p.dummies {
		_ = f.Close()
	}
	p.dummies = nil
	_ = syscall.Setrlimit(syscall.RLIMIT_NOFILE, &p.old)
	p.active = false
}
