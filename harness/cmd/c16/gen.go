package main

import (
	"fmt"
	"math/rand"
	"strings"
	"time"

	"verifharness/vh"
)

// ---- building blocks ----

func lb(kind, i int) label         { return label{kind: kind, i: i} }
func lSend(i int, bs []byte) label { return label{kind: aSend, i: i, bs: bs} }
func lStartL(i, tr int, reads bool) label {
	return label{kind: lStart, i: i, tr: tr, reads: reads}
}
func lRF(i, k int) label { return label{kind: aRecvFault, i: i, k: k} }
func lWF(i, k int) label { return label{kind: aWriteFault, i: i, k: k} }

// the terminating events of the statement, as label sequences on session i
const (
	tLocalClose = iota
	tPeerClose
	tReadErr
	tReadTimeout
	tHandlerErr
	tHandlerPanic
	tWriteErr
	tWriteTimeout
	nTerm
)

var termNames = []string{"localClose", "peerClose", "readErr", "readTimeout", "handlerErr", "handlerPanic", "writeErr", "writeTimeout"}

func payload(r *rand.Rand, seq *int) []byte {
	n := 1 + r.Intn(3)
	b := make([]byte, n)
	for j := range b {
		*seq++
		b[j] = byte(1 + (*seq)%250)
	}
	return b
}

func termLabels(ev, i int, r *rand.Rand, seq *int) []label {
	switch ev {
	case tLocalClose:
		return []label{lb(aLocalClose, i)}
	case tPeerClose:
		return []label{lb(aPeerClose, i)}
	case tReadErr:
		return []label{lRF(i, rkErr)}
	case tReadTimeout:
		return []label{lRF(i, rkTimeout)}
	case tHandlerErr:
		return []label{lRF(i, rkHandlerErr)}
	case tHandlerPanic:
		// any of the ways a handler can unwind the receive loop: panic with a string, nil, an error, a user type; Goexit
		return []label{lRF(i, []int{rkPanic, rkPanicNil, rkPanicErr, rkPanicCustom, rkGoexit}[r.Intn(5)])}
	case tWriteErr:
		return []label{lWF(i, wkErr), lSend(i, payload(r, seq))}
	case tWriteTimeout:
		return []label{lWF(i, wkTimeout), lSend(i, payload(r, seq))}
	}
	panic("term")
}

// on TCP a byte written by the peer towards a connection that is being closed provokes a reset; the reset is a
// property of TCP, not of the code under observation, so peer-written commands race only with Sends there
func peerWritten(ev int) bool { return ev == tHandlerErr || ev == tHandlerPanic }

func sends(i, k int, r *rand.Rand, seq *int) []label {
	var ls []label
	for j := 0; j < k; j++ {
		ls = append(ls, lSend(i, payload(r, seq)))
	}
	return ls
}

func lSendsOne(i int, r *rand.Rand, seq *int) []label { return sends(i, 1, r, seq) }

// other servers of the process: one or two, with maxima different from the scenario's own (smaller and larger)
func decoyList(r *rand.Rand, own int64, yes bool) []int32 {
	if !yes {
		return nil
	}
	out := []int32{int32((own + 2 + int64(r.Intn(3))) % 6)}
	if r.Intn(2) == 0 {
		out = append(out, int32((own+1)%3))
	}
	return out
}

func cat(ls ...[]label) []label {
	var out []label
	for _, l := range ls {
		out = append(out, l...)
	}
	return out
}

func generate(e *vh.Env) []scenario {
	r := e.Rnd
	seq := 0
	var out []scenario
	want := func(class string) bool {
		return e.Focus == "" || !e.Search || e.Focus == class || strings.HasPrefix(e.Focus, class+"/")
	}
	add := func(class string, maxc int64, phases ...[]label) {
		if !want(class) {
			return
		}
		var ph [][]label
		for _, p := range phases {
			if len(p) > 0 {
				ph = append(ph, p)
			}
		}
		out = append(out, scenario{class: class, maxc: maxc, strategy: staticStrategy(ph), closeErr: r.Intn(3) == 0,
			slowExit: strings.HasPrefix(class, "two-race/") || strings.HasPrefix(class, "stalled-race/") || r.Intn(4) == 0})
	}
	big := e.Thorough || e.Search
	ks := func() []int { // queued sends
		if big {
			return []int{0, 1, 2, 3, 5, 8, 13, 20}
		}
		return []int{0, 1 + r.Intn(3), 4 + r.Intn(17)}
	}
	after := func() [][]label { // what is tried on a session after its end: nothing of it may have an effect
		return [][]label{{lSend(0, payload(r, &seq))}, {lb(aLocalClose, 0), lb(aStartAgain, 0)}}
	}

	// 1. one terminating event after k queued sends, both transports
	for tr := 0; tr < 2; tr++ {
		for ev := 0; ev < nTerm; ev++ {
			for _, k := range ks() {
				ph := [][]label{{lStartL(0, tr, true)}, sends(0, k, r, &seq), termLabels(ev, 0, r, &seq)}
				ph = append(ph, after()...)
				if ev != tPeerClose {
					// the peer keeps its end open and keeps writing after the session is over: the read handler must not
					// be called any more (observed again one phase later: a byte in flight would show up there)
					ph = append(ph, []label{lb(aPeerByte, 0)}, []label{lb(aStartAgain, 0)}, []label{lb(aPeerByte, 0)}, []label{lb(aStartAgain, 0)})
				}
				add("one/"+termNames[ev], -1, ph...)
			}
		}
	}
	// 1b. every way the read handler can unwind the receive loop, each one deterministically on both transports
	for tr := 0; tr < 2; tr++ {
		for _, k := range []int{rkPanic, rkPanicNil, rkPanicErr, rkPanicCustom, rkGoexit} {
			for _, n := range []int{0, 1 + r.Intn(4)} {
				ph := [][]label{{lStartL(0, tr, true)}, sends(0, n, r, &seq), {lRF(0, k)}}
				ph = append(ph, after()...)
				ph = append(ph, []label{lb(aPeerByte, 0)}, []label{lb(aStartAgain, 0)})
				add("handler-end/"+rkNames[k], -1, ph...)
			}
		}
	}
	// 1c. histories on one manager: a session ends with a write error while a payload is in hand; afterwards a healthy
	//     session queues several payloads of the same sizes before the first is written (its peer starts reading
	//     later), then Close: the stream must be exactly those payloads
	nHist := e.Scale(6, 30)
	for n := 0; n < nHist && want("history"); n++ {
		sz := 1 + r.Intn(3)
		mk := func() []byte {
			p := payload(r, &seq)
			for len(p) < sz {
				p = append(p, p[0]+1)
			}
			return p[:sz]
		}
		fault := lWF(0, r.Intn(2))
		var first [][]label
		if r.Intn(2) == 0 { // the write is already blocked when the fault strikes
			first = [][]label{{lStartL(0, trPipe, false)}, {lSend(0, mk()), lSend(0, mk())}, {fault}}
		} else {
			first = [][]label{{lStartL(0, r.Intn(2), true)}, {fault}, {lSend(0, mk()), lSend(0, mk())}}
		}
		k := 2 + r.Intn(4)
		var ss []label
		for j := 0; j < k; j++ {
			ss = append(ss, lSend(1, mk()))
		}
		ph := append(first, []label{lStartL(1, trPipe, false)}, ss, []label{lb(aPeerRead, 1)}, []label{lb(aLocalClose, 1)})
		add("history/write-error-then-sends", -1, ph...)
	}
	// 1d. Session.UpdateHandler: a handler installed before Start, after Start, twice, between events, after the exit,
	//     racing with the terminating event.  Whoever is in charge at the exit is told, once.
	sh := func(i, h int) label { return label{kind: aSetHandler, i: i, h: h} }
	for tr := 0; tr < 2; tr++ {
		for _, ev := range []int{tLocalClose, tPeerClose, tReadErr, tHandlerPanic, tWriteErr} {
			st := lStartL(0, tr, true)
			stH := st
			stH.h = 1
			tl := func() []label { return termLabels(ev, 0, r, &seq) }
			add("handler/before-start", -1, []label{stH}, sends(0, r.Intn(3), r, &seq), tl(), after()[0])
			add("handler/after-start", -1, []label{st}, []label{sh(0, 1)}, []label{lb(aPeerByte, 0)}, []label{lb(aPeerByte, 0)}, tl(), after()[0])
			add("handler/twice", -1, []label{stH}, []label{sh(0, 2)}, sends(0, 1+r.Intn(2), r, &seq), []label{sh(0, 3)}, tl(), []label{sh(0, 4)}, []label{lb(aStartAgain, 0)})
			add("handler/back-to-manager", -1, []label{stH}, []label{sh(0, 0)}, tl(), after()[0])
			add("handler/race", -1, []label{st}, cat([]label{sh(0, 1)}, tl()), after()[0])
			add("handler/race", -1, []label{st}, cat(tl(), []label{sh(0, 2)}), after()[0])
		}
	}
	// 1e. a terminating event right behind Start: the loops may not even have reached their first blocking call
	for tr := 0; tr < 2; tr++ {
		for ev := 0; ev < nTerm; ev++ {
			if tr == trTcp && peerWritten(ev) {
				continue
			}
			add("start-race/"+termNames[ev], -1, cat([]label{lStartL(0, tr, true)}, termLabels(ev, 0, r, &seq)), after()[0])
		}
	}
	// 1f. the accept loop under errors of Accept (a genuine EMFILE, see fd.go): temporary errors with back-off and
	//     recovery, giving up after acceptMaxRetry failures in a row, Server.Close; the count and the sessions are
	//     untouched by all of it
	if want("accept-errors") {
		arr := func(i int) label { return label{kind: lArrive, i: i} }
		gl := func(k int) label { return label{kind: k} }
		fr := gl(lFdRestore)
		frw := fr
		frw.waitRetry = true
		nAE := e.Scale(2, 8)
		for n := 0; n < nAE; n++ {
			ev := func(i int) []label {
				return [][]label{{lb(aLocalClose, i)}, {lRF(i, rkErr)}, {lb(aPeerClose, i)}}[r.Intn(3)]
			}
			out = append(out, scenario{class: "accept-errors/recover", maxc: 2, amax: 50, strategy: staticStrategy([][]label{
				{arr(0)}, {gl(lFdExhaust), arr(1), frw}, {arr(2)}, ev(0), {arr(3)}, {gl(lFdExhaust)}, {fr}, {arr(4)}})})
			am := []int{1, 4, 2, 3, 5, 8, 1, 4}[n%8]
			out = append(out, scenario{class: "accept-errors/give-up", maxc: 2, amax: am, strategy: staticStrategy([][]label{
				{arr(0)}, {gl(lFdExhaust), arr(1)}, {fr}, {arr(2)}, ev(0), lSendsOne(0, r, &seq)})})
			out = append(out, scenario{class: "accept-errors/server-close", maxc: 2, amax: 5, strategy: staticStrategy([][]label{
				{arr(0)}, {arr(1)}, {gl(lSrvClose)}, sends(0, 2, r, &seq), ev(0), ev(1)})})
		}
	}
	// 1g. flush through the accept path: a real Server with the real SessionMgr as its connection manager (the accepted
	//     *net.TCPConn reaches SessionMgr.Do unwrapped), a reply of tens of MiB queued (every payload symbol is 32 KiB
	//     handed to Session.Send - far beyond what the socket buffers hold), local Close, and a peer that begins to read
	//     only after the Close has been issued: it must receive every byte, in order, and then the end of the stream
	nAF := e.Scale(2, 6)
	for n := 0; n < nAF && want("accept-flush"); n++ {
		var ss []label
		k := 80 + r.Intn(30)
		for j := 0; j < k; j++ {
			p := make([]byte, 8+r.Intn(3))
			for x := range p {
				p[x] = byte(1 + (j*7+x)%250)
			}
			ss = append(ss, lSend(0, p))
		}
		ph := [][]label{{{kind: lArrive, i: 0}}, {lb(aPeerPause, 0)}, cat(ss, []label{lb(aLocalClose, 0)})}
		if n%2 == 1 {
			ph = append(ph, []label{lb(aPeerByte, 0)}) // one more request from the peer while the reply is still queued
		}
		ph = append(ph, []label{lb(aPeerRead, 0)}, []label{lSend(0, []byte{1})})
		out = append(out, scenario{class: "accept-flush", maxc: 2, sendAmp: 32 << 10, rawMgr: true, lateRead: true, strategy: staticStrategy(ph),
			decoysAfter: decoyList(r, 2, n%2 == 0)})
	}
	// 1h. the peer sends one more byte AFTER the local Close and BEFORE the queue has drained: a peer that does not read
	//     yet keeps the send loop blocked in its write with 64 KiB and more still queued; the read handler consumes
	//     the byte (the session is still alive: its reply is not out yet); then the peer reads and must get everything.
	//     Deterministic member of every run: net.Pipe, loopback TCP behind the wrapper, and the raw accept path below.
	for tr := 0; tr < 2; tr++ {
		for rep := 0; rep < 2; rep++ {
			samp, k, syms := 8<<10, 6+r.Intn(4), 2
			if tr == trTcp {
				samp, k, syms = 32<<10, 80+r.Intn(20), 9 // about 25 MiB: the kernel's buffers cannot absorb it
			}
			var ss []label
			for j := 0; j < k; j++ {
				p := make([]byte, syms+r.Intn(2))
				for x := range p {
					p[x] = byte(1 + (j*5+x)%250)
				}
				ss = append(ss, lSend(0, p))
			}
			ph := [][]label{{lStartL(0, tr, false)}, cat(ss, []label{lb(aLocalClose, 0)}), {lb(aPeerByte, 0)}}
			if rep == 1 {
				ph = append(ph, []label{lb(aPeerByte, 0)})
			}
			ph = append(ph, []label{lb(aPeerRead, 0)}, []label{lSend(0, []byte{1})})
			out = append(out, scenario{class: "close-then-peer-byte/" + strings.ToLower(trNames[tr]), maxc: -1, sendAmp: samp, strategy: staticStrategy(ph)})
		}
	}
	// 2. every order of two terminating events: one after the other, and racing in one burst
	for tr := 0; tr < 2; tr++ {
		for a := 0; a < nTerm; a++ {
			for b := 0; b < nTerm; b++ {
				if a == tPeerClose && (b == tPeerClose || peerWritten(b)) {
					continue // the peer is gone: it cannot close again or write a command
				}
				k := r.Intn(4)
				ta, tb := termLabels(a, 0, r, &seq), termLabels(b, 0, r, &seq)
				add("two-seq/"+termNames[a]+"+"+termNames[b], -1, []label{lStartL(0, tr, true)}, sends(0, k, r, &seq), ta, tb, after()[0])
				if tr == trTcp && (peerWritten(a) || peerWritten(b)) {
					continue
				}
				if b == tPeerClose && peerWritten(a) {
					// the command byte is written by a goroutine of the peer; closing the peer at once may overtake it
					continue
				}
				k = r.Intn(4)
				add("two-race/"+termNames[a]+"+"+termNames[b], -1, []label{lStartL(0, tr, true)}, cat(sends(0, k, r, &seq), ta, tb), after()[0])
			}
		}
	}
	// 3. flush before a local close: 0..20 sends accepted before Close, a peer that reads everything
	for tr := 0; tr < 2; tr++ {
		for k := 0; k <= 20; k++ {
			add("flush/burst", -1, []label{lStartL(0, tr, true)}, cat(sends(0, k, r, &seq), []label{lb(aLocalClose, 0)}), after()[0],
				[]label{lb(aPeerByte, 0)}, []label{lb(aStartAgain, 0)})
			if big || k%4 == tr {
				ph := [][]label{{lStartL(0, tr, true)}}
				for j := 0; j < k; j++ {
					ph = append(ph, sends(0, 1, r, &seq))
				}
				ph = append(ph, []label{lb(aLocalClose, 0)})
				add("flush/one-by-one", -1, ph...)
			}
		}
	}
	// the peer does not read at first (net.Pipe: the write blocks), Close is called, then the peer reads
	for k := 0; k <= 20; k++ {
		if !big && k%3 != 1 && k != 0 {
			continue
		}
		add("flush/stalled-then-read", -1, []label{lStartL(0, trPipe, false)}, cat(sends(0, k, r, &seq), []label{lb(aLocalClose, 0)}), []label{lb(aPeerRead, 0)}, after()[0])
	}
	// 4. a write blocked on a peer that does not read, then each terminating event
	for ev := 0; ev < nTerm; ev++ {
		for _, k := range []int{1, 2 + r.Intn(4)} {
			add("stalled/"+termNames[ev], -1, []label{lStartL(0, trPipe, false)}, sends(0, k, r, &seq), termLabels(ev, 0, r, &seq), after()[0])
			add("stalled-race/"+termNames[ev], -1, []label{lStartL(0, trPipe, false)}, cat(sends(0, k, r, &seq), termLabels(ev, 0, r, &seq)), after()[0])
		}
	}
	// 5. zero-length payloads between real ones: skipped by the send loop, everything behind them is flushed
	//    (before repair 225387c the first one ended the session: seeded/selftest/C16/empty_payload_quits.diff)
	for tr := 0; tr < 2; tr++ {
		add("empty-send", -1, []label{lStartL(0, tr, true)}, cat(sends(0, 1, r, &seq), []label{lSend(0, []byte{})}, sends(0, 1, r, &seq), []label{lb(aLocalClose, 0)}))
		add("empty-send", -1, []label{lStartL(0, tr, true)}, []label{lSend(0, []byte{})}, sends(0, 2, r, &seq), []label{lb(aLocalClose, 0)}, after()[0])
		add("empty-send", -1, []label{lStartL(0, tr, true)}, cat([]label{lSend(0, []byte{}), lSend(0, []byte{})}, sends(0, 1, r, &seq), []label{lSend(0, []byte{}), lb(aLocalClose, 0)}))
		add("empty-send", -1, []label{lStartL(0, tr, true)}, []label{lWF(0, wkErr)}, []label{lSend(0, []byte{})}, sends(0, 1, r, &seq), after()[0])
	}
	// 6. the deadlines of the manager fire by themselves (nothing injected)
	if want("natural-timeout") {
		for tr := 0; tr < 2; tr++ {
			f := lRF(0, rkTimeout)
			f.natural = true
			out = append(out, scenario{class: "natural-timeout", maxc: -1, readTO: 30 * time.Millisecond,
				strategy: staticStrategy([][]label{{lStartL(0, tr, true), f}, after()[0]})})
		}
		f := lWF(0, wkTimeout)
		f.natural = true
		out = append(out, scenario{class: "natural-timeout", maxc: -1, writeTO: 30 * time.Millisecond,
			strategy: staticStrategy([][]label{{lStartL(0, trPipe, false)}, cat(sends(0, 2, r, &seq), []label{f}), after()[0]})})
	}
	// 6b. slow drain: many queued sends, local Close, a peer that reads one chunk every writeTimeout/20 - the whole
	//     drain lasts two to three write timeouts while no single write waits anywhere near one.  Nothing is injected:
	//     everything must be flushed, OnExit once, the count back.  net.Pipe (a Write blocks until it is read) and
	//     loopback TCP (every payload byte is 8 KiB on the wire, small socket buffers: the kernel cannot absorb it).
	if want("slow-drain") {
		T := 800 * time.Millisecond
		n := 1
		if big {
			n = 3
		}
		for rep := 0; rep < n; rep++ {
			for tr := 0; tr < 2; tr++ {
				k := 50 + r.Intn(15)
				var ss []label
				for j := 0; j < k; j++ {
					p := payload(r, &seq)
					if tr == trTcp && len(p) > 2 {
						p = p[:2]
					}
					ss = append(ss, lSend(0, p))
				}
				sc := scenario{class: "slow-drain/" + strings.ToLower(trNames[tr]), maxc: -1, writeTO: T, pace: T / 20, chunk: 2, amp: 1,
					strategy: staticStrategy([][]label{{lStartL(0, tr, true)}, cat(ss, []label{lb(aLocalClose, 0)}), after()[0]})}
				if tr == trTcp {
					sc.amp = 8 << 10
				}
				out = append(out, sc)
			}
		}
	}
	// 6c. concurrent Sends from several goroutines on one session, then Close with a reading peer: every Send is one
	//     atomic enqueue, so the stream must be the payloads in SOME order, each contiguous.  Large payloads (every
	//     payload symbol is 8 or 32 KiB handed to Session.Send: 40 KiB .. 1 MiB per Send) and small ones.
	nConc := e.Scale(4, 15)
	for n := 0; n < nConc && want("concurrent-sends"); n++ {
		for tr := 0; tr < 2; tr++ {
			for _, large := range []bool{true, false} {
				samp := 1
				heavy := large && r.Intn(3) != 0 // mostly: 6..8 goroutines with about 1 MiB each, two or three rounds
				if large {
					samp = []int{8 << 10, 32 << 10}[r.Intn(2)]
					if heavy {
						samp = 32 << 10
					}
				}
				// one to three rounds of concurrent calls on the same session, then Close (sometimes inside the last round)
				ph := [][]label{{lStartL(0, tr, true)}}
				rounds := 1 + r.Intn(3)
				if heavy {
					rounds = 2 + r.Intn(2)
				}
				id := 0
				closeInGroup := false
				for rd := 0; rd < rounds; rd++ {
					k := 2 + r.Intn(7) // 2..8 goroutines
					if heavy {
						k = 6 + r.Intn(3)
					}
					var grp []label
					for j := 0; j < k; j++ {
						var p []byte
						if large {
							l := 5 + r.Intn(8) // 8 KiB symbols: 40..96 KiB
							if samp == 32<<10 {
								l = 8 + r.Intn(25) // 32 KiB symbols: 256 KiB .. 1 MiB
							}
							if heavy {
								l = 24 + r.Intn(13) // 768 KiB .. 1.1 MiB
							}
							id++
							p = make([]byte, l)
							for x := range p {
								p[x] = byte(id)
							}
						} else {
							p = payload(r, &seq)
						}
						s := lSend(0, p)
						s.par = true
						grp = append(grp, s)
					}
					if rd == rounds-1 && r.Intn(4) == 0 {
						closeInGroup = true
						c := lb(aLocalClose, 0)
						c.par = true
						grp = append(grp, c)
					}
					ph = append(ph, grp)
				}
				if !closeInGroup {
					ph = append(ph, []label{lb(aLocalClose, 0)})
				}
				ph = append(ph, after()[0])
				cl := "concurrent-sends/small"
				if large {
					cl = "concurrent-sends/large"
				}
				out = append(out, scenario{class: cl, maxc: -1, sendAmp: samp, strategy: staticStrategy(ph), closeErr: r.Intn(3) == 0})
			}
		}
	}
	// 7. the accept loop with a maximum
	nAcc := e.Scale(36, 400)
	for n := 0; n < nAcc && want("accept"); n++ {
		maxc := int64([]int{1, 2, 3, 1, 2, 3, 0}[n%7])
		out = append(out, scenario{class: fmt.Sprintf("accept/max=%d", maxc), maxc: maxc, strategy: walk(rand.New(rand.NewSource(r.Int63())), walkCfg{accept: true, steps: 8 + r.Intn(8)}), closeErr: r.Intn(3) == 0, slowExit: r.Intn(2) == 0,
			decoysBefore: decoyList(r, maxc, n%3 == 1), decoysAfter: decoyList(r, maxc, n%3 != 1)})
	}
	// 8. several sessions on one manager
	nMulti := e.Scale(30, 400)
	for n := 0; n < nMulti && want("multi"); n++ {
		out = append(out, scenario{class: "multi", maxc: -1, strategy: walk(rand.New(rand.NewSource(r.Int63())), walkCfg{direct: 2 + r.Intn(3), steps: 6 + r.Intn(8)}), closeErr: r.Intn(3) == 0, slowExit: r.Intn(2) == 0})
	}
	// 9. one session, random walk with bursts
	nWalk := e.Scale(120, 2500)
	for n := 0; n < nWalk && want("walk"); n++ {
		out = append(out, scenario{class: "walk", maxc: -1, strategy: walk(rand.New(rand.NewSource(r.Int63())), walkCfg{direct: 1, steps: 4 + r.Intn(8)}), closeErr: r.Intn(3) == 0, slowExit: r.Intn(2) == 0})
	}
	// 10. (placed last, nothing random: the streams of the classes above do not shift)  Both timeouts configured as 0
	//     - every deadline the session arms has passed when it is armed -, a connected peer that does not read, and
	//     Start, Sends, Close issued back to back: the session must be over (exit callback once, connection closed, both
	//     goroutines gone, count back) and nothing may have reached the peer.
	if want("zero-timeouts") {
		for n := 1; n <= 2; n++ {
			f := lRF(0, rkTimeout)
			f.natural = true
			var ss []label
			for j := 0; j < n; j++ {
				ss = append(ss, lSend(0, []byte{byte(11 + j), byte(21 + j)}))
			}
			out = append(out, scenario{class: "zero-timeouts", maxc: -1, readTO: zeroTO, writeTO: zeroTO, sendAmp: 2 << 10,
				strategy: staticStrategy([][]label{cat([]label{lStartL(0, trPipe, false), f}, ss, []label{lb(aLocalClose, 0)}),
					{lSend(0, []byte{9})}, {lb(aLocalClose, 0), lb(aStartAgain, 0)}})})
		}
	}
	// 11. the write deadline of the manager fires in the MIDDLE of one payload: the peer has taken a few bytes of the
	//     first write (fewer than one payload symbol: every symbol is 4 KiB handed to Session.Send) and stays away; when
	//     the session's Write has returned the peer reads on to the end of the stream.  The session must be over and
	//     what the peer got must be the accepted stream in order - here: no complete symbol at all.
	if want("partial-write") {
		for n, part := range []int{10, 1, 4095} {
			f := lWF(0, wkTimeout)
			f.natural = true
			ss := []label{lSend(0, []byte{byte(31 + n)}), lSend(0, []byte{byte(41 + n), byte(51 + n)})}
			if n == 1 {
				ss = []label{lSend(0, []byte{61, 62, 63}), lSend(0, []byte{64})}
			}
			out = append(out, scenario{class: "partial-write/pipe", maxc: -1, writeTO: 250 * time.Millisecond, sendAmp: 4 << 10, partial: part,
				strategy: staticStrategy([][]label{{lStartL(0, trPipe, false)}, cat(ss, []label{lb(aLocalClose, 0), f}), {lSend(0, []byte{9})}})})
		}
	}
	return out
}

// ---- adaptive random walks ----

type walkCfg struct {
	accept bool
	direct int
	steps  int
}

func walk(r *rand.Rand, cfg walkCfg) func(stM, int) []label {
	seq := r.Intn(200)
	return func(t stM, k int) []label {
		if k >= cfg.steps {
			return nil
		}
		if !cfg.accept && len(t.ss) < cfg.direct && (k == 0 || r.Intn(3) == 0) {
			tr := r.Intn(2)
			reads := true
			if tr == trPipe && r.Intn(4) == 0 {
				reads = false
			}
			return []label{lStartL(len(t.ss), tr, reads)}
		}
		var live, all []int
		for i, s := range t.ss {
			if s.started {
				all = append(all, i)
				if !s.exited {
					live = append(live, i)
				}
			}
		}
		if cfg.accept {
			// arrivals: frequent while below the maximum (bursts when one place is left: two connections race for it),
			// fewer once full (the surplus branch), none beyond a dozen connections (the case terms list all of them)
			full := int64(len(live)) >= t.maxc
			p := 60
			if full {
				p = 30
			}
			if len(t.ss) >= 12 {
				p = 0
			}
			if len(all) == 0 && len(t.ss) < 12 {
				p = 100
			}
			if r.Intn(100) < p {
				n := 1
				if r.Intn(3) == 0 || (!full && int64(len(live))+1 == t.maxc && r.Intn(2) == 0) {
					n = 2 + r.Intn(2)
				}
				var ls []label
				for j := 0; j < n; j++ {
					ls = append(ls, label{kind: lArrive, i: len(t.ss) + j})
				}
				// sometimes an exit races with the arrivals
				if len(live) > 0 && r.Intn(4) == 0 {
					i := live[r.Intn(len(live))]
					ev := []label{lb(aLocalClose, i), lRF(i, rkErr), lRF(i, rkTimeout), lb(aPeerClose, i)}[r.Intn(4)]
					if r.Intn(2) == 0 {
						ls = append([]label{ev}, ls...)
					} else {
						ls = append(ls, ev)
					}
				}
				return ls
			}
		}
		if len(all) == 0 {
			return nil
		}
		burst := 1
		if r.Intn(3) == 0 {
			burst = 2 + r.Intn(3)
		}
		var ls []label
		sim := t // the model state is used only to keep the generated labels enabled
		peerCmdUsed := map[int]bool{}
		for len(ls) < burst {
			var i int
			if len(live) > 0 && r.Intn(5) != 0 {
				i = live[r.Intn(len(live))]
			} else {
				i = all[r.Intn(len(all))]
			}
			s := sim.ss[i]
			var cand []label
			c := r.Intn(20)
			if cfg.accept && r.Intn(2) == 0 {
				c = 6 + r.Intn(9) // the accept scenarios are about exits and re-arrivals: favour terminating events
			}
			switch {
			case c < 6:
				cand = sends(i, 1+r.Intn(3), r, &seq)
			case c < 8:
				cand = []label{lb(aLocalClose, i)}
			case c < 9:
				if s.peerOpen && !peerCmdUsed[i] {
					cand = []label{lb(aPeerClose, i)}
				}
			case c < 10:
				cand = []label{lRF(i, rkErr)}
			case c < 11:
				cand = []label{lRF(i, rkTimeout)}
			case c < 13:
				// peer-written command: alone in its phase on TCP, and never followed by PeerClose in the same burst
				if s.peerOpen && (s.tr == trPipe || burst == 1) {
					cand = []label{lRF(i, []int{rkHandlerErr, rkPanic, rkPanicNil, rkPanicErr, rkPanicCustom, rkGoexit}[r.Intn(6)])}
					peerCmdUsed[i] = true
				}
			case c < 15:
				cand = []label{lWF(i, r.Intn(2))}
			case c < 16:
				if s.peerOpen && !s.peerReads {
					cand = []label{lb(aPeerRead, i)}
				}
			case c < 18:
				if burst == 1 && s.peerOpen { // to a live session: consumed; to one that is over: the handler stays silent
					cand = []label{lb(aPeerByte, i)}
				}
			case c < 19:
				if r.Intn(2) == 0 {
					cand = []label{lb(aStartAgain, i)}
				} else {
					cand = []label{{kind: aSetHandler, i: i, h: r.Intn(4)}}
				}
			default:
				cand = []label{lSend(i, []byte{})}
			}
			if cand == nil {
				continue
			}
			for _, l := range cand {
				// keep the sketch of the state roughly current (Send results are not known yet: assume accepted)
				if l.kind != aSend {
					if n, ok := stepM(sim, l); ok {
						sim = n
					}
				}
			}
			ls = append(ls, cand...)
		}
		return ls
	}
}
