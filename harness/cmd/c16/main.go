package main

import (
	"encoding/json"
	"fmt"
	"net"
	"os"
	"runtime"
	"runtime/debug"
	"strings"
	"sync"
	"sync/atomic"
	"time"

	"github.com/pinealctx/neptune/stcp"
	"verifharness/vh"
)

// ---- scenarios ----

// A scenario is a list of phases.  The labels of one phase are issued back to back without waiting in between (so
// that their consequences race inside the implementation); after each phase the harness waits for quiescence and
// records the observations.  strategy returns the next phase given the model state reached so far (nil = end).
type scenario struct {
	class    string
	maxc     int64 // -1: no accept loop
	readTO   time.Duration
	writeTO  time.Duration
	strategy func(t stM, k int) []label
	// slow-drain class: the peer reads `chunk` payload bytes every `pace`; on TCP every payload byte is `amp` wire bytes
	pace  time.Duration
	chunk int
	amp   int
	// every payload byte is handed to Session.Send sendAmp times (and folded back by the peer): payloads of tens of
	// KiB to a MiB on the real session, a few bytes in the case term
	sendAmp int
	// every connection's Close closes it and then returns an error
	closeErr bool
	// the exit callback takes a moment
	slowExit bool
	// WithAccMaxRetry of the server (0: 100)
	amax int
	// the server gets the real SessionMgr (no wrapper around accepted connections); their peers read only when told
	rawMgr, lateRead bool
	// other servers started in this process before (negative index ... ) / after the scenario's own: WithMaxConn values
	decoysBefore, decoysAfter []int32
	// partial-write class: the peer takes `partial` bytes of the first write, stays away until a Write of the session
	// has returned an error (seen by the wrapper: an event, not a pause), then reads on to the end of the stream
	partial int
}

// readTO / writeTO: 0 = far away (an hour); zeroTO = the option is given the value 0 itself
const zeroTO = time.Duration(-1)

// what the slow-drain class measured about its own timing
type timing struct {
	drain    time.Duration // first Send .. last Read of the peer
	maxGap   time.Duration // largest interval between consecutive Read returns of the peer (and first Send .. first Read)
	watchdog time.Duration // latest 2 ms tick in this process during the scenario
	reads    int
}

type phaseRec struct {
	par      bool
	loop     bool
	maxfails int
	issued   []label
	resolved []label
	obs      obsAll
	matched  bool
	waited   time.Duration
}

const farTimeout = time.Hour

// upper bound on the wait for quiescence.  It can only expire when the implementation does not do what the model
// says it must (a hang, a lost exit ...); the first few expiries get the generous bound, later ones a shorter one so
// that a run against a broken tree still ends in reasonable time, and after maxMismatches the run stops (the
// verdict is a failure anyway).
const settleLimit = 10 * time.Second
const settleLimitLater = 1500 * time.Millisecond
const maxMismatches = 12

var lastAborted string // the last scenario could not be set up as intended (descriptor table): it is dropped

var pollStats struct {
	phases, polls int
	maxWait       time.Duration
	mismatches    int
	notQuiescent  int
}

func currentSettleLimit() time.Duration {
	if pollStats.mismatches >= 2 {
		return settleLimitLater
	}
	return settleLimit
}

func staticStrategy(phases [][]label) func(stM, int) []label {
	return func(_ stM, k int) []label {
		if k < len(phases) {
			return phases[k]
		}
		return nil
	}
}

func runScenario(sc scenario) ([]phaseRec, string) {
	recs, note, _ := runScenarioT(sc)
	return recs, note
}

func runScenarioT(sc scenario) ([]phaseRec, string, timing) {
	var tm timing
	var tFirst time.Time
	rt, wt := sc.readTO, sc.writeTO
	if rt == 0 {
		rt = farTimeout
	}
	if wt == 0 {
		wt = farTimeout
	}
	if rt == zeroTO {
		rt = 0
	}
	if wt == zeroTO {
		wt = 0
	}
	w := newWorld(rt, wt)
	w.partial = sc.partial
	w.pace, w.chunk, w.amp = sc.pace, sc.chunk, sc.amp
	w.sendAmp, w.closeErr, w.slowExit = sc.sendAmp, sc.closeErr, sc.slowExit
	var dog *watchdog
	if sc.pace > 0 {
		dog = startWatchdog()
	}
	note := ""
	amax := sc.amax
	if amax == 0 {
		amax = 100
	}
	w.amax = amax
	lastAborted = ""
	t := stM{maxc: 0, amax: amax}
	if sc.maxc >= 0 {
		// no garbage collection while a server runs: a connection the accept loop merely drops would otherwise be
		// closed by its finalizer some time later and pass for "closed on accept"
		oldGC := debug.SetGCPercent(-1)
		defer debug.SetGCPercent(oldGC)
		t.maxc = sc.maxc
		w.rawMgr, w.lateRead = sc.rawMgr, sc.lateRead
		for j, dm := range sc.decoysBefore {
			if err := w.startDecoy(dm, 3+j); err != nil {
				panic(fmt.Sprintf("c16: cannot start a second server: %v", err))
			}
		}
		if err := w.startServer(int32(sc.maxc)); err != nil {
			panic(fmt.Sprintf("c16: cannot start the server: %v", err))
		}
		for j, dm := range sc.decoysAfter {
			if err := w.startDecoy(dm, 5+j); err != nil {
				panic(fmt.Sprintf("c16: cannot start a second server: %v", err))
			}
		}
		acceptPtr = w.srvPtr
	}
	var recs []phaseRec
	for k := 0; ; k++ {
		ph := sc.strategy(t, k)
		if ph == nil {
			break
		}
		issued := make([]label, len(ph))
		copy(issued, ph)
		diverged := false
		w.phaseT0 = time.Now()
		w.fdUsed = w.plug.active
		if sc.pace > 0 && k == 1 {
			tFirst = time.Now()
		}
		par := len(issued) > 0 && issued[0].par
		if par {
			// concurrent calls: one goroutine per label.  The payloads are prepared beforehand and the goroutines spin on
			// a flag until all of them are on a processor, so that the calls really overlap.
			for i := range issued {
				if issued[i].kind == aSend && w.sendAmp > 1 {
					big := make([]byte, 0, len(issued[i].bs)*w.sendAmp)
					for _, x := range issued[i].bs {
						for j := 0; j < w.sendAmp; j++ {
							big = append(big, x)
						}
					}
					issued[i].real = big
				}
			}
			var wg sync.WaitGroup
			var ready, goFlag int32
			spin := len(issued) < runtime.GOMAXPROCS(0)
			gate := make(chan struct{})
			errs := make([]error, len(issued))
			// everything that takes a lock of the harness is done before the release: after it a goroutine makes
			// nothing but the one call on the session
			calls := make([]func(), len(issued))
			for i := range issued {
				i := i
				l := &issued[i]
				w.mu.Lock()
				var rs *realSess
				if l.i >= 0 && l.i < len(w.sess) {
					rs = w.sess[l.i]
				}
				w.mu.Unlock()
				var sess *stcp.Session
				if rs != nil {
					sess = rs.sess.Load()
				}
				switch {
				case sess != nil && l.kind == aSend:
					bs := l.bs
					if l.real != nil {
						bs = l.real
					}
					calls[i] = func() { l.ok = sess.Send(bs) == nil }
				case sess != nil && l.kind == aLocalClose:
					calls[i] = func() { sess.Close() }
				default:
					calls[i] = func() { errs[i] = w.issue(l, l.natural) }
				}
			}
			for i := range issued {
				wg.Add(1)
				go func(i int) {
					defer wg.Done()
					if spin {
						atomic.AddInt32(&ready, 1)
						for atomic.LoadInt32(&goFlag) == 0 {
						}
					} else {
						<-gate
					}
					calls[i]()
				}(i)
			}
			if spin {
				for atomic.LoadInt32(&ready) < int32(len(issued)) {
					runtime.Gosched()
				}
				atomic.StoreInt32(&goFlag, 1)
			} else {
				close(gate)
			}
			wg.Wait()
			for i := range issued {
				issued[i].real = nil
			}
			for i, err := range errs {
				if err != nil {
					panic(fmt.Sprintf("c16: harness could not perform %v: %v", issued[i], err))
				}
			}
		} else {
			for i := range issued {
				if err := w.issue(&issued[i], issued[i].natural); err != nil {
					if err == errDiverged {
						note = fmt.Sprintf("replay stopped before %v: %v", issued[i], err)
						issued = issued[:i]
						diverged = true
						break
					}
					panic(fmt.Sprintf("c16: harness could not perform %v: %v", issued[i], err))
				}
			}
		}
		var outs []outcome
		if !par {
			outs = explore(t, issued, false, nil)
		}
		rec := phaseRec{issued: issued, par: par}
		t0 := time.Now()
		var last obsAll
		var lastCensus census
		hit := -1
		waitFor(currentSettleLimit(), func() bool {
			pollStats.polls++
			c := takeCensus()
			o, ready := w.observe(c)
			last, lastCensus = o, c
			if !ready || !c.allParked {
				return false
			}
			if par {
				outs = explore(t, issued, true, &o) // the order in which the concurrent calls took effect is read off the observation
			}
			for j, out := range outs {
				if obsOfM(out.st).eq(o) {
					hit = j
					return true
				}
			}
			return false
		})
		rec.waited = time.Since(t0)
		rec.loop = last.Loop
		rec.maxfails = w.maxFails() // read after the state was observed: the later, the larger, the weaker - never too small
		if w.aborted != "" {
			lastAborted = w.aborted
			break
		}
		pollStats.phases++
		if rec.waited > pollStats.maxWait {
			pollStats.maxWait = rec.waited
		}
		rec.obs = last
		if hit >= 0 {
			rec.matched = true
			rec.resolved = outs[hit].path
			t = outs[hit].st
			recs = append(recs, rec)
			if diverged {
				break
			}
			continue
		}
		// no stable model state agrees with what is observed after the generous upper bound: report the observation as
		// it is, with the closest resolved sequence we have (Coq decides)
		pollStats.mismatches++
		rec.resolved = issued
		if len(outs) > 0 {
			rec.resolved = outs[0].path
		}
		stateReached := false
		for _, out := range outs {
			if obsOfM(out.st).eq(last) {
				rec.resolved = out.path
				stateReached = true
			}
		}
		if !lastCensus.allParked {
			note = "goroutine not parked at the time limit: " + firstLines(lastCensus.busy, 8)
		}
		if stateReached {
			// the observation is one the model allows, but quiescence could not be established (a goroutine that is not
			// parked in a wait the census recognises, or something still on its way): the scenario must not count as
			// agreement.  A label that is never enabled makes the replay fail, so the driver goes to its search.
			note = "state reached but quiescence not established within the time limit; " + note
			rec.resolved = append(append([]label{}, rec.resolved...), label{kind: aSendStep, i: 999})
			pollStats.notQuiescent++
		}
		recs = append(recs, rec)
		break
	}
	if dog != nil {
		tm.watchdog = dog.end()
		w.mu.Lock()
		sess := append([]*realSess{}, w.sess...)
		w.mu.Unlock()
		for _, r := range sess {
			r.mu.Lock()
			last := tFirst
			for _, x := range r.readTimes {
				if x.Before(tFirst) {
					continue
				}
				if g := x.Sub(last); g > tm.maxGap {
					tm.maxGap = g
				}
				last = x
				tm.reads++
			}
			if last.Sub(tFirst) > tm.drain {
				tm.drain = last.Sub(tFirst)
			}
			r.mu.Unlock()
		}
	}
	if !w.shutdown() {
		note += " [goroutines left over after shutdown]"
	}
	return recs, note, tm
}

func firstLines(s string, n int) string {
	ls := strings.Split(s, "\n")
	if len(ls) > n {
		ls = ls[:n]
	}
	return strings.Join(ls, " / ")
}

// ---- case printing ----

func caseOf(sc scenario, recs []phaseRec, note string) vh.Case {
	ph := make([]string, len(recs))
	type jp struct {
		Issued     []string `json:"issued"`
		Concurrent bool     `json:"issued_concurrently,omitempty"`
		MaxFails   int      `json:"accept_failures_possible_in_the_time,omitempty"`
		Observed   obsAll   `json:"observed"`
		Matched    bool     `json:"model_agrees"`
	}
	var desc []jp
	nontrivial := false
	var replay [][]label
	for i, r := range recs {
		ph[i] = fmt.Sprintf("mkPh %s %s %s %s %d%%nat %s", vh.CoqBool(r.par), coqLabels(r.issued), coqLabels(r.resolved), vh.CoqBool(r.loop), r.maxfails, r.obs.coq())
		is := make([]string, len(r.issued))
		for j, l := range r.issued {
			is[j] = l.String()
		}
		for j := range r.obs.Sess {
			r.obs.Sess[j].InboxS = fmt.Sprintf("%v", r.obs.Sess[j].Inbox)
		}
		desc = append(desc, jp{Issued: is, Concurrent: r.par, Observed: r.obs, Matched: r.matched, MaxFails: r.maxfails})
		for _, x := range r.obs.Sess {
			if x.OnExit > 0 || (!x.Started && x.Closed) {
				nontrivial = true
			}
		}
		replay = append(replay, r.issued)
	}
	maxc := sc.maxc
	if maxc < 0 {
		maxc = 0
	}
	amax := sc.amax
	if amax == 0 {
		amax = 100
	}
	coq := fmt.Sprintf("mkCase %s %d%%nat %s", vh.CoqZ(maxc), amax, vh.CoqList(ph))
	d := map[string]interface{}{"class": sc.class, "maxConn": sc.maxc, "phases": desc}
	if note != "" {
		d["note"] = note
	}
	if sc.sendAmp > 1 {
		d["bytes_per_payload_symbol"] = sc.sendAmp
	}
	if sc.closeErr {
		d["conn_close_returns_error"] = true
	}
	if sc.slowExit {
		d["exit_callback_takes_300us"] = true
	}
	if len(sc.decoysBefore)+len(sc.decoysAfter) > 0 {
		d["other_servers_in_the_process_maxConn"] = map[string]interface{}{"started_before": sc.decoysBefore, "started_after": sc.decoysAfter}
	}
	if sc.rawMgr {
		d["accepted_connections_reach_SessionMgr.Do_unwrapped"] = true
	}
	if sc.readTO != 0 || sc.writeTO != 0 {
		ts := func(t time.Duration) string {
			if t == zeroTO {
				return "0s (WithReadTimeout / WithWriteTimeout called with 0)"
			}
			if t == 0 {
				return farTimeout.String()
			}
			return t.String()
		}
		d["readTimeout"] = ts(sc.readTO)
		d["writeTimeout"] = ts(sc.writeTO)
	}
	if sc.partial > 0 {
		d["peer_takes_bytes_of_first_write_then_stays_away_until_a_write_has_failed"] = sc.partial
		d["inbox_symbol_255"] = "a group of bytes_per_payload_symbol bytes on the wire that were not all equal (bytes out of order or repeated)"
	}
	return vh.Case{Coq: coq, Desc: d, Class: sc.class, Nontrivial: nontrivial, Replay: encodeReplay(sc, replay)}
}

type jLabel struct {
	K int    `json:"k"`
	I int    `json:"i"`
	T int    `json:"t,omitempty"`
	R bool   `json:"r,omitempty"`
	B []byte `json:"b,omitempty"`
	F int    `json:"f,omitempty"`
	N bool   `json:"n,omitempty"`
	P bool   `json:"p,omitempty"`
	H int    `json:"h,omitempty"`
	W bool   `json:"w,omitempty"`
}
type jScenario struct {
	Class string     `json:"class"`
	Maxc  int64      `json:"maxc"`
	RT    int64      `json:"rt"`
	WT    int64      `json:"wt"`
	Ph    [][]jLabel `json:"ph"`
	Pace  int64      `json:"pace,omitempty"`
	Chunk int        `json:"chunk,omitempty"`
	Amp   int        `json:"amp,omitempty"`
	SAmp  int        `json:"samp,omitempty"`
	CErr  bool       `json:"cerr,omitempty"`
	SExit bool       `json:"sexit,omitempty"`
	AMax  int        `json:"amax,omitempty"`
	Raw   bool       `json:"raw,omitempty"`
	Late  bool       `json:"late,omitempty"`
	DB    []int32    `json:"db,omitempty"`
	DA    []int32    `json:"da,omitempty"`
	Part  int        `json:"part,omitempty"`
}

func encodeReplay(sc scenario, phases [][]label) string {
	j := jScenario{Class: sc.class, Maxc: sc.maxc, RT: int64(sc.readTO), WT: int64(sc.writeTO), Pace: int64(sc.pace), Chunk: sc.chunk, Amp: sc.amp, SAmp: sc.sendAmp, CErr: sc.closeErr, SExit: sc.slowExit, AMax: sc.amax, Raw: sc.rawMgr, Late: sc.lateRead, DB: sc.decoysBefore, DA: sc.decoysAfter, Part: sc.partial}
	for _, p := range phases {
		var q []jLabel
		for _, l := range p {
			q = append(q, jLabel{K: l.kind, I: l.i, T: l.tr, R: l.reads, B: l.bs, F: l.k, N: l.natural, P: l.par, H: l.h, W: l.waitRetry})
		}
		j.Ph = append(j.Ph, q)
	}
	b, _ := json.Marshal(j)
	return string(b)
}

func decodeReplay(s string) (scenario, error) {
	var j jScenario
	if err := json.Unmarshal([]byte(s), &j); err != nil {
		return scenario{}, err
	}
	var phases [][]label
	for _, p := range j.Ph {
		var q []label
		for _, l := range p {
			q = append(q, label{kind: l.K, i: l.I, tr: l.T, reads: l.R, bs: l.B, k: l.F, natural: l.N, par: l.P, h: l.H, waitRetry: l.W})
		}
		phases = append(phases, q)
	}
	return scenario{class: j.Class, maxc: j.Maxc, readTO: time.Duration(j.RT), writeTO: time.Duration(j.WT), strategy: staticStrategy(phases),
		pace: time.Duration(j.Pace), chunk: j.Chunk, amp: j.Amp, sendAmp: j.SAmp, closeErr: j.CErr, slowExit: j.SExit, amax: j.AMax, rawMgr: j.Raw, lateRead: j.Late, decoysBefore: j.DB, decoysAfter: j.DA, partial: j.Part}, nil
}

func main() {
	vh.Main("c16", func(e *vh.Env) {
		timingDropped, timingRetries, setupDropped := 0, 0, 0
		generated, emitted, planned := 0, 0, 0
		emit := func(sc scenario) {
			generated++
			if sc.pace == 0 {
				before := pollStats.mismatches
				recs, note := runScenario(sc)
				if lastAborted != "" {
					pollStats.mismatches = before
					setupDropped++
					generated--
					planned--
					return
				}
				e.Emit(caseOf(sc, recs, note))
				emitted++
				return
			}
			// slow-drain: the case counts only when its own timing was what the scenario is about - the peer never away
			// for as long as a third of the write timeout, this process never stalled that long.  Otherwise the machine
			// was too busy at that moment: retry a few times, then drop the scenario (fewer cases, never a false alarm).
			limit := sc.writeTO / 3
			for attempt := 0; ; attempt++ {
				before := pollStats.mismatches
				recs, note, tm := runScenarioT(sc)
				if tm.maxGap < limit && tm.watchdog < limit && tm.reads > 0 {
					c := caseOf(sc, recs, note)
					d := c.Desc.(map[string]interface{})
					d["timing"] = map[string]interface{}{"drain_ms": tm.drain.Milliseconds(), "peer_reads": tm.reads,
						"longest_interval_between_peer_reads_ms": tm.maxGap.Milliseconds(), "latest_watchdog_tick_ms": tm.watchdog.Milliseconds(),
						"pace_ms": sc.pace.Milliseconds(), "bound_ms": limit.Milliseconds()}
					e.Emit(c)
					emitted++
					return
				}
				pollStats.mismatches = before // whatever happened in a run without established timing does not count
				if attempt >= 3 {
					timingDropped++
					generated-- // dropped for timing, not for disagreement
					return
				}
				timingRetries++
			}
		}
		if e.Replay != "" {
			sc, err := decodeReplay(e.Replay)
			if err != nil {
				fmt.Fprintln(os.Stderr, "c16: bad replay argument:", err)
				os.Exit(2)
			}
			emit(sc)
			return
		}
		t0 := time.Now()
		exerciseServerAPI(e)
		reps := 1
		if e.Search && e.Focus != "" && e.Focus != "walk" && e.Focus != "multi" && !strings.HasPrefix(e.Focus, "accept/") {
			reps = 12 // the violation search repeats the diverging class: racing bursts need several attempts
			if strings.HasPrefix(e.Focus, "slow-drain") {
				reps = 2 // deterministic and slow
			}
		}
	gen:
		for rep := 0; rep < reps; rep++ {
			scs := generate(e)
			planned += len(scs)
			for _, sc := range scs {
				emit(sc)
				if pollStats.mismatches >= maxMismatches {
					e.Meta["stopped_early"] = fmt.Sprintf("after %d scenarios in which the implementation did not reach any state the model allows", pollStats.mismatches)
					break gen
				}
			}
		}
		e.Meta["scenarios_where_model_and_implementation_differ"] = pollStats.mismatches
		e.Meta["scenarios_where_quiescence_was_not_established"] = pollStats.notQuiescent
		e.Meta["scenarios_planned"] = planned
		e.Meta["scenarios_run"] = generated
		// a run that stopped early, or emitted far fewer cases than it generated scenarios, is not evidence of anything:
		// it ends with a case that fails the replay (never with a quiet OK over a handful of cases)
		if _, stopped := e.Meta["stopped_early"]; stopped || emitted*2 < planned-timingDropped {
			why := fmt.Sprintf("the harness emitted %d cases for %d planned scenarios (stopped early: %v; %d scenarios without agreement, %d of them without established quiescence)",
				emitted, planned, stopped, pollStats.mismatches, pollStats.notQuiescent)
			e.Emit(vh.Case{Coq: "mkCase 0%Z 0%nat [mkPh false [] [On 999 SendStep] true 0%nat (0%Z, [])]", Class: "harness-degenerate", Nontrivial: false,
				Desc: map[string]interface{}{"class": "harness-degenerate", "why": why}})
		}
		e.Meta["accept_error_setup_not_established"] = setupDropped
		e.Meta["slow_drain_timing_not_established"] = timingDropped
		e.Meta["slow_drain_retries"] = timingRetries
		e.Meta["phases"] = pollStats.phases
		e.Meta["polls"] = pollStats.polls
		e.Meta["longest_wait_for_quiescence_ms"] = float64(pollStats.maxWait.Microseconds()) / 1000
		e.Meta["go_run_s"] = time.Since(t0).Seconds()
	})
}

// exerciseServerAPI runs the parts of srv.go that have no place in a scenario: NewTCPSrvX, Address, and LoopStart's
// failure when the address cannot be listened on (an impossible port; a port that is taken).  Nothing here is a case:
// a deviation is a harness failure (the driver reports the tie as broken).
func exerciseServerAPI(e *vh.Env) {
	w := newWorld(farTimeout, farTimeout)
	bad := stcp.NewTCPSrvX("127.0.0.1:99999", w.h, stcp.WithReadTimeout(farTimeout))
	if bad.Address() != "127.0.0.1:99999" {
		panic("c16: Server.Address does not return the configured address")
	}
	if err := bad.LoopStart(stcp.WithMaxConn(1)); err == nil {
		panic("c16: LoopStart on an impossible port returned nil")
	}
	l, err := net.Listen("tcp", "127.0.0.1:0")
	if err != nil {
		panic(err)
	}
	defer l.Close()
	taken := stcp.NewTCPSrvX(l.Addr().String(), w.h)
	select {
	case err := <-taken.Start(stcp.WithMaxConn(1)):
		if err == nil {
			panic("c16: Start on a taken port delivered a nil error")
		}
	case <-time.After(10 * time.Second):
		panic("c16: Start on a taken port did not report the listen error")
	}
	e.Meta["server_api_exercised"] = "NewTCPSrvX, Address, LoopStart/Start listen errors (impossible port, taken port)"
}
