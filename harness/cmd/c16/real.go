package main

import (
	"errors"
	"fmt"
	"io"
	"net"
	"runtime"
	"strings"
	"sync"
	"sync/atomic"
	"time"

	"github.com/pinealctx/neptune/stcp"
	"github.com/pinealctx/neptune/ulog"
	"go.uber.org/zap"
)

// The real system of one scenario: one stcp.SessionMgr, optionally one stcp.Server running its accept loop, and
// the sessions with their peers.

type realSess struct {
	id      int
	tr      int
	fc      *faultConn // session side (nil until Do is called for accepted connections)
	peer    net.Conn   // peer side
	sess    atomic.Pointer[stcp.Session]
	started atomic.Bool
	direct  bool
	addr    string // accepted connections: the client's local address

	onExit atomic.Int32
	exitH  atomic.Int32 // id of the handler whose OnExit was called last
	rcvd   atomic.Int32

	mu           sync.Mutex
	inbox        []byte
	peerSawClose bool
	reading      bool
	readTimes    []time.Time // paced peer: when each Read returned
	w            *world
}

func (r *realSess) peerReadLoop() { r.peerReadLoopFrom(0, 0) }

// peerReadLoopFrom reads to the end of the stream.  With sendAmp > 1 every payload byte was handed to Session.Send
// sendAmp times: a group of sendAmp bytes on the wire is folded back into one symbol.  A group whose bytes are not
// all equal (only possible when bytes arrive repeated or out of order) is reported as the symbol 255, which no
// payload contains.  raw / first: bytes of the first group already taken by peerPartialLoop.
func (r *realSess) peerReadLoopFrom(raw int, first byte) {
	buf := make([]byte, 64<<10)
	fold := 1
	if r.w != nil && r.w.sendAmp > 1 {
		fold = r.w.sendAmp // every payload byte was sent sendAmp times: fold them back
	}
	mixed := false
	for {
		n, err := r.peer.Read(buf)
		r.mu.Lock()
		for j := 0; j < n; j++ {
			if raw%fold == 0 {
				first, mixed = buf[j], false
			} else if buf[j] != first {
				mixed = true
			}
			raw++
			if raw%fold == 0 {
				if mixed {
					r.inbox = append(r.inbox, 255)
				} else {
					r.inbox = append(r.inbox, buf[j])
				}
			}
		}
		if err != nil {
			r.peerSawClose = true
			r.mu.Unlock()
			return
		}
		r.mu.Unlock()
	}
}

// peerPartialLoop is the peer of the partial-write class: it takes k bytes (fewer than one payload symbol) of the
// first write and then stays away until a Write of the session has returned an error - an event the wrapper sees,
// not a pause - and then reads on to the end of the stream.  The bound on the wait only keeps the goroutine from
// staying for ever after a run against a broken tree; nothing is concluded from it.
func (r *realSess) peerPartialLoop(k int) {
	buf := make([]byte, k)
	n, err := io.ReadFull(r.peer, buf)
	if err == nil {
		select {
		case <-r.fc.werr:
		case <-time.After(30 * time.Second):
		}
	}
	var first byte
	if n > 0 {
		first = buf[0]
	}
	r.peerReadLoopFrom(n, first)
}

func (r *realSess) startReading() {
	r.mu.Lock()
	if r.reading {
		r.mu.Unlock()
		return
	}
	r.reading = true
	r.mu.Unlock()
	if r.w != nil && r.w.pace > 0 {
		amp := 1
		if r.fc != nil && r.fc.amp > 1 {
			amp = r.fc.amp
		}
		go r.peerPacedLoop(r.w.pace, r.w.chunk*amp, amp)
		return
	}
	go r.peerReadLoop()
}

// peerPacedLoop is the steadily but slowly reading peer: one chunk, a pause, the next chunk ... until the end of the
// stream.  It records when every Read returned.  With amp > 1 it folds amp wire bytes back into one byte.
func (r *realSess) peerPacedLoop(pace time.Duration, chunk, amp int) {
	if amp < 1 {
		amp = 1
	}
	buf := make([]byte, chunk)
	raw := 0
	for {
		n, err := r.peer.Read(buf)
		now := time.Now()
		r.mu.Lock()
		r.readTimes = append(r.readTimes, now)
		for j := 0; j < n; j++ {
			raw++
			if raw%amp == 0 {
				r.inbox = append(r.inbox, buf[j])
			}
		}
		if err != nil {
			r.peerSawClose = true
			r.mu.Unlock()
			return
		}
		r.mu.Unlock()
		time.Sleep(pace)
	}
}

func (r *realSess) peerWrite(b byte) {
	_, _ = r.peer.Write([]byte{b})
}

type handler struct {
	w  *world
	id int // 0: the manager's handler; h: the h-th handler given to Session.UpdateHandler
}

func (h *handler) find(s *stcp.Session) *realSess {
	h.w.mu.Lock()
	defer h.w.mu.Unlock()
	return h.w.byName[s.RemoteAddr()]
}

type c16PanicValue struct{ code int }

// c16Info is a session value that contributes log fields (stcp.IKeyZap)
type c16Info struct{ id int }

func (c c16Info) KeyZaps(ext ...zap.Field) []zap.Field {
	return append([]zap.Field{zap.Int("c16.session", c.id)}, ext...)
}

// Read consumes one byte.  'E' is a handler error; 'P' 'N' 'R' 'C' panic with a string, with nil, with an error
// value, with a value of a user type; 'G' calls runtime.Goexit; anything else is counted.
func (h *handler) Read(s *stcp.Session) error {
	r := h.find(s)
	if r != nil && r.sess.Load() == nil {
		setRetired(fmt.Sprintf("%p", s), false)
		r.sess.Store(s)
		if r.fc == nil {
			r.started.Store(true) // handed to SessionMgr.Do by the accept loop itself (no wrapper in between)
		}
	}
	var b [1]byte
	if err := s.Read(b[:]); err != nil {
		return err
	}
	switch b[0] {
	case 'P':
		panic("c16: read handler panics on command")
	case 'N':
		var nothing interface{}
		panic(nothing)
	case 'R':
		panic(errors.New("c16: read handler panics with an error value"))
	case 'C':
		panic(c16PanicValue{code: 16})
	case 'G':
		runtime.Goexit()
	case 'E':
		return errors.New("c16: read handler error on command")
	}
	if r != nil {
		r.rcvd.Add(1)
	}
	return nil
}

func (h *handler) OnExit(s *stcp.Session) {
	if r := h.find(s); r != nil {
		r.onExit.Add(1)
		r.exitH.Store(int32(h.id))
	}
	if h.w.slowExit {
		// a callback that takes a moment (user code may): whatever else ends the session meanwhile finds the exit in
		// progress.  This only perturbs the schedule; nothing is concluded from the duration.
		time.Sleep(300 * time.Microsecond)
	}
}

// connMgr is the stcp.IConnMgr given to the server: the real SessionMgr behind a wrapper that puts the fault
// injecting connection around what the accept loop hands over.
type connMgr struct {
	w *world
}

func (c *connMgr) ConnCount() int32         { return c.w.mgr.ConnCount() }
func (c *connMgr) SetLogger(l *ulog.Logger) { c.w.mgr.SetLogger(l) }
func (c *connMgr) Do(conn net.Conn) {
	w := c.w
	w.mu.Lock()
	r := w.byAddr[conn.RemoteAddr().String()]
	if r == nil {
		w.mu.Unlock()
		w.strays.Add(1)
		_ = conn.Close()
		return
	}
	r.fc = newFaultConn(conn, r.id)
	r.fc.closeErr = w.closeErr
	r.w = w
	w.byName[string(r.fc.name)] = r
	w.mu.Unlock()
	w.mgr.Do(r.fc.forSession())
	r.started.Store(true)
	w.doCalls.Add(1)
}

var errDiverged = errors.New("the label addresses a connection that is not a session in this run")

type world struct {
	mgr    *stcp.SessionMgr
	h      *handler
	mu     sync.Mutex
	sess   []*realSess
	byName map[string]*realSess
	byAddr map[string]*realSess

	srv     *stcp.Server
	srvAddr string
	srvErr  <-chan error
	doCalls atomic.Int32
	strays  atomic.Int32

	ln net.Listener // own listener for directly started TCP sessions

	// slow-drain scenarios: the peer reads chunk bytes every pace; amp see faultConn
	pace  time.Duration
	chunk int
	amp   int

	sendAmp  int  // concurrent-large-sends: every payload byte is handed to Session.Send sendAmp times
	closeErr bool // every connection's Close reports an error after closing
	server   bool
	amax     int // WithAccMaxRetry
	plug     fdPlug
	handlers map[int]*handler
	fdUsed   bool           // Accept failures were provoked since phaseT0
	phaseT0  time.Time      // start of the current phase
	aborted  string         // the scenario could not be set up as intended (fd table): drop it
	rawMgr   bool           // the server is given the real SessionMgr itself: accepted *net.TCPConn reach SessionMgr.Do unwrapped
	lateRead bool           // peers of accepted connections do not read until told (PeerRead)
	decoys   []*stcp.Server // other servers of this process, started with other options, idle
	srvPtr   string
	slowExit bool // the exit callback takes 300 us
	partial  int  // partial-write class: see scenario.partial
}

// watchdog measures how late a 2 ms tick can be in this process while a scenario runs: the scheduling latency the
// machine imposes at this moment.  It is evidence for the timing gate of the slow-drain class, never for a verdict.
type watchdog struct {
	stop   chan struct{}
	done   chan struct{}
	maxGap time.Duration
}

func startWatchdog() *watchdog {
	d := &watchdog{stop: make(chan struct{}), done: make(chan struct{})}
	go func() {
		defer close(d.done)
		last := time.Now()
		for {
			select {
			case <-d.stop:
				return
			default:
			}
			time.Sleep(2 * time.Millisecond)
			now := time.Now()
			if g := now.Sub(last); g > d.maxGap {
				d.maxGap = g
			}
			last = now
		}
	}()
	return d
}

func (d *watchdog) end() time.Duration {
	close(d.stop)
	<-d.done
	return d.maxGap
}

func newWorld(readTimeout, writeTimeout time.Duration) *world {
	w := &world{byName: map[string]*realSess{}, byAddr: map[string]*realSess{}}
	w.h = &handler{w: w}
	w.mgr = stcp.NewSessionMgr(w.h, stcp.WithReadTimeout(readTimeout), stcp.WithWriteTimeout(writeTimeout))
	return w
}

func waitFor(limit time.Duration, cond func() bool) bool {
	end := time.Now().Add(limit)
	d := 20 * time.Microsecond
	for {
		if cond() {
			return true
		}
		if time.Now().After(end) {
			return false
		}
		time.Sleep(d)
		if d < 2*time.Millisecond {
			d *= 2
		}
	}
}

// startServer runs a real stcp.Server (LoopStart in its goroutine) on a free loopback port.
func (w *world) startServer(maxc int32) error {
	for attempt := 0; attempt < 20; attempt++ {
		l, err := net.Listen("tcp", "127.0.0.1:0")
		if err != nil {
			return err
		}
		addr := l.Addr().String()
		_ = l.Close()
		var cm stcp.IConnMgr = &connMgr{w: w}
		if w.rawMgr {
			cm = w.mgr
		}
		srv := stcp.NewTCPSrv(addr, cm)
		ptr := fmt.Sprintf("%p", srv)
		w.server = true
		ch := srv.Start(stcp.WithMaxConn(maxc), stcp.WithAccDelay(accDelay), stcp.WithAccMaxDelay(accMaxDelay),
			stcp.WithAccMaxRetry(w.amax), stcp.WithLogger(ulog.GetDefaultLogger()))
		var startErr error
		ok := waitFor(10*time.Second, func() bool {
			select {
			case startErr = <-ch:
				return true
			default:
			}
			c := takeCensus()
			return c.acc[ptr] == 1 && c.allParked
		})
		if ok && startErr == nil {
			w.srv, w.srvAddr, w.srvErr, w.srvPtr = srv, addr, ch, ptr
			return nil
		}
		if !ok {
			return fmt.Errorf("accept loop did not park in Accept")
		}
	}
	return fmt.Errorf("no free port")
}

func (w *world) stopServer() {
	w.plug.restore()
	if w.srv == nil {
		return
	}
	_ = w.srv.Close()
	for _, d := range w.decoys {
		_ = d.Close()
	}
	w.decoys = nil
	waitFor(10*time.Second, func() bool { return takeCensus().acceptors == 0 })
	w.srv = nil
}

// startDecoy starts one more server in this process, with options of its own, and leaves it idle.  Every server must
// go by the options it was started with, whatever is started before or after it.
func (w *world) startDecoy(maxc int32, retry int) error {
	for attempt := 0; attempt < 20; attempt++ {
		l, err := net.Listen("tcp", "127.0.0.1:0")
		if err != nil {
			return err
		}
		addr := l.Addr().String()
		_ = l.Close()
		srv := stcp.NewTCPSrvX(addr, &handler{w: w, id: 999})
		ptr := fmt.Sprintf("%p", srv)
		ch := srv.Start(stcp.WithMaxConn(maxc), stcp.WithAccMaxRetry(retry), stcp.WithAccDelay(50*time.Microsecond), stcp.WithAccMaxDelay(100*time.Microsecond))
		var startErr error
		ok := waitFor(10*time.Second, func() bool {
			select {
			case startErr = <-ch:
				return true
			default:
			}
			c := takeCensus()
			return c.acc[ptr] == 1 && c.allParked
		})
		if ok && startErr == nil {
			w.decoys = append(w.decoys, srv)
			return nil
		}
		if !ok {
			return fmt.Errorf("decoy accept loop did not park in Accept")
		}
	}
	return fmt.Errorf("no free port")
}

// connPair makes a connected pair (session side, peer side).
// accDelay: the accept loop's back-off after a temporary error (WithAccDelay); every failed Accept except the last
// is followed by a sleep of at least this long, which bounds the number of failures by the elapsed time
const accDelay = 2 * time.Millisecond
const accMaxDelay = 4 * time.Millisecond

func (w *world) handler(id int) *handler {
	if id == 0 {
		return w.h
	}
	w.mu.Lock()
	defer w.mu.Unlock()
	if w.handlers == nil {
		w.handlers = map[int]*handler{}
	}
	h := w.handlers[id]
	if h == nil {
		h = &handler{w: w, id: id}
		w.handlers[id] = h
	}
	return h
}

// maxFails: how many Accept calls can have failed since the phase began (0 when no failure was provoked)
func (w *world) maxFails() int {
	if !w.fdUsed {
		return 0
	}
	n := 2 + int(time.Since(w.phaseT0)/accDelay)
	if n > 1000 {
		n = 1000
	}
	return n
}

// acceptBackingOff: the accept goroutine sleeps in its error handler (a failed Accept has happened)
var acceptPtr string // the server whose accept loop the current scenario watches

func acceptBackingOff() bool {
	for _, g := range allGoroutines() {
		if strings.Contains(g.body, fnLoopAccept) && g.state == "sleep" && (acceptPtr == "" || frameRecv(g.body, fnLoopAccept) == acceptPtr) {
			return true
		}
	}
	return false
}

func (w *world) connPair(tr int) (net.Conn, net.Conn, error) {
	if tr == trPipe {
		a, b := net.Pipe()
		return a, b, nil
	}
	if w.ln == nil {
		l, err := net.Listen("tcp", "127.0.0.1:0")
		if err != nil {
			return nil, nil, err
		}
		w.ln = l
	}
	c, err := net.Dial("tcp", w.ln.Addr().String())
	if err != nil {
		return nil, nil, err
	}
	s, err := w.ln.Accept()
	if err != nil {
		_ = c.Close()
		return nil, nil, err
	}
	return s, c, nil
}

// issue performs one external label on the real system; it fills in the result of Send.
func (w *world) issue(l *label, natural bool) error {
	switch l.kind {
	case lStart:
		sc, pc, err := w.connPair(l.tr)
		if err != nil {
			return err
		}
		r := &realSess{id: l.i, tr: l.tr, peer: pc, direct: true, w: w}
		r.fc = newFaultConn(sc, l.i)
		r.fc.closeErr = w.closeErr
		if w.amp > 1 && l.tr == trTcp {
			r.fc.amp = w.amp
			// small socket buffers: the writer blocks early instead of parking megabytes in the kernel
			if tc, ok := sc.(*net.TCPConn); ok {
				_ = tc.SetWriteBuffer(32 << 10)
			}
			if tc, ok := pc.(*net.TCPConn); ok {
				_ = tc.SetReadBuffer(32 << 10)
			}
		}
		w.mu.Lock()
		w.sess = append(w.sess, r)
		w.byName[string(r.fc.name)] = r
		w.mu.Unlock()
		s := stcp.NewSession(w.mgr, r.fc.forSession())
		if l.h != 0 {
			s.UpdateHandler(w.handler(l.h)) // installed before Start
		}
		// the accessors a user of the package has (none of them may disturb the session): a value for the log fields,
		// an explicit remote address (the same name the wrapper reports)
		switch l.i % 3 {
		case 0:
			s.Set(c16Info{id: l.i})
		case 1:
			s.Set(l.i)
		}
		if l.i%2 == 0 {
			s.SetRemoteAddr(string(r.fc.name))
		}
		_ = s.Get()
		_ = s.Logger()
		setRetired(fmt.Sprintf("%p", s), false)
		r.sess.Store(s)
		r.started.Store(true)
		if l.reads {
			r.startReading()
		} else if w.partial > 0 && w.sendAmp > 1 && w.partial < w.sendAmp {
			r.mu.Lock()
			r.reading = true
			r.mu.Unlock()
			go r.peerPartialLoop(w.partial)
		}
		s.Start()
		return nil
	case lFdExhaust:
		w.fdUsed = true
		if err := w.plug.exhaust(); err != nil {
			w.aborted = "descriptor table: " + err.Error()
		}
		return nil
	case lFdRestore:
		if l.waitRetry && w.aborted == "" {
			// positive: the loop is seen sleeping in its error handler, i.e. at least one Accept has failed
			if !waitFor(5*time.Second, acceptBackingOff) {
				w.aborted = "the accept loop was not seen backing off"
			}
		}
		w.plug.restore()
		return nil
	case lSrvClose:
		if w.srv != nil {
			_ = w.srv.Close()
		}
		return nil
	case lArrive:
		if w.plug.active && w.aborted == "" {
			// one slot for the client's own socket; the table is full again once it is connected
			if err := w.plug.releaseOne(); err != nil {
				w.aborted = "descriptor table: " + err.Error()
			}
		}
		r := &realSess{id: l.i, tr: trTcp, w: w}
		// the connection is registered under the client's address while the lock is held, so that the accept loop's
		// Do (which looks it up under the same lock) cannot run ahead of the registration
		w.mu.Lock()
		c, err := net.Dial("tcp", w.srvAddr)
		if err != nil {
			w.mu.Unlock()
			return err
		}
		if w.plug.active && w.aborted == "" && !tableFull() {
			w.aborted = "descriptor table not full after the client connected"
		}
		r.addr = c.LocalAddr().String()
		w.sess = append(w.sess, r)
		w.byAddr[r.addr] = r
		if w.rawMgr {
			w.byName[r.addr] = r // the session reports its connection's real remote address
		}
		w.mu.Unlock()
		r.peer = c
		if !w.lateRead {
			r.startReading()
		}
		return nil
	}
	w.mu.Lock()
	var r *realSess
	if l.i >= 0 && l.i < len(w.sess) {
		r = w.sess[l.i]
	}
	w.mu.Unlock()
	if r == nil || r.sess.Load() == nil || (r.fc == nil && !w.rawMgr) {
		// only possible when a stored scenario is replayed and a race went the other way this time
		return errDiverged
	}
	switch l.kind {
	case aSend:
		bs := l.bs
		if l.real != nil {
			bs = l.real
		} else if w.sendAmp > 1 {
			bs = make([]byte, 0, len(l.bs)*w.sendAmp)
			for _, x := range l.bs {
				for j := 0; j < w.sendAmp; j++ {
					bs = append(bs, x)
				}
			}
		}
		l.ok = r.sess.Load().Send(bs) == nil
	case aLocalClose:
		r.sess.Load().Close()
	case aStartAgain:
		r.sess.Load().Start()
	case aSetHandler:
		r.sess.Load().UpdateHandler(w.handler(l.h))
	case aPeerClose:
		_ = r.peer.Close()
	case aPeerRead:
		r.startReading()
	case aPeerPause:
		// the peer of this connection has not been reading (lateRead): nothing to do but to say so to the model
	case aPeerByte:
		go r.peerWrite('d')
	case aRecvFault:
		if natural {
			return nil
		}
		switch l.k {
		case rkErr:
			r.fc.injectRead(faultErr)
		case rkTimeout:
			r.fc.injectRead(faultTimeout)
		case rkHandlerErr:
			go r.peerWrite('E')
		case rkPanic:
			go r.peerWrite('P')
		case rkPanicNil:
			go r.peerWrite('N')
		case rkPanicErr:
			go r.peerWrite('R')
		case rkPanicCustom:
			go r.peerWrite('C')
		case rkGoexit:
			go r.peerWrite('G')
		}
	case aWriteFault:
		if natural {
			return nil
		}
		if l.k == wkErr {
			r.fc.injectWrite(faultErr)
		} else {
			r.fc.injectWrite(faultTimeout)
		}
	}
	return nil
}

// observe reads what the property names; ready=false while something is still on its way (an accepted connection not
// yet handed over or refused, a session whose pointer the handler has not seen, the bytes in front of a FIN).
func (w *world) observe(c census) (obsAll, bool) {
	o := obsAll{Cnt: int64(w.mgr.ConnCount()), Loop: !w.server || c.acc[w.srvPtr] > 0}
	ready := c.unknown == 0
	w.mu.Lock()
	sess := append([]*realSess{}, w.sess...)
	w.mu.Unlock()
	for _, r := range sess {
		var x obs1
		x.Started = r.started.Load()
		x.OnExit = int(r.onExit.Load())
		x.Rcvd = int(r.rcvd.Load())
		x.ExitH = int(r.exitH.Load())
		r.mu.Lock()
		x.Inbox = append([]byte{}, r.inbox...)
		saw := r.peerSawClose
		reading := r.reading
		r.mu.Unlock()
		if x.Started {
			s := r.sess.Load()
			if s == nil {
				ready = false
			} else {
				p := fmt.Sprintf("%p", s)
				x.SendL = c.send[p]
				x.RecvL = c.recv[p]
			}
			if r.fc != nil {
				x.Closed = r.fc.closed()
			} else {
				// no wrapper around this connection: it is closed when the peer has read to the end of the stream
				x.Closed = saw
				if !saw && reading && x.OnExit > 0 {
					ready = false
				}
			}
			if x.Closed && r.tr == trTcp && reading && !saw {
				ready = false // the peer has not yet read up to the end of the stream
			}
		} else {
			// not handed to the manager: closed on accept iff the client saw the end of the stream
			x.Closed = saw
			if !saw && o.Loop {
				ready = false // neither handed over nor refused yet, and somebody still accepts
			}
		}
		o.Sess = append(o.Sess, x)
	}
	return o, ready
}

// shutdown ends everything that may still run and waits for the goroutines to go away.
func (w *world) shutdown() bool {
	w.mu.Lock()
	sess := append([]*realSess{}, w.sess...)
	w.mu.Unlock()
	for _, r := range sess {
		if r.peer != nil {
			_ = r.peer.Close()
		}
		if s := r.sess.Load(); s != nil {
			s.Close()
		}
	}
	w.stopServer()
	ok := waitFor(3*time.Second, func() bool {
		c := takeCensus()
		return len(c.send) == 0 && len(c.recv) == 0 && c.acceptors == 0
	})
	if !ok {
		for _, r := range sess {
			if r.fc != nil {
				r.fc.injectRead(faultTimeout)
				r.fc.injectWrite(faultTimeout)
				_ = r.fc.under.Close()
			}
		}
		ok = waitFor(2*time.Second, func() bool {
			c := takeCensus()
			return len(c.send) == 0 && len(c.recv) == 0
		})
		if !ok {
			for _, r := range sess {
				if s := r.sess.Load(); s != nil {
					setRetired(fmt.Sprintf("%p", s), true)
				}
			}
		}
	}
	if w.ln != nil {
		_ = w.ln.Close()
	}
	return ok
}
