package main

import (
	"fmt"
	"strings"

	"verifharness/vh"
)

// Go transcription of coq/theories/C16_Model.v.  It is NOT trusted: it only predicts what to wait for and finds a
// resolved label sequence; Coq replays that sequence with `run` and compares the observations itself.

const (
	trPipe = 0
	trTcp  = 1
)

const (
	aSend = iota
	aLocalClose
	aStartAgain
	aSetHandler // Session.UpdateHandler
	aPeerClose
	aPeerRead
	aPeerPause // the peer does not read (any more / yet)
	aPeerByte
	aRecvFault
	aWriteFault
	aSendStep
	aSendLost
	aRecvEnd
	aPick       // internal: the leaving loop reads s.rh inside quit and calls that handler's OnExit
	lStart      // global labels
	lArrive     // a client connects
	lAccept     // internal: the accept loop takes the oldest waiting connection
	lAcceptFail // internal: ln.Accept returned a temporary error
	lFdExhaust  // environment: no file descriptor left for Accept
	lFdRestore
	lSrvClose // Server.Close
)

const (
	rkErr = iota
	rkTimeout
	rkHandlerErr
	rkPanic
	rkPanicNil    // panic with a nil value: recover() answers nil (go 1.19 semantics of the module)
	rkPanicErr    // panic with an error value
	rkPanicCustom // panic with a value of a user type
	rkGoexit      // runtime.Goexit in the handler: deferred calls run, no panic at all
)
const (
	wkErr = iota
	wkTimeout
)

type label struct {
	kind      int
	i         int
	tr        int    // lStart
	reads     bool   // lStart
	bs        []byte // aSend
	ok        bool   // aSend
	k         int    // fault kind
	h         int    // lStart / aSetHandler: handler id (0: the manager's)
	waitRetry bool   // lFdRestore: first wait until the accept loop is seen backing off after a failed Accept
	real      []byte // aSend: the bytes actually handed to Session.Send when they were prepared in advance
	par       bool   // the label belongs to a phase whose calls are made concurrently from different goroutines
	natural   bool   // the fault is not injected: the configured deadline of the manager fires by itself
}

func (l label) internal() bool {
	return l.kind == aSendStep || l.kind == aSendLost || l.kind == aRecvEnd || l.kind == aPick || l.kind == lAccept || l.kind == lAcceptFail
}

var rkNames = []string{"RErr", "RTimeout", "RHandlerErr", "RPanic", "RPanicNil", "RPanicErr", "RPanicCustom", "RGoexit"}
var wkNames = []string{"WErr", "WTimeout"}
var trNames = []string{"Pipe", "Tcp"}

func (l label) coq() string {
	on := func(a string) string { return fmt.Sprintf("On %d (%s)", l.i, a) }
	switch l.kind {
	case lStart:
		return fmt.Sprintf("Start %d %s %s %d", l.i, trNames[l.tr], vh.CoqBool(l.reads), l.h)
	case lArrive:
		return fmt.Sprintf("Arrive %d", l.i)
	case lAccept:
		return fmt.Sprintf("Accept %d", l.i)
	case lAcceptFail:
		return "AcceptFail"
	case lFdExhaust:
		return "FdExhaust"
	case lFdRestore:
		return "FdRestore"
	case lSrvClose:
		return "SrvClose"
	case aSetHandler:
		return on(fmt.Sprintf("SetHandler %d", l.h))
	case aSend:
		return on(fmt.Sprintf("Send %s %s", vh.CoqBytes(l.bs), vh.CoqBool(l.ok)))
	case aLocalClose:
		return fmt.Sprintf("On %d LocalClose", l.i)
	case aStartAgain:
		return fmt.Sprintf("On %d StartAgain", l.i)
	case aPeerClose:
		return fmt.Sprintf("On %d PeerClose", l.i)
	case aPeerRead:
		return fmt.Sprintf("On %d PeerRead", l.i)
	case aPeerPause:
		return fmt.Sprintf("On %d PeerPause", l.i)
	case aPeerByte:
		return fmt.Sprintf("On %d PeerByte", l.i)
	case aRecvFault:
		return on("RecvFault " + rkNames[l.k])
	case aWriteFault:
		return on("WriteFault " + wkNames[l.k])
	case aSendStep:
		return fmt.Sprintf("On %d SendStep", l.i)
	case aSendLost:
		return fmt.Sprintf("On %d SendLost", l.i)
	case aRecvEnd:
		return fmt.Sprintf("On %d RecvEnd", l.i)
	case aPick:
		return fmt.Sprintf("On %d Pick", l.i)
	}
	panic("label")
}

func (l label) String() string {
	switch l.kind {
	case lStart:
		if l.h != 0 {
			return fmt.Sprintf("Start(%d,%s,reads=%v,handler=%d)", l.i, trNames[l.tr], l.reads, l.h)
		}
		return fmt.Sprintf("Start(%d,%s,reads=%v)", l.i, trNames[l.tr], l.reads)
	case lAcceptFail:
		return "AcceptFail"
	case lFdExhaust:
		return "FdExhaust"
	case lFdRestore:
		return "FdRestore"
	case lSrvClose:
		return "SrvClose"
	case aSetHandler:
		return fmt.Sprintf("UpdateHandler(%d,%d)", l.i, l.h)
	case lArrive:
		return fmt.Sprintf("Arrive(%d)", l.i)
	case lAccept:
		return fmt.Sprintf("Accept(%d)", l.i)
	case aSend:
		return fmt.Sprintf("Send(%d,%v,ok=%v)", l.i, l.bs, l.ok)
	case aRecvFault:
		return fmt.Sprintf("RecvFault(%d,%s)", l.i, rkNames[l.k])
	case aWriteFault:
		return fmt.Sprintf("WriteFault(%d,%s)", l.i, wkNames[l.k])
	}
	names := map[int]string{aLocalClose: "LocalClose", aStartAgain: "StartAgain", aPeerClose: "PeerClose", aPeerRead: "PeerRead", aPeerPause: "PeerPause",
		aPeerByte: "PeerByte", aSendStep: "SendStep", aSendLost: "SendLost", aRecvEnd: "RecvEnd", aPick: "Pick"}
	return fmt.Sprintf("%s(%d)", names[l.kind], l.i)
}

func coqLabels(ls []label) string {
	s := make([]string, len(ls))
	for i, l := range ls {
		s[i] = l.coq()
	}
	return vh.CoqList(s)
}

type sessM struct {
	tr        int
	started   bool
	q         [][]byte
	qclosed   bool
	copen     bool
	sendl     bool
	recvl     bool
	exited    bool
	onexit    int
	wfail     bool
	rcause    bool
	peerOpen  bool
	peerReads bool
	rcvd      int
	inbox     []byte
	hid       int // handler in charge
	exitH     int // handler whose OnExit ran
	picked    bool
}

type stM struct {
	maxc, cnt int64
	ss        []sessM
	pend      int  // connections waiting in the listener's queue
	amax      int  // WithAccMaxRetry
	adead     bool // the accept loop has ended
	aretry    int
	fdlim     bool
}

func (t stM) clone() stM {
	n := t
	n.ss = make([]sessM, len(t.ss))
	copy(n.ss, t.ss) // slices inside are never mutated in place (always re-sliced or appended on a fresh copy)
	return n
}

func (t stM) key() string {
	var b strings.Builder
	fmt.Fprintf(&b, "%d|%d|%v%d%v|", t.cnt, t.pend, t.adead, t.aretry, t.fdlim)
	for _, s := range t.ss {
		fmt.Fprintf(&b, "%v%v%v%v%v%v%d%v%v%v%v,%d,%d,%x,%d,%d;", s.started, s.qclosed, s.copen, s.sendl, s.recvl, s.exited, s.onexit,
			s.wfail, s.rcause, s.peerOpen, s.peerReads, s.rcvd, len(s.q), s.inbox, s.hid, s.exitH*2+b2i(s.picked))
		for _, x := range s.q {
			fmt.Fprintf(&b, "%x.", x)
		}
		b.WriteByte('/')
	}
	return b.String()
}

func quitM(s sessM) (sessM, bool) {
	if s.exited {
		return s, false
	}
	s.exited = true
	s.onexit++
	s.qclosed = true
	s.copen = false
	if !s.picked {
		s.exitH = s.hid
	}
	s.picked = true
	return s, true
}

func appendCopy(a []byte, b []byte) []byte {
	n := make([]byte, 0, len(a)+len(b))
	n = append(n, a...)
	return append(n, b...)
}

// sessStep mirrors sess_step; ok=false means not enabled
func sessStep(s sessM, l label) (sessM, bool, bool) {
	switch l.kind {
	case aSend:
		if l.ok != !s.qclosed {
			return s, false, false
		}
		if l.ok {
			nq := make([][]byte, 0, len(s.q)+1)
			nq = append(nq, s.q...)
			s.q = append(nq, l.bs)
		}
		return s, false, true
	case aLocalClose:
		s.qclosed = true
		return s, false, true
	case aStartAgain:
		return s, false, true
	case aSetHandler:
		s.hid = l.h
		return s, false, true
	case aPeerClose:
		if !s.peerOpen {
			return s, false, false
		}
		s.peerOpen = false
		s.rcause = true
		return s, false, true
	case aPeerRead:
		if !(s.peerOpen && !s.peerReads) {
			return s, false, false
		}
		s.peerReads = true
		return s, false, true
	case aPeerPause:
		if !(s.peerOpen && s.peerReads) {
			return s, false, false
		}
		s.peerReads = false
		return s, false, true
	case aPeerByte:
		if !s.peerOpen {
			return s, false, false
		}
		if s.recvl && !s.rcause && s.copen {
			s.rcvd++
		}
		return s, false, true
	case aRecvFault:
		if l.k != rkErr && l.k != rkTimeout && !s.peerOpen {
			return s, false, false
		}
		s.rcause = true
		return s, false, true
	case aWriteFault:
		s.wfail = true
		return s, false, true
	case aSendStep:
		if !s.sendl {
			return s, false, false
		}
		if len(s.q) == 0 {
			if s.qclosed {
				s1, d := quitM(s)
				s1.sendl = false
				return s1, d, true
			}
			return s, false, false
		}
		x, r := s.q[0], s.q[1:]
		if len(x) == 0 { // skipped: nothing to write
			s.q = r
			return s, false, true
		}
		if !s.copen || s.wfail || !s.peerOpen {
			s.q = r
			s1, d := quitM(s)
			s1.sendl = false
			return s1, d, true
		}
		if s.peerReads {
			s.q = r
			s.inbox = appendCopy(s.inbox, x)
			return s, false, true
		}
		return s, false, false
	case aSendLost:
		if !s.sendl || len(s.q) == 0 {
			return s, false, false
		}
		x, r := s.q[0], s.q[1:]
		if len(x) != 0 && s.copen && !s.wfail && !s.peerOpen && s.tr == trTcp {
			s.q = r
			return s, false, true
		}
		return s, false, false
	case aPick:
		if s.picked || s.exited || !canLeave(s) {
			return s, false, false
		}
		s.picked = true
		s.exitH = s.hid
		return s, false, true
	case aRecvEnd:
		if s.recvl && (s.rcause || !s.copen) {
			s1, d := quitM(s)
			s1.recvl = false
			return s1, d, true
		}
		return s, false, false
	}
	panic("sessStep")
}

func canLeave(s sessM) bool {
	if s.recvl && (s.rcause || !s.copen) {
		return true
	}
	if !s.sendl {
		return false
	}
	if len(s.q) == 0 {
		return s.qclosed
	}
	return len(s.q[0]) != 0 && (!s.copen || s.wfail || !s.peerOpen)
}

func freshM(tr int, reads bool, h int) sessM {
	return sessM{tr: tr, started: true, copen: true, sendl: true, recvl: true, peerOpen: true, peerReads: reads, hid: h}
}

func stepM(t stM, l label) (stM, bool) {
	switch l.kind {
	case lStart:
		if l.i != len(t.ss) || t.pend != 0 {
			return t, false
		}
		n := t.clone()
		n.cnt++
		n.ss = append(n.ss, freshM(l.tr, l.reads, l.h))
		return n, true
	case lArrive:
		if l.i != len(t.ss)+t.pend {
			return t, false
		}
		n := t.clone()
		n.pend++
		return n, true
	case lAcceptFail:
		if t.pend == 0 || t.adead || !t.fdlim {
			return t, false
		}
		n := t.clone()
		n.aretry++
		if n.amax <= n.aretry {
			n.adead = true
		}
		return n, true
	case lFdExhaust:
		if t.fdlim {
			return t, false
		}
		n := t.clone()
		n.fdlim = true
		return n, true
	case lFdRestore:
		if !t.fdlim {
			return t, false
		}
		n := t.clone()
		n.fdlim = false
		return n, true
	case lSrvClose:
		if t.pend != 0 {
			return t, false
		}
		n := t.clone()
		n.adead = true
		return n, true
	case lAccept:
		if l.i != len(t.ss) || t.pend == 0 || t.adead || t.fdlim {
			return t, false
		}
		n := t.clone()
		n.aretry = 0
		n.pend--
		if t.maxc <= t.cnt {
			n.ss = append(n.ss, sessM{tr: trTcp, peerOpen: true, peerReads: true})
		} else {
			n.cnt++
			n.ss = append(n.ss, freshM(trTcp, true, 0))
		}
		return n, true
	}
	if l.i < 0 || l.i >= len(t.ss) || !t.ss[l.i].started {
		return t, false
	}
	s1, d, ok := sessStep(t.ss[l.i], l)
	if !ok {
		return t, false
	}
	n := t.clone()
	n.ss[l.i] = s1
	if d {
		n.cnt--
	}
	return n, true
}

func quietM(s sessM) bool {
	if !s.started {
		return true
	}
	for _, k := range []int{aSendStep, aSendLost, aRecvEnd} {
		if _, _, ok := sessStep(s, label{kind: k}); ok {
			return false
		}
	}
	return true
}

func stableM(t stM) bool {
	if t.pend != 0 && !t.adead {
		return false
	}
	for _, s := range t.ss {
		if !quietM(s) {
			return false
		}
	}
	return true
}

// ---- observations ----

type obs1 struct {
	Started bool   `json:"started"`
	OnExit  int    `json:"onexit"`
	Closed  bool   `json:"closed"`
	SendL   int    `json:"send_goroutines"`
	RecvL   int    `json:"recv_goroutines"`
	Rcvd    int    `json:"rcvd"`
	Inbox   []byte `json:"-"`
	InboxS  string `json:"inbox"`
	ExitH   int    `json:"exit_handler"`
}

type obsAll struct {
	Cnt  int64  `json:"count"`
	Loop bool   `json:"accept_loop_alive"`
	Sess []obs1 `json:"sessions"`
}

func (o obs1) eq(p obs1) bool {
	return o.Started == p.Started && o.OnExit == p.OnExit && o.Closed == p.Closed && o.SendL == p.SendL && o.RecvL == p.RecvL &&
		o.Rcvd == p.Rcvd && string(o.Inbox) == string(p.Inbox) && o.ExitH == p.ExitH
}

func (o obsAll) eq(p obsAll) bool {
	if o.Cnt != p.Cnt || o.Loop != p.Loop || len(o.Sess) != len(p.Sess) {
		return false
	}
	for i := range o.Sess {
		if !o.Sess[i].eq(p.Sess[i]) {
			return false
		}
	}
	return true
}

func obsOfM(t stM) obsAll {
	o := obsAll{Cnt: t.cnt, Loop: !t.adead}
	for _, s := range t.ss {
		o.Sess = append(o.Sess, obs1{Started: s.started, OnExit: s.onexit, Closed: !s.copen, SendL: b2i(s.sendl), RecvL: b2i(s.recvl), Rcvd: s.rcvd, Inbox: s.inbox, ExitH: s.exitH})
	}
	for j := 0; j < t.pend; j++ {
		o.Sess = append(o.Sess, obs1{}) // still waiting in the listener's queue
	}
	return o
}

func (o obs1) coq() string {
	return fmt.Sprintf("mkO %s %d%%nat %s %d%%nat %d%%nat %d%%nat %s %d%%nat", vh.CoqBool(o.Started), o.OnExit, vh.CoqBool(o.Closed), o.SendL,
		o.RecvL, o.Rcvd, vh.CoqBytes(o.Inbox), o.ExitH)
}

func (o obsAll) coq() string {
	s := make([]string, len(o.Sess))
	for i, x := range o.Sess {
		s[i] = "(" + x.coq() + ")"
	}
	return fmt.Sprintf("(%s, %s)", vh.CoqZ(o.Cnt), vh.CoqList(s))
}

// ---- search ----

// outcomes: every stable state the model can be in after the issued external labels (in this order) interleaved with
// any internal steps, together with one resolved label sequence leading to it.
type outcome struct {
	st   stM
	path []label
}

// par: the issued labels were calls made concurrently; they may take effect in any order
// guide != nil: only runs whose peer bytes, exit calls and handler bytes stay within the given observation are
// followed, the sessions' own steps are tried first, and the search stops at the first stable state that shows
// exactly that observation (used for concurrent calls, where the number of orders is large).
func explore(t0 stM, issued []label, par bool, guide *obsAll) []outcome {
	if len(issued) > 30 && par {
		panic("explore: too many concurrent labels")
	}
	seen := map[string]bool{}
	var outs []outcome
	// progress through the issued labels: a bit set for concurrent calls (at most 30 of them), a plain index for a
	// sequence (which may be long)
	allDone := func(done uint64) bool {
		if par {
			return done == uint64(1)<<uint(len(issued))-1
		}
		return int(done) == len(issued)
	}
	var rec func(t stM, done uint64, path []label)
	rec = func(t stM, done uint64, path []label) {
		k := fmt.Sprintf("%x#%s", done, t.key())
		if seen[k] {
			return
		}
		seen[k] = true
		if guide != nil {
			if len(outs) > 0 || !within(t, *guide) {
				return
			}
			if allDone(done) && stableM(t) && obsOfM(t).eq(*guide) {
				outs = append(outs, outcome{st: t, path: append([]label{}, path...)})
				return
			}
		} else if allDone(done) && stableM(t) {
			outs = append(outs, outcome{st: t, path: append([]label{}, path...)})
		}
		for i := range t.ss {
			for _, kd := range []int{aSendStep, aSendLost, aRecvEnd, aPick} {
				l := label{kind: kd, i: i}
				if n, ok := stepM(t, l); ok {
					rec(n, done, append(path, l))
				}
			}
		}
		if t.pend > 0 {
			l := label{kind: lAccept, i: len(t.ss)}
			if n, ok := stepM(t, l); ok {
				rec(n, done, append(path, l))
			}
		}
		if par {
			for j := range issued {
				if done&(1<<uint(j)) != 0 {
					continue
				}
				if n, ok := stepM(t, issued[j]); ok {
					rec(n, done|1<<uint(j), append(path, issued[j]))
				}
			}
		} else if int(done) < len(issued) {
			if n, ok := stepM(t, issued[done]); ok {
				rec(n, done+1, append(path, issued[done]))
			}
		}
		// a failing Accept is tried last, so that the run found for an outcome is one with as few failures as possible
		// (Coq compares their number with what the elapsed time allows)
		if n, ok := stepM(t, label{kind: lAcceptFail}); ok {
			rec(n, done, append(path, label{kind: lAcceptFail}))
		}
	}
	rec(t0, 0, nil)
	return outs
}

// within: nothing in the model state has gone beyond what was observed
func within(t stM, g obsAll) bool {
	for i, s := range t.ss {
		if i >= len(g.Sess) {
			return false
		}
		o := g.Sess[i]
		if len(s.inbox) > len(o.Inbox) || string(o.Inbox[:len(s.inbox)]) != string(s.inbox) || s.onexit > o.OnExit || s.rcvd > o.Rcvd {
			return false
		}
	}
	return true
}

func b2i(b bool) int {
	if b {
		return 1
	}
	return 0
}
