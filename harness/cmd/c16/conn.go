package main

import (
	"errors"
	"fmt"
	"net"
	"os"
	"sync"
	"time"
)

// faultConn wraps the session side of a connection.  It passes everything through to the real net.Pipe / TCP
// connection and can, on command, make the pending (or next) Read or Write fail with an error or with an expired
// deadline.  It records whether Close was called.

var errInjectedRead = errors.New("c16: injected read error")
var errInjectedWrite = errors.New("c16: injected write error")

type c16Addr string

func (a c16Addr) Network() string { return "c16" }
func (a c16Addr) String() string  { return string(a) }

const (
	faultNone = iota
	faultErr
	faultTimeout
)

type faultConn struct {
	under net.Conn
	name  c16Addr

	mu         sync.Mutex
	rfault     int
	wfault     int
	closeCalls int
	readDl     int // SetReadDeadline calls made by the session
	writeDl    int

	// amp > 1: every byte the session writes goes onto the wire amp times (the peer side of the harness folds
	// them back).  Payloads stay a few bytes in the case terms while a loopback TCP connection carries enough
	// data for the kernel buffers to fill and the session's Write to block on a slowly reading peer.
	amp int

	// closed (once) when a Write of the session has returned an error: the partial-write peer waits for it
	werr     chan struct{}
	werrOnce sync.Once

	closeErr    bool // Close closes the connection and then reports an error (as a tls.Conn whose peer is gone does)
	closeWrites int  // CloseWrite calls (only through faultConnHC)
}

var errInjectedClose = errors.New("c16: injected error returned by Close after closing")

// faultConnHC is what a session over TCP is given: the same wrapper, but like *net.TCPConn it can also shut down
// the write direction only.  A session that merely half-closes its connection is seen as not having closed it.
type faultConnHC struct {
	*faultConn
}

func (c *faultConnHC) CloseWrite() error {
	c.mu.Lock()
	c.closeWrites++
	c.mu.Unlock()
	return c.under.(*net.TCPConn).CloseWrite()
}

// forSession returns the net.Conn handed to the session.
func (c *faultConn) forSession() net.Conn {
	if _, ok := c.under.(*net.TCPConn); ok {
		return &faultConnHC{c}
	}
	return c
}

func newFaultConn(under net.Conn, id int) *faultConn {
	return &faultConn{under: under, name: c16Addr(fmt.Sprintf("c16/%d", id)), werr: make(chan struct{})}
}

func (c *faultConn) Read(b []byte) (int, error) {
	c.mu.Lock()
	f := c.rfault
	c.mu.Unlock()
	if f != faultNone {
		return 0, c.readErr(f, nil)
	}
	n, err := c.under.Read(b)
	if err != nil {
		c.mu.Lock()
		f = c.rfault
		c.mu.Unlock()
		if f != faultNone {
			return n, c.readErr(f, err)
		}
	}
	return n, err
}

func (c *faultConn) readErr(f int, real error) error {
	if f == faultErr {
		return errInjectedRead
	}
	if real != nil {
		return real // the expired deadline reported by the connection itself
	}
	return os.ErrDeadlineExceeded
}

func (c *faultConn) Write(b []byte) (int, error) {
	c.mu.Lock()
	f := c.wfault
	c.mu.Unlock()
	if f != faultNone {
		return 0, c.writeErr(f, nil)
	}
	var n int
	var err error
	if c.amp > 1 {
		big := make([]byte, 0, len(b)*c.amp)
		for _, x := range b {
			for j := 0; j < c.amp; j++ {
				big = append(big, x)
			}
		}
		n, err = c.under.Write(big)
		n /= c.amp
	} else {
		n, err = c.under.Write(b)
	}
	if err != nil {
		c.werrOnce.Do(func() { close(c.werr) })
		c.mu.Lock()
		f = c.wfault
		c.mu.Unlock()
		if f != faultNone {
			return n, c.writeErr(f, err)
		}
	}
	return n, err
}

func (c *faultConn) writeErr(f int, real error) error {
	if f == faultErr {
		return errInjectedWrite
	}
	if real != nil {
		return real
	}
	return os.ErrDeadlineExceeded
}

// injectRead makes the pending read (if any) and every later read fail.
func (c *faultConn) injectRead(kind int) {
	c.mu.Lock()
	c.rfault = kind
	_ = c.under.SetReadDeadline(time.Now().Add(-time.Second)) // wakes a read that is already blocked
	c.mu.Unlock()
}

// injectWrite makes the pending write (if any) and every later write fail.
func (c *faultConn) injectWrite(kind int) {
	c.mu.Lock()
	c.wfault = kind
	_ = c.under.SetWriteDeadline(time.Now().Add(-time.Second))
	c.mu.Unlock()
}

func (c *faultConn) Close() error {
	c.mu.Lock()
	c.closeCalls++
	ce := c.closeErr
	c.mu.Unlock()
	err := c.under.Close()
	if ce {
		return errInjectedClose
	}
	return err
}

func (c *faultConn) closed() bool {
	c.mu.Lock()
	defer c.mu.Unlock()
	return c.closeCalls > 0
}

func (c *faultConn) LocalAddr() net.Addr  { return c.under.LocalAddr() }
func (c *faultConn) RemoteAddr() net.Addr { return c.name }

func (c *faultConn) SetDeadline(t time.Time) error {
	if err := c.SetReadDeadline(t); err != nil {
		return err
	}
	return c.SetWriteDeadline(t)
}

func (c *faultConn) SetReadDeadline(t time.Time) error {
	c.mu.Lock()
	defer c.mu.Unlock()
	c.readDl++
	if c.rfault != faultNone {
		return nil // the injected fault stays armed
	}
	return c.under.SetReadDeadline(t)
}

func (c *faultConn) SetWriteDeadline(t time.Time) error {
	c.mu.Lock()
	defer c.mu.Unlock()
	c.writeDl++
	if c.wfault != faultNone {
		return nil
	}
	return c.under.SetWriteDeadline(t)
}
