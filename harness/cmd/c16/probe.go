package main

import (
	"regexp"
	"runtime"
	"strings"
	"sync"
)

// One goroutine as printed by runtime.Stack.
type gInfo struct {
	state string // wait reason / status between the brackets, without the duration
	body  string
}

var stackBuf = make([]byte, 1<<20)

func allGoroutines() []gInfo {
	for {
		n := runtime.Stack(stackBuf, true)
		if n < len(stackBuf) {
			return parseStacks(string(stackBuf[:n]))
		}
		stackBuf = make([]byte, 2*len(stackBuf))
	}
}

var hdrRe = regexp.MustCompile(`^goroutine \d+ \[([^\],]+)`)

func parseStacks(s string) []gInfo {
	var out []gInfo
	for _, blk := range strings.Split(s, "\n\n") {
		m := hdrRe.FindStringSubmatch(blk)
		if m == nil {
			continue
		}
		out = append(out, gInfo{state: m[1], body: blk})
	}
	return out
}

const fnLoopSend = "stcp.(*Session).loopSend("
const fnLoopRecv = "stcp.(*Session).loopReceive("
const fnLoopAccept = "stcp.(*Server).loopAccept("

var argRe = regexp.MustCompile(`\((0x[0-9a-f]+)\??[,)]`)

// receiver pointer printed in the frame line of fn, "" when it cannot be read
func frameRecv(body, fn string) string {
	i := strings.Index(body, fn)
	if i < 0 {
		return ""
	}
	line := body[i+len(fn)-1:]
	if j := strings.IndexByte(line, '\n'); j >= 0 {
		line = line[:j]
	}
	m := argRe.FindStringSubmatch(line)
	if m == nil {
		return ""
	}
	return m[1]
}

// parked: the goroutine waits for an external event.  It is recognised by the runtime's wait reason alone (the
// caller has already identified the goroutine by its top-level frame - loopSend, loopReceive, the harness's own peer
// functions), never by the name of the queue / connection method it happens to wait in: any correct implementation
// parks its send loop waiting for work (condition variable, channel, select) and its receive loop in a read
// (netpoll, net.Pipe's select).  Transient states - running, runnable, waiting for a mutex or a Once, sleeping - are
// not parked.
func parkedState(g gInfo) bool {
	switch g.state {
	case "sync.Cond.Wait", "select", "IO wait", "chan receive", "chan receive (nil chan)", "select (no cases)":
		return true
	}
	return false
}

// loopCensus: per session pointer, how many goroutines sit in loopSend / loopReceive, and whether every goroutine
// of the system under observation (session loops, accept loop, the harness's own peer goroutines) is parked.
type census struct {
	send, recv map[string]int
	unknown    int             // loop goroutines whose receiver could not be read
	allParked  bool            // no observed goroutine is runnable / running / in a transient wait
	acceptors  int             // goroutines inside any (*Server).loopAccept
	acc        map[string]int  // ... keyed by the *Server printed in the frame
	accSleep   map[string]bool // ... that one is sleeping (backing off after a failed Accept)
	busy       string
}

// retired: sessions of earlier scenarios whose goroutines did not go away at shutdown (only a broken tree leaves
// any).  They are reported once, at the shutdown of their scenario, and ignored afterwards so that they do not blur
// the observations of later scenarios.  A live goroutine keeps its session reachable, so the address cannot be
// handed to a new session while the old goroutine exists; a new session at a retired address un-retires it.
var retired = map[string]bool{}
var retiredMu sync.Mutex

func isRetired(p string) bool {
	retiredMu.Lock()
	defer retiredMu.Unlock()
	return retired[p]
}
func setRetired(p string, v bool) {
	retiredMu.Lock()
	if v {
		retired[p] = true
	} else {
		delete(retired, p)
	}
	retiredMu.Unlock()
}

func takeCensus() census {
	c := census{send: map[string]int{}, recv: map[string]int{}, acc: map[string]int{}, accSleep: map[string]bool{}, allParked: true}
	for _, g := range allGoroutines() {
		switch {
		case strings.Contains(g.body, fnLoopSend):
			p := frameRecv(g.body, fnLoopSend)
			if isRetired(p) {
				continue
			}
			if p == "" {
				c.unknown++
			}
			c.send[p]++
			if !parkedState(g) {
				c.allParked = false
				c.busy = g.body
			}
		case strings.Contains(g.body, fnLoopRecv):
			p := frameRecv(g.body, fnLoopRecv)
			if isRetired(p) {
				continue
			}
			if p == "" {
				c.unknown++
			}
			c.recv[p]++
			if !parkedState(g) {
				c.allParked = false
				c.busy = g.body
			}
		case strings.Contains(g.body, fnLoopAccept):
			c.acceptors++
			ap := frameRecv(g.body, fnLoopAccept)
			c.acc[ap]++
			if g.state == "sleep" {
				c.accSleep[ap] = true
			}
			if g.state != "IO wait" {
				c.allParked = false
				c.busy = g.body
			}
		case strings.Contains(g.body, "main.(*realSess).peerReadLoop(") || strings.Contains(g.body, "main.(*realSess).peerWrite(") ||
			strings.Contains(g.body, "main.(*realSess).peerPacedLoop("):
			if !parkedState(g) {
				c.allParked = false
				c.busy = g.body
			}
		}
	}
	return c
}
