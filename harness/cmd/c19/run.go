package main

import (
	"errors"
	"fmt"
	"strings"
	"time"

	"github.com/pinealctx/neptune/idgen/random"
	"github.com/pinealctx/neptune/tex"
	"github.com/pinealctx/neptune/vcode"
	"verifharness/vh"
)

// ---------------------------------------------------------------- scripts (inputs only; replayable)

type cfgScript struct {
	CacheSize       int64 `json:"cache_size"`
	Mock            bool  `json:"mock"`
	CodeLen         int   `json:"code_len"`
	TTL             int64 `json:"ttl_ns"`
	MinInterval     int64 `json:"min_interval_ns"`
	CounterDuration int64 `json:"counter_duration_ns"`
	MaxCount        int   `json:"max_count"`
	MaxVerify       int   `json:"max_verify"`
}

// opScript is one call.  Code / Hash say how the verifier's arguments are derived from what the
// harness saw so far for pair (A, P): "right" = the code / hash of the last send that went out,
// "stale" = those of the send before, "mut" = right with the character at Pos changed,
// "long" / "short" = one character more / less, "empty", "other" = the right value of pair (OA, OP),
// "lit" = the literal Lit.
type opScript struct {
	K     string `json:"k"` // "send" | "verify" | "sleep" (timed class only: let SleepNs of real time pass)
	N     int    `json:"n,omitempty"` // the call is made N times in a row (0 = once)
	Sleep int64  `json:"sleep_ns,omitempty"`
	A     string `json:"a"`
	P     string `json:"p"`
	SmsOK bool   `json:"sms_ok,omitempty"`
	Code  string `json:"code,omitempty"`
	Hash  string `json:"hash,omitempty"`
	Pos   int    `json:"pos,omitempty"`
	OA    string `json:"oa,omitempty"`
	OP    string `json:"op,omitempty"`
	Lit   string `json:"lit,omitempty"`
}

type script struct {
	Class string     `json:"class"`
	RL    bool       `json:"rl,omitempty"` // emit the history in run-length form (long histories)
	Cfg   cfgScript  `json:"cfg"`
	Ops   []opScript `json:"ops"`
}

// ---------------------------------------------------------------- recording SMS sender

var errSms = errors.New("sms-gateway-down")

type fakeSMS struct {
	ok    bool
	calls [][3]string
}

func (f *fakeSMS) SendCode(areaCode, phone, code string) error {
	f.calls = append(f.calls, [3]string{areaCode, phone, code})
	if !f.ok {
		return errSms
	}
	return nil
}

// ---------------------------------------------------------------- observation

type obsRec struct {
	Kind   string      `json:"kind"` // send | verify
	A      string      `json:"a"`
	P      string      `json:"p"`
	Code   string      `json:"code,omitempty"`
	Hash   string      `json:"hash,omitempty"`
	T      int64       `json:"t_ns"`
	ta     int64
	SmsOK  bool        `json:"sms_ok,omitempty"`
	Err    string      `json:"err"`
	RHash  string      `json:"returned_hash,omitempty"`
	Calls  [][3]string `json:"sms_calls,omitempty"`
	Panic  string      `json:"panic,omitempty"`
	Count  int         `json:"count,omitempty"` // run-length form: this many consecutive identical calls / observations
	hashID int64
	rhID   int64
}

func errClass(err error) string {
	switch {
	case err == nil:
		return "None"
	case errors.Is(err, errSms):
		return "Some SmsFail"
	case errors.Is(err, vcode.ErrSendTooFreq):
		return "Some TooFreq"
	case errors.Is(err, vcode.ErrSendCountLimit):
		return "Some CountLimit"
	case errors.Is(err, vcode.ErrVerifyCodeRetryLimit):
		return "Some RetryLimit"
	case errors.Is(err, vcode.ErrVerifyCodeNotExist):
		return "Some NotExist"
	case errors.Is(err, vcode.ErrVerifyCodeNotMatch):
		return "Some NotMatch"
	case errors.Is(err, vcode.ErrVerifyCodeHashNotMatch):
		return "Some HashNotMatch"
	case errors.Is(err, vcode.ErrVerifyCodeTimeout):
		return "Some Timeout"
	}
	return "Some Unknown"
}

// hash strings are opaque to the property: they are interned (equal strings = equal numbers, "" = 0)
type interner struct{ m map[string]int64 }

func (in *interner) id(s string) int64 {
	if s == "" {
		return 0
	}
	if v, ok := in.m[s]; ok {
		return v
	}
	v := int64(len(in.m) + 1)
	in.m[s] = v
	return v
}

type pairSeen struct {
	code, hash         string
	prevCode, prevHash string
	sent               bool
}

func mockCode(phone string, n int) string {
	l := len(phone)
	if n < 0 {
		return phone
	}
	if l >= n {
		return phone[l-n:]
	}
	return strings.Repeat("0", n-l) + phone
}

func mutate(s string, pos int, alphabet string) string {
	if s == "" {
		return alphabet[:1]
	}
	if pos < 0 {
		pos = -pos
	}
	pos %= len(s)
	b := []byte(s)
	i := strings.IndexByte(alphabet, b[pos])
	b[pos] = alphabet[(i+1+len(alphabet))%len(alphabet)]
	return string(b)
}

func derive(how string, right, stale, other, lit string, pos int, alphabet string) string {
	switch how {
	case "right", "":
		return right
	case "stale":
		return stale
	case "mut":
		return mutate(right, pos, alphabet)
	case "long":
		return right + alphabet[:1]
	case "short":
		if right == "" {
			return alphabet[:1]
		}
		return right[1:]
	case "empty":
		return ""
	case "other":
		return other
	case "lit":
		return lit
	// structured near-misses: strings a lenient comparison (decoding, trimming, numeric parsing) would take for the right one
	case "upper":
		return strings.ToUpper(right)
	case "mixed":
		b := []byte(right)
		for i := range b {
			if (i+pos)%2 == 0 && b[i] >= 'a' && b[i] <= 'z' {
				b[i] -= 'a' - 'A'
			}
		}
		return string(b)
	case "lspace":
		return " " + right
	case "tspace":
		return right + " "
	case "newline":
		return right + "\n"
	case "0x":
		return "0x" + right
	case "doubled":
		return right + right
	case "dropzero":
		if strings.HasPrefix(right, "0") {
			return right[1:]
		}
		return strings.TrimLeft(right, "123456789abcdef")
	case "addzero":
		return "0" + right
	case "plus":
		return "+" + right
	case "fullwidth":
		// the same digits as full-width forms (U+FF10..): equal after Unicode digit folding, not as strings
		var sb strings.Builder
		for _, ch := range right {
			if ch >= '0' && ch <= '9' {
				sb.WriteRune(0xFF10 + (ch - '0'))
			} else {
				sb.WriteRune(ch)
			}
		}
		return sb.String()
	}
	return right
}

// runScript runs one history on a fresh service instance and returns the observed case.
func runScript(s *script) vh.Case {
	c, _ := runScriptTimed(s)
	return c
}

// midDurations: the configured durations that are neither below zero / zero nor at least 1000 h,
// i.e. those whose comparisons depend on how much real time passed between two calls.
func midDurations(c *cfgScript) []int64 {
	var ds []int64
	for _, d := range []int64{c.TTL, c.MinInterval, c.CounterDuration} {
		if d > 0 && d < 1000*hour {
			ds = append(ds, d)
		}
	}
	return ds
}

// runScriptTimed also reports whether the timing was unambiguous: for every two calls i < j and every
// mid-range duration D, the time between them - wherever inside the two calls the service read its
// clock - is clearly below or clearly above D (margin D/10).  Only then does the time stamp taken
// just before a call stand for the service's own clock reading in every comparison.
func runScriptTimed(s *script) (vh.Case, bool) {
	cfg := &vcode.Config{
		CacheSize:       s.Cfg.CacheSize,
		Mock:            s.Cfg.Mock,
		CodeLen:         s.Cfg.CodeLen,
		TTL:             tex.Duration(s.Cfg.TTL),
		MinInterval:     tex.Duration(s.Cfg.MinInterval),
		CounterDuration: tex.Duration(s.Cfg.CounterDuration),
		MaxCount:        s.Cfg.MaxCount,
		MaxVerifyCount:  s.Cfg.MaxVerify,
	}
	sms := &fakeSMS{}
	logic := vcode.NewSimpleLogic(cfg, sms, nil)
	in := &interner{m: map[string]int64{}}
	seen := map[string]*pairSeen{}
	get := func(a, p string) *pairSeen {
		k := a + "\x00" + p
		if seen[k] == nil {
			seen[k] = &pairSeen{}
		}
		return seen[k]
	}
	start := time.Now()
	var recs []obsRec
	nontrivial := false
	var flat []opScript
	for _, o := range s.Ops {
		flat = append(flat, o)
		for i := 1; i < o.N; i++ {
			flat = append(flat, o)
		}
	}
	for _, o := range flat {
		ps := get(o.A, o.P)
		rec := obsRec{Kind: o.K, A: o.A, P: o.P}
		switch o.K {
		case "send":
			sms.ok = o.SmsOK
			sms.calls = nil
			rec.SmsOK = o.SmsOK
			var h string
			var err error
			rec.T = int64(time.Since(start)) + 1_000_000_000
			func() {
				defer func() {
					if r := recover(); r != nil {
						rec.Panic = fmt.Sprint(r)
					}
				}()
				h, err = logic.SendSMSCode(o.A, o.P)
			}()
			rec.ta = int64(time.Since(start)) + 1_000_000_000
			rec.Calls = sms.calls
			if rec.Panic == "" {
				rec.Err = errClass(err)
				rec.RHash = h
				rec.rhID = in.id(h)
				if rec.Err == "None" || rec.Err == "Some SmsFail" {
					ps.prevCode, ps.prevHash = ps.code, ps.hash
					ps.hash = h
					if s.Cfg.Mock || len(sms.calls) == 0 {
						ps.code = mockCode(o.P, s.Cfg.CodeLen)
					} else {
						ps.code = sms.calls[len(sms.calls)-1][2]
					}
					ps.sent = true
				}
			}
		case "verify":
			if ps.sent {
				nontrivial = true
			}
			right, rightH := ps.code, ps.hash
			if !ps.sent {
				right, rightH = mockCode(o.P, s.Cfg.CodeLen), "00000000000000000000000000000000"
			}
			op := get(o.OA, o.OP)
			rec.Code = derive(o.Code, right, ps.prevCode, op.code, o.Lit, o.Pos, "0123456789")
			rec.Hash = derive(o.Hash, rightH, ps.prevHash, op.hash, o.Lit, o.Pos, "0123456789abcdef")
			rec.hashID = in.id(rec.Hash)
			var err error
			rec.T = int64(time.Since(start)) + 1_000_000_000
			func() {
				defer func() {
					if r := recover(); r != nil {
						rec.Panic = fmt.Sprint(r)
					}
				}()
				err = logic.VerifySMSCode(o.A, o.P, rec.Code, rec.Hash)
			}()
			rec.ta = int64(time.Since(start)) + 1_000_000_000
			if rec.Panic == "" {
				rec.Err = errClass(err)
			}
		case "sleep":
			time.Sleep(time.Duration(o.Sleep))
			continue
		default:
			panic("bad op kind " + o.K)
		}
		recs = append(recs, rec)
	}
	mode := "real"
	if s.Cfg.Mock {
		mode = "mock"
	}
	clear := true
	for _, d := range midDurations(&s.Cfg) {
		for j := range recs {
			for i := 0; i < j; i++ {
				lo, hi := recs[j].T-recs[i].ta, recs[j].ta-recs[i].T
				if lo-d/10 <= d && d <= hi+d/10 {
					clear = false
				}
			}
		}
	}
	coq := ""
	if s.RL {
		recs = compress(recs)
		coq = coqHistR(&s.Cfg, recs)
	} else {
		coq = coqHist(&s.Cfg, recs)
	}
	return vh.Case{
		Coq:        coq,
		Desc:       map[string]interface{}{"cfg": s.Cfg, "history": recs},
		Class:      s.Class + "/" + mode,
		Nontrivial: nontrivial,
		Key:        replayString(replayArg{Hist: s}),
		Replay:     replayString(replayArg{Hist: s}),
	}, clear
}

// ---------------------------------------------------------------- Coq terms

func coqStr(s string) string {
	for i := 0; i < len(s); i++ {
		if s[i] < 32 || s[i] > 126 {
			// bytes outside printable ASCII: spelled out (sb of C19_Model.v)
			xs := make([]string, len(s))
			for j := 0; j < len(s); j++ {
				xs[j] = fmt.Sprintf("%d", s[j])
			}
			return "(sb [" + strings.Join(xs, ";") + "]%N)"
		}
	}
	return "\"" + strings.ReplaceAll(s, "\"", "\"\"") + "\"%string"
}

func coqCalls(calls [][3]string) string {
	xs := make([]string, len(calls))
	for i, c := range calls {
		xs[i] = fmt.Sprintf("(%s, %s, %s)", coqStr(c[0]), coqStr(c[1]), coqStr(c[2]))
	}
	return vh.CoqList(xs)
}

// compress groups consecutive identical calls with identical observations into one record with a count
// (time stamp: that of the first call; all durations of such histories are in the always / never regimes).
// Consecutive mock-mode sends to one pair that all went out differ only in the returned hash; no call in
// between could have presented the earlier hashes, so the group carries the last one.
func compress(recs []obsRec) []obsRec {
	var out []obsRec
	for _, r := range recs {
		if n := len(out); n > 0 {
			l := &out[n-1]
			same := l.Kind == r.Kind && l.A == r.A && l.P == r.P && l.Code == r.Code && l.hashID == r.hashID &&
				l.SmsOK == r.SmsOK && l.Err == r.Err && l.Panic == r.Panic && len(l.Calls) == len(r.Calls)
			for i := 0; same && i < len(l.Calls); i++ {
				same = l.Calls[i] == r.Calls[i]
			}
			wentOut := r.Kind == "send" && r.Panic == "" && r.Err == "None" && len(r.Calls) == 0
			if same && (l.rhID == r.rhID || wentOut) {
				l.Count++
				l.RHash, l.rhID = r.RHash, r.rhID
				continue
			}
		}
		r.Count = 1
		out = append(out, r)
	}
	return out
}

func coqHistR(c *cfgScript, recs []obsRec) string {
	plain := coqItems(recs)
	items := make([]string, len(recs))
	for i := range recs {
		items[i] = fmt.Sprintf("(%d%%N, %s)", recs[i].Count, plain[i])
	}
	return "CHistR " + coqCfg(c) + " " + vh.CoqList(items)
}

func coqHist(c *cfgScript, recs []obsRec) string {
	return "CHist " + coqCfg(c) + " " + vh.CoqList(coqItems(recs))
}

func coqItems(recs []obsRec) []string {
	items := make([]string, len(recs))
	for i, r := range recs {
		var op, ob string
		switch r.Kind {
		case "send":
			op = fmt.Sprintf("Send %s %s %s %s", coqStr(r.A), coqStr(r.P), vh.CoqZ(r.T), vh.CoqBool(r.SmsOK))
			ob = fmt.Sprintf("RSend %s (%s) %s", vh.CoqZ(r.rhID), r.Err, coqCalls(r.Calls))
		case "verify":
			op = fmt.Sprintf("Verify %s %s %s %s %s", coqStr(r.A), coqStr(r.P), coqStr(r.Code), vh.CoqZ(r.hashID), vh.CoqZ(r.T))
			ob = fmt.Sprintf("RVerify (%s)", r.Err)
		}
		if r.Panic != "" {
			ob = "RPanic"
		}
		items[i] = fmt.Sprintf("(%s, %s)", op, ob)
	}
	return items
}

func coqCfg(c *cfgScript) string {
	return fmt.Sprintf("{| cacheSize := %s; mock := %s; codeLen := %s; ttl := %s; minInterval := %s; counterDuration := %s; maxCount := %s; maxVerify := %s |}",
		vh.CoqZ(c.CacheSize), vh.CoqBool(c.Mock), vh.CoqZ(int64(c.CodeLen)), vh.CoqZ(c.TTL), vh.CoqZ(c.MinInterval),
		vh.CoqZ(c.CounterDuration), vh.CoqZ(int64(c.MaxCount)), vh.CoqZ(int64(c.MaxVerify)))
}

// ---------------------------------------------------------------- nonce generator with a scripted draw function

type nonceScript struct {
	Base    string  `json:"base"`
	N       int     `json:"n"`
	Raw     bool    `json:"raw"`
	Targets []int64 `json:"targets"`
}

func runNonce(s *nonceScript) vh.Case {
	var bounds []int64
	k := 0
	fn := func(b int) int {
		bounds = append(bounds, int64(b))
		var t int64
		if k < len(s.Targets) {
			t = s.Targets[k]
		}
		k++
		if s.Raw || b <= 0 {
			return int(t)
		}
		if t > int64(b-1) {
			return b - 1
		}
		return int(t)
	}
	var out string
	var pan string
	func() {
		defer func() {
			if r := recover(); r != nil {
				pan = fmt.Sprint(r)
			}
		}()
		out = random.VerifGenNonceStr(s.Base, s.N, fn)
	}()
	o := vh.CoqOpt(coqStr(out), pan == "")
	desc := map[string]interface{}{"base": s.Base, "n": s.N, "raw": s.Raw, "targets": s.Targets, "bounds_asked": bounds, "out": out, "panic": pan}
	cls := "nonce"
	if s.Raw {
		cls = "nonce-raw"
	}
	return vh.Case{
		Coq:        fmt.Sprintf("CNonce %s %s %s %s %s %s", coqStr(s.Base), vh.CoqZ(int64(s.N)), vh.CoqBool(s.Raw), vh.CoqZList(s.Targets), vh.CoqZList(bounds), o),
		Desc:       desc,
		Class:      cls,
		Nontrivial: s.N > 0 && len(s.Base) > 0,
		Replay:     replayString(replayArg{Nonce: s}),
	}
}

// ---------------------------------------------------------------- a sample of codes drawn by the real generator

type sampleScript struct {
	CodeLen int `json:"code_len"`
	Count   int `json:"count"`
}

func runSample(s *sampleScript) vh.Case {
	cfg := &vcode.Config{CacheSize: 16, Mock: false, CodeLen: s.CodeLen, TTL: tex.Duration(time.Hour),
		MinInterval: 0, CounterDuration: tex.Duration(-1), MaxCount: 1, MaxVerifyCount: 3}
	sms := &fakeSMS{ok: true}
	logic := vcode.NewSimpleLogic(cfg, sms, nil)
	codes := make([]string, 0, s.Count)
	for i := 0; i < s.Count; i++ {
		sms.calls = nil
		_, err := logic.SendSMSCode("86", "13900000000")
		c := "send-failed"
		if err == nil && len(sms.calls) == 1 {
			c = sms.calls[0][2]
		}
		for j := 0; j < len(c); j++ {
			if c[j] < 32 || c[j] > 126 {
				c = "non-printable"
			}
		}
		codes = append(codes, c)
	}
	xs := make([]string, len(codes))
	for i, c := range codes {
		xs[i] = coqStr(c)
	}
	return vh.Case{
		Coq:        fmt.Sprintf("CSample %s %s", vh.CoqZ(int64(s.CodeLen)), vh.CoqList(xs)),
		Desc:       map[string]interface{}{"code_len": s.CodeLen, "codes": codes},
		Class:      "sample",
		Nontrivial: s.CodeLen > 0 && s.Count > 0,
		Key:        fmt.Sprintf("sample %d %d", s.CodeLen, s.Count),
		Replay:     replayString(replayArg{Sample: s}),
	}
}
