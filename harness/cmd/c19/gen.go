package main

import (
	"math"
	"math/rand"
	"strings"
	"sync"

	"verifharness/vh"
)

// Durations only in the always / never regimes (the service reads the real clock):
// "huge" is at least 1000 h, far above the run time of a history; "neg" is below zero.
const hour = int64(3600) * 1_000_000_000

func hugeDur(r *rand.Rand) int64 {
	switch r.Intn(4) {
	case 0:
		return 1000 * hour
	case 1:
		return math.MaxInt64
	case 2:
		return 24 * 365 * 100 * hour
	}
	return 1000*hour + r.Int63n(1000*hour)
}
func negDur(r *rand.Rand) int64 {
	switch r.Intn(4) {
	case 0:
		return -1
	case 1:
		return math.MinInt64
	case 2:
		return -hour
	}
	return -1 - r.Int63n(1_000_000_000)
}

func smallLimit(r *rand.Rand) int {
	switch x := r.Intn(20); {
	case x == 0:
		return -1
	case x == 1:
		return 1 << 30
	case x < 5:
		return 0
	case x < 9:
		return 1
	default:
		return 2 + r.Intn(3)
	}
}

func digits(r *rand.Rand, n int) string {
	b := make([]byte, n)
	for i := range b {
		b[i] = byte('0' + r.Intn(10))
	}
	return string(b)
}

type pair struct{ a, p string }

// pairs: mostly digit strings of realistic and of boundary lengths (empty, shorter / equal / longer than the
// code length); same phone under two area codes and same area with two phones, so that "any other phone" is exercised
func genPairs(r *rand.Rand, n int, codeLen int) []pair {
	areas := []string{"86", "1", "852", "", "0086"}
	var ps []pair
	for len(ps) < n {
		a := areas[r.Intn(len(areas))]
		var l int
		switch r.Intn(8) {
		case 0:
			l = 0
		case 1:
			l = codeLen
		case 2:
			l = codeLen - 1
		case 3:
			l = codeLen + 1
		case 4:
			l = 1 + r.Intn(3)
		default:
			l = 11
		}
		if l < 0 {
			l = 0
		}
		if l > 14 {
			l = 14
		}
		p := digits(r, l)
		if len(ps) > 0 && r.Intn(4) == 0 {
			// share a component with an earlier pair
			q := ps[r.Intn(len(ps))]
			if r.Intn(2) == 0 {
				p = q.p
			} else {
				a = q.a
			}
		}
		dup := false
		for _, q := range ps {
			if q.a == a && q.p == p {
				dup = true
			}
		}
		if !dup {
			ps = append(ps, pair{a, p})
		}
	}
	return ps
}

// pairs whose "%s-%s" keys coincide or nearly do (the malformed stream: a '-' inside a component)
func genDashPairs(r *rand.Rand) []pair {
	x, y, z := digits(r, 1+r.Intn(2)), digits(r, 1+r.Intn(3)), digits(r, 2+r.Intn(4))
	return []pair{{x + "-" + y, z}, {x, y + "-" + z}, {x, y + z}, {x + y, z}, {"+" + x, y + " " + z}}
}

func genCfg(r *rand.Rand) cfgScript {
	c := cfgScript{CacheSize: 1000, Mock: r.Intn(2) == 0}
	switch x := r.Intn(16); {
	case x == 0:
		c.CodeLen = 0
	case x == 1:
		c.CodeLen = 1
	case x == 2:
		c.CodeLen = 11
	case x == 3:
		c.CodeLen = 12
	default:
		c.CodeLen = 4 + r.Intn(5)
	}
	if r.Intn(5) == 0 {
		c.TTL = negDur(r)
	} else {
		c.TTL = hugeDur(r)
	}
	switch x := r.Intn(10); {
	case x < 5:
		c.MinInterval = 0
	case x < 7:
		c.MinInterval = negDur(r)
	default:
		c.MinInterval = hugeDur(r)
	}
	if r.Intn(4) == 0 {
		c.CounterDuration = negDur(r)
	} else {
		c.CounterDuration = hugeDur(r)
	}
	c.MaxCount = smallLimit(r)
	c.MaxVerify = smallLimit(r)
	return c
}

var codeHows = []string{"mut", "mut", "stale", "long", "short", "empty", "other", "lit", "dropzero", "addzero", "plus", "tspace", "lspace", "newline", "fullwidth", "doubled"}
var hashHows = []string{"mut", "stale", "empty", "other", "lit", "upper", "upper", "mixed", "lspace", "tspace", "newline", "0x", "doubled", "short", "long"}

func genVerify(r *rand.Rand, ps []pair, q pair) opScript {
	o := opScript{K: "verify", A: q.a, P: q.p, Code: "right", Hash: "right", Pos: r.Intn(32)}
	other := ps[r.Intn(len(ps))]
	o.OA, o.OP = other.a, other.p
	switch x := r.Intn(10); {
	case x < 5:
	case x < 7:
		o.Code = codeHows[r.Intn(len(codeHows))]
	case x < 9:
		o.Hash = hashHows[r.Intn(len(hashHows))]
	default:
		o.Code = codeHows[r.Intn(len(codeHows))]
		o.Hash = hashHows[r.Intn(len(hashHows))]
	}
	if o.Code == "lit" || o.Hash == "lit" {
		o.Lit = digits(r, r.Intn(8))
	}
	return o
}

func genSend(r *rand.Rand, q pair) opScript {
	return opScript{K: "send", A: q.a, P: q.p, SmsOK: r.Intn(6) != 0}
}

// ---------------------------------------------------------------- history classes

// random: any mix over a few pairs
func histRandom(r *rand.Rand) *script {
	c := genCfg(r)
	ps := genPairs(r, 1+r.Intn(4), c.CodeLen)
	n := 6 + r.Intn(20)
	s := &script{Class: "random", Cfg: c}
	for i := 0; i < n; i++ {
		q := ps[r.Intn(len(ps))]
		if r.Intn(3) == 0 {
			s.Ops = append(s.Ops, genSend(r, q))
		} else {
			s.Ops = append(s.Ops, genVerify(r, ps, q))
		}
	}
	return s
}

// attempts: send, k guesses with k around the limit, the right code, a new send, the right code again
func histAttempts(r *rand.Rand) *script {
	c := genCfg(r)
	c.MinInterval = 0
	if r.Intn(3) != 0 {
		c.TTL = hugeDur(r)
	}
	c.MaxVerify = r.Intn(5)
	if r.Intn(3) != 0 {
		c.MaxCount = 4 + r.Intn(4)
	}
	ps := genPairs(r, 1+r.Intn(2), c.CodeLen)
	q := ps[0]
	s := &script{Class: "attempts", Cfg: c}
	rounds := 1 + r.Intn(3)
	for k := 0; k < rounds; k++ {
		s.Ops = append(s.Ops, genSend(r, q))
		g := c.MaxVerify - 1 + r.Intn(4)
		if g < 0 {
			g = 0
		}
		for i := 0; i < g; i++ {
			if r.Intn(4) == 0 {
				// an attempt on another pair must not count
				s.Ops = append(s.Ops, genVerify(r, ps, ps[len(ps)-1]))
			}
			o := genVerify(r, ps, q)
			if r.Intn(5) != 0 && o.Code == "right" && o.Hash == "right" {
				o.Code = "mut"
			}
			s.Ops = append(s.Ops, o)
		}
		s.Ops = append(s.Ops, opScript{K: "verify", A: q.a, P: q.p, Code: "right", Hash: "right"})
		if r.Intn(2) == 0 {
			s.Ops = append(s.Ops, opScript{K: "verify", A: q.a, P: q.p, Code: "right", Hash: "right"})
		}
	}
	return s
}

// window: more sends than the window admits, verifications in between
func histWindow(r *rand.Rand) *script {
	c := genCfg(r)
	if r.Intn(4) != 0 {
		c.MinInterval = 0
	}
	c.MaxCount = r.Intn(4)
	if r.Intn(8) == 0 {
		c.MaxCount = -1
	}
	ps := genPairs(r, 1+r.Intn(2), c.CodeLen)
	s := &script{Class: "window", Cfg: c}
	n := c.MaxCount + 2 + r.Intn(3)
	for i := 0; i < n; i++ {
		q := ps[0]
		if r.Intn(5) == 0 {
			q = ps[len(ps)-1]
		}
		s.Ops = append(s.Ops, genSend(r, q))
		if r.Intn(2) == 0 {
			s.Ops = append(s.Ops, genVerify(r, ps, ps[r.Intn(len(ps))]))
		}
	}
	s.Ops = append(s.Ops, opScript{K: "verify", A: ps[0].a, P: ps[0].p, Code: "right", Hash: "right"})
	return s
}

// lru: a cache smaller than, equal to or just above the number of pairs
func histLRU(r *rand.Rand) *script {
	c := genCfg(r)
	if r.Intn(3) != 0 {
		c.MinInterval = 0
	}
	np := 2 + r.Intn(4)
	c.CacheSize = int64(np - 2 + r.Intn(4))
	if c.CacheSize < 0 {
		c.CacheSize = 0
	}
	ps := genPairs(r, np, c.CodeLen)
	s := &script{Class: "lru", Cfg: c}
	n := 8 + r.Intn(20)
	for i := 0; i < n; i++ {
		q := ps[r.Intn(len(ps))]
		if r.Intn(2) == 0 {
			s.Ops = append(s.Ops, genSend(r, q))
		} else {
			o := genVerify(r, ps, q)
			if r.Intn(3) != 0 {
				o.Code, o.Hash = "right", "right"
			}
			s.Ops = append(s.Ops, o)
		}
	}
	return s
}

// collide: the malformed stream - components containing '-', keys that coincide
func histCollide(r *rand.Rand) *script {
	c := genCfg(r)
	c.MinInterval = 0
	ps := genDashPairs(r)
	s := &script{Class: "collide", Cfg: c}
	n := 6 + r.Intn(12)
	for i := 0; i < n; i++ {
		q := ps[r.Intn(len(ps))]
		if r.Intn(3) == 0 {
			s.Ops = append(s.Ops, genSend(r, q))
		} else {
			o := genVerify(r, ps, q)
			if r.Intn(2) == 0 {
				o.Code, o.Hash = "other", "other"
			}
			s.Ops = append(s.Ops, o)
		}
	}
	return s
}

// reject: configurations the service cannot run with (negative code length, negative cache size)
func histReject(r *rand.Rand) *script {
	c := genCfg(r)
	switch r.Intn(3) {
	case 0:
		c.CodeLen = -1 - r.Intn(3)
	case 1:
		c.CacheSize = -1 - int64(r.Intn(3))
	default:
		c.CodeLen = -1
		c.CacheSize = -1
	}
	ps := genPairs(r, 1+r.Intn(2), 4)
	s := &script{Class: "reject", Cfg: c}
	n := 3 + r.Intn(5)
	for i := 0; i < n; i++ {
		q := ps[r.Intn(len(ps))]
		if r.Intn(2) == 0 {
			s.Ops = append(s.Ops, genSend(r, q))
		} else {
			s.Ops = append(s.Ops, genVerify(r, ps, q))
		}
	}
	return s
}

// ---------------------------------------------------------------- long histories (counts beyond 2^8 and 2^16)

var longCounts = []int{255, 256, 257, 65535, 65536, 65537, 70000, 1<<17 + 3}

func longCfg(r *rand.Rand) cfgScript {
	c := genCfg(r)
	c.CacheSize = 1000
	c.TTL, c.MinInterval, c.CounterDuration = hugeDur(r), 0, hugeDur(r)
	if c.CodeLen < 1 {
		c.CodeLen = 4
	}
	return c
}

// long-attempts: one sent code, n further verifications (wrong or right code) in a row, then the right code and hash;
// whatever n, the code stays locked until a new send goes out
func histLongAttempts(r *rand.Rand, n int) *script {
	c := longCfg(r)
	c.MaxVerify = r.Intn(6)
	c.MaxCount = 3 + r.Intn(3)
	ps := genPairs(r, 2, c.CodeLen)
	q := ps[0]
	s := &script{Class: "long-attempts", RL: true, Cfg: c}
	right := opScript{K: "verify", A: q.a, P: q.p, Code: "right", Hash: "right"}
	s.Ops = append(s.Ops, genSend(r, q))
	if r.Intn(2) == 0 {
		s.Ops = append(s.Ops, right)
	}
	rep := opScript{K: "verify", A: q.a, P: q.p, Code: "mut", Hash: "right", Pos: r.Intn(8), N: n}
	switch r.Intn(4) {
	case 0:
		rep.Code = "right"
	case 1:
		rep.Hash = "mut"
	}
	s.Ops = append(s.Ops, rep, right, right)
	// another pair is not affected, a new send resets
	s.Ops = append(s.Ops, genSend(r, ps[1]), opScript{K: "verify", A: ps[1].a, P: ps[1].p, Code: "right", Hash: "right"})
	s.Ops = append(s.Ops, genSend(r, q), right)
	return s
}

// long-sends: n refused sends in a row (window full, or inside the minimum interval), then the code sent last still
// verifies and a further send is still refused; or a window admitting more than 2^16 sends, filled and overrun
func histLongSends(r *rand.Rand, n int, fill bool) *script {
	c := longCfg(r)
	c.MaxVerify = 2 + r.Intn(3)
	ps := genPairs(r, 1, c.CodeLen)
	q := ps[0]
	s := &script{Class: "long-sends", RL: true, Cfg: c}
	right := opScript{K: "verify", A: q.a, P: q.p, Code: "right", Hash: "right"}
	send := opScript{K: "send", A: q.a, P: q.p, SmsOK: true}
	switch {
	case fill:
		c.Mock = true
		c.MaxCount = n - 1 // n sends fit
		send.N = n
		s.Ops = append(s.Ops, send, right)
		send.N = 3
		s.Ops = append(s.Ops, send, right)
	case r.Intn(2) == 0:
		c.MaxCount = r.Intn(3)
		send.N = c.MaxCount + 1
		s.Ops = append(s.Ops, send)
		send.N = n
		s.Ops = append(s.Ops, send, right)
		send.N = 1
		s.Ops = append(s.Ops, send)
	default:
		c.MinInterval = hugeDur(r)
		c.MaxCount = 1 + r.Intn(3)
		s.Ops = append(s.Ops, send)
		send.N = n
		s.Ops = append(s.Ops, send, right)
	}
	s.Cfg = c
	return s
}

// longScripts: the fixed ones (every seed) and a few drawn ones
func longScripts(r *rand.Rand, extra int) []*script {
	out := []*script{
		histLongAttempts(r, 65536), histLongAttempts(r, 70000), histLongAttempts(r, 256),
		histLongSends(r, 65536, false), histLongSends(r, 65536+r.Intn(3), true),
	}
	for i := 0; i < extra; i++ {
		n := longCounts[r.Intn(len(longCounts))]
		switch r.Intn(4) {
		case 0:
			out = append(out, histLongSends(r, n, false))
		case 1:
			if n > 256 {
				n = 255 + r.Intn(3) // filling a window beyond 2^16 is done once per run (above)
			}
			out = append(out, histLongSends(r, n, true))
		default:
			out = append(out, histLongAttempts(r, n))
		}
	}
	return out
}

// ---------------------------------------------------------------- timed histories (one mid-range duration D)

// A timed history lets real time pass (sleep ops of 2.5 D) so that one of the three durations is
// crossed inside the history: a code expires, the minimum interval ends, the send window is renewed.
// Calls not separated by a sleep are microseconds apart.  The case is used only when the measured
// timing was unambiguous (runScriptTimed); otherwise it is re-run with a larger D or dropped.
func histTimed(r *rand.Rand, d int64, kind int) *script {
	c := genCfg(r)
	c.CacheSize = 1000
	c.TTL, c.MinInterval, c.CounterDuration = hugeDur(r), 0, hugeDur(r)
	c.MaxVerify = 6 + r.Intn(3)
	if c.CodeLen < 1 {
		c.CodeLen = 4
	}
	ps := genPairs(r, 1+r.Intn(2), c.CodeLen)
	q := ps[0]
	s := &script{Class: "timed", Cfg: c}
	add := func(o opScript) { s.Ops = append(s.Ops, o) }
	right := opScript{K: "verify", A: q.a, P: q.p, Code: "right", Hash: "right"}
	sleep := opScript{K: "sleep", Sleep: d*5/2 + 1}
	switch kind % 5 {
	case 4: // the lifetime runs from the send that went out: refused sends in between do not prolong it
		s.Class = "timed-ttl-refused"
		c.TTL = d
		c.MinInterval = hugeDur(r)
		c.MaxCount = 5
		short := opScript{K: "sleep", Sleep: d * 2 / 5}
		add(genSend(r, q))
		add(short)
		add(genSend(r, q)) // refused: inside the minimum interval
		add(right)         // clearly before the deadline
		add(sleep)
		add(genSend(r, q)) // refused again, just before ...
		add(right)         // ... a verification clearly after the ORIGINAL deadline
	case 0: // the code's lifetime
		s.Class = "timed-ttl"
		c.TTL = d
		c.MaxCount = 5
		add(genSend(r, q))
		add(right)
		add(sleep)
		add(right)
		add(genSend(r, q))
		add(right)
	case 1: // the minimum interval
		s.Class = "timed-interval"
		c.MinInterval = d
		c.MaxCount = 5
		add(genSend(r, q))
		add(genSend(r, q))
		add(right)
		add(sleep)
		add(genSend(r, q))
		add(genSend(r, q))
		add(right)
	default: // the send window
		s.Class = "timed-window"
		c.CounterDuration = d
		c.MaxCount = r.Intn(3)
		for i := 0; i < c.MaxCount+2; i++ {
			add(genSend(r, q))
		}
		add(sleep)
		for i := 0; i < c.MaxCount+2+r.Intn(2); i++ {
			add(genSend(r, q))
			if r.Intn(3) == 0 {
				add(right)
			}
		}
		if r.Intn(2) == 0 {
			add(sleep)
			add(genSend(r, q))
			add(genSend(r, q))
		}
	}
	s.Cfg = c
	return s
}

// scale every mid-range duration and every sleep of a timed script
func scaleTimed(s *script, f int64) *script {
	t := *s
	t.Ops = append([]opScript{}, s.Ops...)
	for _, d := range []*int64{&t.Cfg.TTL, &t.Cfg.MinInterval, &t.Cfg.CounterDuration} {
		if *d > 0 && *d < 1000*hour {
			*d *= f
		}
	}
	for i := range t.Ops {
		t.Ops[i].Sleep *= f
	}
	return &t
}

// runTimed runs the scripts concurrently (each on its own service instance; the time goes into sleeping)
// and keeps the cases whose timing was unambiguous, retrying the others with 4x and 16x longer durations.
func runTimed(scripts []*script) (cases []vh.Case, dropped int) {
	type res struct {
		c  vh.Case
		ok bool
	}
	out := make([]res, len(scripts))
	var wg sync.WaitGroup
	for i := range scripts {
		wg.Add(1)
		go func(i int) {
			defer wg.Done()
			s := scripts[i]
			for try := 0; try < 3; try++ {
				c, clear := runScriptTimed(s)
				if clear {
					out[i] = res{c, true}
					return
				}
				s = scaleTimed(s, 4)
			}
		}(i)
	}
	wg.Wait()
	for _, x := range out {
		if x.ok {
			cases = append(cases, x.c)
		} else {
			dropped++
		}
	}
	return cases, dropped
}

// ---------------------------------------------------------------- configuration values at the ends of their types

var extremeInts = []int{0, 1, -1, math.MaxInt, math.MaxInt - 1, math.MinInt, math.MinInt + 1, math.MaxInt32, math.MaxInt32 + 1, math.MaxInt32 - 1, math.MinInt32, math.MinInt32 - 1, 1 << 16, 2}
var extremeDurs = []int64{math.MaxInt64, math.MaxInt64 - 1, math.MinInt64, math.MinInt64 + 1, -1, 1000 * hour}

// cfgvalues: MaxVerifyCount, MaxCount, CacheSize and the three durations at 0, +-1, the ends of int / int64 and
// around 2^31; "within the attempt limit" and "beyond the count limit" must mean the same for any configured limit
// (MaxInt = unlimited, MinInt = nothing allowed)
func histCfgValues(r *rand.Rand, mv, mc int) *script {
	c := genCfg(r)
	c.CacheSize = 1000
	if r.Intn(4) == 0 {
		c.CacheSize = math.MaxInt64 - int64(r.Intn(2))
	}
	c.MaxVerify, c.MaxCount = mv, mc
	c.TTL = extremeDurs[r.Intn(len(extremeDurs))]
	if r.Intn(3) != 0 {
		c.TTL = hugeDur(r)
	}
	c.MinInterval = 0
	switch r.Intn(4) {
	case 0:
		c.MinInterval = extremeDurs[r.Intn(len(extremeDurs))]
	case 1:
		c.MinInterval = -1
	}
	c.CounterDuration = extremeDurs[r.Intn(len(extremeDurs))]
	if c.CodeLen < 1 {
		c.CodeLen = 4
	}
	ps := genPairs(r, 1+r.Intn(2), c.CodeLen)
	q := ps[0]
	s := &script{Class: "cfgvalues", Cfg: c}
	right := opScript{K: "verify", A: q.a, P: q.p, Code: "right", Hash: "right"}
	wrong := opScript{K: "verify", A: q.a, P: q.p, Code: "mut", Hash: "right", Pos: r.Intn(8)}
	s.Ops = append(s.Ops, genSend(r, q), right, wrong, right, wrong, wrong, right)
	for i := 0; i < 3; i++ {
		s.Ops = append(s.Ops, genSend(r, q))
	}
	s.Ops = append(s.Ops, right, genVerify(r, ps, ps[len(ps)-1]), genSend(r, q), right)
	return s
}

// ---------------------------------------------------------------- code / nonce lengths at buffer boundaries

var boundaryLens = []int{0, 1, 31, 32, 33, 63, 64, 65, 127, 128, 129, 255, 256, 257}
var largeLens = []int{1000, 1023, 1024, 1025, 4095, 4096, 4097}

func boundaryLen(r *rand.Rand, large bool) int {
	if !large {
		return boundaryLens[r.Intn(len(boundaryLens))]
	}
	if r.Intn(3) == 0 {
		return 1000 + r.Intn(5000)
	}
	return largeLens[r.Intn(len(largeLens))]
}

// codelen: the configured code length at and around 32, 64, 128, 256 and large, mostly with the real generator
// (Mock=false): the code handed to the sender has that length over the digits, exactly that code verifies, the
// empty / shorter / longer / changed one does not
func histCodeLen(r *rand.Rand, n int) *script {
	c := genCfg(r)
	c.CacheSize = 1000
	c.Mock = r.Intn(5) == 0
	c.CodeLen = n
	c.TTL, c.MinInterval, c.CounterDuration = hugeDur(r), 0, hugeDur(r)
	c.MaxVerify = 5 + r.Intn(3)
	c.MaxCount = 3
	ps := genPairs(r, 1+r.Intn(2), 6)
	q := ps[0]
	s := &script{Class: "codelen", Cfg: c}
	v := func(code string) opScript {
		return opScript{K: "verify", A: q.a, P: q.p, Code: code, Hash: "right", Pos: r.Intn(1 << 16)}
	}
	s.Ops = append(s.Ops, genSend(r, q), v("empty"), v("right"))
	hows := []string{"mut", "short", "long", "stale", "empty"}
	for i := 0; i < 1+r.Intn(2); i++ {
		s.Ops = append(s.Ops, v(hows[r.Intn(len(hows))]))
	}
	if n <= 300 {
		s.Ops = append(s.Ops, genSend(r, q), v("stale"), v("right"))
	}
	return s
}

func nonceOfLen(r *rand.Rand, base string, n int) *nonceScript {
	s := &nonceScript{Base: base, N: n}
	l := int64(len(base))
	for i := 0; i < n; i++ {
		t := r.Int63n(l)
		if r.Intn(4) == 0 {
			t = l - 1
		}
		s.Targets = append(s.Targets, t)
	}
	return s
}

// ---------------------------------------------------------------- nonce scripts

func genNonce(r *rand.Rand, raw bool) *nonceScript {
	bases := []string{"0123456789", "0123456789", "0123456789abcdef", "ab", "x", "", "aab", "ABCDEFGHIJKLMNOPQRSTUVWXYZ", "01"}
	s := &nonceScript{Base: bases[r.Intn(len(bases))], Raw: raw}
	switch x := r.Intn(10); {
	case x == 0:
		s.N = 0
	case x == 1:
		s.N = -1 - r.Intn(3)
	case x == 2:
		s.N = 1
	case x == 3:
		s.N = boundaryLen(r, false) // around the powers of two a buffer strategy may switch at
	default:
		s.N = 2 + r.Intn(14)
	}
	if r.Intn(40) == 0 {
		s.N = boundaryLen(r, true)
	}
	l := int64(len(s.Base))
	for i := 0; i < s.N; i++ {
		var t int64
		switch x := r.Intn(8); {
		case x < 3 && l > 0:
			t = l - 1 // the last character of the alphabet
		case x == 3:
			t = 0
		case l > 0:
			t = r.Int63n(l)
		}
		if raw && r.Intn(6) == 0 {
			switch r.Intn(3) {
			case 0:
				t = l
			case 1:
				t = -1
			default:
				t = l + 1 + r.Int63n(5)
			}
		}
		s.Targets = append(s.Targets, t)
	}
	return s
}

// ---------------------------------------------------------------- top level

type histGen struct {
	name   string
	weight int
	fn     func(*rand.Rand) *script
}

var histGens = []histGen{
	{"random", 6, histRandom},
	{"attempts", 5, histAttempts},
	{"window", 4, histWindow},
	{"lru", 3, histLRU},
	{"collide", 1, histCollide},
	{"reject", 1, histReject},
}

// corpus: the witnesses of the two repaired defects (DESIGN section 7, nos. 12 and 13) and of the boundary
// readings the property fixes, replayed first on every run
func corpus() ([]*script, []*nonceScript) {
	base := cfgScript{CacheSize: 100, CodeLen: 6, TTL: 1000 * hour, MinInterval: 0, CounterDuration: 1000 * hour, MaxCount: 2, MaxVerify: 2}
	right := func(a, p string) opScript { return opScript{K: "verify", A: a, P: p, Code: "right", Hash: "right"} }
	wrong := func(a, p string) opScript { return opScript{K: "verify", A: a, P: p, Code: "mut", Hash: "right", Pos: 2} }
	send := func(a, p string) opScript { return opScript{K: "send", A: a, P: p, SmsOK: true} }
	var hs []*script
	for _, mock := range []bool{true, false} {
		c := base
		c.Mock = mock
		// defect 12: the code just sent must verify
		hs = append(hs, &script{Class: "corpus", Cfg: c, Ops: []opScript{send("86", "13912345678"), right("86", "13912345678")}})
		// attempt limit 2: two wrong guesses, then even the right code is refused; a new send resets
		hs = append(hs, &script{Class: "corpus", Cfg: c, Ops: []opScript{send("86", "13912345678"), wrong("86", "13912345678"), wrong("86", "13912345678"),
			right("86", "13912345678"), send("86", "13912345678"), right("86", "13912345678"), right("86", "13912345678"), right("86", "13912345678")}})
		// window: MaxCount 2 lets three sends out, the fourth is refused; another pair is not affected
		hs = append(hs, &script{Class: "corpus", Cfg: c, Ops: []opScript{send("86", "139"), send("86", "139"), send("86", "139"), send("86", "139"),
			send("852", "139"), right("852", "139"), right("86", "139")}})
		// minimum interval
		c2 := c
		c2.MinInterval = 1000 * hour
		hs = append(hs, &script{Class: "corpus", Cfg: c2, Ops: []opScript{send("86", "139"), send("86", "139"), right("86", "139"), send("1", "139")}})
		// lifetime over
		c3 := c
		c3.TTL = -1
		hs = append(hs, &script{Class: "corpus", Cfg: c3, Ops: []opScript{send("86", "139"), right("86", "139")}})
	}
	// near-misses of the right hash and of the right code, one after the other against one sent code: none may verify,
	// the right pair still does afterwards; with the hash of another pair's send and with the previous send's hash too
	for _, mock := range []bool{true, false} {
		c := base
		c.Mock = mock
		c.MaxVerify = 64
		c.MaxCount = 5
		a, p, a2, p2 := "86", "13900012345", "852", "13900012345"
		ops := []opScript{send(a2, p2), send(a, p), send(a, p)}
		for i, h := range []string{"upper", "mixed", "mixed", "mut", "lspace", "tspace", "newline", "0x", "doubled", "short", "long", "empty", "other", "stale"} {
			ops = append(ops, opScript{K: "verify", A: a, P: p, Code: "right", Hash: h, Pos: i, OA: a2, OP: p2})
		}
		for i, cd := range []string{"dropzero", "addzero", "plus", "fullwidth", "newline", "tspace", "lspace", "doubled", "short", "long", "empty", "stale", "other"} {
			ops = append(ops, opScript{K: "verify", A: a, P: p, Code: cd, Hash: "right", Pos: i, OA: a2, OP: "139"})
		}
		ops = append(ops, opScript{K: "verify", A: a, P: p, Code: "dropzero", Hash: "upper"}, right(a, p), right(a2, p2))
		hs = append(hs, &script{Class: "corpus", Cfg: c, Ops: ops})
	}
	// defect 13: the last character of the alphabet must be reachable
	ns := []*nonceScript{
		{Base: "0123456789", N: 6, Targets: []int64{9, 0, 9, 5, 9, 9}},
		{Base: "ab", N: 3, Targets: []int64{1, 1, 0}},
		{Base: "x", N: 2, Targets: []int64{0, 0}},
	}
	return hs, ns
}

func generate(e *vh.Env) {
	r := e.Rnd
	ch, cn := corpus()
	// lengths just above the usual buffer sizes and a large one: every run
	for _, n := range []int{33, 65, 4096} {
		h := histCodeLen(r, n)
		h.Cfg.Mock = false
		ch = append(ch, h)
		cn = append(cn, nonceOfLen(r, "0123456789", n))
	}
	// the limits at the ends of int: every run
	for _, v := range []int{math.MaxInt, math.MaxInt - 1, math.MinInt, math.MaxInt32 + 1} {
		ch = append(ch, histCfgValues(r, v, 2), histCfgValues(r, 2, v))
	}
	for _, s := range ch {
		e.Emit(runScript(s))
	}
	for _, s := range cn {
		e.Emit(runNonce(s))
	}
	ncv := e.Scale(60, 600)
	for i := 0; i < ncv; i++ {
		e.Emit(runScript(histCfgValues(r, extremeInts[r.Intn(len(extremeInts))], extremeInts[r.Intn(len(extremeInts))])))
	}
	e.Meta["cfgvalues_histories"] = ncv + 8
	ncl := e.Scale(40, 400)
	for i := 0; i < ncl; i++ {
		e.Emit(runScript(histCodeLen(r, boundaryLen(r, i%12 == 11))))
	}
	e.Meta["codelen_histories"] = ncl + 3
	nh := e.Scale(900, 12000)
	focus := strings.SplitN(e.Focus, "/", 2)[0]
	total := 0
	for _, g := range histGens {
		total += g.weight
	}
	long := longScripts(r, e.Scale(3, 30))
	every := nh / (len(long) + 1)
	if every < 1 {
		every = 1
	}
	for i := 0; i < nh; i++ {
		if i%every == every-1 && len(long) > 0 {
			// spread over the case files: each takes a second or two to evaluate
			e.Emit(runScript(long[0]))
			long = long[1:]
		}
		var g histGen
		x := r.Intn(total)
		for _, cand := range histGens {
			if x < cand.weight {
				g = cand
				break
			}
			x -= cand.weight
		}
		if e.Search && focus != "" && r.Intn(3) != 0 {
			for _, cand := range histGens {
				if cand.name == focus {
					g = cand
				}
			}
		}
		e.Emit(runScript(g.fn(r)))
	}
	for _, s := range long {
		e.Emit(runScript(s))
	}
	nt := e.Scale(15, 60)
	var timed []*script
	for i := 0; i < nt; i++ {
		timed = append(timed, histTimed(r, 60_000_000, i))
	}
	tc, dropped := runTimed(timed)
	for _, c := range tc {
		e.Emit(c)
	}
	e.Meta["timed_histories"] = len(tc)
	e.Meta["timed_dropped_for_ambiguous_timing"] = dropped
	nn := e.Scale(200, 3000)
	for i := 0; i < nn; i++ {
		e.Emit(runNonce(genNonce(r, i%5 == 4)))
	}
	ns := e.Scale(2, 8)
	for i := 0; i < ns; i++ {
		e.Emit(runSample(&sampleScript{CodeLen: 4 + 2*(i%3), Count: 200}))
	}
	e.Meta["histories"] = nh
	e.Meta["long_histories"] = "run-length form, repeat counts from {255,256,257,65535,65536,65537,70000,131075}; fixed every run: 65536 and 70000 further attempts against one sent code, 65536 refused sends, a window of >= 65536 sends filled and overrun"
	e.Meta["nonce_runs"] = nn
	e.Meta["samples"] = ns
	e.Meta["regimes"] = "all classes but timed-*: TTL, MinInterval, CounterDuration only below zero, zero (MinInterval) or at least 1000 h, so that no decision depends on the real clock; timed-*: one duration D of 60 ms (240 ms, 960 ms on a retry) crossed by sleeping 2.5 D, case kept only when every pair of calls was measured clearly closer or clearly farther apart than D"
}
