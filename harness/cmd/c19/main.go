// Command c19 is the correspondence harness of property C19 (vcode).
//
// It runs the real vcode service (NewSimpleLogic + SendSMSCode / VerifySMSCode) on generated
// histories with a recording SMS sender, and the real nonce generator through the verif hook
// random.VerifGenNonceStr with a scripted draw function, and emits what it observed as Coq terms
// of type `case` (C19_Check.v).
package main

import (
	"encoding/json"
	"fmt"

	"verifharness/vh"
)

func main() {
	vh.Main("c19", func(e *vh.Env) {
		if e.Replay != "" {
			replay(e)
			return
		}
		generate(e)
	})
}

// replay re-runs one stored script (history or nonce) on the implementation.
func replay(e *vh.Env) {
	var r replayArg
	if err := json.Unmarshal([]byte(e.Replay), &r); err != nil {
		panic(fmt.Sprintf("bad replay argument: %v", err))
	}
	switch {
	case r.Hist != nil:
		e.Emit(runScript(r.Hist))
	case r.Nonce != nil:
		e.Emit(runNonce(r.Nonce))
	case r.Sample != nil:
		e.Emit(runSample(r.Sample))
	}
}

type replayArg struct {
	Hist   *script       `json:"hist,omitempty"`
	Nonce  *nonceScript  `json:"nonce,omitempty"`
	Sample *sampleScript `json:"sample,omitempty"`
}

func replayString(r replayArg) string {
	b, err := json.Marshal(r)
	if err != nil {
		panic(err)
	}
	return string(b)
}
