package main

// Adapters: one per queue type.  Every adapter performs ONE call of the real implementation per op and maps what the
// call returned to the small result enum of C12_Base.v.  Calls that would block in a sequential exploration (a pop on
// an empty open queue, an add-anyway on a full open queue) are not issued; whether a call would block is decided from
// a shadow count kept from the OBSERVED results only (accepted adds minus handed-out items, Close called / TryClose
// answered true).  Every call that can block runs under a generous watchdog: if the shadow was wrong about the real
// queue (which only happens when the implementation lost or invented an item) the call is reported as "never returned".

import (
	"context"
	"fmt"
	"sync/atomic"
	"time"

	"github.com/pinealctx/neptune/queue/priq"
	"github.com/pinealctx/neptune/queue/syncq"
	"github.com/pinealctx/neptune/syncx/pipe/async"
	"github.com/pinealctx/neptune/syncx/pipe/mq"
	"github.com/pinealctx/neptune/syncx/pipe/mux"
	"github.com/pinealctx/neptune/syncx/pipe/q"
)

// The watchdog: 30 s for a call the model says returns.  Once one call of this run has really not returned (the run is
// already a violation with that call as its concrete case) further waits are cut to 2 s so that the other histories still
// get their turn; on the unchanged tree no call ever reaches the watchdog, so this cannot produce an alarm.
const hangTimeoutFirst = 30 * time.Second

var hangSeen int32

func hangTimeout() time.Duration {
	if atomic.LoadInt32(&hangSeen) != 0 {
		return 2 * time.Second
	}
	return hangTimeoutFirst
}
func noteHang() { atomic.StoreInt32(&hangSeen, 1) }

var cancelledCtx = func() context.Context {
	c, cancel := context.WithCancel(context.Background())
	cancel()
	return c
}()

// ---- observations ----

type obs struct {
	tag string // done item closed full cfull flag len none notissued other
	v   int64
}

func (o obs) coq() string {
	switch o.tag {
	case "done":
		return "RDone"
	case "item":
		return "RItem " + coqZ(o.v)
	case "closed":
		return "RClosed"
	case "full":
		return "RFull"
	case "cfull":
		return "RCtrlFull"
	case "flag":
		if o.v != 0 {
			return "RFlag true"
		}
		return "RFlag false"
	case "len":
		return "RLen " + coqZ(o.v)
	case "none":
		return "RNone"
	case "notissued":
		return "RNotIssued"
	}
	return "ROther " + coqZ(o.v)
}

func (o obs) String() string {
	switch o.tag {
	case "done":
		return "ok"
	case "item":
		return "item " + itemName(o.v)
	case "closed":
		return "closed"
	case "full":
		return "full"
	case "cfull":
		return "ctrl-full"
	case "flag":
		return fmt.Sprintf("%v", o.v != 0)
	case "len":
		return fmt.Sprintf("len %d", o.v)
	case "none":
		return "nothing"
	case "notissued":
		return "(would block: not issued)"
	}
	switch o.v {
	case otherErrSync:
		return "ErrSync"
	case otherHang:
		return "NEVER RETURNED"
	case otherPanic:
		return "PANIC"
	case otherErr:
		return "unexpected error"
	case otherWait:
		return "IsClosed/IsCleared and WaitClose/WaitClear disagree"
	case otherCtor:
		return "constructor getter wrong (async.Q.Size / PriQueue.WaitCh)"
	}
	return "foreign value"
}

const (
	otherErrSync = 1
	otherHang    = 2
	otherPanic   = 3
	otherErr     = 4
	otherValue   = 5
	otherWait    = 6 // IsClosed / IsCleared and WaitClose / WaitClear disagree
	otherCtor    = 7 // async.Q.Size() is not the configured size / PriQueue.WaitCh() is nil
)

func coqZ(v int64) string {
	if v < 0 {
		return fmt.Sprintf("(%d)%%Z", v)
	}
	return fmt.Sprintf("%d%%Z", v)
}

func flag(b bool) obs {
	if b {
		return obs{"flag", 1}
	}
	return obs{"flag", 0}
}

// direct runs a call that cannot block, converting a panic of the implementation into an observation.
func direct(f func() obs) (r obs) {
	defer func() {
		if p := recover(); p != nil {
			r = obs{"other", otherPanic}
		}
	}()
	return f()
}

// guarded runs a call that the model says returns, under a watchdog.
func guarded(f func() obs) (obs, bool) {
	ch := make(chan obs, 1)
	go func() {
		defer func() {
			if p := recover(); p != nil {
				ch <- obs{"other", otherPanic}
			}
		}()
		ch <- f()
	}()
	t := time.NewTimer(hangTimeout())
	defer t.Stop()
	select {
	case r := <-ch:
		return r, false
	case <-t.C:
		noteHang()
		return obs{"other", otherHang}, true
	}
}

// Items are int64 ids; a few negative ids stand for boundary VALUES of the interface{} item type:
//
//	-1 untyped nil, -2 a typed nil pointer (*int)(nil), -3 the empty string, -4 int(0), -5 struct{}{}
//
// They are items like any other (the queues store what they are given); SyncQueue and PriQueue never get -1 because
// their API uses nil as the "closed / empty" answer (SyncQueue.Pop, PriQueue.Pop) - see level_note.
func valOf(id int64) interface{} {
	switch id {
	case -1:
		return nil
	case -2:
		return (*int)(nil)
	case -3:
		return ""
	case -4:
		return int(0)
	case -5:
		return struct{}{}
	}
	return id
}

func itemName(id int64) string {
	switch id {
	case -1:
		return "nil"
	case -2:
		return "(*int)(nil)"
	case -3:
		return `""`
	case -4:
		return "int(0)"
	case -5:
		return "struct{}{}"
	}
	return fmt.Sprint(id)
}

func itemOf(v interface{}) obs {
	switch x := v.(type) {
	case nil:
		return obs{"item", -1}
	case int64:
		if x > 0 {
			return obs{"item", x}
		}
	case *int:
		if x == nil {
			return obs{"item", -2}
		}
	case string:
		if x == "" {
			return obs{"item", -3}
		}
	case int:
		if x == 0 {
			return obs{"item", -4}
		}
	case struct{}:
		return obs{"item", -5}
	}
	return obs{"other", otherValue}
}

// ---- ops ----

// op codes (also the replay syntax: code followed by the item id, "u" carries priority:id)
//
//	pipe: a add, w add-anyway, p prior, o pop, y pop-anyway, c close, i is-closed
//	mq:   ac wc pc ar wr pr (ctrl/req add, add-anyway, prior), o, y, c, tc try-close, tl try-clear, ic is-closed, il is-cleared
//	sync: u push, o pop, t try-pop, l len, c close
//	pri:  u push(pri:id), o pop, l len
type op struct {
	code string
	x    int64
	pri  int64
}

// queue is one freshly constructed queue under test.
type queue interface {
	apply(o op) (r obs, hung bool)
	applyRaw(o op) (r obs, hung bool) // the call itself, no shadow, no watchdog: for the concurrent rounds (race.go)
	lost() bool                       // the harness' shadow no longer matches what the queue hands out
	canHold(held, rel op) bool        // may `held` (a call that blocks now) be started and then released by `rel`, deterministically?
	noteHeld(held op, r obs)          // shadow update for the result of a held call
	release()                         // wake whatever a hung call left behind
	coqOp(o op) string
	goOp(o op) string
}

// shadow: what the harness knows from the results it saw (never from the model)
type shadow struct {
	n      [2]int
	level  map[int64][2]int // how many pending copies of this item per level (boundary values may be queued more than once)
	closed bool
	cap    [2]int
	// confused: a pop handed out an item that was not pending (invented / duplicated): stop the history here
	confused bool
}

func newShadow(c0, c1 int) *shadow { return &shadow{level: map[int64][2]int{}, cap: [2]int{c0, c1}} }
func (s *shadow) accepted(x int64, lv int) {
	s.n[lv]++
	c := s.level[x]
	c[lv]++
	s.level[x] = c
}
func (s *shadow) handedOut(r obs) {
	if r.tag == "item" {
		c := s.level[r.v]
		lv := 0 // control messages come out before requests
		if c[0] == 0 {
			lv = 1
		}
		if c[lv] > 0 && s.n[lv] > 0 {
			s.n[lv]--
			c[lv]--
			s.level[r.v] = c
		} else {
			s.confused = true // handed out something that was not pending: the harness no longer knows what is queued
		}
	}
}
func (s *shadow) total() int          { return s.n[0] + s.n[1] }
func (s *shadow) popWouldBlock() bool { return s.total() == 0 && !s.closed }
func (s *shadow) addAnywayWouldBlock(lv int) bool {
	return !s.closed && s.cap[lv] > 0 && s.n[lv] >= s.cap[lv]
}

// ---- pipe queues: q.Q, async.Q, mux.Q ----

type pipeQ struct {
	kind                string // q async mux
	add, prior          func(interface{}) error
	addAnyway           func(interface{}, time.Duration) error
	pop, popAnyway      func() (interface{}, error)
	closeFn             func()
	isClosed            func() bool
	waitClose           func(context.Context) error
	ctorBad             bool
	eClosed, eFull, eSy error
	sh                  *shadow
}

// noOpt: build q.Q without the WithSize option (n must then be 0: that is what "no option" means)
func newPipe(kind string, n int, noOpt bool) *pipeQ {
	p := &pipeQ{kind: kind, sh: newShadow(n, 0)}
	switch kind {
	case "q":
		var x *q.Q
		if noOpt {
			x = q.NewQ()
		} else {
			x = q.NewQ(q.WithSize(n))
		}
		p.add, p.prior, p.addAnyway, p.pop, p.popAnyway, p.closeFn = x.AddReq, x.AddPriorReq, x.AddReqAnyway, x.Pop, x.PopAnyway, x.Close
		p.eClosed, p.eFull, p.eSy = q.ErrClosed, q.ErrReqQFull, q.ErrSync
	case "async":
		x := async.NewQ(n)
		if want := n; x.Size() != want && !(n < 0 && x.Size() == 0) {
			p.ctorBad = true
		}
		p.add, p.prior, p.addAnyway, p.pop, p.popAnyway, p.closeFn = x.Add, x.AddPrior, x.AddAnyway, x.Pop, x.PopAnyway, x.Close
		p.isClosed = x.IsClosed
		p.eClosed, p.eFull, p.eSy = async.ErrClosed, async.ErrFull, async.ErrSync
	case "mux":
		x := mux.NewQ(n)
		p.add, p.prior, p.addAnyway, p.pop, p.popAnyway, p.closeFn = x.AddReq, x.AddPriorReq, x.AddReqAnyway, x.Pop, x.PopAnyway, x.Close
		p.isClosed = x.IsClosed
		p.waitClose = x.WaitClose
		p.eClosed, p.eFull, p.eSy = mux.ErrClosed, mux.ErrQFull, mux.ErrSync
	default:
		panic("kind " + kind)
	}
	return p
}

func (p *pipeQ) errObs(err error) obs {
	switch err {
	case nil:
		return obs{"done", 0}
	case p.eClosed:
		return obs{"closed", 0}
	case p.eFull:
		return obs{"full", 0}
	case p.eSy:
		return obs{"other", otherErrSync}
	}
	return obs{"other", otherErr}
}

func (p *pipeQ) popObs(v interface{}, err error) obs {
	if err != nil {
		return p.errObs(err)
	}
	return itemOf(v)
}

func (p *pipeQ) apply(o op) (r obs, hung bool) {
	if p.ctorBad {
		return obs{"other", otherCtor}, false
	}
	switch o.code {
	case "a":
		r = direct(func() obs { return p.errObs(p.add(valOf(o.x))) })
		if r.tag == "done" {
			p.sh.accepted(o.x, 0)
		}
	case "w":
		if p.sh.addAnywayWouldBlock(0) {
			return obs{"notissued", 0}, false
		}
		r, hung = guarded(func() obs { return p.errObs(p.addAnyway(valOf(o.x), time.Millisecond)) })
		if r.tag == "done" {
			p.sh.accepted(o.x, 0)
		}
	case "p":
		r = direct(func() obs { return p.errObs(p.prior(valOf(o.x))) })
		if r.tag == "done" {
			p.sh.accepted(o.x, 0)
		}
	case "o", "y":
		if p.sh.popWouldBlock() {
			return obs{"notissued", 0}, false
		}
		f := p.pop
		if o.code == "y" {
			f = p.popAnyway
		}
		r, hung = guarded(func() obs { return p.popObs(f()) })
		p.sh.handedOut(r)
	case "c":
		r = direct(func() obs { p.closeFn(); return obs{"done", 0} })
		p.sh.closed = true
	case "i":
		r = direct(func() obs { return flag(p.isClosed()) })
		if r.tag == "flag" && r.v == 0 && p.waitClose != nil { // open: WaitClose can only end by its context
			r = direct(func() obs {
				if p.waitClose(cancelledCtx) != context.Canceled {
					return obs{"other", otherWait}
				}
				return flag(false)
			})
		}
		if r.tag == "flag" && r.v != 0 && p.waitClose != nil { // closed also means: the stop channel is closed, WaitClose returns at once
			r, hung = guarded(func() obs {
				if p.waitClose(context.Background()) != nil {
					return obs{"other", otherWait}
				}
				return flag(true)
			})
		}
	default:
		panic("pipe op " + o.code)
	}
	return
}
func (p *pipeQ) release() { direct(func() obs { p.closeFn(); return obs{} }) }

func (p *pipeQ) coqOp(o op) string {
	switch o.code {
	case "a":
		return "PAdd " + coqZ(o.x)
	case "w":
		return "PAddAnyway " + coqZ(o.x)
	case "p":
		return "PPrior " + coqZ(o.x)
	case "o":
		return "PPop"
	case "y":
		return "PPopAnyway"
	case "c":
		return "PClose"
	}
	return "PIsClosed"
}
func (p *pipeQ) goOp(o op) string {
	async := p.kind == "async"
	switch o.code {
	case "a":
		if async {
			return fmt.Sprintf("Add(%s)", itemName(o.x))
		}
		return fmt.Sprintf("AddReq(%s)", itemName(o.x))
	case "w":
		if async {
			return fmt.Sprintf("AddAnyway(%s)", itemName(o.x))
		}
		return fmt.Sprintf("AddReqAnyway(%s)", itemName(o.x))
	case "p":
		if async {
			return fmt.Sprintf("AddPrior(%s)", itemName(o.x))
		}
		return fmt.Sprintf("AddPriorReq(%s)", itemName(o.x))
	case "o":
		return "Pop()"
	case "y":
		return "PopAnyway()"
	case "c":
		return "Close()"
	}
	return "IsClosed()"
}

// ---- mq.MQ ----

type mqQ struct {
	x  *mq.MQ
	sh *shadow
}

func newMQ(cm, rm int, noC, noR bool) *mqQ {
	var opts []mq.Option
	if !noR && noC { // also vary the order in which the options are given
		opts = append(opts, mq.WithQReqSize(rm))
	}
	if !noC {
		opts = append(opts, mq.WithQCtrlSize(cm))
	}
	if !noR && !noC {
		opts = append(opts, mq.WithQReqSize(rm))
	}
	return &mqQ{x: mq.NewMQ(opts...), sh: newShadow(cm, rm)}
}
func (m *mqQ) errObs(err error) obs {
	switch err {
	case nil:
		return obs{"done", 0}
	case mq.ErrClosed:
		return obs{"closed", 0}
	case mq.ErrReqQFull:
		return obs{"full", 0}
	case mq.ErrCtrlQFull:
		return obs{"cfull", 0}
	case mq.ErrSync:
		return obs{"other", otherErrSync}
	}
	return obs{"other", otherErr}
}
func (m *mqQ) popObs(v interface{}, err error) obs {
	if err != nil {
		return m.errObs(err)
	}
	return itemOf(v)
}
func (m *mqQ) apply(o op) (r obs, hung bool) {
	acc := func(lv int) {
		if r.tag == "done" {
			m.sh.accepted(o.x, lv)
		}
	}
	switch o.code {
	case "ac":
		r = direct(func() obs { return m.errObs(m.x.AddCtrl(valOf(o.x))) })
		acc(0)
	case "wc":
		if m.sh.addAnywayWouldBlock(0) {
			return obs{"notissued", 0}, false
		}
		r, hung = guarded(func() obs { return m.errObs(m.x.AddCtrlAnyway(valOf(o.x), time.Millisecond)) })
		acc(0)
	case "pc":
		r = direct(func() obs { return m.errObs(m.x.AddPriorCtrl(valOf(o.x))) })
		acc(0)
	case "ar":
		r = direct(func() obs { return m.errObs(m.x.AddReq(valOf(o.x))) })
		acc(1)
	case "wr":
		if m.sh.addAnywayWouldBlock(1) {
			return obs{"notissued", 0}, false
		}
		r, hung = guarded(func() obs { return m.errObs(m.x.AddReqAnyway(valOf(o.x), time.Millisecond)) })
		acc(1)
	case "pr":
		r = direct(func() obs { return m.errObs(m.x.AddPriorReq(valOf(o.x))) })
		acc(1)
	case "o", "y":
		if m.sh.popWouldBlock() {
			return obs{"notissued", 0}, false
		}
		f := m.x.Pop
		if o.code == "y" {
			f = m.x.PopAnyway
		}
		r, hung = guarded(func() obs { return m.popObs(f()) })
		m.sh.handedOut(r)
	case "c":
		r = direct(func() obs { m.x.Close(); return obs{"done", 0} })
		m.sh.closed = true
	case "tc":
		r = direct(func() obs { return flag(m.x.TryClose()) })
		if r.tag == "flag" && r.v != 0 {
			m.sh.closed = true
		}
	case "tl":
		r = direct(func() obs { return flag(m.x.TryClear()) })
	case "ic":
		r = direct(func() obs { return flag(m.x.IsClosed()) })
		if r.tag == "flag" && r.v == 0 {
			r = direct(func() obs {
				if m.x.WaitClose(cancelledCtx) != context.Canceled {
					return obs{"other", otherWait}
				}
				return flag(false)
			})
		}
		if r.tag == "flag" && r.v != 0 {
			r, hung = guarded(func() obs {
				if m.x.WaitClose(context.Background()) != nil {
					return obs{"other", otherWait}
				}
				return flag(true)
			})
		}
	case "il":
		r = direct(func() obs { return flag(m.x.IsCleared()) })
		if r.tag == "flag" && r.v == 0 {
			r = direct(func() obs {
				if m.x.WaitClear(cancelledCtx) != context.Canceled {
					return obs{"other", otherWait}
				}
				return flag(false)
			})
		}
		if r.tag == "flag" && r.v != 0 {
			r, hung = guarded(func() obs {
				if m.x.WaitClear(context.Background()) != nil {
					return obs{"other", otherWait}
				}
				return flag(true)
			})
		}
	default:
		panic("mq op " + o.code)
	}
	return
}
func (m *mqQ) release() { direct(func() obs { m.x.Close(); return obs{} }) }

var mqCoq = map[string]string{"ac": "MAddCtrl", "wc": "MAddCtrlAnyway", "pc": "MPriorCtrl", "ar": "MAddReq", "wr": "MAddReqAnyway", "pr": "MPriorReq",
	"o": "MPop", "y": "MPopAnyway", "c": "MClose", "tc": "MTryClose", "tl": "MTryClear", "ic": "MIsClosed", "il": "MIsCleared"}
var mqGo = map[string]string{"ac": "AddCtrl", "wc": "AddCtrlAnyway", "pc": "AddPriorCtrl", "ar": "AddReq", "wr": "AddReqAnyway", "pr": "AddPriorReq",
	"o": "Pop", "y": "PopAnyway", "c": "Close", "tc": "TryClose", "tl": "TryClear", "ic": "IsClosed", "il": "IsCleared"}

func mqHasArg(code string) bool {
	return len(code) == 2 && (code[0] == 'a' || code[0] == 'w' || code[0] == 'p')
}
func (m *mqQ) coqOp(o op) string {
	if mqHasArg(o.code) {
		return mqCoq[o.code] + " " + coqZ(o.x)
	}
	return mqCoq[o.code]
}
func (m *mqQ) goOp(o op) string {
	if mqHasArg(o.code) {
		return fmt.Sprintf("%s(%s)", mqGo[o.code], itemName(o.x))
	}
	return mqGo[o.code] + "()"
}

// ---- syncq.SyncQueue ----

type syncQ struct {
	x  *syncq.SyncQueue
	sh *shadow
}

func newSync() *syncQ { return &syncQ{x: syncq.NewSyncQueue(), sh: newShadow(0, 0)} }
func (s *syncQ) apply(o op) (r obs, hung bool) {
	switch o.code {
	case "u":
		r = direct(func() obs { s.x.Push(valOf(o.x)); return obs{"done", 0} })
		// the only thing a Push shows is that it returned; whether the item was taken is what the following pops show.
		// The property says a closed queue drops it, so the harness expects it to be there exactly when Close was not called.
		if r.tag == "done" && !s.sh.closed {
			s.sh.accepted(o.x, 0)
		}
	case "o":
		if s.sh.popWouldBlock() {
			return obs{"notissued", 0}, false
		}
		r, hung = guarded(func() obs {
			v := s.x.Pop()
			if v == nil {
				return obs{"closed", 0}
			}
			return itemOf(v)
		})
		s.sh.handedOut(r)
	case "t":
		r = direct(func() obs {
			v, ok := s.x.TryPop()
			switch {
			case v != nil && ok:
				return itemOf(v)
			case v == nil && ok:
				return obs{"closed", 0}
			case v == nil && !ok:
				return obs{"none", 0}
			}
			return obs{"other", otherValue}
		})
		s.sh.handedOut(r)
	case "l":
		r = direct(func() obs { return obs{"len", int64(s.x.Len())} })
	case "c":
		r = direct(func() obs { s.x.Close(); return obs{"done", 0} })
		s.sh.closed = true
	default:
		panic("sync op " + o.code)
	}
	return
}
func (s *syncQ) release() { direct(func() obs { s.x.Close(); return obs{} }) }
func (s *syncQ) coqOp(o op) string {
	switch o.code {
	case "u":
		return "SPush " + coqZ(o.x)
	case "o":
		return "SPop"
	case "t":
		return "STryPop"
	case "l":
		return "SLen"
	}
	return "SClose"
}
func (s *syncQ) goOp(o op) string {
	switch o.code {
	case "u":
		return fmt.Sprintf("Push(%s)", itemName(o.x))
	case "o":
		return "Pop()"
	case "t":
		return "TryPop()"
	case "l":
		return "Len()"
	}
	return "Close()"
}

// ---- priq.PriQueue ----

type pent struct {
	pri int
	id  int64
}

func (p *pent) GetPriority() int { return p.pri }

type priQ struct {
	x       *priq.PriQueue
	ctorBad bool
}

func newPri(n int) *priQ {
	p := &priQ{x: priq.NewPriQueue(n)}
	p.ctorBad = p.x.WaitCh() == nil
	return p
}
func (p *priQ) apply(o op) (r obs, hung bool) {
	if p.ctorBad {
		return obs{"other", otherCtor}, false
	}
	switch o.code {
	case "u":
		r = direct(func() obs {
			switch err := p.x.Push(&pent{pri: int(o.pri), id: o.x}); err {
			case nil:
				return obs{"done", 0}
			case priq.ErrQueueIsFull:
				return obs{"full", 0}
			}
			return obs{"other", otherErr}
		})
	case "o":
		r = direct(func() obs {
			e := p.x.Pop()
			if e == nil {
				return obs{"none", 0}
			}
			if pe, ok := e.(*pent); ok && pe != nil {
				return obs{"item", pe.id}
			}
			return obs{"other", otherValue}
		})
	case "l":
		r = direct(func() obs { return obs{"len", int64(p.x.Len())} })
	default:
		panic("pri op " + o.code)
	}
	return
}
func (p *priQ) release() {}
func (p *priQ) coqOp(o op) string {
	switch o.code {
	case "u":
		return "QPush " + coqZ(o.pri) + " " + coqZ(o.x)
	case "o":
		return "QPop"
	}
	return "QLen"
}
func (p *priQ) goOp(o op) string {
	switch o.code {
	case "u":
		return fmt.Sprintf("Push(pri=%d,id=%d)", o.pri, o.x)
	case "o":
		return "Pop()"
	}
	return "Len()"
}

// ---- raw calls for the concurrent rounds: goroutine-safe (no shadow), the round as a whole runs under the watchdog ----

func (p *pipeQ) applyRaw(o op) (obs, bool) {
	switch o.code {
	case "a":
		return direct(func() obs { return p.errObs(p.add(valOf(o.x))) }), false
	case "p":
		return direct(func() obs { return p.errObs(p.prior(valOf(o.x))) }), false
	case "y":
		return direct(func() obs { return p.popObs(p.popAnyway()) }), false
	case "o":
		return direct(func() obs { return p.popObs(p.pop()) }), false
	case "w":
		return direct(func() obs { return p.errObs(p.addAnyway(valOf(o.x), time.Millisecond)) }), false
	case "c":
		return direct(func() obs { p.closeFn(); return obs{"done", 0} }), false
	}
	panic("pipe raw op " + o.code)
}
func (m *mqQ) applyRaw(o op) (obs, bool) {
	switch o.code {
	case "ac":
		return direct(func() obs { return m.errObs(m.x.AddCtrl(valOf(o.x))) }), false
	case "pc":
		return direct(func() obs { return m.errObs(m.x.AddPriorCtrl(valOf(o.x))) }), false
	case "ar":
		return direct(func() obs { return m.errObs(m.x.AddReq(valOf(o.x))) }), false
	case "pr":
		return direct(func() obs { return m.errObs(m.x.AddPriorReq(valOf(o.x))) }), false
	case "y":
		return direct(func() obs { return m.popObs(m.x.PopAnyway()) }), false
	case "o":
		return direct(func() obs { return m.popObs(m.x.Pop()) }), false
	case "wc":
		return direct(func() obs { return m.errObs(m.x.AddCtrlAnyway(valOf(o.x), time.Millisecond)) }), false
	case "wr":
		return direct(func() obs { return m.errObs(m.x.AddReqAnyway(valOf(o.x), time.Millisecond)) }), false
	case "c":
		return direct(func() obs { m.x.Close(); return obs{"done", 0} }), false
	}
	panic("mq raw op " + o.code)
}
func (s *syncQ) applyRaw(o op) (obs, bool) {
	switch o.code {
	case "u":
		return direct(func() obs { s.x.Push(valOf(o.x)); return obs{"done", 0} }), false
	case "t":
		return direct(func() obs {
			v, ok := s.x.TryPop()
			switch {
			case v != nil && ok:
				return itemOf(v)
			case v == nil && ok:
				return obs{"closed", 0}
			case v == nil && !ok:
				return obs{"none", 0}
			}
			return obs{"other", otherValue}
		}), false
	case "o":
		return direct(func() obs {
			v := s.x.Pop()
			if v == nil {
				return obs{"closed", 0}
			}
			return itemOf(v)
		}), false
	case "c":
		return direct(func() obs { s.x.Close(); return obs{"done", 0} }), false
	}
	panic("sync raw op " + o.code)
}
func (p *priQ) applyRaw(o op) (obs, bool) { return p.apply(o) }

// ---- held calls: a call that blocks NOW is started in a goroutine and released by the next call of the history ----
// (a Pop / PopAnyway on an empty open queue released by an add or a Close; an add-anyway on a full open queue released by
// a pop that makes room at that level, or by a Close).  With one held call and one releasing call the results are the same
// under every schedule: the held call takes effect after the releasing one.

func isAddCode(kind, code string) bool {
	switch kind {
	case "mq":
		return code == "ac" || code == "pc" || code == "ar" || code == "pr"
	case "sync":
		return code == "u"
	}
	return code == "a" || code == "p"
}

func (p *pipeQ) canHold(held, rel op) bool {
	switch held.code {
	case "o", "y":
		return p.sh.popWouldBlock() && (isAddCode(p.kind, rel.code) || rel.code == "c")
	case "w":
		return p.sh.addAnywayWouldBlock(0) && (rel.code == "c" || ((rel.code == "o" || rel.code == "y") && p.sh.n[0]-1 < p.sh.cap[0]))
	}
	return false
}
func (p *pipeQ) noteHeld(held op, r obs) {
	if held.code == "w" {
		if r.tag == "done" {
			p.sh.accepted(held.x, 0)
		}
		return
	}
	p.sh.handedOut(r)
}
func (m *mqQ) canHold(held, rel op) bool {
	lv := 0
	switch held.code {
	case "o", "y":
		return m.sh.popWouldBlock() && (isAddCode("mq", rel.code) || rel.code == "c")
	case "wr":
		lv = 1
		fallthrough
	case "wc":
		if !m.sh.addAnywayWouldBlock(lv) {
			return false
		}
		if rel.code == "c" {
			return true
		}
		// a pop makes room at this level only if it takes from this level: control messages come out first
		return (rel.code == "o" || rel.code == "y") && (lv == 0 || m.sh.n[0] == 0) && m.sh.n[lv]-1 < m.sh.cap[lv]
	}
	return false
}
func (m *mqQ) noteHeld(held op, r obs) {
	switch held.code {
	case "wc":
		if r.tag == "done" {
			m.sh.accepted(held.x, 0)
		}
	case "wr":
		if r.tag == "done" {
			m.sh.accepted(held.x, 1)
		}
	default:
		m.sh.handedOut(r)
	}
}
func (s *syncQ) canHold(held, rel op) bool {
	return held.code == "o" && s.sh.popWouldBlock() && (rel.code == "u" || rel.code == "c")
}
func (s *syncQ) noteHeld(held op, r obs)  { s.sh.handedOut(r) }
func (p *priQ) canHold(held, rel op) bool { return false }
func (p *priQ) noteHeld(held op, r obs)   {}

func (p *pipeQ) lost() bool { return p.sh.confused }
func (m *mqQ) lost() bool   { return m.sh.confused }
func (s *syncQ) lost() bool { return s.sh.confused }
func (p *priQ) lost() bool  { return false }
