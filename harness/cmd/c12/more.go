package main

// Two further classes (C12_More.v):
//   - constructor histories: several queues built one after the other with different option sets and used interleaved;
//     every queue is judged against the model built from its OWN options;
//   - PriQueue under truly parallel pushers and poppers: conservation and real-time order clauses.

import (
	"fmt"
	"math/rand"
	"runtime"
	"sort"
	"strconv"
	"strings"
	"sync"
	"sync/atomic"
	"time"

	"verifharness/vh"
)

// ---------------- constructor histories ----------------

// one event of a group history: build queue q (code "new") or issue an op on queue q
type gevent struct {
	q int
	o op // o.code == "new": construct
}

func specReplay(sp spec) string {
	cs := make([]string, len(sp.caps))
	for i, c := range sp.caps {
		if sp.no(i) {
			cs[i] = "-"
		} else {
			cs[i] = strconv.Itoa(c)
		}
	}
	return sp.kind + ";" + strings.Join(cs, ",")
}

func parseSpec(s string) (spec, error) {
	parts := strings.SplitN(s, ";", 2)
	if len(parts) != 2 {
		return spec{}, fmt.Errorf("bad spec %q", s)
	}
	sp := spec{kind: parts[0]}
	if parts[1] != "" {
		for _, c := range strings.Split(parts[1], ",") {
			if c == "-" {
				sp.caps = append(sp.caps, 0)
				sp.noOpt = append(sp.noOpt, true)
				continue
			}
			n, err := strconv.Atoi(c)
			if err != nil {
				return spec{}, err
			}
			sp.caps = append(sp.caps, n)
			sp.noOpt = append(sp.noOpt, false)
		}
	}
	need := map[string]int{"q": 1, "async": 1, "mux": 1, "mq": 2}[sp.kind]
	if need == 0 || len(sp.caps) != need {
		return spec{}, fmt.Errorf("bad spec %q", s)
	}
	return sp, nil
}

// replay syntax:  group#spec|spec|...#q:op q:op ...     spec = kind;cap[,cap] with "-" for "option not given"; q:new builds queue q
func groupReplay(specs []spec, evs []gevent) string {
	ss := make([]string, len(specs))
	for i, sp := range specs {
		ss[i] = specReplay(sp)
	}
	es := make([]string, len(evs))
	for i, ev := range evs {
		w := ev.o.code
		if opHasArg(specs[ev.q].kind, ev.o.code) {
			w += strconv.FormatInt(ev.o.x, 10)
		}
		es[i] = fmt.Sprintf("%d:%s", ev.q, w)
	}
	return "group#" + strings.Join(ss, "|") + "#" + strings.Join(es, " ")
}

func parseGroupReplay(arg string) ([]spec, []gevent, error) {
	parts := strings.Split(arg, "#")
	if len(parts) != 3 || parts[0] != "group" {
		return nil, nil, fmt.Errorf("bad group replay %q", arg)
	}
	var specs []spec
	for _, s := range strings.Split(parts[1], "|") {
		sp, err := parseSpec(s)
		if err != nil {
			return nil, nil, err
		}
		specs = append(specs, sp)
	}
	var evs []gevent
	for _, w := range strings.Fields(parts[2]) {
		qa := strings.SplitN(w, ":", 2)
		if len(qa) != 2 {
			return nil, nil, fmt.Errorf("bad event %q", w)
		}
		qi, err := strconv.Atoi(qa[0])
		if err != nil || qi < 0 || qi >= len(specs) {
			return nil, nil, fmt.Errorf("bad event %q", w)
		}
		if qa[1] == "new" {
			evs = append(evs, gevent{qi, op{code: "new"}})
			continue
		}
		i := 0
		for i < len(qa[1]) && (qa[1][i] < '0' || qa[1][i] > '9') && qa[1][i] != '-' {
			i++
		}
		o := op{code: qa[1][:i]}
		if !validCode(specs[qi].kind, o.code) || isHeld(o.code) {
			return nil, nil, fmt.Errorf("bad event %q", w)
		}
		if opHasArg(specs[qi].kind, o.code) {
			x, err := strconv.ParseInt(qa[1][i:], 10, 64)
			if err != nil {
				return nil, nil, fmt.Errorf("bad event %q", w)
			}
			o.x = x
		}
		evs = append(evs, gevent{qi, o})
	}
	return specs, evs, nil
}

func coqOpt(sp spec, i int) string {
	if sp.no(i) {
		return "None"
	}
	return "(Some " + coqZ(int64(sp.caps[i])) + ")"
}

func runGroup(e *vh.Env, specs []spec, evs []gevent, gen string) {
	qs := make([]queue, len(specs))
	steps := make([][]string, len(specs))
	human := []string{}
	done := []gevent{}
	handed, refused := 0, 0
	for _, ev := range evs {
		sp := specs[ev.q]
		if ev.o.code == "new" {
			if qs[ev.q] == nil {
				qs[ev.q] = sp.build()
				done = append(done, ev)
				human = append(human, fmt.Sprintf("q%d := %s", ev.q, ctorText(sp)))
			}
			continue
		}
		if qs[ev.q] == nil {
			continue
		}
		r, hung := qs[ev.q].apply(ev.o)
		done = append(done, ev)
		steps[ev.q] = append(steps[ev.q], "("+qs[ev.q].coqOp(ev.o)+", "+r.coq()+")")
		human = append(human, fmt.Sprintf("q%d.%s = %s", ev.q, qs[ev.q].goOp(ev.o), r.String()))
		switch r.tag {
		case "item":
			handed++
		case "full", "cfull", "closed":
			refused++
		}
		if hung {
			hangs["group"]++
			qs[ev.q].release()
			break
		}
		if r.tag == "other" {
			break
		}
	}
	mqGroup := specs[0].kind == "mq"
	parts := []string{}
	for i, sp := range specs {
		if qs[i] == nil {
			continue
		}
		if mqGroup {
			parts = append(parts, fmt.Sprintf("(%s, %s, %s)", coqOpt(sp, 0), coqOpt(sp, 1), vh.CoqList(steps[i])))
		} else {
			k := map[string]string{"q": "KQ", "async": "KAsync", "mux": "KMux"}[sp.kind]
			parts = append(parts, fmt.Sprintf("(%s, %s, %s)", k, coqOpt(sp, 0), vh.CoqList(steps[i])))
		}
	}
	head, class := "CGroupPipe ", "constructors pipe queues"
	if mqGroup {
		head, class = "CGroupMQ ", "constructors pipe/mq.MQ"
	}
	e.Emit(vh.Case{Coq: head + vh.CoqList(parts), Class: class, Nontrivial: handed > 0 || refused > 0,
		Replay: groupReplay(specs, done),
		Desc:   map[string]interface{}{"generator": gen, "history": human}})
}

func ctorText(sp spec) string {
	switch sp.kind {
	case "q":
		if sp.no(0) {
			return "q.NewQ()"
		}
		return fmt.Sprintf("q.NewQ(q.WithSize(%d))", sp.caps[0])
	case "async":
		return fmt.Sprintf("async.NewQ(%d)", sp.caps[0])
	case "mux":
		return fmt.Sprintf("mux.NewQ(%d)", sp.caps[0])
	case "mq":
		var o []string
		if !sp.no(0) {
			o = append(o, fmt.Sprintf("WithQCtrlSize(%d)", sp.caps[0]))
		}
		if !sp.no(1) {
			o = append(o, fmt.Sprintf("WithQReqSize(%d)", sp.caps[1]))
		}
		return "mq.NewMQ(" + strings.Join(o, ", ") + ")"
	}
	return sp.kind
}

// genGroup: 2..4 queues; the first is built with every option explicit (so that whatever a group shows is reproducible from the
// group alone), the later ones with random subsets of options - typically bounded first, then unbounded / "no option".
func genGroup(r *rand.Rand, mqGroup bool) ([]spec, []gevent) {
	g := 2 + r.Intn(3)
	specs := make([]spec, g)
	bounded := []int{1, 2, 2, 3, 5}
	for i := range specs {
		explicit := i == 0
		if mqGroup {
			sp := spec{kind: "mq", caps: []int{0, 0}, noOpt: []bool{false, false}}
			for j := 0; j < 2; j++ {
				switch {
				case !explicit && r.Intn(2) == 0:
					sp.noOpt[j] = true
				case r.Intn(4) == 0:
					sp.caps[j] = 0
				default:
					sp.caps[j] = bounded[r.Intn(len(bounded))]
				}
			}
			specs[i] = sp
			continue
		}
		kind := []string{"q", "q", "q", "async", "mux"}[r.Intn(5)]
		sp := spec{kind: kind, caps: []int{0}, noOpt: []bool{false}}
		switch {
		case kind == "q" && !explicit && r.Intn(2) == 0:
			sp.noOpt[0] = true
		case !explicit && r.Intn(4) == 0:
			sp.caps[0] = 0
		default:
			sp.caps[0] = bounded[r.Intn(len(bounded))]
		}
		specs[i] = sp
	}
	n := 8 + r.Intn(34)
	built := 1
	evs := []gevent{{0, op{code: "new"}}}
	if r.Intn(2) == 0 { // build everything first
		for ; built < g; built++ {
			evs = append(evs, gevent{built, op{code: "new"}})
		}
	}
	id := int64(0)
	for i := 0; i < n; i++ {
		if built < g && r.Intn(4) == 0 {
			evs = append(evs, gevent{built, op{code: "new"}})
			built++
			continue
		}
		qi := r.Intn(built)
		if r.Intn(3) == 0 {
			qi = built - 1 // the most recently built queue is the interesting one
		}
		fill, mix, _ := tables(specs[qi].kind)
		code := fill.pick(r)
		if r.Intn(3) == 0 {
			code = mix.pick(r)
		}
		switch code { // the retrying adds are exercised by the single-queue classes; here a wrong bound must show as a refusal, not as a hang
		case "w":
			code = "a"
		case "wc":
			code = "ac"
		case "wr":
			code = "ar"
		}
		o := op{code: code}
		if opHasArg(specs[qi].kind, code) {
			id++
			o.x = id
		}
		evs = append(evs, gevent{qi, o})
	}
	for ; built < g; built++ {
		evs = append(evs, gevent{built, op{code: "new"}})
		for k := 0; k < 4; k++ {
			id++
			code := "a"
			if mqGroup {
				code = []string{"ac", "ar"}[k%2]
			}
			evs = append(evs, gevent{built, op{code: code, x: id}})
		}
	}
	return specs, evs
}

func groupCorpus() []string {
	return []string{
		"group#q;2|q;-#0:new 1:new 1:a1 1:a2 1:a3 1:a4 0:a5 0:a6 0:a7",
		"group#q;1|q;-|q;3|q;-#0:new 0:a1 0:a2 1:new 1:a3 1:a4 2:new 3:new 3:a5 3:a6 3:a7 3:a8 2:a9 2:a10 2:a11 2:a12 0:o 1:o",
		"group#q;0|q;2|q;-#0:new 1:new 2:new 0:a1 0:a2 0:a3 2:a4 2:a5 2:a6 1:a7 1:a8 1:a9",
		"group#mux;2|async;0|q;-|mux;0#0:new 1:new 2:new 3:new 1:a1 1:a2 1:a3 2:a4 2:a5 2:a6 3:a7 3:a8 3:a9 0:a10 0:a11 0:a12",
		"group#mq;2,1|mq;-,-#0:new 1:new 1:ac1 1:ac2 1:ac3 1:ar4 1:ar5 0:ac6 0:ac7 0:ac8 0:ar9 0:ar10",
		"group#mq;1,1|mq;3,-|mq;-,2|mq;-,-#0:new 1:new 2:new 3:new 1:ar1 1:ar2 1:ac3 1:ac4 1:ac5 1:ac6 2:ac7 2:ac8 2:ar9 2:ar10 2:ar11 3:ac12 3:ac13 3:ar14 3:ar15",
	}
}

// ---------------- PriQueue, parallel pushers and poppers ----------------

type parStats struct{ rounds, calls, emitted, suspicious, hung int }

func (s parStats) String() string {
	return fmt.Sprintf("rounds=%d calls=%d evaluated_in_coq=%d rounds_with_lost_or_duplicated_item=%d hung=%d", s.rounds, s.calls, s.emitted, s.suspicious, s.hung)
}

func parPri(rnd *rand.Rand, e *vh.Env, rounds, sample int) parStats {
	var st parStats
	if runtime.GOMAXPROCS(0) < 8 {
		runtime.GOMAXPROCS(8)
	}
	for round := 0; round < rounds; round++ {
		capn := 1 << 20
		if rnd.Intn(6) == 0 {
			capn = 4 + rnd.Intn(8)
		}
		np, nc := 2+rnd.Intn(3), 2+rnd.Intn(3)
		per := 6 + rnd.Intn(10)
		span := int64(1 + rnd.Intn(4))
		pq := newPri(capn)
		var tick int64
		type tcall struct {
			o         op
			r         obs
			inv, resp int64
			th        int
		}
		logs := make([][]tcall, np+nc+1)
		rec := func(th int, o op) obs {
			i := atomic.AddInt64(&tick, 1)
			r, _ := pq.apply(o)
			j := atomic.AddInt64(&tick, 1)
			logs[th] = append(logs[th], tcall{o, r, i, j, th})
			return r
		}
		// the pushes are fixed before the goroutines start (the shared rand.Rand is not used concurrently)
		plan := make([][]op, np)
		id := int64(0)
		for t := range plan {
			for k := 0; k < per; k++ {
				id++
				plan[t] = append(plan[t], op{code: "u", x: id, pri: rnd.Int63n(span)})
			}
		}
		var start int32
		var wg sync.WaitGroup
		for t := 0; t < np; t++ {
			wg.Add(1)
			go func(t int) {
				defer wg.Done()
				for atomic.LoadInt32(&start) == 0 {
				}
				for _, o := range plan[t] {
					rec(t+1, o)
				}
			}(t)
		}
		for t := 0; t < nc; t++ {
			wg.Add(1)
			go func(t int) {
				defer wg.Done()
				for atomic.LoadInt32(&start) == 0 {
				}
				for k := 0; k < per; k++ {
					rec(np+1+t, op{code: "o"})
				}
			}(t)
		}
		done := make(chan struct{})
		go func() { wg.Wait(); close(done) }()
		atomic.StoreInt32(&start, 1)
		tm := time.NewTimer(hangTimeout())
		select {
		case <-done:
			tm.Stop()
		case <-tm.C:
			noteHang()
			st.hung++
			e.Emit(vh.Case{Coq: "CParPri " + coqZ(int64(capn)) + " [(QPop, ROther 2%Z, 1%Z, 2%Z)]", Class: "parallel priq.PriQueue", Nontrivial: true,
				Desc: map[string]interface{}{"queue": kindName["pri"], "generator": "parallel push/pop", "history": []string{"a round of parallel Push / Pop NEVER RETURNED"}}})
			if st.hung >= 2 {
				return st
			}
			continue
		}
		for k := 0; k < np*per+2; k++ { // final drain at quiescence (every goroutine has returned)
			if r := rec(0, op{code: "o"}); r.tag != "item" {
				break
			}
		}
		var cs []tcall
		for _, l := range logs {
			cs = append(cs, l...)
		}
		st.rounds++
		st.calls += len(cs)
		// ticks -> ranks
		ts := make([]int64, 0, 2*len(cs))
		for _, c := range cs {
			ts = append(ts, c.inv, c.resp)
		}
		sort.Slice(ts, func(a, b int) bool { return ts[a] < ts[b] })
		rank := map[int64]int64{}
		for i, t := range ts {
			rank[t] = int64(i + 1)
		}
		for i := range cs {
			cs[i].inv, cs[i].resp = rank[cs[i].inv], rank[cs[i].resp]
		}
		sort.SliceStable(cs, func(a, b int) bool { return cs[a].inv < cs[b].inv })
		// which rounds go to Coq: a sample of the ordinary ones and EVERY round in which the multiset of handed-out items
		// differs from the accepted pushes (or a call panicked)
		acc, out := map[int64]int{}, map[int64]int{}
		susp := false
		for _, c := range cs {
			switch {
			case c.o.code == "u" && c.r.tag == "done":
				acc[c.o.x]++
			case c.r.tag == "item":
				out[c.r.v]++
			case c.r.tag == "other":
				susp = true
			}
		}
		for k, v := range out {
			if v != 1 || acc[k] != 1 {
				susp = true
			}
		}
		for k := range acc {
			if out[k] != 1 {
				susp = true
			}
		}
		if susp {
			st.suspicious++
		}
		if !susp && st.emitted >= sample {
			continue
		}
		st.emitted++
		parts := make([]string, len(cs))
		human := make([]string, len(cs))
		for i, c := range cs {
			parts[i] = fmt.Sprintf("(%s, %s, %s, %s)", pq.coqOp(c.o), c.r.coq(), coqZ(c.inv), coqZ(c.resp))
			human[i] = fmt.Sprintf("g%d [%d,%d] %s = %s", c.th, c.inv, c.resp, pq.goOp(c.o), c.r.String())
		}
		e.Emit(vh.Case{Coq: "CParPri " + coqZ(int64(capn)) + " " + vh.CoqList(parts), Class: "parallel priq.PriQueue", Nontrivial: true,
			Desc: map[string]interface{}{"queue": kindName["pri"], "capacity": []int{capn}, "generator": "parallel push/pop",
				"history": human, "note": fmt.Sprintf("%d pushers, %d poppers, g0 = final drain at quiescence; [invocation, response] ticks", np, nc)}})
	}
	return st
}
