// Command c12 is the correspondence harness of property C12 (queues: FIFO/priority order, capacity, close semantics).
//
// It constructs the six real queue types of /repo, runs sequential histories of non-blocking calls on them and emits one
// case per history: the configuration, and for every call the result it returned.  Coq then evaluates case_accept (the
// implementation returned what the model returns) and case_holds (the property's clauses, followed on the observed
// results) on every case.
//
// Two generators: (1) ALL call sequences up to a small length over a reduced alphabet, per queue type and for capacities
// at the branch boundaries (exhaustive small scope: every slip that shows within that many calls is caught on every seed);
// (2) random histories (seeded) with a phase structure: a filling phase biased to run into the bound, prior adds beyond the
// bound, an optional Close at a random point with residue, then a phase mixing Pop / PopAnyway / refused adds / TryClose /
// TryClear.  A malformed stream uses non-positive capacities and calls in "illegal" states (adds after close, pops after
// the queue reported closed, TryClear before Close, double Close).
package main

import (
	"fmt"
	"math/rand"
	"runtime"
	"strconv"
	"strings"
	"time"

	"verifharness/vh"
)

// ---- configurations ----

type spec struct {
	kind  string // q async mux mq sync pri
	caps  []int
	noOpt []bool // q / mq: the size option of that position is NOT given to the constructor (its capacity is then 0)
}

func (s spec) no(i int) bool { return i < len(s.noOpt) && s.noOpt[i] }

var kindName = map[string]string{"q": "pipe/q.Q", "async": "pipe/async.Q", "mux": "pipe/mux.Q", "mq": "pipe/mq.MQ", "sync": "syncq.SyncQueue", "pri": "priq.PriQueue"}
var kindOrder = []string{"q", "async", "mux", "mq", "sync", "pri"}

func (s spec) build() queue {
	switch s.kind {
	case "q", "async", "mux":
		return newPipe(s.kind, s.caps[0], s.no(0))
	case "mq":
		return newMQ(s.caps[0], s.caps[1], s.no(0), s.no(1))
	case "sync":
		return newSync()
	case "pri":
		return newPri(s.caps[0])
	}
	panic("kind " + s.kind)
}
func (s spec) class() string {
	switch s.kind {
	case "mq":
		return fmt.Sprintf("%s cap=%d,%d", kindName[s.kind], s.caps[0], s.caps[1])
	case "sync":
		return kindName[s.kind]
	}
	return fmt.Sprintf("%s cap=%d", kindName[s.kind], s.caps[0])
}
func (s spec) coqHead() string {
	switch s.kind {
	case "q":
		return "CPipe KQ " + coqZ(int64(s.caps[0]))
	case "async":
		return "CPipe KAsync " + coqZ(int64(s.caps[0]))
	case "mux":
		return "CPipe KMux " + coqZ(int64(s.caps[0]))
	case "mq":
		return "CMQ " + coqZ(int64(s.caps[0])) + " " + coqZ(int64(s.caps[1]))
	case "sync":
		return "CSync"
	}
	return "CPri " + coqZ(int64(s.caps[0]))
}

// replay syntax:  kind;cap[,cap];op op op      e.g.  q;2;a1 a2 p3 o c y y
func (s spec) replay(ops []op) string {
	cs := make([]string, len(s.caps))
	for i, c := range s.caps {
		cs[i] = strconv.Itoa(c)
	}
	os := make([]string, len(ops))
	for i, o := range ops {
		switch {
		case s.kind == "pri" && o.code == "u":
			os[i] = fmt.Sprintf("u%d:%d", o.pri, o.x)
		case opHasArg(s.kind, o.code):
			os[i] = fmt.Sprintf("%s%d", o.code, o.x)
		default:
			os[i] = o.code
		}
	}
	return s.kind + ";" + strings.Join(cs, ",") + ";" + strings.Join(os, " ")
}

func opHasArg(kind, code string) bool {
	if isHeld(code) {
		code = code[1:]
	}
	switch kind {
	case "q", "async", "mux":
		return code == "a" || code == "w" || code == "p"
	case "mq":
		return mqHasArg(code)
	}
	return code == "u"
}

func parseReplay(arg string) (spec, []op, error) {
	parts := strings.SplitN(arg, ";", 3)
	if len(parts) != 3 {
		return spec{}, nil, fmt.Errorf("bad replay argument %q", arg)
	}
	sp := spec{kind: parts[0]}
	if _, ok := kindName[sp.kind]; !ok {
		return spec{}, nil, fmt.Errorf("bad kind %q", sp.kind)
	}
	if parts[1] != "" {
		for _, c := range strings.Split(parts[1], ",") {
			n, err := strconv.Atoi(c)
			if err != nil {
				return spec{}, nil, err
			}
			sp.caps = append(sp.caps, n)
		}
	}
	need := map[string]int{"q": 1, "async": 1, "mux": 1, "mq": 2, "sync": 0, "pri": 1}[sp.kind]
	if len(sp.caps) != need {
		return spec{}, nil, fmt.Errorf("kind %s needs %d capacities", sp.kind, need)
	}
	var ops []op
	for _, w := range strings.Fields(parts[2]) {
		i := 0
		for i < len(w) && (w[i] < '0' || w[i] > '9') && w[i] != '-' {
			i++
		}
		o := op{code: w[:i]}
		rest := w[i:]
		if sp.kind == "pri" && o.code == "u" {
			pq := strings.SplitN(rest, ":", 2)
			if len(pq) != 2 {
				return spec{}, nil, fmt.Errorf("bad push %q", w)
			}
			p, err1 := strconv.ParseInt(pq[0], 10, 64)
			x, err2 := strconv.ParseInt(pq[1], 10, 64)
			if err1 != nil || err2 != nil {
				return spec{}, nil, fmt.Errorf("bad push %q", w)
			}
			o.pri, o.x = p, x
		} else if opHasArg(sp.kind, o.code) {
			x, err := strconv.ParseInt(rest, 10, 64)
			if err != nil {
				return spec{}, nil, fmt.Errorf("bad op %q", w)
			}
			o.x = x
		} else if rest != "" {
			return spec{}, nil, fmt.Errorf("bad op %q", w)
		}
		if !validCode(sp.kind, o.code) {
			return spec{}, nil, fmt.Errorf("bad op %q for %s", w, sp.kind)
		}
		ops = append(ops, o)
	}
	return sp, ops, nil
}

func validCode(kind, code string) bool {
	var set string
	switch kind {
	case "q":
		set = "a w p o y c ho hy hw"
	case "async", "mux":
		set = "a w p o y c i ho hy hw"
	case "mq":
		set = "ac wc pc ar wr pr o y c tc tl ic il ho hy hwc hwr"
	case "sync":
		set = "u o t l c ho"
	case "pri":
		set = "u o l"
	}
	for _, c := range strings.Fields(set) {
		if c == code {
			return true
		}
	}
	return false
}

// held calls: "h" + the code of a call that blocks when it is issued; the NEXT op of the history releases it
func isHeld(code string) bool {
	switch code {
	case "ho", "hy", "hw", "hwc", "hwr":
		return true
	}
	return false
}

// runHeld starts `held` in a goroutine, issues the releasing calls, then joins `held` (under the watchdog).
func runHeld(qu queue, held op, rels []op) (rRels []obs, rHeld obs, hung bool) {
	started := make(chan struct{})
	res := make(chan obs, 1)
	go func() {
		defer func() {
			if p := recover(); p != nil {
				res <- obs{"other", otherPanic}
			}
		}()
		close(started)
		r, _ := qu.applyRaw(held)
		res <- r
	}()
	<-started
	for i := 0; i < 40; i++ { // give it a chance to really block first (either order is a legal schedule with the same results)
		runtime.Gosched()
	}
	for k, rel := range rels {
		r, h := qu.apply(rel)
		rRels = append(rRels, r)
		if h {
			for len(rRels) < len(rels) {
				rRels = append(rRels, obs{"other", otherHang})
			}
			return rRels, obs{"other", otherHang}, true
		}
		if k+1 < len(rels) { // let the sleeping add-anyway notice the Close before the slot is freed (either order is legal)
			for i := 0; i < 40; i++ {
				runtime.Gosched()
			}
		}
	}
	t := time.NewTimer(hangTimeout())
	defer t.Stop()
	select {
	case rHeld = <-res:
	case <-t.C:
		noteHang()
		return rRels, obs{"other", otherHang}, true
	}
	qu.noteHeld(held, rHeld)
	return rRels, rHeld, false
}

// ---- running one history ----

var hangs = map[string]int{} // per queue type: calls that never returned

func runCase(e *vh.Env, sp spec, ops []op, gen string) { runCaseX(e, sp, ops, gen, false, "") }

type stepRec struct {
	o    op
	r    obs
	note string
}

// runs: maximal groups of steps with the same call and the same kind of answer whose items are consecutive integers
func compress(st []stepRec) [][2]int { // (first index, count)
	var out [][2]int
	for i := 0; i < len(st); {
		j := i + 1
		for j < len(st) {
			k := int64(j - i)
			a, b := st[i], st[j]
			if b.note != "" || a.note != "" || b.o.code != a.o.code || b.o.pri != a.o.pri || b.r.tag != a.r.tag {
				break
			}
			if a.o.x != 0 || b.o.x != 0 {
				if a.o.x <= 0 || b.o.x != a.o.x+k { // boundary values (negative ids) are never part of a run
					break
				}
			}
			if a.r.tag == "item" {
				if a.r.v <= 0 || b.r.v != a.r.v+k {
					break
				}
			} else if b.r.v != a.r.v {
				break
			}
			j++
		}
		out = append(out, [2]int{i, j - i})
		i = j
	}
	return out
}

// runCaseX: runLength = emit the history run-length encoded (C12_Runs.v); class = class label override
func runCaseX(e *vh.Env, sp spec, ops []op, gen string, runLength bool, class string) {
	qu := sp.build()
	var st []stepRec
	done := ops[:0:0]
	handed, refused := 0, 0
	record := func(o op, r obs, note string) {
		st = append(st, stepRec{o, r, note})
		switch r.tag {
		case "item":
			handed++
		case "full", "cfull", "closed":
			refused++
		}
	}
	const heldNote = "   [this call was started BEFORE the previous line's call(s), while it had to block, and returned after them]"
	for i := 0; i < len(ops); i++ {
		o := ops[i]
		if isHeld(o.code) {
			plain := o
			plain.code = o.code[1:]
			if i+1 < len(ops) && !isHeld(ops[i+1].code) && qu.canHold(plain, ops[i+1]) {
				rels := []op{ops[i+1]}
				// an add-anyway asleep across Close AND the pop that then frees a slot: it must still be refused
				if plain.code[0] == 'w' && ops[i+1].code == "c" && i+2 < len(ops) && ops[i+2].code == "y" {
					rels = append(rels, ops[i+2])
				}
				i += len(rels)
				rRels, rHeld, hung := runHeld(qu, plain, rels)
				done = append(done, o)
				done = append(done, rels...)
				for k, rel := range rels {
					record(rel, rRels[k], "")
				}
				record(plain, rHeld, heldNote)
				if hung {
					hangs[sp.kind]++
					qu.release()
					break
				}
				bad := rHeld.tag == "other"
				for _, r := range rRels {
					bad = bad || r.tag == "other"
				}
				if bad {
					break
				}
				continue
			}
			o = plain // it would not block (or the next call would not release it): an ordinary call
		}
		r, hung := qu.apply(o)
		done = append(done, o)
		record(o, r, "")
		if hung {
			hangs[sp.kind]++
			qu.release()
			break
		}
		if r.tag == "other" || qu.lost() { // a panic / foreign value / ErrSync / an item that was not pending: state unknown from here on
			break
		}
	}
	caps := sp.caps
	if caps == nil {
		caps = []int{}
	}
	var coq string
	var human []string
	if runLength {
		runs := compress(st)
		parts := make([]string, len(runs))
		for k, rn := range runs {
			f := st[rn[0]]
			parts[k] = fmt.Sprintf("((%s, %s), %d%%nat)", qu.coqOp(f.o), f.r.coq(), rn[1])
			if rn[1] == 1 {
				human = append(human, qu.goOp(f.o)+" = "+f.r.String()+f.note)
			} else {
				l := st[rn[0]+rn[1]-1]
				human = append(human, fmt.Sprintf("%d x  %s = %s  ...  %s = %s", rn[1], qu.goOp(f.o), f.r.String(), qu.goOp(l.o), l.r.String()))
			}
		}
		coq = strings.Replace(sp.coqHead(), "C", "CRun", 1) + " " + vh.CoqList(parts)
	} else {
		steps := make([]string, len(st))
		for k, x := range st {
			steps[k] = "(" + qu.coqOp(x.o) + ", " + x.r.coq() + ")"
			human = append(human, qu.goOp(x.o)+" = "+x.r.String()+x.note)
		}
		coq = sp.coqHead() + " " + vh.CoqList(steps)
	}
	if class == "" {
		class = sp.class()
	}
	e.Emit(vh.Case{
		Coq:        coq,
		Class:      class,
		Nontrivial: handed > 0 || refused > 0,
		Replay:     sp.replay(done),
		Desc:       map[string]interface{}{"queue": kindName[sp.kind], "capacity": caps, "generator": gen, "history": human},
	})
}

// ---- generators ----

type wtab struct {
	codes []string
	w     []int
}

func (t wtab) pick(r *rand.Rand) string {
	tot := 0
	for _, x := range t.w {
		tot += x
	}
	k := r.Intn(tot)
	for i, x := range t.w {
		if k < x {
			return t.codes[i]
		}
		k -= x
	}
	return t.codes[len(t.codes)-1]
}

var pipeCodes = []string{"a", "w", "p", "o", "y", "c", "i"}
var pipeFill = []int{55, 8, 16, 6, 6, 0, 3}
var pipeMix = []int{30, 6, 10, 18, 14, 2, 4}
var pipeDrain = []int{14, 3, 6, 30, 32, 3, 4}

var mqCodes = []string{"ac", "wc", "pc", "ar", "wr", "pr", "o", "y", "c", "tc", "tl", "ic", "il"}
var mqFill = []int{24, 4, 8, 24, 4, 8, 5, 5, 0, 4, 2, 2, 1}
var mqMix = []int{14, 3, 5, 14, 3, 5, 14, 12, 1, 8, 6, 3, 2}
var mqDrain = []int{6, 2, 3, 6, 2, 3, 22, 26, 2, 8, 12, 3, 3}

var syncCodes = []string{"u", "o", "t", "l", "c"}
var syncFill = []int{60, 8, 10, 8, 0}
var syncMix = []int{34, 18, 22, 10, 2}
var syncDrain = []int{14, 30, 30, 10, 3}

var priCodes = []string{"u", "o", "l"}
var priFill = []int{70, 12, 6}
var priMix = []int{45, 40, 8}
var priDrain = []int{15, 70, 8}

func tables(kind string) (fill, mix, drain wtab) {
	cp := func(codes []string, w []int) wtab { return wtab{codes, append([]int(nil), w...)} }
	switch kind {
	case "q", "async", "mux":
		fill, mix, drain = cp(pipeCodes, pipeFill), cp(pipeCodes, pipeMix), cp(pipeCodes, pipeDrain)
		if kind == "q" { // q.Q has no IsClosed
			fill.w[6], mix.w[6], drain.w[6] = 0, 0, 0
		}
	case "mq":
		fill, mix, drain = cp(mqCodes, mqFill), cp(mqCodes, mqMix), cp(mqCodes, mqDrain)
	case "sync":
		fill, mix, drain = cp(syncCodes, syncFill), cp(syncCodes, syncMix), cp(syncCodes, syncDrain)
	case "pri":
		fill, mix, drain = cp(priCodes, priFill), cp(priCodes, priMix), cp(priCodes, priDrain)
	}
	return
}

func closeCode(kind string) string {
	if kind == "pri" {
		return ""
	}
	return "c"
}

// random history with a phase structure
func genRandom(r *rand.Rand, kind string, maxLen int) []op {
	fill, mix, drain := tables(kind)
	var n int
	switch r.Intn(3) {
	case 0:
		n = 2 + r.Intn(8)
	case 1:
		n = 6 + r.Intn(14)
	default:
		n = 10 + r.Intn(maxLen-9)
	}
	closeAt := -1
	if closeCode(kind) != "" && r.Intn(10) < 7 {
		closeAt = r.Intn(n)
	}
	fillLen := r.Intn(n + 1)
	if closeAt >= 0 && r.Intn(2) == 0 {
		fillLen = closeAt
	}
	after := mix
	if r.Intn(2) == 0 {
		after = drain
	}
	var pris []int64
	switch r.Intn(4) {
	case 0:
		pris = []int64{0, 1}
	case 1:
		pris = []int64{0, 1, 2}
	case 2:
		pris = []int64{-1, 0, 0, 5}
	default:
		pris = []int64{7}
	}
	if r.Intn(12) == 0 {
		pris = []int64{-9223372036854775808 + 1, 0, 9223372036854775807 - 1}
	}
	// boundary values of the interface{} item type (nil, typed nil, "", 0, struct{}{}) in a quarter of the histories
	var specials []int64
	if r.Intn(4) == 0 {
		switch kind {
		case "q", "async", "mux", "mq":
			specials = []int64{-1, -1, -2, -3, -4, -5}
		case "sync":
			specials = []int64{-2, -3, -4, -5}
		}
	}
	holds := r.Intn(3) == 0
	id := int64(0)
	ops := make([]op, 0, n)
	for i := 0; i < n; i++ {
		var code string
		switch {
		case i == closeAt:
			code = closeCode(kind)
		case i < fillLen:
			code = fill.pick(r)
		default:
			code = after.pick(r)
		}
		o := op{code: code}
		if opHasArg(kind, code) {
			id++
			o.x = id
			if kind == "pri" {
				o.pri = pris[r.Intn(len(pris))]
			}
			if specials != nil && r.Intn(3) == 0 {
				o.x = specials[r.Intn(len(specials))]
			}
		}
		ops = append(ops, o)
		// held calls: the pop / add-anyway is started although it has to block, the next call releases it
		if holds && i+1 < n && r.Intn(3) == 0 {
			var rels []string
			hcode := ""
			switch code {
			case "o", "y":
				if kind != "sync" || code == "o" {
					hcode = "h" + code
					switch kind {
					case "mq":
						rels = []string{"ac", "ar", "pc", "pr", "c"}
					case "sync":
						rels = []string{"u", "u", "c"}
					default:
						rels = []string{"a", "a", "p", "c"}
					}
				}
			case "w", "wc", "wr":
				hcode = "h" + code
				rels = []string{"y", "o", "y", "c"}
			}
			if hcode != "" && kind != "pri" {
				ops[len(ops)-1].code = hcode
				rel := op{code: rels[r.Intn(len(rels))]}
				if opHasArg(kind, rel.code) {
					id++
					rel.x = id
				}
				ops = append(ops, rel)
				i++
				if rel.code == "c" && hcode[1] == 'w' {
					ops = append(ops, op{code: "y"})
					i++
				}
			}
		}
	}
	return ops
}

// held-call streams, built so that the held calls really have to block: fill a bounded level to its capacity, hold an
// add-anyway and release it (pop / Close); drain to empty, hold a Pop / PopAnyway and release it (add / prior add / Close)
func genHold(r *rand.Rand, kind string) (spec, []op) {
	id := int64(0)
	next := func(code string) op { id++; return op{code: code, x: id} }
	var ops []op
	blocks := 2 + r.Intn(4)
	if kind == "sync" {
		for b := 0; b < blocks; b++ {
			for i := r.Intn(3); i > 0; i-- {
				ops = append(ops, next("u"))
			}
			for i := 0; i < 3; i++ {
				ops = append(ops, op{code: "t"})
			}
			ops = append(ops, op{code: "ho"})
			if r.Intn(4) == 0 {
				ops = append(ops, op{code: "c"}, op{code: "t"}, op{code: "ho"}, next("u"))
				break
			}
			ops = append(ops, next("u"))
		}
		return spec{kind: "sync"}, ops
	}
	c := 1 + r.Intn(3)
	if kind == "mq" {
		rc := 1 + r.Intn(3)
		sp := spec{kind: "mq", caps: []int{c, rc}}
		closed := false
		for b := 0; b < blocks && !closed; b++ {
			lvl := r.Intn(2) // the level whose add-anyway is held; the control list must be empty for a pop to make room in the request list
			n, add, hw := c, "ac", "hwc"
			if lvl == 1 {
				n, add, hw = rc, "ar", "hwr"
			}
			for i := 0; i < n; i++ {
				ops = append(ops, next(add))
			}
			ops = append(ops, next(hw))
			switch r.Intn(5) {
			case 0:
				ops = append(ops, op{code: "c"})
				closed = true
			case 1:
				ops = append(ops, op{code: "o"})
			default:
				ops = append(ops, op{code: "y"})
			}
			for i := 0; i < n+1; i++ { // drain
				ops = append(ops, op{code: "y"})
			}
			if closed {
				break
			}
			ops = append(ops, op{code: []string{"ho", "hy"}[r.Intn(2)]})
			switch r.Intn(6) {
			case 0:
				ops = append(ops, op{code: "c"}, op{code: "hy"}, next("ac"))
				closed = true
			default:
				ops = append(ops, next([]string{"ac", "ar", "pc", "pr"}[r.Intn(4)]))
			}
		}
		return sp, ops
	}
	sp := spec{kind: kind, caps: []int{c}}
	closed := false
	for b := 0; b < blocks && !closed; b++ {
		for i := 0; i < c; i++ {
			ops = append(ops, next([]string{"a", "a", "p"}[r.Intn(3)]))
		}
		ops = append(ops, next("hw"))
		switch r.Intn(5) {
		case 0:
			ops = append(ops, op{code: "c"})
			closed = true
		case 1:
			ops = append(ops, op{code: "o"})
		default:
			ops = append(ops, op{code: "y"})
		}
		for i := 0; i < c+1; i++ {
			ops = append(ops, op{code: "y"})
		}
		if closed {
			break
		}
		ops = append(ops, op{code: []string{"ho", "hy"}[r.Intn(2)]})
		switch r.Intn(6) {
		case 0:
			ops = append(ops, op{code: "c"}, op{code: "hy"}, next("a"))
			closed = true
		default:
			ops = append(ops, next([]string{"a", "p"}[r.Intn(2)]))
		}
	}
	return sp, ops
}

// class "backlog sizes x operation": h items come and go, a backlog of exactly b consecutive items is built, the add under
// test is issued (plus a second prior / ordinary add), everything is drained; emitted run-length encoded.
var backlogSizes = []int{0, 1, 2, 7, 8, 9, 15, 16, 17, 31, 32, 33, 63, 64, 65, 127, 128, 129, 255, 256, 257, 1023, 1024, 1025}

type addKind struct{ kind, code, fill string } // the add under test and the ordinary add that builds the backlog of that level

var addKinds = []addKind{
	{"q", "a", "a"}, {"q", "p", "a"}, {"q", "w", "a"},
	{"async", "a", "a"}, {"async", "p", "a"}, {"async", "w", "a"},
	{"mux", "a", "a"}, {"mux", "p", "a"}, {"mux", "w", "a"},
	{"mq", "ac", "ac"}, {"mq", "pc", "ac"}, {"mq", "wc", "ac"}, {"mq", "ar", "ar"}, {"mq", "pr", "ar"}, {"mq", "wr", "ar"},
	{"sync", "u", "u"}, {"pri", "u", "u"},
}

func genBacklog(ak addKind, b, h, variant int) (spec, []op) {
	id := int64(0)
	var ops []op
	add := func(code string, n int) {
		for i := 0; i < n; i++ {
			id++
			ops = append(ops, op{code: code, x: id})
		}
	}
	pop := "y"
	switch ak.kind {
	case "sync":
		pop = "t"
	case "pri":
		pop = "o"
	}
	pops := func(n int) {
		for i := 0; i < n; i++ {
			ops = append(ops, op{code: pop})
		}
	}
	sp := spec{kind: ak.kind}
	switch ak.kind {
	case "mq":
		sp.caps = []int{0, 0}
	case "sync":
	case "pri":
		sp.caps = []int{b + h + 8}
	default:
		sp.caps = []int{0}
		if variant%4 == 3 && ak.code != "p" {
			sp.caps = []int{b + 1} // the add under test is the last one the bound lets in
		}
	}
	if variant%2 == 0 { // h come and go first, then the backlog
		add(ak.fill, h)
		pops(h)
		add(ak.fill, b)
	} else { // b+h queued, h popped
		add(ak.fill, b+h)
		pops(h)
	}
	// the add under test
	id += 1000
	t := op{code: ak.code, x: id}
	if ak.kind == "pri" { // "prior" for the priority queue: a higher priority; then an equal and a lower one
		t.pri = 5
	}
	ops = append(ops, t)
	switch {
	case ak.kind == "pri":
		ops = append(ops, op{code: "u", x: id + 1, pri: 0}, op{code: "u", x: id + 2, pri: -1}, op{code: "l"})
	case ak.kind == "sync":
		ops = append(ops, op{code: "l"})
	case variant%3 == 0 && len(sp.caps) > 0 && sp.caps[0] == 0: // one more of the other kind behind / in front of it
		other := map[string]string{"a": "p", "p": "a", "w": "p", "ac": "pc", "pc": "ac", "wc": "pc", "ar": "pr", "pr": "ar", "wr": "pr"}[ak.code]
		ops = append(ops, op{code: other, x: id + 1})
	}
	if ak.kind != "pri" && variant%5 == 1 {
		ops = append(ops, op{code: "c"})
	}
	pops(b + 4)
	return sp, ops
}

// shrink path: fill to 1025, drain to 1, refill across the old growth points with prior adds in between
func genShrink(ak addKind) (spec, []op) {
	sp, ops := genBacklog(addKind{ak.kind, ak.fill, ak.fill}, 1024, 0, 0)
	ops = ops[:1025]
	pop := ops[len(ops)-1]
	pop = op{code: map[string]string{"sync": "t", "pri": "o"}[ak.kind]}
	if pop.code == "" {
		pop.code = "y"
	}
	for i := 0; i < 1024; i++ {
		ops = append(ops, pop)
	}
	id := int64(5000)
	for _, n := range []int{14, 1, 16, 1, 31} {
		for i := 0; i < n; i++ {
			id++
			ops = append(ops, op{code: ak.fill, x: id})
		}
		id += 100
		ops = append(ops, op{code: ak.code, x: id, pri: 0})
	}
	for i := 0; i < 80; i++ {
		ops = append(ops, pop)
	}
	if ak.kind == "pri" {
		sp.caps = []int{2000}
	}
	return sp, ops
}

// a stream of pushes with many ties and monotone runs, then a full drain
func genPriStream(r *rand.Rand) []op {
	n := 6 + r.Intn(15)
	span := int64([]int{2, 3, 4, 6, 8, 11}[r.Intn(6)])
	ops := make([]op, 0, 2*n+2)
	id := int64(0)
	cur := r.Int63n(span)
	pushed := 0
	for pushed < n {
		runLen := 1 + r.Intn(4)
		mode := r.Intn(4) // 0 descending run, 1 ascending run, 2 ties, 3 random
		for k := 0; k < runLen && pushed < n; k++ {
			switch mode {
			case 0:
				cur -= int64(r.Intn(2) + 1)
			case 1:
				cur += int64(r.Intn(2) + 1)
			case 2:
			default:
				cur = r.Int63n(span)
			}
			if cur < 0 || cur >= span {
				cur = r.Int63n(span)
			}
			id++
			ops = append(ops, op{code: "u", x: id, pri: cur})
			pushed++
		}
		if r.Intn(6) == 0 {
			ops = append(ops, op{code: "o"})
		}
	}
	for i := 0; i <= n; i++ {
		ops = append(ops, op{code: "o"})
	}
	return ops
}

func pickCaps(r *rand.Rand, kind string) []int {
	bounded := []int{1, 1, 2, 2, 3, 5, 8}
	one := func() int {
		switch k := r.Intn(20); {
		case k < 5:
			return 0
		case k == 5:
			return -1 - r.Intn(3) // malformed: negative size (means unbounded for the pipe queues, "always full" for PriQueue)
		default:
			return bounded[r.Intn(len(bounded))]
		}
	}
	switch kind {
	case "mq":
		return []int{one(), one()}
	case "sync":
		return nil
	case "pri":
		if r.Intn(6) == 0 {
			return []int{one()}
		}
		return []int{bounded[r.Intn(len(bounded))]}
	}
	return []int{one()}
}

// all sequences over an alphabet up to length maxLen
func enumerate(e *vh.Env, sp spec, alphabet []string, maxLen int) int {
	cnt := 0
	seq := make([]string, 0, maxLen)
	var rec func()
	emit := func() {
		id := int64(0)
		ops := make([]op, len(seq))
		for i, c := range seq {
			o := op{code: c}
			if sp.kind == "pri" && (c == "u0" || c == "u1") {
				o.code = "u"
				o.pri = int64(c[1] - '0')
			}
			if opHasArg(sp.kind, o.code) {
				id++
				o.x = id
			}
			ops[i] = o
		}
		runCase(e, sp, ops, fmt.Sprintf("exhaustive<=%d", maxLen))
		cnt++
	}
	rec = func() {
		emit()
		if len(seq) == maxLen || hangs[sp.kind] >= 2 {
			return
		}
		for _, c := range alphabet {
			seq = append(seq, c)
			rec()
			seq = seq[:len(seq)-1]
		}
	}
	rec()
	return cnt
}

// corpus: fixed histories replayed first on every run (any seed): the shortest witnesses of the slips tried in
// seeded/selftest/C12 and the walk-through histories of C12_Check.v.
func corpus() []string {
	var c []string
	for _, k := range []string{"q", "async", "mux"} {
		for _, h := range []string{
			"1;a1 a2",                    // bound test >
			"2;a1 a2 a3 p4 p5 a6 o a7",   // prior adds beyond the bound, refusal afterwards
			"1;a1 p2 o",                  // prior add to the front
			"1;a1 c o y y",               // Pop fails after close, PopAnyway drains, then closed
			"5;p1 c p2 y y",              // last item after close
			"3;a1 a2 c a3 p4 w5 y o y y", // closed refuses every add
			"1;a1 p2 p3 o o a4 a5",       // the bound is still the bound after prior adds
			"0;a1 a2 a3 a4 a5 a6 a7 a8 a9 o o o o o o o o o", // unbounded
			"-1;a1 a2 a3 o o o",    // negative size = unbounded
			"2;w1 w2 w3 o w4 c w5", // add-anyway
		} {
			c = append(c, k+";"+h)
		}
	}
	c = append(c,
		"async;1;c p1 i", "mux;2;i a1 c i c i",
		"mq;1,1;ar1 tc", "mq;1,1;ar1 c tl", "mq;1,1;ac1 pc2", "mq;1,1;ac1 ar2 c y y y", "mq;0,0;ar1 ac2 o o",
		"mq;1,0;ar1 ac2 ac3 pc4 tc tl o c o tl y y y tc il tl il ic", "mq;2,1;tl tc tl ac1 ar2 il ic", "mq;1,1;wc1 wc2 wr3 wr4 y y c wc5 wr6",
		"mq;0,2;pr1 pr2 ar3 ar4 pr5 y y y y y", "mq;-1,-1;ac1 ac2 ar3 ar4 o o o o",
		"mq;1,1;ac-1 ac2 ar-1 pr-2 o o o c pc-1 y", "mq;0,0;ar-1 ac-1 ar-3 ac-4 y y y y", "sync;;u-2 u-3 u-4 u-5 l o t o t c t",
		"mq;1,1;ac1 hwc2 c y y", "mq;2,1;ar1 hwr2 c y y ar3", "mq;1,1;ac1 hwc2 y ar3 hwr4 o hwr5 c y", "mq;1,1;ac1 ar2 hwr3 y y hy pc4 ho ar5 hy c", "mq;0,0;ho ac1 hy ar2 ho pr3 ho c ic il tl il",
		"mux;1;a1 c i y i", "sync;;ho u1 ho c ho", "sync;;u1 o ho u2 t ho c t",
		"sync;;c u1 l t o", "sync;;u1 c t t", "sync;;u1 u2 l c u3 l o t t o", "sync;;t l u1 t t",
		"pri;2;u0:1 u0:2 o", "pri;0;u0:1 o l", "pri;-1;u0:1 o", "pri;8;u7:1 u7:2 u7:3 u7:4 o u7:5 o o o",
		"pri;3;u1:1 u5:2 u5:3 u9:4 l o o o o", "pri;5;u0:1 u1:2 u0:3 u1:4 u2:5 u9:6 o o o o o o",
		"pri;4;u-5:1 u-5:2 u-9223372036854775807:3 u9223372036854775806:4 o o o o",
	)
	return c
}

func main() {
	vh.Main("c12", func(e *vh.Env) {
		if strings.HasPrefix(e.Replay, "group#") {
			specs, evs, err := parseGroupReplay(e.Replay)
			if err != nil {
				panic(err)
			}
			runGroup(e, specs, evs, "replay")
			return
		}
		if e.Replay != "" {
			sp, ops, err := parseReplay(e.Replay)
			if err != nil {
				panic(err)
			}
			runCase(e, sp, ops, "replay")
			return
		}
		kinds := kindOrder
		focus := ""
		if e.Search && e.Focus != "" {
			for _, k := range kindOrder {
				if strings.Contains(e.Focus, kindName[k]) {
					focus = k
				}
			}
		}
		big := e.Thorough || e.Search
		secs := map[string]interface{}{}
		e.Meta["seconds_per_class"] = secs
		t0 := time.Now()
		lap := func(name string) {
			secs[name] = float64(int(time.Since(t0).Seconds()*10)) / 10
			t0 = time.Now()
		}

		// (0) the fixed corpus
		nc := 0
		for _, arg := range corpus() {
			sp, ops, err := parseReplay(arg)
			if err != nil {
				panic(err)
			}
			if focus != "" && focus != sp.kind {
				continue
			}
			runCase(e, sp, ops, "corpus")
			nc++
		}
		e.Meta["corpus_cases"] = nc

		// (1) exhaustive small scope
		exh := map[string]interface{}{}
		pipeAlpha := []string{"a", "p", "o", "y", "c"}
		mqAlpha := []string{"ac", "ar", "pc", "pr", "o", "y", "c", "tc", "tl"}
		syncAlpha := []string{"u", "o", "t", "l", "c"}
		priAlpha := []string{"u0", "u1", "o", "l"}
		depth := func(quick, thorough int) int {
			if big {
				return thorough
			}
			return quick
		}
		for _, k := range kinds {
			if focus != "" && focus != k {
				continue
			}
			n := 0
			switch k {
			case "q", "async", "mux":
				n += enumerate(e, spec{kind: k, caps: []int{1}}, pipeAlpha, depth(4, 6))
				n += enumerate(e, spec{kind: k, caps: []int{2}}, pipeAlpha, depth(4, 5))
				n += enumerate(e, spec{kind: k, caps: []int{0}}, pipeAlpha, depth(3, 4))
			case "mq":
				n += enumerate(e, spec{kind: k, caps: []int{1, 1}}, mqAlpha, depth(3, 4))
				n += enumerate(e, spec{kind: k, caps: []int{0, 2}}, mqAlpha, depth(3, 4))
			case "sync":
				n += enumerate(e, spec{kind: k, caps: nil}, syncAlpha, depth(4, 6))
			case "pri":
				n += enumerate(e, spec{kind: k, caps: []int{2}}, priAlpha, depth(5, 7))
				n += enumerate(e, spec{kind: k, caps: []int{3}}, priAlpha, depth(4, 6))
				n += enumerate(e, spec{kind: k, caps: []int{0}}, priAlpha, depth(2, 3))
			}
			exh[kindName[k]] = n
		}
		e.Meta["exhaustive_small_scope_cases"] = exh

		// (2) random histories
		per := e.Scale(800, 8000)
		maxLen := 36
		if big {
			maxLen = 60
		}
		rnd := map[string]interface{}{}
		for _, k := range kinds {
			if focus != "" && focus != k {
				continue
			}
			n := per
			if focus != "" {
				n = per * 4
			}
			for i := 0; i < n && hangs[k] < 10; i++ {
				sp := spec{kind: k, caps: pickCaps(e.Rnd, k)}
				runCase(e, sp, genRandom(e.Rnd, k, maxLen), "random")
			}
			rnd[kindName[k]] = n
		}
		e.Meta["random_histories"] = rnd

		// (2b) held-call streams
		nheld := 0
		for _, k := range []string{"q", "async", "mux", "mq", "sync"} {
			if focus != "" && focus != k {
				continue
			}
			for i := e.Scale(150, 1500); i > 0 && hangs[k] < 20; i-- {
				sp, ops := genHold(e.Rnd, k)
				runCase(e, sp, ops, "held-calls")
				nheld++
			}
		}
		e.Meta["held_call_streams"] = nheld

		// (2c) backlog sizes x operation (run-length encoded)
		nb := 0
		for _, ak := range addKinds {
			if focus != "" && focus != ak.kind {
				continue
			}
			for bi, b := range backlogSizes {
				hs := []int{0, 1, 3, b / 2}
				if b > 300 && !big { // quick: the three largest backlogs once per add kind, with the head of a ring off slot 0
					hs = []int{3}
				}
				for hi, h := range hs {
					if hangs[ak.kind] >= 30 {
						continue
					}
					sp, ops := genBacklog(ak, b, h, bi+hi+len(ak.code))
					runCaseX(e, sp, ops, "backlog", true, "backlog "+kindName[ak.kind])
					nb++
				}
			}
			sp, ops := genShrink(ak)
			runCaseX(e, sp, ops, "backlog-shrink", true, "backlog "+kindName[ak.kind])
			nb++
		}
		e.Meta["backlog_cases"] = nb
		lap("backlog")

		// (3) PriQueue priority streams: a roomy queue, 6..20 pushes drawn from a small range with many ties and
		// descending / ascending runs (so that the heap gets inner nodes of every shape), a few pops in between, then pop everything
		if focus == "" || focus == "pri" {
			ns := e.Scale(700, 8000)
			for i := 0; i < ns; i++ {
				runCase(e, spec{kind: "pri", caps: []int{[]int{24, 32, 64}[e.Rnd.Intn(3)]}}, genPriStream(e.Rnd), "priority-stream")
			}
			e.Meta["priority_streams"] = ns
		}

		lap("sequential")
		// (5) constructor histories: several queues built in sequence with different option sets, used interleaved
		ng := 0
		for _, arg := range groupCorpus() {
			specs, evs, err := parseGroupReplay(arg)
			if err != nil {
				panic(err)
			}
			if focus == "" || (focus == "mq") == (specs[0].kind == "mq") {
				runGroup(e, specs, evs, "corpus")
				ng++
			}
		}
		for _, mqGroup := range []bool{false, true} {
			if focus != "" && (focus == "mq") != mqGroup {
				continue
			}
			if focus == "sync" || focus == "pri" {
				continue
			}
			for i := e.Scale(400, 5000); i > 0 && hangs["group"] < 2; i-- {
				specs, evs := genGroup(e.Rnd, mqGroup)
				runGroup(e, specs, evs, "constructor-history")
				ng++
			}
		}
		e.Meta["constructor_histories"] = ng

		lap("constructor_histories")
		// (6) PriQueue under parallel pushers and poppers
		if focus == "" || focus == "pri" {
			sample := 40
			if big {
				sample = 300
			}
			e.Meta["parallel_priq"] = parPri(e.Rnd, e, e.Scale(6000, 40000), sample).String()
		}

		lap("parallel_priq")
		// (4) concurrent rounds: add versus close
		raceOnly := e.Search && strings.HasPrefix(e.Focus, "race ")
		rs := map[string]interface{}{}
		for _, v := range raceVariants {
			if focus != "" && focus != v.kind {
				continue
			}
			rounds, emitCap := e.Scale(30000, 200000), 600
			if v.kind == "sync" { // cheap rounds, narrow window
				rounds *= 3
			}
			if big {
				emitCap = 6000
			}
			if raceOnly {
				rounds *= 3
			}
			rs[kindName[v.kind]] = raceClass(e.Rnd, e, v, rounds, emitCap).String()
		}
		e.Meta["race_add_vs_close"] = rs
		lap("race_add_vs_close")
		// (7) round 8: PriQueue, Push of an item whose GetPriority is gated by the harness (deterministic, no random draws)
		if focus == "" || focus == "pri" {
			e.Meta["gated_priq"] = gatedPri(e)
		}
		lap("gated_priq")
		nh := 0
		for _, v := range hangs {
			nh += v
		}
		e.Meta["calls_that_never_returned"] = nh
	})
}
