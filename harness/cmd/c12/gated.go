package main

// Class "gated-priority priq.PriQueue" (round 8): DETERMINISTIC members in which the user callback GetPriority of ONE pushed
// item (A) is gated by the harness.  The first call of A.GetPriority that happens while Push(A) is in flight announces itself
// and waits; meanwhile another goroutine pops the items queued before (the queue becomes empty) - if that Pop cannot proceed
// because the queue called GetPriority under its mutex (the unchanged /repo does so when the queue is non-empty), a bounded wait
// expires and the gate is opened: the member is then simply a legal history.  After Push(A) has returned, further items of the
// same priority are pushed and everything is popped.  The calls carry invocation/response ticks and the history is judged by the
// existing case kind CParPri (pp_holds: conservation + real-time FIFO among equal priorities + priority).  The gate is disarmed
// for good as soon as Push(A) returned, so no later call can block on it.

import (
	"fmt"
	"sort"
	"sync"
	"sync/atomic"
	"time"

	"github.com/pinealctx/neptune/queue/priq"

	"verifharness/vh"
)

type gent struct {
	pri     int
	id      int64
	gate    *ggate
	ncalled int32
}

type ggate struct {
	entered chan struct{}
	open    chan struct{}
	once    sync.Once
}

func (g *ggate) release() { g.once.Do(func() { close(g.open) }) }

func (p *gent) GetPriority() int {
	if p.gate != nil && atomic.AddInt32(&p.ncalled, 1) == 1 {
		select {
		case <-p.gate.open: // disarmed
		default:
			close(p.gate.entered)
			<-p.gate.open
		}
	}
	return p.pri
}

type gcall struct {
	o         op
	r         obs
	inv, resp int64
	th        int
}

const gatedClass = "gated-priority priq.PriQueue"

// gatedMember: pre = priorities of the items queued first, inter = number of Pops issued while Push(A) waits in its gate,
// priA = A's priority, after = priorities of the items pushed after Push(A) returned.
func gatedMember(e *vh.Env, pre []int64, inter int, priA int64, after []int64) (stalled bool, hung bool) {
	capn := int64(1 << 20)
	x := priq.NewPriQueue(int(capn))
	pq := &priQ{x: x}
	var tick int64
	var mu sync.Mutex
	var cs []gcall
	push := func(th int, it *gent) {
		o := op{code: "u", x: it.id, pri: int64(it.pri)}
		i := atomic.AddInt64(&tick, 1)
		r := direct(func() obs {
			switch err := x.Push(it); err {
			case nil:
				return obs{"done", 0}
			case priq.ErrQueueIsFull:
				return obs{"full", 0}
			}
			return obs{"other", otherErr}
		})
		j := atomic.AddInt64(&tick, 1)
		mu.Lock()
		cs = append(cs, gcall{o, r, i, j, th})
		mu.Unlock()
	}
	pop := func(th int) obs {
		i := atomic.AddInt64(&tick, 1)
		r := direct(func() obs {
			v := x.Pop()
			if v == nil {
				return obs{"none", 0}
			}
			if pe, ok := v.(*gent); ok && pe != nil {
				return obs{"item", pe.id}
			}
			return obs{"other", otherValue}
		})
		j := atomic.AddInt64(&tick, 1)
		mu.Lock()
		cs = append(cs, gcall{op{code: "o"}, r, i, j, th})
		mu.Unlock()
		return r
	}
	id := int64(0)
	for _, p := range pre {
		id++
		push(0, &gent{pri: int(p), id: id})
	}
	id++
	g := &ggate{entered: make(chan struct{}), open: make(chan struct{})}
	a := &gent{pri: int(priA), id: id, gate: g}
	pushDone := make(chan struct{})
	go func() { defer close(pushDone); push(1, a) }()
	popDone := make(chan struct{})
	select {
	case <-g.entered: // Push(A) is inside A.GetPriority (first call)
		go func() {
			defer close(popDone)
			for k := 0; k < inter; k++ {
				pop(2)
			}
		}()
		tm := time.NewTimer(150 * time.Millisecond)
		select {
		case <-popDone:
			tm.Stop()
		case <-tm.C: // the callback runs under the queue's mutex: let it go on
			stalled = true
		case <-pushDone:
			tm.Stop()
		}
	case <-pushDone: // the callback was not called during Push(A)
		close(popDone)
	}
	g.release()
	tm := time.NewTimer(hangTimeout())
	defer tm.Stop()
	for _, ch := range []chan struct{}{pushDone, popDone} {
		select {
		case <-ch:
		case <-tm.C:
			noteHang()
			e.Emit(vh.Case{Coq: "CParPri " + coqZ(capn) + " [(QPop, ROther 2%Z, 1%Z, 2%Z)]", Class: gatedClass, Nontrivial: true,
				Desc: map[string]interface{}{"queue": kindName["pri"], "generator": "gated GetPriority", "history": []string{"Push of an item whose GetPriority was held for a moment, or a Pop beside it, NEVER RETURNED"}}})
			return stalled, true
		}
	}
	for _, p := range after {
		id++
		push(0, &gent{pri: int(p), id: id})
	}
	for k := int64(0); k < id+2; k++ {
		if r := pop(0); r.tag != "item" {
			break
		}
	}
	mu.Lock()
	defer mu.Unlock()
	ts := make([]int64, 0, 2*len(cs))
	for _, c := range cs {
		ts = append(ts, c.inv, c.resp)
	}
	sort.Slice(ts, func(a, b int) bool { return ts[a] < ts[b] })
	rank := map[int64]int64{}
	for i, t := range ts {
		rank[t] = int64(i + 1)
	}
	for i := range cs {
		cs[i].inv, cs[i].resp = rank[cs[i].inv], rank[cs[i].resp]
	}
	sort.SliceStable(cs, func(a, b int) bool { return cs[a].inv < cs[b].inv })
	parts := make([]string, len(cs))
	human := make([]string, len(cs))
	for i, c := range cs {
		parts[i] = fmt.Sprintf("(%s, %s, %s, %s)", pq.coqOp(c.o), c.r.coq(), coqZ(c.inv), coqZ(c.resp))
		human[i] = fmt.Sprintf("g%d [%d,%d] %s = %s", c.th, c.inv, c.resp, pq.goOp(c.o), c.r.String())
	}
	e.Emit(vh.Case{Coq: "CParPri " + coqZ(capn) + " " + vh.CoqList(parts), Class: gatedClass, Nontrivial: true,
		Desc: map[string]interface{}{"queue": kindName["pri"], "capacity": []int64{capn}, "generator": "gated GetPriority",
			"history": human, "note": fmt.Sprintf("g0 = main sequence; g1 = Push(id=%d) whose first GetPriority call waits in a gate of the harness until g2's %d Pop(s) returned (or, when they cannot proceed, 150 ms passed); [invocation, response] ticks", int64(len(pre))+1, inter)}})
	return stalled, false
}

func gatedPri(e *vh.Env) string {
	n, stalledN := 0, 0
	pres := [][]int64{{5}, {5, 5}, {7}, {3}, {}, {5, 7}}
	afters := [][]int64{{5}, {5, 5}, {5, 7}}
	for _, pre := range pres {
		inters := []int{len(pre)}
		if len(pre) > 0 {
			inters = append(inters, 0)
		}
		for _, inter := range inters {
			for _, after := range afters {
				st, hung := gatedMember(e, pre, inter, 5, after)
				n++
				if st {
					stalledN++
				}
				if hung {
					return fmt.Sprintf("members=%d callback_under_lock=%d hung=1", n, stalledN)
				}
			}
		}
	}
	return fmt.Sprintf("members=%d callback_under_lock=%d hung=0", n, stalledN)
}
