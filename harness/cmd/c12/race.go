package main

// The concurrent class "add versus close" (C12_Race.v).
//
// One round: a fresh queue (optionally pre-filled), 1..3 adder goroutines each issuing 1..3 adds, and one goroutine that
// calls Close and then drains (PopAnyway / TryPop until the queue reports closed-and-empty), all released from a barrier
// with a little jitter; after every goroutine has returned (all these calls are non-blocking on a closed queue; the round
// runs under a watchdog) the main goroutine drains again.  Every call is recorded with its result and two ticks of one atomic
// counter (before the call / after it returned).  Ticks are replaced by their ranks, identical rounds are counted once.
// The harness searches a witness linearisation on its own (untrusted) transcription of the sequential model; Coq replays the
// witness with the real model and evaluates the clauses.  Quiescence is never inferred from a sleep.

import (
	"fmt"
	"math/rand"
	"runtime"
	"sort"
	"strings"
	"sync"
	"sync/atomic"
	"time"

	"verifharness/vh"
)

type rcall struct {
	o         op
	r         obs
	inv, resp int64
	thread    int
}

// ---- untrusted Go transcription of the sequential models (only used to FIND a witness) ----

type gmodel struct {
	kind      string // q async mux mq sync
	ctrl, req []int64
	closed    bool
	cm, rm    int
}

func (m *gmodel) clone() *gmodel {
	c := *m
	c.ctrl = append([]int64(nil), m.ctrl...)
	c.req = append([]int64(nil), m.req...)
	return &c
}
func (m *gmodel) key() string { return fmt.Sprint(m.ctrl, m.req, m.closed) }
func gfull(max, n int) bool   { return max > 0 && n >= max }
func (m *gmodel) step(o op) obs {
	popFront := func() obs {
		if len(m.ctrl) > 0 {
			x := m.ctrl[0]
			m.ctrl = m.ctrl[1:]
			return obs{"item", x}
		}
		if len(m.req) > 0 {
			x := m.req[0]
			m.req = m.req[1:]
			return obs{"item", x}
		}
		if m.closed {
			return obs{"closed", 0}
		}
		return obs{"notissued", 0}
	}
	if m.kind == "sync" {
		switch o.code {
		case "u":
			if !m.closed {
				m.ctrl = append(m.ctrl, o.x)
			}
			return obs{"done", 0}
		case "o":
			return popFront()
		case "t":
			r := popFront()
			if r.tag == "notissued" {
				return obs{"none", 0}
			}
			return r
		case "c":
			m.closed = true
			return obs{"done", 0}
		}
		return obs{"other", otherErr}
	}
	code := o.code
	if m.kind != "mq" { // the pipe queues have one list: use the control list
		switch code {
		case "a":
			code = "ac"
		case "p":
			code = "pc"
		}
	}
	switch code {
	case "ac":
		if m.closed {
			return obs{"closed", 0}
		}
		if gfull(m.cm, len(m.ctrl)) {
			if m.kind == "mq" {
				return obs{"cfull", 0}
			}
			return obs{"full", 0}
		}
		m.ctrl = append(m.ctrl, o.x)
		return obs{"done", 0}
	case "pc":
		if m.closed {
			return obs{"closed", 0}
		}
		m.ctrl = append([]int64{o.x}, m.ctrl...)
		return obs{"done", 0}
	case "ar":
		if m.closed {
			return obs{"closed", 0}
		}
		if gfull(m.rm, len(m.req)) {
			return obs{"full", 0}
		}
		m.req = append(m.req, o.x)
		return obs{"done", 0}
	case "pr":
		if m.closed {
			return obs{"closed", 0}
		}
		m.req = append([]int64{o.x}, m.req...)
		return obs{"done", 0}
	case "y":
		return popFront()
	case "c":
		m.closed = true
		return obs{"done", 0}
	}
	return obs{"other", otherErr}
}

// witness: a permutation of the calls that respects real time and that the model replays with the observed results
func findWitness(m0 *gmodel, cs []rcall) ([]int, bool) {
	n := len(cs)
	used := make([]bool, n)
	order := make([]int, 0, n)
	dead := map[string]bool{}
	var rec func(m *gmodel, mask uint64) bool
	rec = func(m *gmodel, mask uint64) bool {
		if len(order) == n {
			return true
		}
		k := fmt.Sprint(mask, m.key())
		if dead[k] {
			return false
		}
		for i := 0; i < n; i++ {
			if used[i] {
				continue
			}
			minimal := true
			for j := 0; j < n; j++ {
				if j != i && !used[j] && cs[j].resp < cs[i].inv {
					minimal = false
					break
				}
			}
			if !minimal {
				continue
			}
			m2 := m.clone()
			if r := m2.step(cs[i].o); r != cs[i].r {
				continue
			}
			used[i] = true
			order = append(order, i)
			if rec(m2, mask|1<<uint(i)) {
				return true
			}
			order = order[:len(order)-1]
			used[i] = false
		}
		dead[k] = true
		return false
	}
	if n <= 60 && rec(m0, 0) {
		return order, true
	}
	// no witness: hand Coq the invocation order (it will not replay; case_accept = false)
	idx := make([]int, n)
	for i := range idx {
		idx[i] = i
	}
	sort.SliceStable(idx, func(a, b int) bool { return cs[idx[a]].inv < cs[idx[b]].inv })
	return idx, false
}

// ---- one round ----

type raceVariant struct {
	kind string // q async mux mq sync
}

var raceVariants = []raceVariant{{"q"}, {"async"}, {"mux"}, {"mq"}, {"sync"}}

type raceStats struct {
	rounds, distinct, emitted, noWitness, leftover, hung int
}

func addCodes(kind string, r *rand.Rand) string {
	switch kind {
	case "sync":
		return "u"
	case "mq":
		return []string{"ac", "ar", "ac", "ar", "pc", "pr"}[r.Intn(6)]
	}
	if r.Intn(5) == 0 {
		return "p"
	}
	return "a"
}
func drainCode(kind string) string {
	if kind == "sync" {
		return "t"
	}
	return "y"
}

// runRound executes one round and returns the recorded calls (nil if the round hung).
func runRound(sp spec, pre []op, adders [][]op, jitter int) []rcall {
	qu := sp.build()
	var tick int64
	var mu sync.Mutex
	var calls []rcall
	record := func(th int, o op) obs {
		i := atomic.AddInt64(&tick, 1)
		r, _ := qu.applyRaw(o)
		j := atomic.AddInt64(&tick, 1)
		mu.Lock()
		calls = append(calls, rcall{o: o, r: r, inv: i, resp: j, thread: th})
		mu.Unlock()
		return r
	}
	for _, o := range pre {
		record(0, o)
	}
	total := len(pre)
	for _, a := range adders {
		total += len(a)
	}
	drain := func(th int) {
		for k := 0; k < total+2; k++ {
			if r := record(th, op{code: drainCode(sp.kind)}); r.tag != "item" {
				return
			}
		}
	}
	var start int32
	var wg sync.WaitGroup
	for t, ops := range adders {
		wg.Add(1)
		go func(t int, ops []op) {
			defer wg.Done()
			for atomic.LoadInt32(&start) == 0 {
			}
			for _, o := range ops {
				record(t+1, o)
			}
		}(t, ops)
	}
	wg.Add(1)
	go func() {
		defer wg.Done()
		for atomic.LoadInt32(&start) == 0 {
		}
		for i := 0; i < jitter; i++ {
			_ = atomic.LoadInt32(&start)
		}
		record(len(adders)+1, op{code: "c"})
		drain(len(adders) + 1)
	}()
	done := make(chan struct{})
	go func() { wg.Wait(); close(done) }()
	atomic.StoreInt32(&start, 1)
	t := time.NewTimer(hangTimeout())
	defer t.Stop()
	select {
	case <-done:
	case <-t.C:
		noteHang()
		qu.release()
		return nil
	}
	drain(0)
	return calls
}

func canon(cs []rcall) {
	// ticks -> ranks (ticks of one atomic counter are distinct)
	ts := make([]int64, 0, 2*len(cs))
	for _, c := range cs {
		ts = append(ts, c.inv, c.resp)
	}
	sort.Slice(ts, func(a, b int) bool { return ts[a] < ts[b] })
	rank := map[int64]int64{}
	for i, t := range ts {
		rank[t] = int64(i + 1)
	}
	for i := range cs {
		cs[i].inv, cs[i].resp = rank[cs[i].inv], rank[cs[i].resp]
	}
	sort.SliceStable(cs, func(a, b int) bool { return cs[a].inv < cs[b].inv })
}

func raceHead(sp spec) string {
	switch sp.kind {
	case "q":
		return "CRacePipe KQ " + coqZ(int64(sp.caps[0]))
	case "async":
		return "CRacePipe KAsync " + coqZ(int64(sp.caps[0]))
	case "mux":
		return "CRacePipe KMux " + coqZ(int64(sp.caps[0]))
	case "mq":
		return "CRaceMQ " + coqZ(int64(sp.caps[0])) + " " + coqZ(int64(sp.caps[1]))
	}
	return "CRaceSync"
}

func raceClass(rnd *rand.Rand, e *vh.Env, v raceVariant, rounds, emitCap int) raceStats {
	var st raceStats
	seen := map[string]int{}
	if runtime.GOMAXPROCS(0) < 4 {
		runtime.GOMAXPROCS(4)
	}
	for round := 0; round < rounds; round++ {
		var sp spec
		bound := []int{0, 0, 0, 2, 1}[rnd.Intn(5)]
		switch v.kind {
		case "mq":
			sp = spec{kind: "mq", caps: []int{bound, []int{0, 0, 2}[rnd.Intn(3)]}}
		case "sync":
			sp = spec{kind: "sync", caps: nil}
		default:
			sp = spec{kind: v.kind, caps: []int{bound}}
		}
		id := int64(0)
		mk := func() op { id++; return op{code: addCodes(v.kind, rnd), x: id} }
		var pre []op
		for i := rnd.Intn(3); i > 0; i-- {
			pre = append(pre, mk())
		}
		nAdders := 1 + rnd.Intn(3)
		adders := make([][]op, nAdders)
		for t := range adders {
			for i := 1 + rnd.Intn(3); i > 0; i-- {
				adders[t] = append(adders[t], mk())
			}
		}
		cs := runRound(sp, pre, adders, round%64)
		st.rounds++
		if cs == nil {
			st.hung++
			e.Emit(vh.Case{Coq: raceHead(sp) + " [(" + sp.build().coqOp(op{code: "c"}) + ", ROther 2%Z, 1%Z, 2%Z)] [0%nat]",
				Class: "race add-vs-close " + kindName[v.kind], Nontrivial: true,
				Desc: map[string]interface{}{"queue": kindName[v.kind], "generator": "race add-vs-close", "history": []string{"a round of concurrent adds, Close and drain NEVER RETURNED"}}})
			if st.hung >= 2 {
				break
			}
			continue
		}
		canon(cs)
		m0 := &gmodel{kind: v.kind}
		if len(sp.caps) > 0 {
			m0.cm = sp.caps[0]
		}
		if len(sp.caps) > 1 {
			m0.rm = sp.caps[1]
		}
		lin, ok := findWitness(m0, cs)
		// an item found by the final drain although an earlier drain had reported closed-and-empty
		suspicious := !ok
		seenEmpty := false
		for _, c := range cs {
			if c.o.code == drainCode(v.kind) {
				if c.r.tag == "closed" {
					seenEmpty = true
				} else if c.r.tag == "item" && seenEmpty {
					suspicious = true
					st.leftover++
				}
			}
		}
		if !ok {
			st.noWitness++
		}
		qu := sp.build()
		parts := make([]string, len(cs))
		human := make([]string, len(cs))
		for i, c := range cs {
			parts[i] = fmt.Sprintf("(%s, %s, %s, %s)", qu.coqOp(c.o), c.r.coq(), coqZ(c.inv), coqZ(c.resp))
			human[i] = fmt.Sprintf("g%d [%d,%d] %s = %s", c.thread, c.inv, c.resp, qu.goOp(c.o), c.r.String())
		}
		ls := make([]string, len(lin))
		for i, x := range lin {
			ls[i] = fmt.Sprintf("%d%%nat", x)
		}
		term := raceHead(sp) + " " + vh.CoqList(parts) + " " + vh.CoqList(ls)
		seen[term]++
		if seen[term] > 1 {
			continue
		}
		st.distinct++
		if st.emitted >= emitCap && !suspicious {
			continue
		}
		st.emitted++
		caps := sp.caps
		if caps == nil {
			caps = []int{}
		}
		e.Emit(vh.Case{Coq: term, Class: "race add-vs-close " + kindName[v.kind], Nontrivial: true,
			Desc: map[string]interface{}{"queue": kindName[v.kind], "capacity": caps, "generator": "race add-vs-close",
				"history": human, "note": "gN = goroutine (g0 = main: pre-fill and final drain), [invocation, response] ticks; witness linearisation found: " + fmt.Sprint(ok)}})
	}
	return st
}

func (s raceStats) String() string {
	return strings.TrimSpace(fmt.Sprintf("rounds=%d distinct=%d evaluated_in_coq=%d no_witness=%d item_after_closed_and_empty=%d hung=%d",
		s.rounds, s.distinct, s.emitted, s.noWitness, s.leftover, s.hung))
}
