// Command c08: correspondence harness for property C08 (bitmap1024: set algebra and ordered, bounded iteration).
//
// Every exported function of bitmap1024.Bit64 / bitmap1024.Bit1024 that the property names is called on the real
// implementation: the 10 Bit64 iterators, the 8 Bit1024 iterators, the 8 + 6 GetN wrappers, SetI32/UnsetI32/SetI16/
// UnsetI16, Len/NLen, Reverse/And/Or/OrThenReverse/Equal and Bit64's Set/Unset/And/Or/Reverse/Len/NLen/Full.
// Each call is one case; the Coq side recomputes the outcome with the model (case_accept) and with the
// specification (case_holds).
package main

import (
	"encoding/json"
	"fmt"
	"math"
	"math/bits"
	"strings"

	bm "github.com/pinealctx/neptune/bitmap1024"
	"verifharness/vh"
)

// ---------------------------------------------------------------- element types

type ity int

const (
	tI8 ity = iota
	tI16
	tI32
	tU32
	tI64
)

var ityName = [...]string{"I8", "I16", "I32", "U32", "I64"}

func (t ity) min() int64 {
	switch t {
	case tI8:
		return math.MinInt8
	case tI16:
		return math.MinInt16
	case tI32:
		return math.MinInt32
	case tU32:
		return 0
	}
	return math.MinInt64
}
func (t ity) max() int64 {
	switch t {
	case tI8:
		return math.MaxInt8
	case tI16:
		return math.MaxInt16
	case tI32:
		return math.MaxInt32
	case tU32:
		return math.MaxUint32
	}
	return math.MaxInt64
}

// conv is Go's conversion int64 -> T -> int64 (what a store into a []T keeps)
func (t ity) conv(v int64) int64 {
	switch t {
	case tI8:
		return int64(int8(v))
	case tI16:
		return int64(int16(v))
	case tI32:
		return int64(int32(v))
	case tU32:
		return int64(uint32(v))
	}
	return v
}

type num interface {
	~int8 | ~int16 | ~int32 | ~uint32 | ~int64
}

// outcome of one iterator call
type iterOut struct {
	Panic bool    `json:"panic"`
	Buf   []int64 `json:"buf,omitempty"`
	Count int     `json:"count"`
	Msg   string  `json:"msg,omitempty"`
}

// call runs f on a fresh []T copy of init and reports the slice afterwards.
func call[T num](f func(s []T, pos int, add T, n int) int, init []int64, pos int, add int64, n int) (o iterOut) {
	s := make([]T, len(init))
	for i, v := range init {
		s[i] = T(v)
	}
	defer func() {
		if r := recover(); r != nil {
			o = iterOut{Panic: true, Msg: fmt.Sprint(r)}
		}
	}()
	c := f(s, pos, T(add), n)
	o.Count = c
	o.Buf = make([]int64, len(s))
	for i, v := range s {
		o.Buf[i] = int64(v)
	}
	return o
}

type getOut struct {
	Panic bool    `json:"panic"`
	Vals  []int64 `json:"vals"`
	Msg   string  `json:"msg,omitempty"`
}

func callGet[T num](f func(n int) []T, n int) (o getOut) {
	defer func() {
		if r := recover(); r != nil {
			o = getOut{Panic: true, Msg: fmt.Sprint(r)}
		}
	}()
	r := f(n)
	o.Vals = make([]int64, len(r))
	for i, v := range r {
		o.Vals[i] = int64(v)
	}
	return o
}

// ---------------------------------------------------------------- the function tables (every copy is named once)

func iter64(w bm.Bit64, t ity, rev bool, init []int64, pos int, add int64, n int) iterOut {
	switch {
	case t == tI8 && !rev:
		return call(w.IterAsI8, init, pos, add, n)
	case t == tI8 && rev:
		return call(w.RIterAsI8, init, pos, add, n)
	case t == tI16 && !rev:
		return call(w.IterAsI16, init, pos, add, n)
	case t == tI16 && rev:
		return call(w.RIterAsI16, init, pos, add, n)
	case t == tI32 && !rev:
		return call(w.IterAsI32, init, pos, add, n)
	case t == tI32 && rev:
		return call(w.RIterAsI32, init, pos, add, n)
	case t == tU32 && !rev:
		return call(w.IterAsU32, init, pos, add, n)
	case t == tU32 && rev:
		return call(w.RIterAsU32, init, pos, add, n)
	case t == tI64 && !rev:
		return call(w.IterAsI64, init, pos, add, n)
	case t == tI64 && rev:
		return call(w.RIterAsI64, init, pos, add, n)
	}
	panic("no such iterator")
}

var types64 = []ity{tI8, tI16, tI32, tU32, tI64}
var types1024 = []ity{tI16, tI32, tU32, tI64}
var typesGet64 = []ity{tI8, tI16, tI32, tI64}
var typesGet1024 = []ity{tI16, tI32, tI64}

func iter1024(b bm.Bit1024, t ity, rev bool, init []int64, pos int, add int64, n int) iterOut {
	switch {
	case t == tI16 && !rev:
		return call(b.IterAsI16, init, pos, add, n)
	case t == tI16 && rev:
		return call(b.RIterAsI16, init, pos, add, n)
	case t == tI32 && !rev:
		return call(b.IterAsI32, init, pos, add, n)
	case t == tI32 && rev:
		return call(b.RIterAsI32, init, pos, add, n)
	case t == tU32 && !rev:
		return call(b.IterAsU32, init, pos, add, n)
	case t == tU32 && rev:
		return call(b.RIterAsU32, init, pos, add, n)
	case t == tI64 && !rev:
		return call(b.IterAsI64, init, pos, add, n)
	case t == tI64 && rev:
		return call(b.RIterAsI64, init, pos, add, n)
	}
	panic("no such iterator")
}

func get64(w bm.Bit64, t ity, rev bool, n int) getOut {
	switch {
	case t == tI8 && !rev:
		return callGet(w.GetNAsI8, n)
	case t == tI8 && rev:
		return callGet(w.RGetNAsI8, n)
	case t == tI16 && !rev:
		return callGet(w.GetNAsI16, n)
	case t == tI16 && rev:
		return callGet(w.RGetNAsI16, n)
	case t == tI32 && !rev:
		return callGet(w.GetNAsI32, n)
	case t == tI32 && rev:
		return callGet(w.RGetNAsI32, n)
	case t == tI64 && !rev:
		return callGet(w.GetNAsI64, n)
	case t == tI64 && rev:
		return callGet(w.RGetNAsI64, n)
	}
	panic("no such getter")
}

func get1024(b bm.Bit1024, t ity, rev bool, n int) getOut {
	switch {
	case t == tI16 && !rev:
		return callGet(b.GetNAsI16, n)
	case t == tI16 && rev:
		return callGet(b.RGetNAsI16, n)
	case t == tI32 && !rev:
		return callGet(b.GetNAsI32, n)
	case t == tI32 && rev:
		return callGet(b.RGetNAsI32, n)
	case t == tI64 && !rev:
		return callGet(b.GetNAsI64, n)
	case t == tI64 && rev:
		return callGet(b.RGetNAsI64, n)
	}
	panic("no such getter")
}

// ---------------------------------------------------------------- Coq printing

// a 64-bit word is spelled  wb b0 ... b7  (little-endian byte constructors, see C08_Lit.v)
func leBytes(v uint64) string {
	p := make([]string, 8)
	for k := 0; k < 8; k++ {
		p[k] = fmt.Sprintf("x%02x", (v>>(8*uint(k)))&0xff)
	}
	return strings.Join(p, " ")
}
func coqW(v uint64) string {
	if v == 0 {
		return "w0"
	}
	return "wb " + leBytes(v)
}
func coqN(v uint64) string {
	if v == 0 {
		return "w0"
	}
	return "(" + coqW(v) + ")"
}
func coqWords(b []bm.Bit64) string {
	s := make([]string, len(b))
	for i, w := range b {
		s[i] = coqW(uint64(w))
	}
	return "[" + strings.Join(s, ";") + "]"
}
// integers: small ones as numerals, large ones as  zp b0..b7 / zn b0..b7  (C08_Lit.v)
func coqZ(x int64) string {
	if x > -(1<<20) && x < 1<<20 {
		if x < 0 {
			return fmt.Sprintf("(%d)%%Z", x)
		}
		return fmt.Sprintf("%d%%Z", x)
	}
	if x < 0 {
		return "(zn " + leBytes(uint64(-x)) + ")" // MinInt64 maps to 2^63
	}
	return "(zp " + leBytes(uint64(x)) + ")"
}
func coqZs(xs []int64) string {
	s := make([]string, len(xs))
	for i, x := range xs {
		s[i] = coqZ(x)
	}
	return "[" + strings.Join(s, ";") + "]"
}
func coqZu(v uint64) string { return "(zp " + leBytes(v) + ")" }
func coqOut(o iterOut) string {
	if o.Panic {
		return "Panic"
	}
	return fmt.Sprintf("(Ok %s %s)", coqZs(o.Buf), coqZ(int64(o.Count)))
}
func coqGOut(o getOut) string {
	if o.Panic {
		return "GPanic"
	}
	return fmt.Sprintf("(GOk %s)", coqZs(o.Vals))
}
func dirName(rev bool) string {
	if rev {
		return "rev"
	}
	return "fwd"
}
func hexWords(b []bm.Bit64) []string {
	s := make([]string, len(b))
	for i, w := range b {
		s[i] = fmt.Sprintf("%016x", uint64(w))
	}
	return s
}

// the initial slice content: T(seed + 7*j), the same function as `fill` in C08_Check.v
func fill(t ity, l int, seed int64) []int64 {
	s := make([]int64, l)
	for j := range s {
		s[j] = t.conv(seed + 7*int64(j))
	}
	return s
}

// ---------------------------------------------------------------- one call = one case

// spec describes one call completely; it is also the replay argument (JSON).
type spec struct {
	Kind  string   `json:"kind"` // iter64 iter1024 get64 get1024 point len reverse bin equal word wordlen
	Ty    int      `json:"ty,omitempty"`
	Rev   bool     `json:"rev,omitempty"`
	Magic int32    `json:"magic,omitempty"`
	A     []string `json:"a,omitempty"` // words, hex
	B     []string `json:"b,omitempty"`
	BufL  int      `json:"bufl,omitempty"`
	Seed  int64    `json:"seed,omitempty"`
	Pos   int      `json:"pos,omitempty"`
	Add   int64    `json:"add,omitempty"`
	N     int      `json:"n,omitempty"`
	Op    string   `json:"op,omitempty"`
	I     int64    `json:"i,omitempty"`
	Arg   uint64   `json:"arg,omitempty"`
	Prog  []progOp `json:"prog,omitempty"`
}

// progOp: one step of a program over a pool of bitmaps (kind "prog", C08_Prog.v)
type progOp struct {
	Op string   `json:"op"` // PNew PLit BAnd BOr BOrThenReverse PRev PSetI32 PUnsetI32 PSetI16 PUnsetI16
	A  int      `json:"a,omitempty"`
	B  int      `json:"b,omitempty"`
	I  int64    `json:"i,omitempty"`
	W  []string `json:"w,omitempty"`
}

// runProg executes the program on real Bit1024 values.  Results are kept exactly as returned (no copy), so that a
// result sharing storage with an operand or with another result shows when either is mutated later; after every
// step every pool member is read again.
func runProg(ops []progOp) (coq string, snaps [][][]string, msg string) {
	var pool []bm.Bit1024
	get := func(k int) bm.Bit1024 {
		if k >= 0 && k < len(pool) {
			return pool[k]
		}
		return bm.NewBit1024() // the model reads a missing member as the empty bitmap
	}
	var cops, csnaps []string
	for _, o := range ops {
		func() {
			defer func() {
				if x := recover(); x != nil {
					msg = fmt.Sprint(x)
				}
			}()
			switch o.Op {
			case "PNew":
				cops = append(cops, "PNew")
				pool = append(pool, bm.NewBit1024())
			case "PLit":
				w := parseWords(o.W)
				cops = append(cops, "PLit "+coqWords(w))
				if len(w) == 16 {
					pool = append(pool, bm.Bit1024(w))
				}
			case "BAnd", "BOr", "BOrThenReverse":
				cops = append(cops, fmt.Sprintf("PBin %s %d%%nat %d%%nat", o.Op, o.A, o.B))
				a, b := get(o.A), get(o.B)
				var r bm.Bit1024
				switch o.Op {
				case "BAnd":
					r = a.And(b)
				case "BOr":
					r = a.Or(b)
				default:
					r = a.OrThenReverse(b)
				}
				pool = append(pool, r)
			case "PRev":
				cops = append(cops, fmt.Sprintf("PRev %d%%nat", o.A))
				pool = append(pool, get(o.A).Reverse())
			case "PSetI32", "PUnsetI32", "PSetI16", "PUnsetI16":
				cops = append(cops, fmt.Sprintf("PMut %s %d%%nat %s", o.Op, o.A, coqZ(o.I)))
				if o.A >= 0 && o.A < len(pool) {
					switch o.Op {
					case "PSetI32":
						pool[o.A].SetI32(int32(o.I))
					case "PUnsetI32":
						pool[o.A].UnsetI32(int32(o.I))
					case "PSetI16":
						pool[o.A].SetI16(int16(o.I))
					default:
						pool[o.A].UnsetI16(int16(o.I))
					}
				}
			default:
				panic("bad prog op " + o.Op)
			}
		}()
		snap := make([]string, len(pool))
		hs := make([][]string, len(pool))
		for k, b := range pool {
			snap[k] = coqWords(b)
			hs[k] = hexWords(b)
		}
		csnaps = append(csnaps, "["+strings.Join(snap, ";")+"]")
		snaps = append(snaps, hs)
	}
	return fmt.Sprintf("CProg [%s] [%s]", strings.Join(cops, ";"), strings.Join(csnaps, ";")), snaps, msg
}

func parseWords(h []string) []bm.Bit64 {
	r := make([]bm.Bit64, len(h))
	for i, s := range h {
		var v uint64
		fmt.Sscanf(s, "%x", &v)
		r[i] = bm.Bit64(v)
	}
	return r
}

func popcount1024(b []bm.Bit64) int {
	c := 0
	for _, w := range b {
		c += bits.OnesCount64(uint64(w))
	}
	return c
}

func recoverWords(f func() bm.Bit1024) (r []bm.Bit64, msg string) {
	defer func() {
		if x := recover(); x != nil {
			r, msg = nil, fmt.Sprint(x)
		}
	}()
	return f(), ""
}

// run executes one spec on the implementation and emits the case.
func run(e *vh.Env, sp spec) { runObs(e, sp, nil, "") }

// observed: a result that was already obtained (class par/*: the call ran inside a goroutine's loop); runObs then only
// prints the case instead of calling the implementation again.
type observed struct {
	it    *iterOut
	g     *getOut
	words []bm.Bit64 // result of And / Or / OrThenReverse / Reverse
	isW   bool
	l, nl int
	isLen bool
}

func runObs(e *vh.Env, sp spec, ov *observed, classPrefix string) {
	rp, _ := json.Marshal(sp)
	t := ity(sp.Ty)
	desc := map[string]interface{}{"call": sp}
	var coq, class string
	nontrivial := true
	switch sp.Kind {
	case "iter64":
		w := parseWords(sp.A)[0]
		bm.VerifSetSparseMagic(sp.Magic)
		o := iterOut{}
		if ov != nil && ov.it != nil {
			o = *ov.it
		} else {
			o = iter64(w, t, sp.Rev, fill(t, sp.BufL, sp.Seed), sp.Pos, sp.Add, sp.N)
		}
		bm.VerifSetSparseMagic(9)
		coq = fmt.Sprintf("CIter64 %s %s %s %s (fill %s %d %d) %s %s %s %s", ityName[t], vh.CoqBool(sp.Rev), coqZ(int64(sp.Magic)), coqN(uint64(w)),
			ityName[t], sp.BufL, sp.Seed, coqZ(int64(sp.Pos)), coqZ(sp.Add), coqZ(int64(sp.N)), coqOut(o))
		class = fmt.Sprintf("iter64/%s/%s", ityName[t], dirName(sp.Rev))
		nontrivial = w != 0
		desc["observed"] = o
	case "iter1024":
		b := bm.Bit1024(parseWords(sp.A))
		bm.VerifSetSparseMagic(sp.Magic)
		o := iterOut{}
		if ov != nil && ov.it != nil {
			o = *ov.it
		} else {
			o = iter1024(b, t, sp.Rev, fill(t, sp.BufL, sp.Seed), sp.Pos, sp.Add, sp.N)
		}
		bm.VerifSetSparseMagic(9)
		coq = fmt.Sprintf("CIter1024 %s %s %s %s (fill %s %d %d) %s %s %s %s", ityName[t], vh.CoqBool(sp.Rev), coqZ(int64(sp.Magic)), coqWords(b),
			ityName[t], sp.BufL, sp.Seed, coqZ(int64(sp.Pos)), coqZ(sp.Add), coqZ(int64(sp.N)), coqOut(o))
		class = fmt.Sprintf("iter1024/%s/%s", ityName[t], dirName(sp.Rev))
		nontrivial = popcount1024(b) > 0
		desc["observed"] = o
	case "get64":
		w := parseWords(sp.A)[0]
		bm.VerifSetSparseMagic(sp.Magic)
		o := getOut{}
		if ov != nil && ov.g != nil {
			o = *ov.g
		} else {
			o = get64(w, t, sp.Rev, sp.N)
		}
		bm.VerifSetSparseMagic(9)
		coq = fmt.Sprintf("CGet64 %s %s %s %s %s %s", ityName[t], vh.CoqBool(sp.Rev), coqZ(int64(sp.Magic)), coqN(uint64(w)), coqZ(int64(sp.N)), coqGOut(o))
		class = fmt.Sprintf("get64/%s/%s", ityName[t], dirName(sp.Rev))
		nontrivial = w != 0
		desc["observed"] = o
	case "get1024":
		b := bm.Bit1024(parseWords(sp.A))
		bm.VerifSetSparseMagic(sp.Magic)
		o := getOut{}
		if ov != nil && ov.g != nil {
			o = *ov.g
		} else {
			o = get1024(b, t, sp.Rev, sp.N)
		}
		bm.VerifSetSparseMagic(9)
		coq = fmt.Sprintf("CGet1024 %s %s %s %s %s %s", ityName[t], vh.CoqBool(sp.Rev), coqZ(int64(sp.Magic)), coqWords(b), coqZ(int64(sp.N)), coqGOut(o))
		class = fmt.Sprintf("get1024/%s/%s", ityName[t], dirName(sp.Rev))
		nontrivial = popcount1024(b) > 0
		desc["observed"] = o
	case "point":
		before := parseWords(sp.A)
		b := bm.Bit1024(append([]bm.Bit64{}, before...))
		after, msg := recoverWords(func() bm.Bit1024 {
			switch sp.Op {
			case "PSetI32":
				b.SetI32(int32(sp.I))
			case "PUnsetI32":
				b.UnsetI32(int32(sp.I))
			case "PSetI16":
				b.SetI16(int16(sp.I))
			case "PUnsetI16":
				b.UnsetI16(int16(sp.I))
			default:
				panic("bad op")
			}
			return b
		})
		coq = fmt.Sprintf("CPoint %s %s %s %s", sp.Op, coqWords(before), coqZ(sp.I), coqWords(after))
		class = "point/" + sp.Op
		desc["after"], desc["panic"] = hexWords(after), msg
	case "len":
		b := bm.Bit1024(parseWords(sp.A))
		l, nl := -1, -1
		if ov != nil && ov.isLen {
			l, nl = ov.l, ov.nl
		} else {
			func() {
				defer func() { recover() }()
				l = b.Len()
				nl = b.NLen()
			}()
		}
		coq = fmt.Sprintf("CLen %s %s %s", coqWords(b), coqZ(int64(l)), coqZ(int64(nl)))
		class = "len"
		desc["len"], desc["nlen"] = l, nl
	case "reverse":
		b := bm.Bit1024(parseWords(sp.A))
		r, msg := recoverWords(func() bm.Bit1024 {
			if ov != nil && ov.isW {
				return ov.words
			}
			return b.Reverse()
		})
		coq = fmt.Sprintf("CReverse %s %s", coqWords(b), coqWords(r))
		class = "reverse"
		desc["result"], desc["panic"] = hexWords(r), msg
	case "bin":
		a, b := bm.Bit1024(parseWords(sp.A)), bm.Bit1024(parseWords(sp.B))
		r, msg := recoverWords(func() bm.Bit1024 {
			if ov != nil && ov.isW {
				return ov.words
			}
			switch sp.Op {
			case "BAnd":
				return a.And(b)
			case "BOr":
				return a.Or(b)
			case "BOrThenReverse":
				return a.OrThenReverse(b)
			}
			panic("bad op")
		})
		coq = fmt.Sprintf("CBin %s %s %s %s", sp.Op, coqWords(a), coqWords(b), coqWords(r))
		class = "bin/" + sp.Op
		desc["result"], desc["panic"] = hexWords(r), msg
	case "equal":
		a, b := bm.Bit1024(parseWords(sp.A)), bm.Bit1024(parseWords(sp.B))
		r := a.Equal(b)
		coq = fmt.Sprintf("CEqual %s %s %s", coqWords(a), coqWords(b), vh.CoqBool(r))
		class = "equal"
		desc["result"] = r
	case "word":
		w := parseWords(sp.A)[0]
		var r bm.Bit64
		switch sp.Op {
		case "WSet":
			r = w
			r.Set(byte(sp.Arg))
		case "WUnset":
			r = w
			r.Unset(byte(sp.Arg))
		case "WAnd":
			r = w.And(bm.Bit64(sp.Arg))
		case "WOr":
			r = w.Or(bm.Bit64(sp.Arg))
		case "WReverse":
			r = w.Reverse()
		default:
			panic("bad op")
		}
		coq = fmt.Sprintf("CWord %s %s %s %s", sp.Op, coqN(uint64(w)), coqZu(sp.Arg), coqN(uint64(r)))
		class = "word/" + sp.Op
		desc["result"] = fmt.Sprintf("%016x", uint64(r))
	case "wordlen":
		w := parseWords(sp.A)[0]
		l, nl, f := w.Len(), w.NLen(), w.Full()
		coq = fmt.Sprintf("CWordLen %s %s %s %s", coqN(uint64(w)), coqZ(int64(l)), coqZ(int64(nl)), vh.CoqBool(f))
		class = "wordlen"
		desc["len"], desc["nlen"], desc["full"] = l, nl, f
	case "prog":
		var snaps [][][]string
		var msg string
		coq, snaps, msg = runProg(sp.Prog)
		class = "prog/" + sp.Op
		if len(snaps) > 0 { // the replay keeps the whole program; the description shows the last observation
			desc["final_pool"] = snaps[len(snaps)-1]
		}
		desc["panic"] = msg
	default:
		panic("unknown kind " + sp.Kind)
	}
	e.Emit(vh.Case{Coq: "(" + coq + ")", Desc: desc, Class: classPrefix + class, Nontrivial: nontrivial, Replay: string(rp)})
}

func main() {
	vh.Main("c08", func(e *vh.Env) {
		defer bm.VerifSetSparseMagic(9)
		if e.Replay != "" {
			var sp spec
			if err := json.Unmarshal([]byte(e.Replay), &sp); err != nil {
				panic(err)
			}
			run(e, sp)
			return
		}
		generate(e)
	})
}
