package main

import (
	"math"
	"math/bits"
	"math/rand"
	"strings"

	bm "github.com/pinealctx/neptune/bitmap1024"
	"verifharness/vh"
)

// ---------------------------------------------------------------- words

// wordWithPop returns a random word with exactly k bits set.
func wordWithPop(r *rand.Rand, k int) uint64 {
	if k <= 0 {
		return 0
	}
	if k >= 64 {
		return ^uint64(0)
	}
	p := r.Perm(64)
	var w uint64
	for _, i := range p[:k] {
		w |= 1 << uint(i)
	}
	return w
}

var fixedWords = []uint64{
	0, 1, 1 << 63, 1<<63 | 1, 3, 1 << 62, 1<<63 | 1<<62, ^uint64(0), 0x7fffffffffffffff, 0xfffffffffffffffe,
	0x5555555555555555, 0xaaaaaaaaaaaaaaaa, 0x00000000ffffffff, 0xffffffff00000000, 0x1ff, 0x3ff, 0xff80000000000000, 0xffc0000000000000,
	0x8000000000000001 | 0x1fe, 0xffffffff7fffffff, 0x7ffffffffffffffe,
}

// genWord: popcounts around the default threshold (8, 9, 10), the extremes (0, 1, 63, 64) and random ones.
func genWord(r *rand.Rand) uint64 {
	switch r.Intn(10) {
	case 0:
		return fixedWords[r.Intn(len(fixedWords))]
	case 1, 2, 3:
		pops := []int{0, 1, 2, 8, 9, 10, 11, 32, 62, 63, 64}
		return wordWithPop(r, pops[r.Intn(len(pops))])
	case 4, 5:
		return wordWithPop(r, r.Intn(65))
	case 6:
		return r.Uint64() & r.Uint64() & r.Uint64() // sparse
	case 7:
		return r.Uint64() | r.Uint64() | r.Uint64() // dense
	case 8:
		// a run of ones somewhere (contiguous members, both ends possible)
		l := 1 + r.Intn(64)
		s := r.Intn(65 - l)
		if l == 64 {
			return ^uint64(0)
		}
		return ((uint64(1) << uint(l)) - 1) << uint(s)
	}
	return r.Uint64()
}

// genMagic: a threshold on a chosen side of the popcount l, so that every word is taken through both branches.
func genMagic(r *rand.Rand, l int, k int) int32 {
	dense := k%2 == 0
	if l == 0 || r.Intn(8) == 0 {
		ms := []int32{-1, 0, 9, 64, 8, 10, 63, 65, math.MaxInt32, math.MinInt32}
		return ms[r.Intn(len(ms))]
	}
	if dense { // magic < l
		ms := []int32{-1, 0, int32(l - 1), int32(r.Intn(l)), math.MinInt32}
		if l > 9 {
			ms = append(ms, 9, 9, 9)
		}
		return ms[r.Intn(len(ms))]
	}
	ms := []int32{int32(l), int32(l + 1), 64, int32(l + r.Intn(66-l)), math.MaxInt32}
	if l <= 9 {
		ms = append(ms, 9, 9, 9)
	}
	return ms[r.Intn(len(ms))]
}

// genN: the n-classes negative / 0 / < Len / = Len / > Len, with the neighbours of Len.
func genN(r *rand.Rand, l int) int {
	switch r.Intn(12) {
	case 0:
		return -1 - r.Intn(5)
	case 1:
		return 0
	case 2:
		return 1
	case 3:
		return l - 1
	case 4, 5:
		return l
	case 6:
		return l + 1
	case 7:
		return l + 2 + r.Intn(100)
	case 8:
		return []int{math.MaxInt64, math.MinInt64, 32768, 65536, 65539, 1 << 31, 1<<32 + 5, 1 << 20, -32769, math.MinInt32}[r.Intn(10)]
	}
	if l > 0 {
		return r.Intn(l + 1)
	}
	return r.Intn(3)
}

// genAdd: 0, small, and values that make T(i)+add wrap around for some of the emitted indices.
func genAdd(r *rand.Rand, t ity, span int64) int64 {
	lo, hi := t.min(), t.max()
	switch r.Intn(10) {
	case 0, 1:
		return 0
	case 2:
		return int64(r.Intn(2000)) - 1000
	case 3:
		return hi - r.Int63n(span+2) // wraps for the upper members
	case 4:
		return hi
	case 5:
		return lo
	case 6:
		if t == tU32 {
			return hi - r.Int63n(span+2)
		}
		return lo + r.Int63n(span+2)
	case 7:
		return -1 - r.Int63n(span+2)
	}
	// anywhere in the type's range
	if t == tI64 {
		return int64(r.Uint64())
	}
	v := lo + r.Int63n(hi-lo+1)
	if t != tU32 && v < lo {
		v = lo
	}
	return v
}

func minInt(a, b int) int {
	if a < b {
		return a
	}
	return b
}
func maxInt(a, b int) int {
	if a > b {
		return a
	}
	return b
}

// slice geometry: mostly enough room (pos 0 or 3 and others, with slack after the written range); sometimes exactly one
// element short, pos past the end, pos negative (the implementation must panic iff something has to be written there).
func genGeom(r *rand.Rand, count int) (bufl, pos int) {
	switch r.Intn(14) {
	case 0: // one short
		pos = r.Intn(4)
		bufl = maxInt(0, pos+count-1)
		return
	case 1: // negative position
		return count + r.Intn(4), -1 - r.Intn(3)
	case 2: // position at / past the end
		bufl = r.Intn(count + 3)
		return bufl, bufl + r.Intn(2)
	case 3: // empty slice
		return 0, 0
	case 4: // exact fit
		pos = r.Intn(5)
		return pos + count, pos
	case 5:
		if r.Intn(2) == 0 {
			return count + 2, math.MaxInt64
		}
		return count + 2, math.MinInt64
	}
	pos = []int{0, 3, 0, 3, 1, r.Intn(8)}[r.Intn(6)]
	return pos + count + r.Intn(4), pos
}

func expCount(n, l int) int {
	if n < 0 {
		return 0
	}
	return minInt(n, l)
}

// ---------------------------------------------------------------- Bit1024 values

func empty1024() []bm.Bit64 { return make([]bm.Bit64, 16) }

func fromMembers(ms ...int) []bm.Bit64 {
	b := bm.NewBit1024()
	for _, m := range ms {
		b.SetI32(int32(m))
	}
	return b
}

// gen1024 returns a bitmap and whether it is "large" (many members: only a few of those get a long slice).
func gen1024(r *rand.Rand) []bm.Bit64 {
	b := empty1024()
	switch r.Intn(14) {
	case 0:
		if r.Intn(3) == 0 {
			return b
		}
		edges := []int{0, 1, 62, 63, 64, 65, 127, 128, 511, 512, 959, 960, 1022, 1023}
		return fromMembers(edges[r.Intn(len(edges))])
	case 1: // members at the block edges
		ms := []int{}
		for k := 0; k < 16; k++ {
			if r.Intn(2) == 0 {
				ms = append(ms, 64*k+63)
			}
			if r.Intn(2) == 0 {
				ms = append(ms, 64*k)
			}
		}
		return fromMembers(ms...)
	case 2: // 0, 63, 64, 1023 and friends
		return fromMembers(0, 63, 64, 1023, 960, 1022)
	case 3, 4: // a few random members
		k := 1 + r.Intn(12)
		ms := make([]int, k)
		for i := range ms {
			ms[i] = r.Intn(1024)
		}
		return fromMembers(ms...)
	case 5: // one full word, the rest empty or nearly
		b[r.Intn(16)] = ^bm.Bit64(0)
		if r.Intn(2) == 0 {
			b[r.Intn(16)] |= bm.Bit64(1) << uint(r.Intn(64))
		}
		return b
	case 6, 7: // words with popcount around the threshold, many empty words in between
		for k := 0; k < 16; k++ {
			switch r.Intn(5) {
			case 0:
				b[k] = bm.Bit64(wordWithPop(r, 9))
			case 1:
				b[k] = bm.Bit64(wordWithPop(r, 10))
			case 2:
				b[k] = bm.Bit64(wordWithPop(r, 1+r.Intn(3)))
			}
		}
		return b
	case 8: // only the first / only the last word
		if r.Intn(2) == 0 {
			b[0] = bm.Bit64(genWord(r))
		} else {
			b[15] = bm.Bit64(genWord(r))
		}
		return b
	case 9: // every word random
		for k := range b {
			b[k] = bm.Bit64(genWord(r))
		}
		return b
	case 10: // full
		for k := range b {
			b[k] = ^bm.Bit64(0)
		}
		if r.Intn(2) == 0 {
			b[r.Intn(16)] &^= bm.Bit64(1) << uint(r.Intn(64))
		}
		return b
	case 11: // a run of consecutive members crossing word boundaries
		l := 1 + r.Intn(200)
		s := r.Intn(1024 - l + 1)
		ms := make([]int, l)
		for i := range ms {
			ms[i] = s + i
		}
		return fromMembers(ms...)
	}
	// sparse words
	for k := range b {
		if r.Intn(3) == 0 {
			b[k] = bm.Bit64(r.Uint64() & r.Uint64() & r.Uint64() & r.Uint64())
		}
	}
	return b
}

// ---------------------------------------------------------------- the streams

func want(e *vh.Env, class string) int {
	// violation search: the class that diverged gets most of the budget
	if !e.Search || e.Focus == "" {
		return 1
	}
	if e.Focus == class || strings.HasPrefix(e.Focus, class+"/") || strings.HasPrefix(class, e.Focus) {
		return 12
	}
	return 0
}

// fixedStream: the boundary inputs the code branches on, every function, independent of the seed.
func fixedStream(e *vh.Env) {
	one := func(w uint64) []string { return hexWords([]bm.Bit64{bm.Bit64(w)}) }
	words := []uint64{0, 1, 1 << 63, 1<<63 | 1, ^uint64(0), 0x7fffffffffffffff, 0xfffffffffffffffe,
		0x80000000000001ff /* 10 members */, 0x00000000000001ff /* 9 */, 0xff00000000000001 /* 9, high */, 0x0000000100010100}
	for _, t := range types64 {
		for _, rev := range []bool{false, true} {
			for _, w := range words {
				l := bits.OnesCount64(w)
				for _, magic := range []int32{-1, 9, 64} {
					for _, n := range []int{-1, 0, 1, l - 1, l, l + 1} {
						c := expCount(n, l)
						run(e, spec{Kind: "iter64", Ty: int(t), Rev: rev, Magic: magic, A: one(w), BufL: c + 4, Seed: 5, Pos: 3, Add: t.max() - 40, N: n})
					}
				}
			}
		}
	}
	for _, t := range typesGet64 {
		for _, rev := range []bool{false, true} {
			for _, w := range words {
				l := bits.OnesCount64(w)
				for _, magic := range []int32{-1, 64} {
					for _, n := range []int{-1, 0, l - 1, l, l + 2} {
						run(e, spec{Kind: "get64", Ty: int(t), Rev: rev, Magic: magic, A: one(w), N: n})
					}
				}
			}
		}
	}
	full := empty1024()
	for k := range full {
		full[k] = ^bm.Bit64(0)
	}
	two := empty1024()
	two[3], two[4], two[9] = 0x80000000000001ff, 0x00000000000001ff, 1<<63|1
	maps := [][]bm.Bit64{empty1024(), fromMembers(0), fromMembers(1023), fromMembers(63, 64), fromMembers(0, 63, 64, 127, 128, 959, 960, 1023), two, full}
	for _, t := range types1024 {
		for _, rev := range []bool{false, true} {
			for bi, b := range maps {
				l := popcount1024(b)
				ns := []int{-1, 0, 1, l - 1, l, l + 1}
				magics := []int32{-1, 9, 64}
				if bi == len(maps)-1 { // the full bitmap: one long output, otherwise short prefixes
					ns = []int{1, 63, 64, 65, 129}
				}
				for _, magic := range magics {
					for _, n := range ns {
						c := expCount(n, l)
						run(e, spec{Kind: "iter1024", Ty: int(t), Rev: rev, Magic: magic, A: hexWords(b), BufL: c + 3, Seed: 11, Pos: 2, Add: t.max() - 700, N: n})
					}
				}
				if bi == len(maps)-1 {
					run(e, spec{Kind: "iter1024", Ty: int(t), Rev: rev, Magic: 9, A: hexWords(b), BufL: 1024, Seed: 1, Pos: 0, Add: 0, N: 1024})
				}
			}
		}
	}
	for _, t := range typesGet1024 {
		for _, rev := range []bool{false, true} {
			for bi, b := range maps {
				l := popcount1024(b)
				ns := []int{-1, 0, l - 1, l, l + 2}
				if bi == len(maps)-1 {
					ns = []int{65, 130}
				}
				for _, n := range ns {
					run(e, spec{Kind: "get1024", Ty: int(t), Rev: rev, Magic: 9, A: hexWords(b), N: n})
				}
			}
		}
	}
	// Set / Unset at every boundary index, on the empty and on the full bitmap
	for _, op := range []string{"PSetI32", "PUnsetI32", "PSetI16", "PUnsetI16"} {
		idx := idx32
		if strings.HasSuffix(op, "16") {
			idx = idx16
		}
		b := empty1024()
		if strings.HasPrefix(op, "PUnset") {
			b = full
		}
		for _, i := range idx {
			run(e, spec{Kind: "point", Op: op, A: hexWords(b), I: i})
		}
	}
	for _, b := range maps {
		run(e, spec{Kind: "len", A: hexWords(b)})
		run(e, spec{Kind: "reverse", A: hexWords(b)})
		for _, c := range maps {
			run(e, spec{Kind: "equal", A: hexWords(b), B: hexWords(c)})
		}
		for _, op := range []string{"BAnd", "BOr", "BOrThenReverse"} {
			run(e, spec{Kind: "bin", Op: op, A: hexWords(b), B: hexWords(two)})
		}
	}
	// ---- boundary values of n (int bookkeeping narrower than int: int16 / int32 / uint32 counters), every entry point and width.
	// The slice is sized pos+min(n,Len) - only min(n, Len) slots are ever needed - once exactly and once with slack.
	bigNs := []int{32767, 32768, 65535, 65536, 65539, 1 << 20, 1<<31 - 1, 1 << 31, 1<<32 + 5, math.MaxInt64,
		-1, -32768, -32769, -65536, math.MinInt32, math.MinInt64}
	edge := fromMembers(0, 63, 64, 127, 128, 959, 960, 1023)
	for _, t := range types64 {
		for _, rev := range []bool{false, true} {
			for wi, w := range []uint64{0x80000000000001ff, 0x8000000000000001} {
				l := bits.OnesCount64(w)
				for ni, n := range bigNs {
					c := expCount(n, l)
					slack := (ni + wi) % 2 * 2
					run(e, spec{Kind: "iter64", Ty: int(t), Rev: rev, Magic: []int32{9, -1, 64}[ni%3], A: one(w), BufL: 2 + c + slack, Seed: 3, Pos: 2, Add: int64(ni), N: n})
				}
			}
		}
	}
	for _, t := range types1024 {
		for _, rev := range []bool{false, true} {
			for bi, b := range [][]bm.Bit64{edge, two} {
				l := popcount1024(b)
				for ni, n := range bigNs {
					c := expCount(n, l)
					slack := (ni + bi) % 2 * 3
					run(e, spec{Kind: "iter1024", Ty: int(t), Rev: rev, Magic: 9, A: hexWords(b), BufL: 1 + c + slack, Seed: 7, Pos: 1, Add: int64(100 + ni), N: n})
				}
			}
			// a huge pos with something to write must panic, with nothing to write it is never looked at
			for _, pos := range []int{1 << 31, 1<<32 + 5, -1 << 31} {
				run(e, spec{Kind: "iter1024", Ty: int(t), Rev: rev, Magic: 9, A: hexWords(edge), BufL: 9, Seed: 7, Pos: pos, Add: 1, N: 70000})
				run(e, spec{Kind: "iter1024", Ty: int(t), Rev: rev, Magic: 9, A: hexWords(edge), BufL: 9, Seed: 7, Pos: pos, Add: 1, N: -70000})
			}
		}
	}
	// GetN allocates make([]T, n): n up to 65539 only (and the negatives, which make rejects)
	getNs := []int{32767, 32768, 65535, 65536, 65539, -32768, -32769, math.MinInt32, math.MinInt64}
	for _, t := range typesGet64 {
		for _, rev := range []bool{false, true} {
			for _, n := range getNs {
				run(e, spec{Kind: "get64", Ty: int(t), Rev: rev, Magic: 9, A: one(0x80000000000001ff), N: n})
			}
		}
	}
	for _, t := range typesGet1024 {
		for _, rev := range []bool{false, true} {
			for _, n := range getNs {
				run(e, spec{Kind: "get1024", Ty: int(t), Rev: rev, Magic: 9, A: hexWords(edge), N: n})
			}
		}
	}
	// ---- Equal: differences that cancel when the words are combined arithmetically (sum / xor of the per-word differences)
	for _, base := range [][]bm.Bit64{empty1024(), two, full} {
		for _, p := range equalPatterns() {
			c := append([]bm.Bit64{}, base...)
			for k, d := range p {
				c[k] ^= bm.Bit64(d)
			}
			run(e, spec{Kind: "equal", A: hexWords(base), B: hexWords(c)})
			run(e, spec{Kind: "equal", A: hexWords(c), B: hexWords(base)})
		}
	}
	for k := 0; k < 16; k++ { // Equal must look at every word
		c := append([]bm.Bit64{}, two...)
		c[k] ^= 1 << 40
		run(e, spec{Kind: "equal", A: hexWords(two), B: hexWords(c)})
	}
	for _, w := range words {
		run(e, spec{Kind: "wordlen", A: one(w)})
		run(e, spec{Kind: "word", Op: "WReverse", A: one(w)})
		for _, arg := range []uint64{0, 1, 62, 63, 64, 65, 127, 128, 255} {
			run(e, spec{Kind: "word", Op: "WSet", A: one(w), Arg: arg})
			run(e, spec{Kind: "word", Op: "WUnset", A: one(w), Arg: arg})
		}
	}
}

var idx32 = []int64{math.MinInt32, -2147483647, -65536, -1088, -1025, -1024, -1023, -129, -128, -127, -65, -64, -63, -62, -2, -1, 0, 1, 2, 62, 63, 64, 65, 127, 128,
	255, 256, 511, 512, 959, 960, 1022, 1023, 1024, 1025, 1086, 1087, 1088, 1089, 1151, 1152, 2047, 2048, 4096, 65535, 65536, math.MaxInt32}
var idx16 = []int64{math.MinInt16, -32767, -1088, -1025, -1024, -1023, -129, -128, -65, -64, -63, -62, -2, -1, 0, 1, 63, 64, 65, 127, 128, 255, 256, 959, 960, 1022, 1023,
	1024, 1025, 1087, 1088, 1089, 2047, 2048, 16384, math.MaxInt16}

func generate(e *vh.Env) {
	r := e.Rnd
	one := func(w uint64) []string { return hexWords([]bm.Bit64{bm.Bit64(w)}) }
	if !e.Search || e.Focus == "" {
		fixedStream(e)
	}

	// ---- Bit64 iterators: every copy, every word through both branches
	for _, t := range types64 {
		for _, rev := range []bool{false, true} {
			class := "iter64/" + ityName[t] + "/" + dirName(rev)
			vol := e.Scale(250, 2500) * want(e, class)
			for k := 0; k < vol; k++ {
				w := genWord(r)
				l := bits.OnesCount64(w)
				n := genN(r, l)
				bufl, pos := genGeom(r, expCount(n, l))
				add := genAdd(r, t, 64)
				seed := int64(r.Intn(50))
				// the same call under a dense-side and a sparse-side threshold
				for j := 0; j < 2; j++ {
					run(e, spec{Kind: "iter64", Ty: int(t), Rev: rev, Magic: genMagic(r, l, j), A: one(w), BufL: bufl, Seed: seed, Pos: pos, Add: add, N: n})
				}
			}
		}
	}
	// ---- Bit64 GetN wrappers
	for _, t := range typesGet64 {
		for _, rev := range []bool{false, true} {
			class := "get64/" + ityName[t] + "/" + dirName(rev)
			vol := e.Scale(60, 800) * want(e, class)
			for k := 0; k < vol; k++ {
				w := genWord(r)
				l := bits.OnesCount64(w)
				n := genN(r, l)
				if n > 200 {
					n = l + 3 + r.Intn(60) // make([]T, n) is really allocated
				}
				if n < -1000 {
					n = -7
				}
				run(e, spec{Kind: "get64", Ty: int(t), Rev: rev, Magic: genMagic(r, l, k), A: one(w), N: n})
			}
		}
	}
	// ---- Bit1024 iterators
	for _, t := range types1024 {
		for _, rev := range []bool{false, true} {
			class := "iter1024/" + ityName[t] + "/" + dirName(rev)
			vol := e.Scale(110, 1800) * want(e, class)
			for k := 0; k < vol; k++ {
				b := gen1024(r)
				l := popcount1024(b)
				n := genN(r, l)
				// long outputs are expensive to evaluate: keep most counts below 48, a few unrestricted
				if c := expCount(n, l); c > 48 && r.Intn(12) != 0 {
					n = []int{r.Intn(48), 47, 48, 1 + r.Intn(10)}[r.Intn(4)]
				}
				bufl, pos := genGeom(r, expCount(n, l))
				add := genAdd(r, t, 1024)
				magic := []int32{-1, 0, 9, 9, 64, 1, 8, 10, 63, int32(r.Intn(66)) - 1}[r.Intn(10)]
				run(e, spec{Kind: "iter1024", Ty: int(t), Rev: rev, Magic: magic, A: hexWords(b), BufL: bufl, Seed: int64(r.Intn(50)), Pos: pos, Add: add, N: n})
			}
		}
	}
	// ---- Bit1024 GetN wrappers
	for _, t := range typesGet1024 {
		for _, rev := range []bool{false, true} {
			class := "get1024/" + ityName[t] + "/" + dirName(rev)
			vol := e.Scale(60, 800) * want(e, class)
			for k := 0; k < vol; k++ {
				b := gen1024(r)
				l := popcount1024(b)
				n := genN(r, l)
				if expCount(n, l) > 48 && r.Intn(12) != 0 {
					n = []int{r.Intn(48), 47, 48, 1 + r.Intn(10)}[r.Intn(4)]
				}
				if n > l+80 {
					n = l + 1 + r.Intn(80)
				}
				if n < -1000 {
					n = -3
				}
				magic := []int32{-1, 0, 9, 9, 64, 8, 10, int32(r.Intn(66)) - 1}[r.Intn(8)]
				run(e, spec{Kind: "get1024", Ty: int(t), Rev: rev, Magic: magic, A: hexWords(b), N: n})
			}
		}
	}
	// ---- Set / Unset: histories on one bitmap, every step one case (before-words, index, after-words)
	if w := want(e, "point"); w > 0 {
		hist := e.Scale(36, 500) * w
		for h := 0; h < hist; h++ {
			var b []bm.Bit64
			switch h % 3 {
			case 0:
				b = empty1024()
			case 1:
				b = gen1024(r)
			default:
				b = empty1024()
				for k := range b {
					b[k] = ^bm.Bit64(0)
				}
			}
			steps := 10 + r.Intn(10)
			for s := 0; s < steps; s++ {
				op := []string{"PSetI32", "PUnsetI32", "PSetI16", "PUnsetI16"}[r.Intn(4)]
				var i int64
				is16 := strings.HasSuffix(op, "16")
				switch r.Intn(6) {
				case 0, 1:
					if is16 {
						i = idx16[r.Intn(len(idx16))]
					} else {
						i = idx32[r.Intn(len(idx32))]
					}
				case 2:
					if is16 {
						i = int64(int16(r.Uint32()))
					} else {
						i = int64(int32(r.Uint32()))
					}
				case 3:
					i = int64(r.Intn(1300)) - 150
				default:
					i = int64(r.Intn(1024))
				}
				sp := spec{Kind: "point", Op: op, A: hexWords(b), I: i}
				run(e, sp)
				// continue the history on the implementation's own result
				nb := bm.Bit1024(append([]bm.Bit64{}, b...))
				func() {
					defer func() { recover() }()
					switch op {
					case "PSetI32":
						nb.SetI32(int32(i))
					case "PUnsetI32":
						nb.UnsetI32(int32(i))
					case "PSetI16":
						nb.SetI16(int16(i))
					case "PUnsetI16":
						nb.UnsetI16(int16(i))
					}
				}()
				b = nb
			}
		}
	}
	// ---- Len / NLen
	for k, vol := 0, e.Scale(150, 2000)*want(e, "len"); k < vol; k++ {
		run(e, spec{Kind: "len", A: hexWords(gen1024(r))})
	}
	// ---- Reverse, And, Or, OrThenReverse, Equal
	for k, vol := 0, e.Scale(100, 1500)*want(e, "reverse"); k < vol; k++ {
		run(e, spec{Kind: "reverse", A: hexWords(gen1024(r))})
	}
	pair := func() ([]bm.Bit64, []bm.Bit64) {
		a := gen1024(r)
		var b []bm.Bit64
		switch r.Intn(5) {
		case 4: // differences that cancel arithmetically (equalPatterns), on a random base
			b = append([]bm.Bit64{}, a...)
			ps := equalPatterns()
			for k, d := range ps[r.Intn(len(ps))] {
				b[k] ^= bm.Bit64(d)
			}
			if r.Intn(3) == 0 { // the same bit in two random words
				b = append([]bm.Bit64{}, a...)
				bit := bm.Bit64(1) << uint([]int{63, 63, r.Intn(64)}[r.Intn(3)])
				i, j := r.Intn(16), r.Intn(16)
				b[i] ^= bit
				if j != i {
					b[j] ^= bit
				}
			}
		case 0: // equal
			b = append([]bm.Bit64{}, a...)
		case 1: // differs in exactly one bit of one word (first, last or any word)
			b = append([]bm.Bit64{}, a...)
			k := []int{0, 15, r.Intn(16)}[r.Intn(3)]
			b[k] ^= bm.Bit64(1) << uint([]int{0, 63, r.Intn(64)}[r.Intn(3)])
		default:
			b = gen1024(r)
		}
		return a, b
	}
	for _, op := range []string{"BAnd", "BOr", "BOrThenReverse"} {
		for k, vol := 0, e.Scale(100, 1500)*want(e, "bin/"+op); k < vol; k++ {
			a, b := pair()
			run(e, spec{Kind: "bin", Op: op, A: hexWords(a), B: hexWords(b)})
		}
	}
	for k, vol := 0, e.Scale(160, 2000)*want(e, "equal"); k < vol; k++ {
		a, b := pair()
		run(e, spec{Kind: "equal", A: hexWords(a), B: hexWords(b)})
	}
	// ---- results are fresh values: programs over a pool of bitmaps (C08_Prog.v)
	for _, pat := range []string{"alias", "random"} {
		for k, vol := 0, e.Scale(52, 1000)*want(e, "prog/"+pat); k < vol; k++ {
			run(e, spec{Kind: "prog", Op: pat, Prog: genProg(r, pat, k)})
		}
	}
	// ---- private instances in parallel (par.go)
	genPar(e)
	// ---- Bit64's own methods
	bytesArg := []uint64{0, 1, 2, 31, 32, 62, 63, 64, 65, 127, 128, 129, 191, 192, 254, 255}
	for _, op := range []string{"WSet", "WUnset", "WAnd", "WOr", "WReverse"} {
		for k, vol := 0, e.Scale(90, 1200)*want(e, "word/"+op); k < vol; k++ {
			w := genWord(r)
			var arg uint64
			switch op {
			case "WSet", "WUnset":
				if r.Intn(2) == 0 {
					arg = bytesArg[r.Intn(len(bytesArg))]
				} else {
					arg = uint64(r.Intn(256))
				}
			case "WAnd", "WOr":
				arg = genWord(r)
			}
			run(e, spec{Kind: "word", Op: op, A: one(w), Arg: arg})
		}
	}
	for k, vol := 0, e.Scale(120, 1500)*want(e, "wordlen"); k < vol; k++ {
		run(e, spec{Kind: "wordlen", A: one(genWord(r))})
	}
	e.Meta["functions_called"] = "Bit64: 10 iterators, 8 GetN, Set/Unset/And/Or/Reverse/Len/NLen/Full; Bit1024: 8 iterators, 6 GetN, SetI32/UnsetI32/SetI16/UnsetI16, Len/NLen, Reverse/And/Or/OrThenReverse/Equal"
	e.Meta["sparse_magic"] = "every Bit64 iterator input is run under one threshold below and one at/above its popcount (VerifSetSparseMagic)"
}

// ---------------------------------------------------------------- programs over a pool

// sparseLit: a few members from one quarter of the range (two literals from different quarters are disjoint,
// literals from the same quarter often overlap).
func sparseLit(r *rand.Rand, quarter int) []string {
	ms := make([]int, 1+r.Intn(4))
	for i := range ms {
		ms[i] = quarter*256 + r.Intn(256)
	}
	return hexWords(fromMembers(ms...))
}

var mutOps = []string{"PSetI32", "PUnsetI32", "PSetI16", "PUnsetI16", "PSetI32", "PSetI16"}
var binOps = []string{"BAnd", "BOr", "BOrThenReverse", "BAnd"}

func genMut(r *rand.Rand, a int) progOp {
	i := int64(r.Intn(1024))
	if r.Intn(8) == 0 {
		i = []int64{-1, -63, 1024, 0, 63, 64, 1023}[r.Intn(7)]
	}
	return progOp{Op: mutOps[r.Intn(len(mutOps))], A: a, I: i}
}

// genProg: at most 12 steps, at most 7 pool members.
//
//	"alias": (1) two operands whose result is empty / equal to an operand / x op x, (2) mutate the RESULT,
//	(3) the same kind of operation again on other operands, (4) mutate that result and the operands; every member
//	is observed after every step, so a result that shares storage with an operand, with an earlier result or with a
//	package-level value shows as soon as either side changes.
//	"random": any mix, operands biased to the most recent members and to a == b.
func genProg(r *rand.Rand, pat string, k int) []progOp {
	var ops []progOp
	n := 0 // pool size
	push := func(o progOp) int {
		ops = append(ops, o)
		switch o.Op {
		case "PNew", "PLit", "BAnd", "BOr", "BOrThenReverse", "PRev":
			n++
		}
		return n - 1
	}
	lit := func(q int) int {
		switch r.Intn(8) {
		case 0:
			return push(progOp{Op: "PNew"})
		case 1:
			full := empty1024()
			for i := range full {
				full[i] = ^bm.Bit64(0)
			}
			return push(progOp{Op: "PLit", W: hexWords(full)})
		}
		return push(progOp{Op: "PLit", W: sparseLit(r, q)})
	}
	if pat == "alias" {
		op := binOps[k%len(binOps)]
		q := r.Intn(4)
		a := push(progOp{Op: "PLit", W: sparseLit(r, q)})
		var b int
		switch (k / len(binOps)) % 4 {
		case 0: // disjoint operands: empty intersection, union = sum
			b = push(progOp{Op: "PLit", W: sparseLit(r, (q+1)%4)})
		case 1: // x op x: result equal to the operand (And, Or)
			b = a
		case 2: // one operand empty: And empty, Or equal to the other operand
			b = push(progOp{Op: "PNew"})
			if r.Intn(2) == 0 {
				a, b = b, a
			}
		default:
			b = lit(q)
		}
		r1 := push(progOp{Op: op, A: a, B: b})
		push(genMut(r, r1)) // mutate the result
		push(genMut(r, r1))
		// the same kind of operation again, on fresh disjoint operands / the same operands
		var c, d int
		if r.Intn(3) == 0 {
			c, d = a, b
		} else {
			q2 := r.Intn(4)
			c = push(progOp{Op: "PLit", W: sparseLit(r, q2)})
			d = push(progOp{Op: "PLit", W: sparseLit(r, (q2+2)%4)})
		}
		r2 := push(progOp{Op: op, A: c, B: d})
		push(genMut(r, r2))
		push(genMut(r, []int{a, b, c, d}[r.Intn(4)])) // mutate an operand afterwards
		push(genMut(r, r1))
		if n < 7 && r.Intn(2) == 0 {
			push(progOp{Op: "PRev", A: r2})
			push(genMut(r, n-1))
		}
		return ops
	}
	steps := 6 + r.Intn(7)
	for len(ops) < steps {
		pick := func() int {
			if n == 0 {
				return 0
			}
			if r.Intn(2) == 0 {
				return n - 1 - r.Intn(minInt(n, 2))
			}
			return r.Intn(n)
		}
		c := r.Intn(10)
		switch {
		case n < 2 || (c == 0 && n < 7):
			lit(r.Intn(4))
		case c <= 3 && n < 7:
			a := pick()
			b := pick()
			if r.Intn(4) == 0 {
				b = a
			}
			push(progOp{Op: binOps[r.Intn(len(binOps))], A: a, B: b})
		case c == 4 && n < 7:
			push(progOp{Op: "PRev", A: pick()})
		default:
			push(genMut(r, pick()))
		}
	}
	return ops
}

// equalPatterns: per-word XOR differences (word index -> difference) whose sum, xor, or both vanish modulo 2^64 although the
// bitmaps differ: the same bit in 2 / 4 / 8 / 16 words (bit 63 twice sums to 2^64), identical differences in two words
// (xor cancels), a difference and its arithmetic negative, plus plain one-bit differences.
func equalPatterns() []map[int]uint64 {
	ps := []map[int]uint64{
		{0: 1 << 63, 1: 1 << 63},                           // {63} vs {127}
		{0: 1 << 63, 15: 1 << 63},                          // top bit of the first and the last word
		{7: 1 << 63, 8: 1 << 63},                           //
		{0: 1 << 63, 1: 1 << 63, 2: 1 << 63, 3: 1 << 63},   // bit 63 in four words
		{0: 1 << 62, 5: 1 << 62, 10: 1 << 62, 15: 1 << 62}, // bit 62 in four words: 4 * 2^62 = 2^64
		{3: 5, 4: ^uint64(5) + 1},                          // d and -d
		{0: 1, 15: ^uint64(0)},                             // 1 and -1
		{2: 0x123456789abcdef0, 9: ^uint64(0x123456789abcdef0) + 1},
		{1: 0xdeadbeef, 14: 0xdeadbeef},     // the same difference twice (xor of the differences is 0)
		{0: 1}, {15: 1 << 63}, {8: 1 << 31}, // one flip
	}
	p8, p16 := map[int]uint64{}, map[int]uint64{}
	for k := 0; k < 16; k++ {
		p16[k] = 1 << 60 // bit 60 in all sixteen words: 16 * 2^60 = 2^64
		if k%2 == 0 {
			p8[k] = 1 << 61 // bit 61 in eight words
		}
	}
	return append(ps, p8, p16)
}
