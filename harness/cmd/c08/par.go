package main

import (
	"runtime"
	"sync"
	"sync/atomic"

	bm "github.com/pinealctx/neptune/bitmap1024"
	"verifharness/vh"
)

// Class par/*: private instances in parallel.  G goroutines, each with its OWN bitmaps (distinct contents per goroutine,
// nothing shared by contract), start together behind a spin barrier (atomic counter, no sleeps) and run a tight loop over
// the operations whose results are values (GetNAs*/RGetNAs*, Iter*/RIter*, And/Or/OrThenReverse/Reverse, Len/NLen).
// Every result is compared in Go with the first result of the same call in the same goroutine; every DISTINCT
// observation per (goroutine, call) is emitted as an ordinary case, so Coq decides accept / holds.  On an implementation
// whose instances share nothing every (goroutine, call) has exactly one observation under every schedule; package-level
// scratch space or pools shared between independent bitmaps show as a second, wrong observation.

type parCall struct {
	sp   spec
	exec func() observed
}

func obsEqual(a, b observed) bool {
	switch {
	case a.it != nil:
		if b.it == nil || a.it.Panic != b.it.Panic || a.it.Count != b.it.Count || len(a.it.Buf) != len(b.it.Buf) {
			return false
		}
		for i := range a.it.Buf {
			if a.it.Buf[i] != b.it.Buf[i] {
				return false
			}
		}
		return true
	case a.g != nil:
		if b.g == nil || a.g.Panic != b.g.Panic || len(a.g.Vals) != len(b.g.Vals) {
			return false
		}
		for i := range a.g.Vals {
			if a.g.Vals[i] != b.g.Vals[i] {
				return false
			}
		}
		return true
	case a.isW:
		if !b.isW || len(a.words) != len(b.words) {
			return false
		}
		for i := range a.words {
			if a.words[i] != b.words[i] {
				return false
			}
		}
		return true
	case a.isLen:
		return b.isLen && a.l == b.l && a.nl == b.nl
	}
	return false
}

// parCalls: the calls of goroutine g on its private bitmaps.
func parCalls(g int) []parCall {
	// distinct contents per goroutine: 3 + g%5 members around g-dependent positions, spread over several words
	ms := []int{}
	for j := 0; j < 3+g%5; j++ {
		ms = append(ms, (g*37+j*131+j*j*7)%1024)
	}
	a := bm.Bit1024(fromMembers(ms...))
	ms2 := []int{(g * 37) % 1024, (g*53 + 11) % 1024, 1023 - g}
	b := bm.Bit1024(fromMembers(ms2...))
	var w bm.Bit64 = bm.Bit64(0x8000000000000001) | bm.Bit64(1)<<uint(g%60+2) | bm.Bit64(1)<<uint((g*7)%61+1)
	l := popcount1024(a)
	ha, hb := hexWords(a), hexWords(b)
	hw := hexWords([]bm.Bit64{w})
	var cs []parCall
	get := func(t ity, rev bool, n int) {
		sp := spec{Kind: "get1024", Ty: int(t), Rev: rev, Magic: 9, A: ha, N: n}
		cs = append(cs, parCall{sp, func() observed { o := get1024(a, t, rev, n); return observed{g: &o} }})
	}
	get(tI16, false, l+2)
	get(tI16, true, 1024)
	get(tI32, false, l)
	get(tI64, true, 2)
	{
		t, n := tI8, 64
		sp := spec{Kind: "get64", Ty: int(t), Rev: true, Magic: 9, A: hw, N: n}
		cs = append(cs, parCall{sp, func() observed { o := get64(w, t, true, n); return observed{g: &o} }})
	}
	for _, t := range []ity{tI16, tU32} {
		t := t
		rev := t == tU32
		sp := spec{Kind: "iter1024", Ty: int(t), Rev: rev, Magic: 9, A: ha, BufL: l + 3, Seed: int64(g), Pos: 1, Add: int64(g), N: l + 1}
		init := fill(t, sp.BufL, sp.Seed)
		cs = append(cs, parCall{sp, func() observed { o := iter1024(a, t, rev, init, 1, int64(g), l+1); return observed{it: &o} }})
	}
	for _, op := range []string{"BAnd", "BOr", "BOrThenReverse"} {
		op := op
		sp := spec{Kind: "bin", Op: op, A: ha, B: hb}
		cs = append(cs, parCall{sp, func() observed {
			var r bm.Bit1024
			switch op {
			case "BAnd":
				r = a.And(b)
			case "BOr":
				r = a.Or(b)
			default:
				r = a.OrThenReverse(b)
			}
			return observed{words: r, isW: true}
		}})
	}
	cs = append(cs, parCall{spec{Kind: "reverse", A: ha}, func() observed { return observed{words: a.Reverse(), isW: true} }})
	cs = append(cs, parCall{spec{Kind: "len", A: hb}, func() observed { return observed{l: b.Len(), nl: b.NLen(), isLen: true} }})
	return cs
}

func genPar(e *vh.Env) {
	if want(e, "par") == 0 {
		return
	}
	bm.VerifSetSparseMagic(9) // read-only while the goroutines run
	G := 2 * runtime.GOMAXPROCS(0) // more goroutines than Ps, so that goroutines change places on a P
	if G < 16 {
		G = 16
	}
	if G > 32 {
		G = 32
	}
	iters := e.Scale(40000, 300000)
	const maxDistinct = 4
	all := make([][]parCall, G)
	seen := make([][][]observed, G)
	for g := 0; g < G; g++ {
		all[g] = parCalls(g)
		seen[g] = make([][]observed, len(all[g]))
	}
	var ready int32
	var wg sync.WaitGroup
	for g := 0; g < G; g++ {
		wg.Add(1)
		go func(g int) {
			defer wg.Done()
			atomic.AddInt32(&ready, 1)
			for atomic.LoadInt32(&ready) < int32(G) { // spin barrier
				runtime.Gosched()
			}
			calls := all[g]
			for it := 0; it < iters; it++ {
				for k := range calls {
					o := calls[k].exec()
					if len(seen[g][k]) == 0 {
						seen[g][k] = append(seen[g][k], o)
						continue
					}
					if obsEqual(seen[g][k][0], o) || len(seen[g][k]) >= maxDistinct {
						continue
					}
					dup := false
					for _, p := range seen[g][k][1:] {
						if obsEqual(p, o) {
							dup = true
							break
						}
					}
					if !dup {
						seen[g][k] = append(seen[g][k], o)
					}
				}
			}
		}(g)
	}
	wg.Wait()
	extra := 0
	for g := 0; g < G; g++ {
		for k, c := range all[g] {
			for j := range seen[g][k] {
				o := seen[g][k][j]
				runObs(e, c.sp, &o, "par/")
				if j > 0 {
					extra++
				}
			}
		}
	}
	e.Meta["par"] = map[string]interface{}{"goroutines": G, "iterations_per_goroutine": iters, "calls_per_iteration": len(all[0]),
		"observations_beyond_the_first": extra}
}
