package main

import (
	"fmt"
	"strings"

	"github.com/pinealctx/neptune/ds/tree/btree"
)

// kv is the item stored in the trees: ordered by key only, the payload tells apart successive stores of one key
type kv struct{ k, p int }

func (a kv) Less(b btree.Item) bool { return a.k < b.(kv).k }

func z(v int) string {
	if v < 0 {
		return fmt.Sprintf("(%d)", v)
	}
	return fmt.Sprintf("%d", v)
}
func coqItem(x kv) string { return "(" + z(x.k) + "," + z(x.p) + ")" }
func coqItems(xs []kv) string {
	s := make([]string, len(xs))
	for i, x := range xs {
		s[i] = coqItem(x)
	}
	return "[" + strings.Join(s, ";") + "]"
}
func coqBool(b bool) string {
	if b {
		return "true"
	}
	return "false"
}

// observations
type obs struct {
	kind  string // unit nil item bool list len panic snap stuck
	item  kv
	b     bool
	list  []kv
	n     int
	snap  []*snapEnt
	panic string
}
type snapEnt struct {
	items []kv
	n     int
}

func (o obs) coq() string {
	switch o.kind {
	case "unit":
		return "OUnit"
	case "nil":
		return "ONil"
	case "item":
		return "OItem " + coqItem(o.item)
	case "bool":
		return "OBool " + coqBool(o.b)
	case "list":
		return "OList " + coqItems(o.list)
	case "len":
		return "OLen " + z(o.n)
	case "panic":
		return "OPanic"
	case "stuck":
		return "OStuck"
	case "snap":
		s := make([]string, len(o.snap))
		for i, e := range o.snap {
			if e == nil {
				s[i] = "None"
			} else {
				s[i] = "Some (" + coqItems(e.items) + "," + z(e.n) + ")"
			}
		}
		return "OSnap [" + strings.Join(s, ";") + "]"
	}
	panic("obs kind " + o.kind)
}
func (o obs) String() string {
	switch o.kind {
	case "unit":
		return "-"
	case "nil":
		return "nil"
	case "item":
		return fmt.Sprintf("%d:%d", o.item.k, o.item.p)
	case "bool":
		return fmt.Sprint(o.b)
	case "list":
		return itemsStr(o.list)
	case "len":
		return fmt.Sprint(o.n)
	case "panic":
		return "PANIC " + o.panic
	case "stuck":
		return "NEVER RETURNS (found parked in sync.RWMutex Lock/RLock inside this wrapper method, no other call in flight)"
	case "snap":
		s := []string{}
		for _, e := range o.snap {
			if e == nil {
				s = append(s, "nil")
			} else {
				s = append(s, fmt.Sprintf("%s len=%d", itemsStr(e.items), e.n))
			}
		}
		return strings.Join(s, " | ")
	}
	return "?"
}
func itemsStr(xs []kv) string {
	s := make([]string, len(xs))
	for i, x := range xs {
		s[i] = fmt.Sprintf("%d:%d", x.k, x.p)
	}
	return "[" + strings.Join(s, " ") + "]"
}
func obsItem(i btree.Item) obs {
	if i == nil {
		return obs{kind: "nil"}
	}
	return obs{kind: "item", item: i.(kv)}
}

// the tree as VerifShape shows it
func coqSNode(s *btree.VShape) string {
	its := make([]kv, len(s.Items))
	for i, x := range s.Items {
		its[i] = x.(kv)
	}
	ch := make([]string, len(s.Children))
	for i, c := range s.Children {
		ch[i] = coqSNode(c)
	}
	return "(SNode " + coqBool(s.Owned) + " " + coqItems(its) + " [" + strings.Join(ch, ";") + "])"
}
func coqShape(t *btree.BTree) string {
	root, _, length := t.VerifShape()
	if root == nil {
		return "(None," + z(length) + ")"
	}
	return "(Some " + coqSNode(root) + "," + z(length) + ")"
}
func strShape(s *btree.VShape) string {
	if s == nil {
		return "nil"
	}
	its := make([]kv, len(s.Items))
	for i, x := range s.Items {
		its[i] = x.(kv)
	}
	out := itemsStr(its)
	if !s.Owned {
		out = "~" + out
	}
	if len(s.Children) > 0 {
		ch := make([]string, len(s.Children))
		for i, c := range s.Children {
			ch[i] = strShape(c)
		}
		out += "{" + strings.Join(ch, " ") + "}"
	}
	return out
}
func optShape(t *btree.BTree, want bool) (string, string) {
	if !want {
		return "None", ""
	}
	root, _, length := t.VerifShape()
	return "Some " + coqShape(t), fmt.Sprintf(" shape=%s len=%d", strShape(root), length)
}

// filters of the wrapper scans (C03_Model.filt)
type filt struct {
	kind string // all none key pay
	m, r int
}

func (f filt) coq() string {
	switch f.kind {
	case "all":
		return "FAll"
	case "none":
		return "FNone"
	case "key":
		return fmt.Sprintf("(FKeyMod %d %d)", f.m, f.r)
	case "pay":
		return fmt.Sprintf("(FPayMod %d %d)", f.m, f.r)
	}
	panic("filt")
}
func (f filt) fn() func(btree.Item) bool {
	switch f.kind {
	case "all":
		return func(btree.Item) bool { return true }
	case "none":
		return func(btree.Item) bool { return false }
	case "key":
		return func(i btree.Item) bool { return mod(i.(kv).k, f.m) == f.r }
	case "pay":
		return func(i btree.Item) bool { return mod(i.(kv).p, f.m) == f.r }
	}
	panic("filt")
}

// Z.modulo for a positive modulus
func mod(a, m int) int {
	r := a % m
	if r < 0 {
		r += m
	}
	return r
}

var wscanNames = []string{"WAscendGte", "WAscendGt", "WDescendLte", "WDescendLt"}
var entryNames = []string{"EAscend", "EAscendRange", "EAscendLessThan", "EAscendGreaterOrEqual", "EAscendGreater",
	"EDescend", "EDescendRange", "EDescendLessOrEqual", "EDescendGreaterThan", "EDescendLess"}
