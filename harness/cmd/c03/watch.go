package main

// Calls that never return.  A wrapper operation of a sequential history runs in its own goroutine; if it has not
// returned after stuckAfter, all goroutine stacks are taken (one consistent snapshot) and the operation's goroutine is
// looked up: only when it is parked inside sync.RWMutex.Lock / RLock called from a method of the wrapper - nobody else
// is using that wrapper, so nobody will ever release the lock - the step's outcome is Stuck.  Anything else (still
// computing) keeps waiting.  The concurrent classes use the same snapshot at the level of the case: every caller that is
// still alive parked on the wrapper's lock at one instant = nobody is inside a critical section = deadlock.

import (
	"runtime"
	"strings"
	"sync"
	"time"

	"github.com/pinealctx/neptune/ds/tree"
)

const stuckAfter = 3 * time.Second

// histories that ended in a call that never returned (the wrapper classes stop after maxStuck of them)
var stuckHistories = 0

const maxStuck = 3

func allStacks() []string {
	buf := make([]byte, 1<<20)
	for {
		n := runtime.Stack(buf, true)
		if n < len(buf) {
			return strings.Split(string(buf[:n]), "\n\n")
		}
		buf = make([]byte, 2*len(buf))
	}
}

// the goroutine is WAITING (not runnable: a goroutine that was just handed the lock is runnable) on a semaphore of
// sync, inside RWMutex.Lock / RLock called from a method of the wrapper.  With a lock that is used correctly this
// cannot hold for every caller at one instant: either somebody is inside a critical section or in Unlock (then that
// caller is not waiting in Lock/RLock), or the lock is free and whoever waits for it has been made runnable.
func parkedOnWrapperLock(block string) bool {
	head := block
	if i := strings.Index(block, "\n"); i >= 0 {
		head = block[:i]
	}
	i := strings.Index(head, "[")
	if i < 0 {
		return false
	}
	state := head[i+1:]
	waiting := strings.HasPrefix(state, "sync.RWMutex.") || strings.HasPrefix(state, "sync.Mutex.Lock") || strings.HasPrefix(state, "semacquire")
	return waiting && (strings.Contains(block, "sync.(*RWMutex).Lock(") || strings.Contains(block, "sync.(*RWMutex).RLock(")) &&
		strings.Contains(block, "neptune/ds/tree.(*BTree).")
}

// live = goroutines whose stack contains the marker frame; parked = those of them parked on the wrapper's lock
func census(marker string) (live, parked int, sample string) {
	for _, b := range allStacks() {
		if strings.Contains(b, marker) {
			live++
			if parkedOnWrapperLock(b) {
				parked++
				if sample == "" {
					sample = b
				}
			}
		}
	}
	return
}

// goroutines left behind by earlier stuck steps (they stay parked for ever)
var leaked = 0

//go:noinline
func watchedOp(t *tree.BTree, o wop, ch chan obs) { ch <- applyW(t, o) }

func applyWWatch(t *tree.BTree, o wop) obs {
	ch := make(chan obs, 1)
	go watchedOp(t, o, ch)
	timer := time.NewTimer(stuckAfter)
	defer timer.Stop()
	for {
		select {
		case r := <-ch:
			return r
		case <-timer.C:
			live, parked, sample := census("main.watchedOp(")
			if live == parked && parked == leaked+1 {
				leaked++
				if len(sample) > 900 {
					sample = sample[:900]
				}
				return obs{kind: "stuck", panic: sample}
			}
			timer.Reset(stuckAfter)
		}
	}
}

// wait for the callers of a concurrent case; "" = all returned, otherwise the stacks of callers that are all parked on
// the wrapper's lock (marker = a frame every caller goroutine of the class has)
func waitCallers(wg *sync.WaitGroup, marker string) string {
	done := make(chan struct{})
	go func() { wg.Wait(); close(done) }()
	for {
		select {
		case <-done:
			return ""
		case <-time.After(stuckAfter):
			live, parked, sample := census(marker)
			if live > 0 && live == parked {
				if len(sample) > 1200 {
					sample = sample[:1200]
				}
				return sample
			}
		}
	}
}
