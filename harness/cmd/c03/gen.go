package main

import (
	"fmt"
	"math/rand"
	"runtime"
	"sort"
	"strings"
	"sync"
	"sync/atomic"

	"github.com/pinealctx/neptune/ds/tree"
	"github.com/pinealctx/neptune/ds/tree/btree"
	"verifharness/vh"
)

// ---------------------------------------------------------------- operations on the real code

type wop struct {
	kind string // insert update uoi delete get scan
	x    kv     // insert / new item
	k    int    // old key, key, pivot
	oldp int    // update / uoi: the payload the old argument carries (0 unless stated); with k == x.k and oldp == x.p
	// the old and the new argument are one and the same value (the upsert idiom UpdateOrInsert(x, x))
	w int // scan: index into wscanNames
	f filt
	n int
}

func (o wop) coq() string {
	switch o.kind {
	case "insert":
		return "WInsert " + coqItem(o.x)
	case "update":
		return "WUpdate " + z(o.k) + " " + coqItem(o.x)
	case "uoi":
		return "WUpdateOrInsert " + z(o.k) + " " + coqItem(o.x)
	case "delete":
		return "WDelete " + z(o.k)
	case "get":
		return "WGet " + z(o.k)
	case "scan":
		return "WScan " + wscanNames[o.w] + " " + z(o.k) + " " + o.f.coq() + " " + z(o.n)
	}
	panic("wop")
}
func (o wop) String() string {
	switch o.kind {
	case "insert":
		return fmt.Sprintf("Insert(%d:%d)", o.x.k, o.x.p)
	case "update", "uoi":
		name := map[string]string{"update": "Update", "uoi": "UpdateOrInsert"}[o.kind]
		switch {
		case o.k == o.x.k && o.oldp == o.x.p:
			return fmt.Sprintf("%s(x, x) with x = %d:%d, one value as both arguments", name, o.x.k, o.x.p)
		case o.oldp != 0:
			return fmt.Sprintf("%s(old %d:%d -> new %d:%d)", name, o.k, o.oldp, o.x.k, o.x.p)
		}
		return fmt.Sprintf("%s(%d -> %d:%d)", name, o.k, o.x.k, o.x.p)
	case "delete":
		return fmt.Sprintf("Delete(%d)", o.k)
	case "get":
		return fmt.Sprintf("Get(%d)", o.k)
	case "scan":
		return fmt.Sprintf("%s(%d, %s, %d)", wscanNames[o.w][1:], o.k, o.f.coq(), o.n)
	}
	return "?"
}

func applyW(t *tree.BTree, o wop) (res obs) {
	defer func() {
		if r := recover(); r != nil {
			res = obs{kind: "panic", panic: fmt.Sprint(r)}
		}
	}()
	switch o.kind {
	case "insert":
		t.Insert(o.x)
		return obs{kind: "unit"}
	case "update":
		return obs{kind: "bool", b: t.Update(kv{o.k, o.oldp}, o.x)}
	case "uoi":
		return obs{kind: "bool", b: t.UpdateOrInsert(kv{o.k, o.oldp}, o.x)}
	case "delete":
		return obs{kind: "bool", b: t.Delete(kv{o.k, 0})}
	case "get":
		return obsItem(t.Get(kv{o.k, 0}))
	case "scan":
		var ns []tree.Node
		switch o.w {
		case 0:
			ns = t.AscendGte(kv{o.k, 0}, o.f.fn(), o.n)
		case 1:
			ns = t.AscendGt(kv{o.k, 0}, o.f.fn(), o.n)
		case 2:
			ns = t.DescendLte(kv{o.k, 0}, o.f.fn(), o.n)
		case 3:
			ns = t.DescendLt(kv{o.k, 0}, o.f.fn(), o.n)
		}
		l := make([]kv, len(ns))
		for i, x := range ns {
			l[i] = x.(kv)
		}
		return obs{kind: "list", list: l}
	}
	panic("applyW")
}

type iop struct {
	kind string // ins del delmin delmax get has min max len scan
	x    kv
	k    int
	e    int // scan: index into entryNames
	p, q int
	m    int
}

func (o iop) coq() string {
	switch o.kind {
	case "ins":
		return "IIns " + coqItem(o.x)
	case "del":
		return "IDel " + z(o.k)
	case "delmin":
		return "IDelMin"
	case "delmax":
		return "IDelMax"
	case "get":
		return "IGet " + z(o.k)
	case "has":
		return "IHas " + z(o.k)
	case "min":
		return "IMin"
	case "max":
		return "IMax"
	case "len":
		return "ILen"
	case "scan":
		return "IScan " + entryNames[o.e] + " " + z(o.p) + " " + z(o.q) + " " + z(o.m)
	}
	panic("iop")
}
func (o iop) String() string {
	switch o.kind {
	case "ins":
		return fmt.Sprintf("ReplaceOrInsert(%d:%d)", o.x.k, o.x.p)
	case "del":
		return fmt.Sprintf("Delete(%d)", o.k)
	case "delmin":
		return "DeleteMin"
	case "delmax":
		return "DeleteMax"
	case "get":
		return fmt.Sprintf("Get(%d)", o.k)
	case "has":
		return fmt.Sprintf("Has(%d)", o.k)
	case "min":
		return "Min"
	case "max":
		return "Max"
	case "len":
		return "Len"
	case "scan":
		return fmt.Sprintf("%s(%d,%d) stop-after=%d", entryNames[o.e][1:], o.p, o.q, o.m)
	}
	return "?"
}

func applyI(t *btree.BTree, o iop) (res obs) {
	defer func() {
		if r := recover(); r != nil {
			res = obs{kind: "panic", panic: fmt.Sprint(r)}
		}
	}()
	switch o.kind {
	case "ins":
		return obsItem(t.ReplaceOrInsert(o.x))
	case "del":
		return obsItem(t.Delete(kv{o.k, 0}))
	case "delmin":
		return obsItem(t.DeleteMin())
	case "delmax":
		return obsItem(t.DeleteMax())
	case "get":
		return obsItem(t.Get(kv{o.k, 0}))
	case "has":
		return obs{kind: "bool", b: t.Has(kv{o.k, 0})}
	case "min":
		return obsItem(t.Min())
	case "max":
		return obsItem(t.Max())
	case "len":
		return obs{kind: "len", n: t.Len()}
	case "scan":
		acc := []kv{}
		it := func(i btree.Item) bool {
			acc = append(acc, i.(kv))
			return o.m <= 0 || len(acc) < o.m
		}
		p, q := kv{o.p, 0}, kv{o.q, 0}
		switch o.e {
		case 0:
			t.Ascend(it)
		case 1:
			t.AscendRange(p, q, it)
		case 2:
			t.AscendLessThan(p, it)
		case 3:
			t.AscendGreaterOrEqual(p, it)
		case 4:
			t.AscendGreater(p, it)
		case 5:
			t.Descend(it)
		case 6:
			t.DescendRange(p, q, it)
		case 7:
			t.DescendLessOrEqual(p, it)
		case 8:
			t.DescendGreaterThan(p, it)
		case 9:
			t.DescendLess(p, it)
		}
		return obs{kind: "list", list: acc}
	}
	panic("applyI")
}

// ---------------------------------------------------------------- generator helpers

// keyset is the generator's own idea of which keys are present (used only to bias choices, never to judge)
type keyset struct {
	m    map[int]bool
	next int // payload counter
}

func newKeyset() *keyset { return &keyset{m: map[int]bool{}, next: 1} }
func (s *keyset) sorted() []int {
	ks := make([]int, 0, len(s.m))
	for k := range s.m {
		ks = append(ks, k)
	}
	sort.Ints(ks)
	return ks
}
func (s *keyset) present(r *rand.Rand) (int, bool) {
	ks := s.sorted()
	if len(ks) == 0 {
		return 0, false
	}
	return ks[r.Intn(len(ks))], true
}
func (s *keyset) pay() int { s.next++; return s.next - 1 }

// keys are the even numbers 0,2,..,2(u-1); pivots range over -2..2u+1 (present, absent between two keys,
// below the minimum, above the maximum)
func anyKey(r *rand.Rand, u int) int { return 2 * r.Intn(u) }
func anyPivot(r *rand.Rand, u int) int {
	return r.Intn(2*u+4) - 2
}
func pickKey(r *rand.Rand, s *keyset, u int, pPresent float64) int {
	if r.Float64() < pPresent {
		if k, ok := s.present(r); ok {
			return k
		}
	}
	return anyKey(r, u)
}
func pickFilt(r *rand.Rand) filt {
	switch x := r.Intn(20); {
	case x < 9:
		return filt{kind: "all"}
	case x < 10:
		return filt{kind: "none"}
	case x < 14:
		return filt{kind: "key", m: 4, r: 2 * r.Intn(2)}
	case x < 17:
		return filt{kind: "pay", m: 2, r: r.Intn(2)}
	default:
		return filt{kind: "pay", m: 3, r: r.Intn(3)}
	}
}
func pickLimit(r *rand.Rand, size int) int {
	switch x := r.Intn(40); {
	case x < 3:
		return 0
	case x < 4:
		return -1 - r.Intn(3)
	case x < 16:
		return 1 + r.Intn(3)
	case x < 28:
		v := size - 1 + r.Intn(3)
		if v < 1 {
			v = 1
		}
		return v
	case x < 36:
		return 1 + r.Intn(size+2)
	default:
		return 1000
	}
}

// levels of the tree (0 = empty, 1 = a leaf root)
func levels(t *btree.BTree) int {
	root, _, _ := t.VerifShape()
	n := 0
	for s := root; s != nil; {
		n++
		if len(s.Children) == 0 {
			break
		}
		s = s.Children[0]
	}
	return n
}

// one pivot of each class relative to the present keys: present, absent between two keys, below the minimum,
// above the maximum
func pivotClasses(r *rand.Rand, ks *keyset) []int {
	s := ks.sorted()
	if len(s) == 0 {
		return []int{0}
	}
	lo, hi := s[0], s[len(s)-1]
	out := []int{s[r.Intn(len(s))], lo - 1 - r.Intn(2), hi + 1 + r.Intn(2)}
	if hi > lo {
		out = append(out, lo+1+2*r.Intn((hi-lo)/2)) // keys are even: an odd pivot is absent
	}
	return out
}

type stepRec struct{ coq, str string }

// a step of a wrapper history never returned
type stuckStop struct{}

func join(steps []stepRec) (string, []string) {
	cs := make([]string, len(steps))
	ss := make([]string, len(steps))
	for i, s := range steps {
		cs[i] = s.coq
		ss[i] = s.str
	}
	return "[" + strings.Join(cs, ";\n ") + "]", ss
}

// ---------------------------------------------------------------- wrapper histories

func genWrapper(r *rand.Rand, variant string) vh.Case {
	t := tree.NewBTree()
	ks := newKeyset()
	steps := []stepRec{}
	u := 3 + r.Intn(14)
	if variant == "dense" {
		u = 12 + r.Intn(14)
	}
	everyShape := r.Intn(4) == 0
	shapeGap := 5 + r.Intn(8)
	do := func(o wop, forceShape bool) {
		res := applyWWatch(t, o)
		if res.kind == "stuck" {
			// the history ends here
			steps = append(steps, stepRec{"(" + o.coq() + ", " + res.coq() + ", None)", o.String() + " " + res.String()})
			panic(stuckStop{})
		}
		// the generator's shadow of the key set
		switch o.kind {
		case "insert":
			ks.m[o.x.k] = true
		case "update":
			if res.kind == "bool" && res.b {
				delete(ks.m, o.k)
				ks.m[o.x.k] = true
			}
		case "uoi":
			delete(ks.m, o.k)
			ks.m[o.x.k] = true
		case "delete":
			delete(ks.m, o.k)
		}
		isWrite := o.kind != "get" && o.kind != "scan"
		want := forceShape || (isWrite && (everyShape || len(steps)%shapeGap == 0))
		sc, ss := optShape(t.VerifInner(), want)
		steps = append(steps, stepRec{"(" + o.coq() + ", " + res.coq() + ", " + sc + ")", o.String() + " = " + res.String() + ss})
	}
	scan := func() wop {
		return wop{kind: "scan", w: r.Intn(4), k: anyPivot(r, u), f: pickFilt(r), n: pickLimit(r, len(ks.m))}
	}
	write := func(grow bool) wop {
		pIns, pDel := 0.55, 0.15
		if !grow {
			pIns, pDel = 0.15, 0.5
		}
		x := r.Float64()
		switch {
		case x < pIns:
			return wop{kind: "insert", x: kv{pickKey(r, ks, u, 0.2), ks.pay()}}
		case x < pIns+pDel:
			return wop{kind: "delete", k: pickKey(r, ks, u, 0.8)}
		case x < pIns+pDel+0.18:
			old := pickKey(r, ks, u, 0.75)
			nk := old
			switch y := r.Intn(10); {
			case y < 3:
			case y < 5:
				nk = pickKey(r, ks, u, 1.0)
			default:
				nk = anyKey(r, u)
			}
			return wop{kind: "update", k: old, x: kv{nk, ks.pay()}}
		default:
			old := pickKey(r, ks, u, 0.6)
			nk := old
			if r.Intn(10) >= 3 {
				nk = anyKey(r, u)
			}
			return wop{kind: "uoi", k: old, x: kv{nk, ks.pay()}}
		}
	}
	func() {
		defer func() {
			if p := recover(); p != nil {
				if _, ok := p.(stuckStop); !ok {
					panic(p)
				}
				stuckHistories++
			}
		}()
		switch variant {
		case "alias":
			// Update / UpdateOrInsert with ONE value as both arguments (UpdateOrInsert(x, x), the upsert idiom) for a key that
			// is absent, present with another payload, present with this very item (x fetched with Get); and with an old
			// argument that is the stored item while the new one is a fresh item of the same key; scans and Gets in between
			nb := 4 + r.Intn(10)
			for i := 0; i < nb; i++ {
				do(write(true), false)
			}
			absent := func() int {
				for i := 0; i < 20; i++ {
					if k := anyKey(r, u); !ks.m[k] {
						return k
					}
				}
				for k := 2*r.Intn(u) + 1; ; k += 2 {
					if !ks.m[k] {
						return k
					}
				}
			}
			stored := func() (kv, bool) {
				k, ok := ks.present(r)
				if !ok {
					return kv{}, false
				}
				do(wop{kind: "get", k: k}, false)
				x, ok := t.Get(kv{k, 0}).(kv)
				return x, ok
			}
			nops := 25 + r.Intn(40)
			for i := 0; i < nops; i++ {
				kind := []string{"update", "uoi"}[r.Intn(2)]
				switch x := r.Float64(); {
				case x < 0.45:
					var it kv
					switch r.Intn(3) {
					case 0:
						it = kv{absent(), ks.pay()}
					case 1:
						if k, ok := ks.present(r); ok {
							it = kv{k, ks.pay()}
						} else {
							it = kv{absent(), ks.pay()}
						}
					default:
						var ok bool
						if it, ok = stored(); !ok {
							it = kv{absent(), ks.pay()}
						}
					}
					do(wop{kind: kind, k: it.k, oldp: it.p, x: it}, r.Intn(3) == 0)
					switch r.Intn(3) {
					case 0:
						do(wop{kind: "get", k: it.k}, false)
					case 1:
						do(wop{kind: "scan", w: r.Intn(4), k: []int{-1, 2*u + 1}[r.Intn(2)], f: filt{kind: "all"}, n: 1000}, false)
					}
				case x < 0.57:
					if old, ok := stored(); ok {
						nk := old.k
						if r.Intn(3) == 0 {
							nk = anyKey(r, u)
						}
						do(wop{kind: kind, k: old.k, oldp: old.p, x: kv{nk, ks.pay()}}, false)
					}
				case x < 0.70:
					do(write(r.Intn(2) == 0), false)
				case x < 0.78:
					do(wop{kind: "get", k: pickKey(r, ks, u, 0.6)}, false)
				default:
					do(scan(), i == nops-1)
				}
			}
			do(wop{kind: "scan", w: 0, k: -1, f: filt{kind: "all"}, n: 1000}, true)
		case "limits":
			// a tree of at least three levels; then, for each of the four scans and a pivot of every class, EVERY limit
			// 0..len+1 (the n-th match may sit anywhere relative to the node boundaries)
			u = 9 + r.Intn(10)
			for len(ks.m) < u || levels(t.VerifInner()) < 3 {
				do(wop{kind: "insert", x: kv{2 * r.Intn(2*u), ks.pay()}}, false)
			}
			for i := r.Intn(4); i > 0; i-- {
				do(write(false), false)
			}
			do(wop{kind: "get", k: 0}, true)
			sparse := filt{kind: "key", m: 4, r: 2 * r.Intn(2)}
			sparseScan := r.Intn(4)
			for w := 0; w < 4; w++ {
				pcs := pivotClasses(r, ks)
				r.Shuffle(len(pcs), func(i, j int) { pcs[i], pcs[j] = pcs[j], pcs[i] })
				// the pivot outside the keys on the side the scan starts from delivers the whole tree
				full := pcs[0]
				for _, p := range pcs {
					if (w < 2 && p < full) || (w >= 2 && p > full) {
						full = p
					}
				}
				for _, p := range []int{full, pcs[0], pcs[1]} {
					for n := 0; n <= len(ks.m)+1; n++ {
						do(wop{kind: "scan", w: w, k: p, f: filt{kind: "all"}, n: n}, false)
					}
				}
				if w == sparseScan {
					for n := 0; n <= len(ks.m)/2+1; n++ {
						do(wop{kind: "scan", w: w, k: full, f: sparse, n: n}, false)
					}
				}
			}
		case "sweep":
			// build a tree, then every one of the four scans from every pivot position
			nb := u + r.Intn(2*u)
			for i := 0; i < nb; i++ {
				do(write(r.Intn(5) > 0), i == nb-1)
			}
			f := pickFilt(r)
			if r.Intn(2) == 0 {
				f = filt{kind: "all"}
			}
			for w := 0; w < 4; w++ {
				for p := -2; p <= 2*u+1; p++ {
					n := 1000
					if r.Intn(3) == 0 {
						n = 1 + r.Intn(len(ks.m)+2)
					}
					do(wop{kind: "scan", w: w, k: p, f: f, n: n}, false)
				}
			}
		default:
			nops := 20 + r.Intn(45)
			if variant == "dense" {
				nops = 50 + r.Intn(50)
			}
			grow := true
			phase := 5 + r.Intn(20)
			for i := 0; i < nops; i++ {
				if phase == 0 {
					grow = !grow
					phase = 4 + r.Intn(18)
				}
				phase--
				x := r.Float64()
				switch {
				case x < 0.66:
					do(write(grow), i == nops-1)
				case x < 0.74:
					do(wop{kind: "get", k: pickKey(r, ks, u, 0.6)}, i == nops-1)
				default:
					do(scan(), i == nops-1)
				}
			}
		}
	}()
	coq, ss := join(steps)
	return vh.Case{Coq: "(CaseW " + coq + ")%Z", Nontrivial: len(steps) >= 4,
		Desc: map[string]interface{}{"kind": "wrapper history", "steps": ss}}
}

// ---------------------------------------------------------------- inner tree histories

func pickStopAfter(r *rand.Rand, size int) int {
	switch x := r.Intn(10); {
	case x < 4:
		return 0
	case x < 7:
		return 1 + r.Intn(3)
	default:
		return 1 + r.Intn(size+1)
	}
}

func genInnerOp(r *rand.Rand, ks *keyset, u int, grow bool) iop {
	pIns, pDel := 0.6, 0.12
	if !grow {
		pIns, pDel = 0.15, 0.45
	}
	x := r.Float64()
	switch {
	case x < pIns:
		return iop{kind: "ins", x: kv{pickKey(r, ks, u, 0.15), ks.pay()}}
	case x < pIns+pDel:
		return iop{kind: "del", k: pickKey(r, ks, u, 0.85)}
	case x < pIns+pDel+0.06:
		return iop{kind: "delmin"}
	default:
		return iop{kind: "delmax"}
	}
}
func shadowI(ks *keyset, o iop, res obs) {
	switch o.kind {
	case "ins":
		ks.m[o.x.k] = true
	case "del":
		delete(ks.m, o.k)
	case "delmin", "delmax":
		if res.kind == "item" {
			delete(ks.m, res.item.k)
		}
	}
}
func universe(r *rand.Rand, deg int) int {
	switch {
	case deg <= 2:
		return 5 + r.Intn(26)
	case deg == 3:
		return 8 + r.Intn(36)
	case deg <= 5:
		return 12 + r.Intn(44)
	case deg <= 8:
		return 28 + r.Intn(60)
	default:
		return 2*deg + 10 + r.Intn(4*deg)
	}
}

// items whose Less panics (class fault).  foreignItem: a type the stored items cannot be compared with, every
// comparison panics (the first one, in the root).  lowItem: smaller than every key; its Less panics when it is compared
// with the key `at` (the current minimum: the last comparison of the descent, in the leftmost leaf, after every split
// on the way down) or at its n-th comparison (n <= number of levels: some node of the leftmost path).
type foreignItem string

func (a foreignItem) Less(b btree.Item) bool { return a < b.(foreignItem) }

type lowItem struct {
	at    int
	useAt bool
	left  *int
}

func (a lowItem) Less(b btree.Item) bool {
	if a.useAt {
		if b.(kv).k == a.at {
			panic("Less: comparison with the minimum key panics")
		}
		return true
	}
	*a.left--
	if *a.left <= 0 {
		panic("Less: this comparison panics")
	}
	return true
}

// the tree actually holds an item (an emptied tree keeps a root without items: nothing to compare with)
func hasItems(t *btree.BTree) bool {
	root, _, _ := t.VerifShape()
	return root != nil && len(root.Items) > 0
}

// faultInsert issues one ReplaceOrInsert whose item's Less panics, on a non-empty tree, and recovers
func faultInsert(r *rand.Rand, t *btree.BTree) (what string, panicked bool) {
	var it btree.Item
	switch r.Intn(3) {
	case 0:
		it = foreignItem("x")
		what = "ReplaceOrInsert(item of a foreign type: its first Less, in the root, panics)"
	case 1:
		mn, _ := t.Min().(kv)
		it = lowItem{at: mn.k, useAt: true}
		what = fmt.Sprintf("ReplaceOrInsert(item below every key whose Less panics when it meets the minimum key %d, in the leftmost leaf)", mn.k)
	default:
		n := 1 + r.Intn(levels(t))
		it = lowItem{left: &n}
		what = fmt.Sprintf("ReplaceOrInsert(item below every key whose Less panics at its comparison no. %d)", n)
	}
	defer func() {
		if recover() != nil {
			panicked = true
		}
	}()
	t.ReplaceOrInsert(it)
	return what, false
}

func genInner(r *rand.Rand, deg int, variant string) vh.Case {
	t := btree.New(deg)
	ks := newKeyset()
	steps := []stepRec{}
	u := universe(r, deg)
	everyShape := r.Intn(4) == 0 && u < 24
	shapeGap := 6 + r.Intn(10)
	if u > 40 {
		shapeGap = 15 + r.Intn(15)
	}
	note := "" // class fault: what the harness did right before the next step (not a step of the model: nothing happened)
	do := func(o iop, forceShape bool) {
		res := applyI(t, o)
		shadowI(ks, o, res)
		isWrite := o.kind == "ins" || o.kind == "del" || o.kind == "delmin" || o.kind == "delmax"
		want := forceShape || (isWrite && (everyShape || len(steps)%shapeGap == 0))
		sc, ss := optShape(t, want)
		steps = append(steps, stepRec{"(" + o.coq() + ", " + res.coq() + ", " + sc + ")", note + o.String() + " = " + res.String() + ss})
		note = ""
	}
	read := func() iop {
		switch x := r.Intn(20); {
		case x < 3:
			return iop{kind: "get", k: pickKey(r, ks, u, 0.6)}
		case x < 5:
			return iop{kind: "has", k: pickKey(r, ks, u, 0.5)}
		case x < 6:
			return iop{kind: "min"}
		case x < 7:
			return iop{kind: "max"}
		case x < 8:
			return iop{kind: "len"}
		default:
			return iop{kind: "scan", e: r.Intn(10), p: anyPivot(r, u), q: anyPivot(r, u), m: pickStopAfter(r, len(ks.m))}
		}
	}
	// a run of sequential inserts or deletes drives the tree through its regular split / merge pattern
	run := func() {
		n := 3 + r.Intn(u)
		start := r.Intn(u)
		up := r.Intn(2) == 0
		del := r.Intn(3) == 0
		for j := 0; j < n; j++ {
			k := start + j
			if !up {
				k = start - j
			}
			k = 2 * mod(k, u)
			if del {
				do(iop{kind: "del", k: k}, false)
			} else {
				do(iop{kind: "ins", x: kv{k, ks.pay()}}, false)
			}
		}
	}
	switch variant {
	case "stops":
		// a tree of at least three levels; all ten entry points with a callback that stops after m items, for EVERY m
		want := 3
		nmin := 9
		for len(ks.m) < nmin || levels(t) < want {
			do(iop{kind: "ins", x: kv{2 * r.Intn(200), ks.pay()}}, false)
		}
		do(iop{kind: "len"}, true)
		pcs := pivotClasses(r, ks)
		s := ks.sorted()
		lo, hi := s[0]-1, s[len(s)-1]+1
		for e := 0; e < 10; e++ {
			// one run over the whole tree and one from a random pivot class
			ps := [][2]int{{lo, hi}, {pcs[r.Intn(len(pcs))], pcs[r.Intn(len(pcs))]}}
			if e >= 5 {
				ps[0] = [2]int{hi, lo}
			}
			if e == 2 || e == 8 { // AscendLessThan / DescendGreaterThan: the pivot is the far bound
				ps[0] = [2]int{ps[0][1], ps[0][0]}
			}
			if e == 0 || e == 5 {
				ps = ps[:1]
			}
			for j, pq := range ps {
				full := applyI(t, iop{kind: "scan", e: e, p: pq[0], q: pq[1], m: 0})
				top := len(full.list) + 1
				if j > 0 && top > 5 {
					top = 5
				}
				for m := 1; m <= top; m++ {
					do(iop{kind: "scan", e: e, p: pq[0], q: pq[1], m: m}, false)
				}
			}
		}
	case "reinsert":
		// every present key is stored again with a new payload (the key may be the median of a full node on the way
		// down, which is split first), then read back
		nb := u + r.Intn(u)
		for i := 0; i < nb; i++ {
			do(iop{kind: "ins", x: kv{anyKey(r, u), ks.pay()}}, false)
		}
		for round := 0; round < 2; round++ {
			keys := ks.sorted()
			r.Shuffle(len(keys), func(i, j int) { keys[i], keys[j] = keys[j], keys[i] })
			for _, k := range keys {
				do(iop{kind: "ins", x: kv{k, ks.pay()}}, false)
				if r.Intn(3) == 0 {
					do(iop{kind: "get", k: k}, false)
				}
			}
			do(iop{kind: "scan", e: 0, m: 0}, true)
			// refill so that nodes on the search paths are full again
			for i := 0; i < u/2; i++ {
				do(iop{kind: "ins", x: kv{anyKey(r, u), ks.pay()}}, false)
			}
		}
	case "fault":
		// ReplaceOrInsert calls that panic inside the item's Less at one particular point of the descent and are recovered
		// by the caller: such a call has not returned, nothing was stored, so the tree must be what it was (the model does
		// not see the call at all).  Each is followed by Len with the actual tree and by a full Ascend.
		nops := 30 + r.Intn(30) + u
		for len(steps) < nops {
			x := r.Float64()
			switch {
			case x < 0.18 && hasItems(t):
				what, panicked := faultInsert(r, t)
				if !panicked {
					// the call returned (no implementation we know does): the foreign item may be in the tree, the history ends here
					steps = append(steps, stepRec{"(ILen, " + applyI(t, iop{kind: "len"}).coq() + ", None)", "[" + what + " did NOT panic; history ends] Len"})
					coq, ss := join(steps[:len(steps)-1])
					return vh.Case{Coq: "(CaseI " + fmt.Sprint(deg) + "%nat " + coq + ")%Z", Nontrivial: len(steps) >= 5,
						Desc: map[string]interface{}{"kind": "inner tree history with recovered panics in Less", "degree": deg, "steps": ss, "ended": what + " did not panic"}}
				}
				note = "[" + what + " panicked and was recovered; nothing was stored] "
				do(iop{kind: "len"}, true)
				do(iop{kind: "scan", e: 5 * r.Intn(2), m: 0}, false)
			case x < 0.86:
				do(genInnerOp(r, ks, u, r.Intn(6) > 0), false)
			default:
				do(read(), false)
			}
		}
		do(iop{kind: "len"}, true)
	case "sweep":
		nb := u + r.Intn(2*u)
		for i := 0; i < nb; i++ {
			do(genInnerOp(r, ks, u, r.Intn(5) > 0), i == nb-1)
		}
		step := 1
		if u > 30 {
			step = 3
		}
		for e := 0; e < 10; e++ {
			if e == 0 || e == 5 {
				do(iop{kind: "scan", e: e, m: 0}, false)
				do(iop{kind: "scan", e: e, m: 1 + r.Intn(len(ks.m)+1)}, false)
				continue
			}
			for p := -2 + r.Intn(step); p <= 2*u+1; p += step {
				q := anyPivot(r, u)
				do(iop{kind: "scan", e: e, p: p, q: q, m: 0}, false)
				if r.Intn(3) == 0 {
					do(iop{kind: "scan", e: e, p: p, q: q, m: 1 + r.Intn(4)}, false)
				}
			}
		}
	default:
		nops := 25 + r.Intn(40) + u
		grow := true
		phase := u/2 + r.Intn(u)
		for len(steps) < nops {
			if phase <= 0 {
				grow = !grow
				phase = u/3 + r.Intn(u)
			}
			phase--
			x := r.Float64()
			switch {
			case x < 0.04:
				run()
			case x < 0.72:
				do(genInnerOp(r, ks, u, grow), false)
			default:
				do(read(), false)
			}
		}
		do(iop{kind: "len"}, true)
	}
	coq, ss := join(steps)
	return vh.Case{Coq: "(CaseI " + fmt.Sprint(deg) + "%nat " + coq + ")%Z", Nontrivial: len(steps) >= 4,
		Desc: map[string]interface{}{"kind": "inner tree history", "degree": deg, "steps": ss}}
}

// ---------------------------------------------------------------- clone programs

func snapshot(hs []*btree.BTree) (o obs) {
	defer func() {
		if p := recover(); p != nil {
			o = obs{kind: "panic", panic: fmt.Sprint(p)}
		}
	}()
	o = obs{kind: "snap"}
	for _, h := range hs {
		if h == nil {
			o.snap = append(o.snap, nil)
			continue
		}
		e := &snapEnt{n: h.Len(), items: []kv{}}
		h.Ascend(func(i btree.Item) bool { e.items = append(e.items, i.(kv)); return true })
		o.snap = append(o.snap, e)
	}
	return o
}

func genClone(r *rand.Rand, deg int, variant string) vh.Case {
	if variant == "fullroot" {
		return genCloneFullRoot(r, deg)
	}
	hs := make([]*btree.BTree, 4)
	hs[0] = btree.New(deg)
	sets := make([]*keyset, 4)
	sets[0] = newKeyset()
	pay := 1
	steps := []stepRec{}
	u := universe(r, deg)
	if u > 30 {
		u = 30
	}
	live := func() []int {
		l := []int{}
		for i, h := range hs {
			if h != nil {
				l = append(l, i)
			}
		}
		return l
	}
	rec := func(c, res, sh, s string) { steps = append(steps, stepRec{"(" + c + ", " + res + ", " + sh + ")", s}) }
	snap := func() {
		o := snapshot(hs)
		rec("CSnap", o.coq(), "None", "Snapshot = "+o.String())
	}
	// fill the first handle before the first clone
	pre := u/2 + r.Intn(u)
	for i := 0; i < pre; i++ {
		o := iop{kind: "ins", x: kv{anyKey(r, u), pay}}
		pay++
		res := applyI(hs[0], o)
		shadowI(sets[0], o, res)
		rec("COn 0%nat ("+o.coq()+")", res.coq(), "None", "h0."+o.String()+" = "+res.String())
	}
	nops := 25 + r.Intn(50)
	for i := 0; i < nops; i++ {
		l := live()
		x := r.Float64()
		switch {
		case x < 0.14:
			src := l[r.Intn(len(l))]
			dst := r.Intn(4)
			if dst == src {
				dst = (dst + 1) % 4
			}
			var res obs
			func() {
				defer func() {
					if p := recover(); p != nil {
						res = obs{kind: "panic", panic: fmt.Sprint(p)}
					}
				}()
				hs[dst] = hs[src].Clone()
				res = obs{kind: "unit"}
			}()
			sets[dst] = newKeyset()
			for k := range sets[src].m {
				sets[dst].m[k] = true
			}
			// right after Clone neither side owns a node: the shape (with ownership flags) of one of the two
			csh, css := "None", ""
			if res.kind == "unit" && r.Intn(2) == 0 {
				which := src
				if r.Intn(2) == 0 {
					which = dst
				}
				csh, css = optShape(hs[which], true)
				css = fmt.Sprintf(" (h%d:%s)", which, css)
			}
			rec(fmt.Sprintf("CClone %d%%nat %d%%nat", src, dst), res.coq(), csh, fmt.Sprintf("h%d = h%d.Clone()%s", dst, src, css))
			if r.Intn(3) == 0 {
				snap()
			}
		case x < 0.74:
			h := l[r.Intn(len(l))]
			o := genInnerOp(r, sets[h], u, r.Intn(2) == 0)
			if o.kind == "ins" {
				o.x.p = pay
				pay++
			}
			res := applyI(hs[h], o)
			shadowI(sets[h], o, res)
			sc, ss := optShape(hs[h], r.Intn(4) == 0)
			rec(fmt.Sprintf("COn %d%%nat (%s)", h, o.coq()), res.coq(), sc, fmt.Sprintf("h%d.%s = %s%s", h, o.String(), res.String(), ss))
			if r.Intn(5) == 0 {
				snap()
			}
		case x < 0.90:
			h := l[r.Intn(len(l))]
			var o iop
			if r.Intn(2) == 0 {
				o = iop{kind: "get", k: pickKey(r, sets[h], u, 0.6)}
			} else {
				o = iop{kind: "scan", e: r.Intn(10), p: anyPivot(r, u), q: anyPivot(r, u), m: pickStopAfter(r, len(sets[h].m))}
			}
			res := applyI(hs[h], o)
			rec(fmt.Sprintf("COn %d%%nat (%s)", h, o.coq()), res.coq(), "None", fmt.Sprintf("h%d.%s = %s", h, o.String(), res.String()))
		default:
			snap()
		}
	}
	snap()
	coq, ss := join(steps)
	return vh.Case{Coq: "(CaseC " + fmt.Sprint(deg) + "%nat " + coq + ")%Z", Nontrivial: true,
		Desc: map[string]interface{}{"kind": "clone program", "degree": deg, "steps": ss}}
}

// ---------------------------------------------------------------- concurrent callers of one wrapper

// g goroutines share one wrapper; goroutine i touches only keys congruent to i modulo g and filters its scans on
// them, so whatever the interleaving, each goroutine must see a sequential sorted map on its own keys
func genConc(r *rand.Rand, g int, stress bool) vh.Case {
	t := tree.NewBTree()
	u := 6 + r.Intn(10) // keys per goroutine
	progs := make([][]wop, g)
	for i := 0; i < g; i++ {
		ri := rand.New(rand.NewSource(r.Int63()))
		ks := newKeyset()
		own := func() int { return g*ri.Intn(u) + i }
		n := 30 + ri.Intn(40)
		if stress {
			n = 100 + ri.Intn(100)
		}
		for j := 0; j < n; j++ {
			var o wop
			switch x := ri.Intn(20); {
			case x < 7:
				o = wop{kind: "insert", x: kv{own(), 1000*i + ks.pay()}}
			case x < 10:
				o = wop{kind: "delete", k: own()}
			case x < 12:
				o = wop{kind: "update", k: own(), x: kv{own(), 1000*i + ks.pay()}}
			case x < 14:
				o = wop{kind: "uoi", k: own(), x: kv{own(), 1000*i + ks.pay()}}
			case x < 16:
				o = wop{kind: "get", k: own()}
			default:
				n := 1 + ri.Intn(u+1)
				if ri.Intn(4) == 0 {
					n = 1000
				}
				o = wop{kind: "scan", w: ri.Intn(4), k: ri.Intn(g*u+4) - 2, f: filt{kind: "key", m: g, r: i}, n: n}
			}
			progs[i] = append(progs[i], o)
		}
	}
	results := make([][]obs, g)
	at := make([]int32, g)
	var wg sync.WaitGroup
	start := make(chan struct{})
	for i := 0; i < g; i++ {
		i := i
		results[i] = make([]obs, len(progs[i]))
		wg.Add(1)
		go concCaller(&wg, start, t, progs[i], results[i], &at[i], stress)
	}
	close(start)
	if dl := waitCallers(&wg, "main.concCaller("); dl != "" {
		stuckHistories++
		where := make([]string, g)
		for i := range where {
			j := atomic.LoadInt32(&at[i])
			where[i] = fmt.Sprintf("caller %d: operation %d of %d, %s", i, j+1, len(progs[i]), progs[i][j].String())
		}
		return vh.Case{Coq: "CaseFatal", Nontrivial: true, Desc: map[string]interface{}{"kind": "concurrent callers of one wrapper: deadlock",
			"what":    "every caller still running is parked in sync.RWMutex Lock/RLock inside a wrapper method at one instant: nobody holds the lock legitimately, no call will ever return",
			"callers": g, "stuck_in": where, "one_of_the_stacks": dl}}
	}
	hist := make([]string, g)
	desc := make([][]string, g)
	for i := 0; i < g; i++ {
		s := make([]string, len(progs[i]))
		for j, o := range progs[i] {
			s[j] = "(" + o.coq() + ", " + results[i][j].coq() + ")"
			desc[i] = append(desc[i], o.String()+" = "+results[i][j].String())
		}
		hist[i] = "[" + strings.Join(s, ";\n ") + "]"
	}
	root, _, length := t.VerifInner().VerifShape()
	return vh.Case{Coq: fmt.Sprintf("(CaseP %d [%s] %s)%%Z", g, strings.Join(hist, ";\n"), coqShape(t.VerifInner())), Nontrivial: true,
		Desc: map[string]interface{}{"kind": "concurrent callers of one wrapper", "callers": g, "histories": desc,
			"final": fmt.Sprintf("%s len=%d", strShape(root), length)}}
}

//go:noinline
func concCaller(wg *sync.WaitGroup, start chan struct{}, t *tree.BTree, prog []wop, results []obs, at *int32, stress bool) {
	defer wg.Done()
	<-start
	for j, o := range prog {
		atomic.StoreInt32(at, int32(j))
		results[j] = applyW(t, o)
		if !stress && j%3 == 0 {
			runtime.Gosched()
		}
	}
}

// Clone() taken exactly when the root holds 2*degree-1 items (as a leaf root or as an inner root), then a write on the
// original or on the clone (the next ReplaceOrInsert splits that root), then snapshots of every handle
func genCloneFullRoot(r *rand.Rand, deg int) vh.Case {
	hs := make([]*btree.BTree, 4)
	hs[0] = btree.New(deg)
	ks := newKeyset()
	steps := []stepRec{}
	rec := func(c, res, sh, s string) { steps = append(steps, stepRec{"(" + c + ", " + res + ", " + sh + ")", s}) }
	on := func(h int, o iop, shape bool) {
		res := applyI(hs[h], o)
		sc, ss := optShape(hs[h], shape)
		rec(fmt.Sprintf("COn %d%%nat (%s)", h, o.coq()), res.coq(), sc, fmt.Sprintf("h%d.%s = %s%s", h, o.String(), res.String(), ss))
	}
	snap := func() {
		o := snapshot(hs)
		rec("CSnap", o.coq(), "None", "Snapshot = "+o.String())
	}
	inner := r.Intn(2) == 0
	univ := 40 * deg * deg
	for guard := 0; guard < 100000; guard++ {
		root, _, _ := hs[0].VerifShape()
		if root != nil && len(root.Items) == 2*deg-1 && (len(root.Children) > 0) == inner {
			break
		}
		o := iop{kind: "ins", x: kv{2 * r.Intn(univ), ks.pay()}}
		res := applyI(hs[0], o)
		shadowI(ks, o, res)
		rec("COn 0%nat ("+o.coq()+")", res.coq(), "None", "h0."+o.String()+" = "+res.String())
	}
	_, ss := optShape(hs[0], true)
	hs[1] = hs[0].Clone()
	csh, _ := optShape(hs[r.Intn(2)], true)
	rec("CClone 0%nat 1%nat", "OUnit", csh, "h1 = h0.Clone() with the root full:"+ss)
	write := func(h int) {
		var o iop
		switch x := r.Intn(10); {
		case x < 5:
			o = iop{kind: "ins", x: kv{2*r.Intn(univ) + 1, ks.pay()}} // a new key
		case x < 8:
			k, _ := ks.present(r)
			o = iop{kind: "ins", x: kv{k, ks.pay()}} // an existing key
		default:
			k, _ := ks.present(r)
			o = iop{kind: "del", k: k}
		}
		on(h, o, true)
	}
	first := r.Intn(2)
	write(first)
	snap()
	on(1-first, iop{kind: "len"}, true)
	write(1 - first)
	snap()
	coq, ds := join(steps)
	return vh.Case{Coq: "(CaseC " + fmt.Sprint(deg) + "%nat " + coq + ")%Z", Nontrivial: true,
		Desc: map[string]interface{}{"kind": "clone program, clone taken with a full root", "degree": deg, "inner_root": inner, "steps": ds}}
}

// ---------------------------------------------------------------- one writer moving an entry, concurrent readers

// the writer moves one entry back and forth between two keys with Update over a fixed set of other entries; the readers
// scan and Get concurrently.  Update is one critical section, so whatever the interleaving every read must return
// what one of the two states (entry at mv, entry at mv') returns.  The readers' distinct (operation, result) pairs
// are the observations (a correct wrapper produces two results per operation at most).
func genMover(r *rand.Rand, readers int, moves int) vh.Case {
	t := tree.NewBTree()
	nfixed := 8 + r.Intn(14)
	u := nfixed + 6
	fixed := []kv{}
	used := map[int]bool{}
	for len(fixed) < nfixed {
		k := 2 * r.Intn(u)
		if used[k] {
			continue
		}
		used[k] = true
		x := kv{k, 100 + len(fixed)}
		fixed = append(fixed, x)
		t.Insert(x)
	}
	free := []int{}
	for k := 0; k < 2*u; k += 2 {
		if !used[k] {
			free = append(free, k)
		}
	}
	r.Shuffle(len(free), func(i, j int) { free[i], free[j] = free[j], free[i] })
	mv, mv2 := kv{free[0], 7}, kv{free[1], 7}
	t.Insert(mv)
	// the reader operations: full and partial scans in all four flavours, Get on both keys
	ops := []wop{{kind: "get", k: mv.k}, {kind: "get", k: mv2.k}}
	for w := 0; w < 4; w++ {
		p := -2
		if w >= 2 {
			p = 2*u + 1
		}
		ops = append(ops, wop{kind: "scan", w: w, k: p, f: filt{kind: "all"}, n: 1000})
		ops = append(ops, wop{kind: "scan", w: w, k: anyPivot(r, u), f: filt{kind: "all"}, n: 1 + r.Intn(nfixed)})
	}
	type seenT struct {
		o   wop
		res obs
	}
	seen := make([]map[string]seenT, readers)
	var done int32
	var wg sync.WaitGroup
	start := make(chan struct{})
	falses := 0
	wg.Add(1)
	go func() {
		defer wg.Done()
		<-start
		for i := 0; i < moves; i++ {
			if !t.Update(kv{mv.k, 0}, mv2) {
				falses++
			}
			if !t.Update(kv{mv2.k, 0}, mv) {
				falses++
			}
		}
		atomic.StoreInt32(&done, 1)
	}()
	for g := 0; g < readers; g++ {
		g := g
		seen[g] = map[string]seenT{}
		rg := rand.New(rand.NewSource(r.Int63()))
		wg.Add(1)
		go func() {
			defer wg.Done()
			<-start
			for n := 0; atomic.LoadInt32(&done) == 0 || n < 50; n++ {
				o := ops[rg.Intn(len(ops))]
				res := applyW(t, o)
				key := o.coq() + "=" + res.coq()
				if _, ok := seen[g][key]; !ok && len(seen[g]) < 40 {
					seen[g][key] = seenT{o, res}
				}
			}
		}()
	}
	close(start)
	if dl := waitCallers(&wg, "main.genMover.func"); dl != "" {
		stuckHistories++
		return vh.Case{Coq: "CaseFatal", Nontrivial: true, Desc: map[string]interface{}{"kind": "one writer moving an entry with Update, concurrent readers: deadlock",
			"what":    "the writer and every reader still running are parked in sync.RWMutex Lock/RLock inside a wrapper method at one instant: no call will ever return",
			"readers": readers, "one_of_the_stacks": dl}}
	}
	all := map[string]seenT{}
	for g := range seen {
		for k, v := range seen[g] {
			all[k] = v
		}
	}
	keys := make([]string, 0, len(all))
	for k := range all {
		keys = append(keys, k)
	}
	sort.Strings(keys)
	cs := make([]string, len(keys))
	ds := make([]string, len(keys))
	for i, k := range keys {
		cs[i] = "(" + all[k].o.coq() + ", " + all[k].res.coq() + ")"
		ds[i] = all[k].o.String() + " = " + all[k].res.String()
	}
	return vh.Case{Coq: fmt.Sprintf("(CaseM %s %s %s %d [%s])%%Z", coqItems(fixed), coqItem(mv), coqItem(mv2), falses, strings.Join(cs, ";\n ")),
		Nontrivial: true, Key: fmt.Sprintf("mover %v %v %v %v", fixed, mv, mv2, keys),
		Desc: map[string]interface{}{"kind": "one writer moving an entry with Update, concurrent readers", "fixed": itemsStr(fixed),
			"moving": fmt.Sprintf("%d <-> %d", mv.k, mv2.k), "moves": 2 * moves, "readers": readers, "update_false": falses, "distinct_observations": ds}}
}

// ---------------------------------------------------------------- big wrapper trees, given compactly

func gcd(a, b int) int {
	for b != 0 {
		a, b = b, a%b
	}
	return a
}

// summary of a scan result: length, first three, last three, checksum (C03_Check.summ)
func summCoq(l []kv) (string, string) {
	ck := int64(0)
	for _, x := range l {
		ck = (ck*1000003 + int64(x.k)*7 + int64(x.p)) % 2147483647
	}
	first := l
	if len(first) > 3 {
		first = first[:3]
	}
	last := l
	if len(last) > 3 {
		last = last[len(last)-3:]
	}
	return fmt.Sprintf("(%d, %s, %s, %d)", len(l), coqItems(first), coqItems(last), ck),
		fmt.Sprintf("len=%d first=%s last=%s checksum=%d", len(l), itemsStr(first), itemsStr(last), ck)
}

// count keys start + step*i are inserted in the order i = (j*stride) mod count; then the four scans with limits
// around the sizes at which an implementation might cap its result (1023, 1024, 1025, 2000, len-1, len, len+1, 2^20)
func genBig(r *rand.Rand, lo, hi int) vh.Case {
	t := tree.NewBTree()
	count := lo + r.Intn(hi-lo+1)
	start := r.Intn(20)
	step := 1 + r.Intn(3)
	stride := 1
	switch r.Intn(3) {
	case 1:
		stride = count - 1
	case 2:
		for stride = 2 + r.Intn(count-2); gcd(stride, count) != 1; stride++ {
		}
	}
	for j := 0; j < count; j++ {
		k := start + step*((j*stride)%count)
		if res := applyWWatch(t, wop{kind: "insert", x: kv{k, k + 7}}); res.kind != "unit" {
			stuckHistories++
			return vh.Case{Coq: "CaseFatal", Nontrivial: true, Desc: map[string]interface{}{"kind": "big wrapper tree",
				"what": fmt.Sprintf("insert number %d, Insert(%d:%d): %s", j+1, k, k+7, res.String())}}
		}
	}
	lo0, hi0 := start-1, start+step*(count-1)+1
	limits := []int{1023, 1024, 1025, 2000, count - 1, count, count + 1, 1 << 20}
	steps := []string{}
	descs := []string{}
	stuck := false
	scan := func(w, p int, f filt, n int) {
		if stuck {
			return
		}
		o := wop{kind: "scan", w: w, k: p, f: f, n: n}
		res := applyWWatch(t, o)
		if res.kind == "stuck" {
			stuck = true
			stuckHistories++
		}
		if res.kind != "list" {
			// a panic (or a call that never returns) is a divergence of its own: an empty summary with an impossible length
			steps = append(steps, fmt.Sprintf("(%s, %s, %s, %s, ((-1), [], [], 0))", wscanNames[w], z(p), f.coq(), z(n)))
			descs = append(descs, o.String()+" = "+res.String())
			return
		}
		sc, ss := summCoq(res.list)
		steps = append(steps, fmt.Sprintf("(%s, %s, %s, %s, %s)", wscanNames[w], z(p), f.coq(), z(n), sc))
		descs = append(descs, o.String()+" : "+ss)
	}
	sparse := filt{kind: "key", m: 2 + r.Intn(2), r: 0}
	for w := 0; w < 4; w++ {
		full := lo0
		if w >= 2 {
			full = hi0
		}
		perm := []int{0, 1, 2, 4, 5, 6}
		r.Shuffle(len(perm), func(i, j int) { perm[i], perm[j] = perm[j], perm[i] })
		// always one limit above the size a result might be capped at, and the unbounded one
		scan(w, full, filt{kind: "all"}, limits[7])
		scan(w, full, filt{kind: "all"}, limits[perm[0]])
		scan(w, full, sparse, limits[perm[3]])
		if hi > 1500 {
			continue
		}
		scan(w, full, filt{kind: "all"}, limits[3])
		scan(w, full, filt{kind: "all"}, limits[perm[1]])
		scan(w, full, filt{kind: "all"}, limits[perm[2]])
		scan(w, start+step*r.Intn(count/4), filt{kind: "all"}, limits[perm[4]])
	}
	return vh.Case{Coq: fmt.Sprintf("(CaseB %d %d %d %d [%s])%%Z", start, step, count, stride, strings.Join(steps, ";\n ")), Nontrivial: true,
		Desc: map[string]interface{}{"kind": "big wrapper tree", "keys": fmt.Sprintf("%d + %d*i, i = (j*%d) mod %d, j = 0..%d, payload = key+7", start, step, stride, count, count-1), "scans": descs}}
}

// ---------------------------------------------------------------- clone programs with Clear and a shared small free list

func panics(f func()) (p bool) {
	defer func() {
		if recover() != nil {
			p = true
		}
	}()
	f()
	return false
}

// all trees of the program are made with NewWithFreeList on one free list of 1..4 (or 32) nodes, so that nodes freed by
// one tree (merges, collapsing roots, Clear(true)) are handed to whichever tree allocates next and the list is often
// full; Clear(true/false) on originals and clones, right after Clone and later, followed by bursts of inserts (on the
// cleared tree and on the others) that take the recycled nodes; snapshots of all handles after every Clear and burst
func genCloneClear(r *rand.Rand, deg int) vh.Case {
	// the documented panics of the constructors and of ReplaceOrInsert(nil) are checked here directly
	capFL := []int{1, 1, 2, 3, 4, 32}[r.Intn(6)]
	fl := btree.NewFreeList(capFL)
	hs := make([]*btree.BTree, 4)
	hs[0] = btree.NewWithFreeList(deg, fl)
	bad := ""
	switch {
	case !panics(func() { btree.NewWithFreeList(r.Intn(2), fl) }):
		bad = "NewWithFreeList(degree <= 1) did not panic"
	case !panics(func() { btree.New(1 - r.Intn(3)) }):
		bad = "New(degree <= 1) did not panic"
	case !panics(func() { hs[0].ReplaceOrInsert(nil) }):
		bad = "ReplaceOrInsert(nil) did not panic"
	case hs[0].Len() != 0:
		bad = "ReplaceOrInsert(nil) changed the length"
	}
	if bad != "" {
		return vh.Case{Coq: "CaseFatal", Nontrivial: true, Desc: map[string]interface{}{"kind": "documented panic missing", "what": bad}}
	}
	sets := make([]*keyset, 4)
	sets[0] = newKeyset()
	pay := 1
	steps := []stepRec{}
	u := universe(r, deg)
	if u > 40 {
		u = 40
	}
	live := func() []int {
		l := []int{}
		for i, h := range hs {
			if h != nil {
				l = append(l, i)
			}
		}
		return l
	}
	rec := func(c, res, sh, s string) { steps = append(steps, stepRec{"(" + c + ", " + res + ", " + sh + ")", s}) }
	snap := func() {
		o := snapshot(hs)
		rec("CSnap", o.coq(), "None", "Snapshot = "+o.String())
	}
	on := func(h int, o iop, shape bool) {
		if o.kind == "ins" {
			o.x.p = pay
			pay++
		}
		res := applyI(hs[h], o)
		shadowI(sets[h], o, res)
		sc, ss := optShape(hs[h], shape)
		rec(fmt.Sprintf("COn %d%%nat (%s)", h, o.coq()), res.coq(), sc, fmt.Sprintf("h%d.%s = %s%s", h, o.String(), res.String(), ss))
	}
	burst := func(h, n int) {
		for i := 0; i < n; i++ {
			on(h, iop{kind: "ins", x: kv{anyKey(r, u), 0}}, i == n-1)
		}
	}
	clone := func(src, dst int) {
		res := obs{kind: "unit"}
		if panics(func() { hs[dst] = hs[src].Clone() }) {
			res = obs{kind: "panic", panic: "Clone"}
		}
		sets[dst] = newKeyset()
		for k := range sets[src].m {
			sets[dst].m[k] = true
		}
		csh, css := "None", ""
		if r.Intn(2) == 0 {
			which := []int{src, dst}[r.Intn(2)]
			csh, css = optShape(hs[which], true)
			css = fmt.Sprintf(" (h%d:%s)", which, css)
		}
		rec(fmt.Sprintf("CClone %d%%nat %d%%nat", src, dst), res.coq(), csh, fmt.Sprintf("h%d = h%d.Clone()%s", dst, src, css))
	}
	clear := func(h int, add bool) {
		res := obs{kind: "unit"}
		if panics(func() { hs[h].Clear(add) }) {
			res = obs{kind: "panic", panic: "Clear"}
		}
		sets[h] = newKeyset()
		sc, ss := optShape(hs[h], true)
		rec(fmt.Sprintf("CClear %d%%nat %s", h, coqBool(add)), res.coq(), sc, fmt.Sprintf("h%d.Clear(%v)%s", h, add, ss))
	}
	other := func(h int) int {
		l := live()
		return l[r.Intn(len(l))]
	}
	burst(0, u/2+r.Intn(u))
	nops := 20 + r.Intn(40)
	for i := 0; i < nops; i++ {
		l := live()
		x := r.Float64()
		switch {
		case x < 0.12:
			src := l[r.Intn(len(l))]
			dst := r.Intn(4)
			if dst == src {
				dst = (dst + 1) % 4
			}
			clone(src, dst)
			if r.Intn(2) == 0 {
				// Clear of the original or of the clone while every node is shared
				h := []int{src, dst}[r.Intn(2)]
				clear(h, r.Intn(4) != 0)
				snap()
				burst(other(h), 1+r.Intn(2*deg+2))
				snap()
			}
		case x < 0.24:
			h := l[r.Intn(len(l))]
			clear(h, r.Intn(4) != 0)
			snap()
			burst(other(h), 1+r.Intn(4*deg))
			snap()
		case x < 0.30:
			dst := r.Intn(4)
			hs[dst] = btree.NewWithFreeList(deg, fl)
			sets[dst] = newKeyset()
			rec(fmt.Sprintf("CNew %d%%nat", dst), "OUnit", "None", fmt.Sprintf("h%d = NewWithFreeList(%d, the shared free list)", dst, deg))
			burst(dst, 1+r.Intn(3*deg))
		case x < 0.80:
			h := l[r.Intn(len(l))]
			on(h, genInnerOp(r, sets[h], u, r.Intn(3) == 0), r.Intn(4) == 0)
			if r.Intn(6) == 0 {
				snap()
			}
		case x < 0.92:
			h := l[r.Intn(len(l))]
			var o iop
			if r.Intn(2) == 0 {
				o = iop{kind: "len"}
			} else {
				o = iop{kind: "scan", e: r.Intn(10), p: anyPivot(r, u), q: anyPivot(r, u), m: pickStopAfter(r, len(sets[h].m))}
			}
			res := applyI(hs[h], o)
			rec(fmt.Sprintf("COn %d%%nat (%s)", h, o.coq()), res.coq(), "None", fmt.Sprintf("h%d.%s = %s", h, o.String(), res.String()))
		default:
			snap()
		}
	}
	snap()
	coq, ss := join(steps)
	return vh.Case{Coq: "(CaseC " + fmt.Sprint(deg) + "%nat " + coq + ")%Z", Nontrivial: true,
		Desc: map[string]interface{}{"kind": "clone program with Clear on a shared free list", "degree": deg, "free_list_size": capFL, "steps": ss}}
}
