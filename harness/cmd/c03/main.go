// Command c03 is the correspondence harness of property C03 (B-tree: ordered-set equivalence, bounded range
// scans, clone isolation).  It runs histories on the real ds/tree.BTree wrapper, on the real inner
// ds/tree/btree.BTree (degrees 2,3,4,8,...), clone programs on up to four handles and concurrent callers of one
// wrapper, records what every call returned and (through the verif hook VerifShape) the actual tree, and emits
// each run as a Coq term of type C03_Check.case.
//
// The histories are executed in a child process (same binary, -replay @batch:<file>), because a corrupted tree can
// send the implementation into unbounded recursion or a loop, which Go cannot recover from: the parent turns a
// child that died or stopped making progress into a case of its own (CaseFatal: the history that killed it).
package main

import (
	"bufio"
	"bytes"
	"encoding/json"
	"fmt"
	"math/rand"
	"os"
	"os/exec"
	"runtime/debug"
	"strconv"
	"strings"
	"time"

	"verifharness/vh"
)

// one generated case: the generator class and the seed of its private PRNG (that pair is the replay argument)
type spec struct {
	class string
	seed  int64
}

func (s spec) String() string { return fmt.Sprintf("%s|%d", s.class, s.seed) }
func parseSpec(a string) spec {
	i := strings.LastIndex(a, "|")
	sd, _ := strconv.ParseInt(a[i+1:], 10, 64)
	return spec{a[:i], sd}
}

func runSpec(s spec) vh.Case {
	r := rand.New(rand.NewSource(s.seed))
	parts := strings.Split(s.class, "/")
	var c vh.Case
	if stuckHistories >= maxStuck && (parts[0] == "W" || parts[0] == "P" || parts[0] == "M") {
		// enough histories of the wrapper ended in a call that never returns: the rest of the wrapper classes is skipped
		return vh.Case{}
	}
	switch parts[0] {
	case "W":
		switch parts[1] {
		case "big":
			c = genBig(r, 1100, 1500)
		case "big5k":
			c = genBig(r, 2000, 5000)
		default:
			c = genWrapper(r, parts[1])
		}
	case "I":
		deg, _ := strconv.Atoi(parts[1])
		c = genInner(r, deg, parts[2])
	case "C":
		deg, _ := strconv.Atoi(parts[1])
		variant := ""
		if len(parts) > 2 {
			variant = parts[2]
		}
		if variant == "clear" {
			c = genCloneClear(r, deg)
		} else {
			c = genClone(r, deg, variant)
		}
	case "M":
		readers, _ := strconv.Atoi(parts[1])
		moves, _ := strconv.Atoi(parts[2])
		c = genMover(r, readers, moves)
	case "P":
		g, _ := strconv.Atoi(parts[1])
		c = genConc(r, g, len(parts) > 2 && parts[2] == "stress")
	default:
		panic("unknown class " + s.class)
	}
	c.Class = s.class
	c.Replay = s.String()
	if c.Coq == "CaseFatal" && c.Key == "" {
		c.Key = "fatal " + s.String()
	}
	return c
}

// child: run the specs listed in the file, one JSON line per finished case, flushed case by case;
// <file>.progress names the spec being run
func child(file string) {
	debug.SetMaxStack(48 << 20)
	data, err := os.ReadFile(file)
	if err != nil {
		panic(err)
	}
	out, err := os.Create(file + ".out")
	if err != nil {
		panic(err)
	}
	defer out.Close()
	for i, line := range strings.Split(strings.TrimSpace(string(data)), "\n") {
		if line == "" {
			continue
		}
		os.WriteFile(file+".progress", []byte(strconv.Itoa(i)), 0o644)
		c := runSpec(parseSpec(line))
		b, _ := json.Marshal(c)
		out.Write(append(b, '\n'))
	}
	os.WriteFile(file+".progress", []byte("done"), 0o644)
}

// parent: run the specs in children; a child that dies or hangs yields a CaseFatal for the spec it was running
func supervise(e *vh.Env, specs []spec) {
	fatal, hangs := 0, 0
	for len(specs) > 0 {
		f, err := os.CreateTemp("", "c03batch")
		if err != nil {
			panic(err)
		}
		file := f.Name()
		for _, s := range specs {
			fmt.Fprintln(f, s.String())
		}
		f.Close()
		cmd := exec.Command(os.Args[0], "-replay", "@batch:"+file, "-out", file+".meta")
		var stderr bytes.Buffer
		cmd.Stderr = &stderr
		if err := cmd.Start(); err != nil {
			panic(err)
		}
		done := make(chan error, 1)
		go func() { done <- cmd.Wait() }()
		// progress watchdog: the same spec for 60 s is a hang (a history normally takes about a millisecond; calls that
		// never return because they wait for the wrapper's lock are found by the harness itself within seconds, watch.go)
		last, lastChange := "", time.Now()
		var werr error
		hung := false
	wait:
		for {
			select {
			case werr = <-done:
				break wait
			case <-time.After(200 * time.Millisecond):
				p, _ := os.ReadFile(file + ".progress")
				if string(p) != last {
					last, lastChange = string(p), time.Now()
				} else if time.Since(lastChange) > 60*time.Second {
					hung = true
					cmd.Process.Kill()
					werr = <-done
					break wait
				}
			}
		}
		ndone := 0
		if of, err := os.Open(file + ".out"); err == nil {
			sc := bufio.NewScanner(of)
			sc.Buffer(make([]byte, 1<<20), 1<<28)
			for sc.Scan() {
				var c vh.Case
				if json.Unmarshal(sc.Bytes(), &c) != nil {
					break // a line cut short by the crash
				}
				if c.Coq != "" { // "" = a spec skipped by the child
					e.Emit(c)
				}
				ndone++
			}
			of.Close()
		}
		p, _ := os.ReadFile(file + ".progress")
		for _, x := range []string{"", ".out", ".progress", ".meta"} {
			os.Remove(file + x)
		}
		if werr == nil && string(p) == "done" {
			return
		}
		// the child died while running specs[ndone]
		if ndone >= len(specs) {
			return
		}
		bad := specs[ndone]
		what := "the implementation crashed the process (unrecoverable runtime error)"
		if hung {
			what = "the implementation made no progress for 60 s (hang)"
			hangs++
		}
		msg := stderr.String()
		if len(msg) > 1500 {
			msg = msg[:1500]
		}
		e.Emit(vh.Case{Coq: "CaseFatal", Class: bad.class, Nontrivial: true, Replay: bad.String(), Key: "fatal " + bad.String(),
			Desc: map[string]interface{}{"kind": "fatal", "what": what, "history": "generator class and seed " + bad.String() + " (re-run with -replay)", "stderr": msg}})
		fatal++
		specs = specs[ndone+1:]
		if fatal >= 8 || hangs >= 2 {
			// enough evidence; do not spend the budget on crash after crash
			return
		}
	}
}

func main() {
	vh.Main("c03", func(e *vh.Env) {
		if strings.HasPrefix(e.Replay, "@batch:") {
			child(strings.TrimPrefix(e.Replay, "@batch:"))
			return
		}
		if e.Replay != "" {
			supervise(e, []spec{parseSpec(e.Replay)})
			return
		}
		type vol struct {
			class string
			quick int
			thor  int
		}
		vols := []vol{
			{"W/mix", 80, 1500}, {"W/sweep", 6, 120}, {"W/dense", 14, 300},
			{"I/2/mix", 30, 600}, {"I/3/mix", 24, 500}, {"I/4/mix", 20, 450}, {"I/8/mix", 12, 250},
			{"I/2/sweep", 3, 50}, {"I/3/sweep", 2, 50}, {"I/4/sweep", 2, 40}, {"I/8/sweep", 1, 30},
			{"C/2", 18, 350}, {"C/3", 12, 250}, {"C/4", 8, 150}, {"C/8", 4, 100},
			{"P/2", 4, 60}, {"P/3", 4, 60}, {"P/4", 3, 60},
			{"W/big", 2, 12}, {"W/big5k", 0, 3},
			{"M/2/8000", 3, 20}, {"M/3/8000", 3, 20}, {"M/4/20000", 2, 20},
			// targeted classes: every limit / every stop count on trees of three levels; stored-again keys; clones of a full root
			{"W/limits", 12, 150}, {"I/2/stops", 4, 40}, {"I/3/stops", 4, 40},
			{"I/2/reinsert", 6, 60}, {"I/3/reinsert", 5, 50}, {"I/4/reinsert", 4, 40}, {"I/8/reinsert", 3, 30},
			{"C/2/fullroot", 8, 80}, {"C/3/fullroot", 8, 80}, {"C/4/fullroot", 6, 60}, {"C/8/fullroot", 4, 40},
			// Clear(true/false) in clone programs whose trees share one small free list
			{"W/alias", 10, 150},
			{"C/2/clear", 8, 100}, {"C/3/clear", 6, 80}, {"C/4/clear", 4, 60}, {"C/8/clear", 2, 40},
		}
		if e.Thorough || e.Search {
			vols = append(vols, vol{"I/5/mix", 0, 150}, vol{"I/16/mix", 0, 60}, vol{"I/32/mix", 0, 30}, vol{"C/5", 0, 80})
		}
		if e.Search && e.Focus == "" {
			// nothing diverged, the tie broke elsewhere (lock-discipline lint, proof): look for an atomicity failure with
			// many concurrent callers of one wrapper
			vols = []vol{{"P/3/stress", 0, 60}, {"P/5/stress", 0, 80}, {"P/8/stress", 0, 80}, {"M/3/50000", 0, 10}, {"M/4/50000", 0, 10}}
		}
		specs := []spec{}
		for _, v := range vols {
			if e.Search && e.Focus != "" && !sameFamily(v.class, e.Focus) {
				continue
			}
			n := e.Scale(v.quick, v.thor)
			for i := 0; i < n; i++ {
				specs = append(specs, spec{v.class, e.Rnd.Int63()})
			}
		}
		// mix the classes so that the case files the driver cuts are of similar size
		e.Rnd.Shuffle(len(specs), func(i, j int) { specs[i], specs[j] = specs[j], specs[i] })
		// class fault (round 8), drawn and placed AFTER everything else so that the seeds and the order of the older
		// classes are what they were: inner-tree histories with ReplaceOrInsert calls that panic in Less and are recovered
		if !(e.Search && e.Focus == "") {
			for _, v := range []vol{{"I/2/fault", 6, 80}, {"I/3/fault", 5, 60}, {"I/4/fault", 4, 50}, {"I/8/fault", 3, 30}} {
				if e.Search && !sameFamily(v.class, e.Focus) {
					continue
				}
				for i, n := 0, e.Scale(v.quick, v.thor); i < n; i++ {
					specs = append(specs, spec{v.class, e.Rnd.Int63()})
				}
			}
		}
		supervise(e, specs)
		e.Meta["generator"] = "c03/11"
	})
}

// the violation search concentrates on the family (wrapper / inner / clone / concurrent) that diverged
func sameFamily(a, b string) bool {
	return a[0] == b[0] || (a[0] == 'M' && b[0] == 'P') || (a[0] == 'P' && b[0] == 'M')
}
