module verifharness

go 1.19

require github.com/pinealctx/neptune v0.0.0

replace github.com/pinealctx/neptune => /repo
