module verifharness

go 1.19

require (
	github.com/pinealctx/neptune v0.0.0
	go.uber.org/zap v1.24.0
	gorm.io/driver/mysql v1.5.1
	gorm.io/gorm v1.25.1
)

require (
	github.com/cespare/xxhash/v2 v2.2.0 // indirect
	github.com/dgryski/go-rendezvous v0.0.0-20200823014737-9f7001d12a5f // indirect
	github.com/go-sql-driver/mysql v1.7.1 // indirect
	github.com/golang/protobuf v1.5.3 // indirect
	github.com/golang/snappy v0.0.4 // indirect
	github.com/jinzhu/inflection v1.0.0 // indirect
	github.com/jinzhu/now v1.1.5 // indirect
	github.com/json-iterator/go v1.1.12 // indirect
	github.com/modern-go/concurrent v0.0.0-20180228061459-e0a39a4cb421 // indirect
	github.com/modern-go/reflect2 v1.0.2 // indirect
	github.com/redis/go-redis/v9 v9.0.4 // indirect
	github.com/satori/go.uuid v1.2.0 // indirect
	go.uber.org/atomic v1.11.0 // indirect
	go.uber.org/multierr v1.6.0 // indirect
	golang.org/x/crypto v0.9.0 // indirect
	golang.org/x/exp v0.0.0-20230522175609-2e198f4a06a1 // indirect
	google.golang.org/genproto v0.0.0-20230410155749-daa745c078e1 // indirect
	google.golang.org/grpc v1.55.0 // indirect
	google.golang.org/protobuf v1.30.0 // indirect
	gopkg.in/natefinch/lumberjack.v2 v2.2.1 // indirect
)

replace github.com/pinealctx/neptune => /repo
