// Package vh is the shared part of the correspondence harness.  One command per
// property (harness/cmd/cxx) runs the implementation under /repo (module replace)
// on generated inputs / histories / forced schedules and writes one JSON line per
// observed case.  Each line carries the case as a Coq term (field "coq") which the
// driver pastes into a case file evaluated by case_accept / case_holds inside Coq.
package vh

import (
	"bufio"
	"encoding/json"
	"flag"
	"fmt"
	"math/rand"
	"os"
	"strings"

	"github.com/pinealctx/neptune/ulog"
	"go.uber.org/zap/zapcore"
)

// Case is one observed case.
type Case struct {
	Coq        string      `json:"coq"`        // Coq term of the property's `case` type
	Desc       interface{} `json:"desc"`       // human-readable form (goes to replays / evidence samples)
	Class      string      `json:"class"`      // generator class (histogram key)
	Nontrivial bool        `json:"nontrivial"` // by the property's stated rule
	Key        string      `json:"key"`        // identity for distinct counting (default: Coq term)
	Replay     string      `json:"replay"`     // argument string that makes `vh <prop> -replay` re-run this case
}

// Env is what a property runner gets.
type Env struct {
	Rnd      *rand.Rand
	Seed     int64
	Thorough bool
	Search   bool   // violation search mode: wider generator
	Focus    string // class to concentrate on in search mode
	Replay   string
	N        int // requested volume multiplier (0 = default)
	out      *bufio.Writer
	count    int
	Meta     map[string]interface{}
}

func (e *Env) Emit(c Case) {
	if c.Key == "" {
		c.Key = c.Coq
	}
	b, err := json.Marshal(c)
	if err != nil {
		panic(err)
	}
	e.out.Write(b)
	e.out.WriteByte('\n')
	e.count++
}

// Scale returns quick or thorough volume.
func (e *Env) Scale(quick, thorough int) int {
	n := quick
	if e.Thorough || e.Search {
		n = thorough
	}
	if e.N > 0 {
		n = n * e.N
	}
	return n
}

// Main parses the command line of a property command and runs fn.
func Main(id string, fn func(*Env)) {
	ulog.SetLogLevel(zapcore.FatalLevel)
	fs := flag.NewFlagSet(id, flag.ExitOnError)
	seed := fs.Int64("seed", 1, "seed")
	tier := fs.String("tier", "quick", "tier")
	search := fs.Bool("search", false, "violation search mode")
	focus := fs.String("focus", "", "focus class")
	replay := fs.String("replay", "", "replay argument")
	n := fs.Int("n", 0, "volume multiplier")
	out := fs.String("out", "", "output file (jsonl)")
	fs.Parse(os.Args[1:])
	f := os.Stdout
	if *out != "" {
		var err error
		f, err = os.Create(*out)
		if err != nil {
			panic(err)
		}
	}
	w := bufio.NewWriterSize(f, 1<<20)
	env := &Env{Rnd: rand.New(rand.NewSource(*seed)), Seed: *seed, Thorough: *tier == "thorough", Search: *search, Focus: *focus, Replay: *replay, N: *n, out: w, Meta: map[string]interface{}{}}
	fn(env)
	// trailing meta line
	mb, _ := json.Marshal(map[string]interface{}{"meta": env.Meta, "cases": env.count})
	w.Write(mb)
	w.WriteByte('\n')
	w.Flush()
	f.Close()
}

// ---- small helpers for printing Coq terms ----

func CoqBool(b bool) string {
	if b {
		return "true"
	}
	return "false"
}
func CoqZ(v int64) string {
	if v < 0 {
		return fmt.Sprintf("(%d)%%Z", v)
	}
	return fmt.Sprintf("%d%%Z", v)
}
func CoqZu(v uint64) string { return fmt.Sprintf("%d%%Z", v) }
func CoqNat(v int) string   { return fmt.Sprintf("%d%%nat", v) }
func CoqList(xs []string) string {
	return "[" + strings.Join(xs, "; ") + "]"
}
func CoqZList(xs []int64) string {
	s := make([]string, len(xs))
	for i, x := range xs {
		s[i] = CoqZ(x)
	}
	return CoqList(s)
}
func CoqBytes(bs []byte) string {
	s := make([]string, len(bs))
	for i, x := range bs {
		s[i] = fmt.Sprintf("%d", x)
	}
	return "[" + strings.Join(s, ";") + "]%Z"
}
func CoqOpt(s string, ok bool) string {
	if ok {
		return "(Some " + s + ")"
	}
	return "None"
}
