#!/usr/bin/env python3
"""Regenerate the table of independently seeded changes in DESIGN.md (between the SEEDTABLE markers) from seeded/*/meta.json."""
import json, os, re
V = os.path.dirname(os.path.dirname(os.path.abspath(__file__)))
rows = []
for d in sorted(os.listdir(os.path.join(V, "seeded"))):
    mp = os.path.join(V, "seeded", d, "meta.json")
    if not os.path.exists(mp):
        continue
    m = json.load(open(mp))
    needs = m.get("summary") or ""
    if not needs:
        txt = m.get("needs_to_manifest", "")
        # first meaningful paragraph of the author's README
        paras = [p.strip().replace("\n", " ") for p in re.split(r"\n\s*\n", txt) if p.strip() and not p.strip().startswith("#")]
        needs = (paras[0] if paras else "")[:260]
    verdict = m.get("check_verdict", "")
    if m.get("current_verdict"):
        verdict += " **Now:** " + m["current_verdict"] + "."
    if m.get("rebased"):
        verdict += " (" + m["rebased"] + ")"
    rows.append("| `seeded/%s` | %s | %s | %s |" % (d, m["property"], needs.replace("|", "/"), verdict.replace("|", "/")))
table = "| change | property | what it is / what it needs to manifest (author's words, abridged) | verdict of `bin/check` (quick tier, via `bin/mutcheck`) |\n|---|---|---|---|\n" + "\n".join(rows) + "\n"
p = os.path.join(V, "DESIGN.md")
s = open(p).read()
a, b = "<!-- SEEDTABLE BEGIN -->", "<!-- SEEDTABLE END -->"
i, j = s.index(a), s.index(b)
s = s[:i + len(a)] + "\n" + table + s[j:]
open(p, "w").write(s)
open(p, "w").write(s)
# behaviour-preserving changes (benign/*): the check must stay quiet
brows = []
bd = os.path.join(V, "benign")
for d in sorted(os.listdir(bd)) if os.path.isdir(bd) else []:
    mp = os.path.join(bd, d, "meta.json")
    if not os.path.exists(mp):
        continue
    m = json.load(open(mp))
    txt = m.get("summary") or ""
    if not txt:
        paras = [q.strip().replace("\n", " ") for q in re.split(r"\n\s*\n", m.get("what", "")) if q.strip() and not q.strip().startswith("#")]
        txt = (paras[0] if paras else "")[:260]
    verdict = "first run: " + m.get("first_verdict", "")[:200]
    if m.get("resolution"):
        verdict += " **Resolution:** " + m["resolution"]
    if m.get("current_verdict"):
        verdict += " **Now:** " + m["current_verdict"] + "."
    if m.get("rebased"):
        verdict += " (" + m["rebased"] + ")"
    brows.append("| `benign/%s` | %s | %s | %s |" % (d, m["property"], txt.replace("|", "/"), verdict.replace("|", "/")))
btable = "| change | property | what it is (author's words, abridged) | verdict of `bin/check` (quick tier, via `bin/mutcheck`) |\n|---|---|---|---|\n" + "\n".join(brows) + "\n"
a, b = "<!-- BENIGNTABLE BEGIN -->", "<!-- BENIGNTABLE END -->"
if a in s:
    i, j = s.index(a), s.index(b)
    s = s[:i + len(a)] + "\n" + btable + s[j:]
    open(p, "w").write(s)
# coverage summary (coverage/SUMMARY.md written by bin/covreport)
cp = os.path.join(V, "coverage", "SUMMARY.md")
a, b = "<!-- COVTABLE BEGIN -->", "<!-- COVTABLE END -->"
if os.path.exists(cp) and a in s:
    i, j = s.index(a), s.index(b)
    s = s[:i + len(a)] + "\n" + open(cp).read() + s[j:]
    open(p, "w").write(s)
print(len(rows), "rows;", len(brows), "benign rows")
