#!/usr/bin/env python3
"""Regenerate MANIFEST.json from py/props.py (keeps it valid at all times)."""
import json, os, subprocess, sys
sys.path.insert(0, os.path.dirname(os.path.abspath(__file__)))
import props
V = os.path.dirname(os.path.dirname(os.path.abspath(__file__)))
allids = [json.loads(l)["id"] for l in open(os.path.join(V, "properties.jsonl"))]
hooks_commits = []
try:
    out = subprocess.run(["git", "-C", "/repo", "log", "--format=%h %s"], stdout=subprocess.PIPE, text=True).stdout
    hooks_commits = [l.split()[0] for l in out.splitlines() if " verif hook" in l or l.split(" ", 1)[1].startswith("verif:")]
except Exception:
    pass
ready = set(open(os.path.join(V, "py", "ready.txt")).read().split())
checks = []
for pid in allids:
    if pid not in props.PROPS or pid not in ready:
        continue
    P = props.PROPS[pid]
    checks.append({
        "property_id": pid,
        "quick_cmd": "bin/check %s --tier quick" % pid,
        "thorough_cmd": "bin/check %s --tier thorough" % pid,
        "evidence_file": "/verif/evidence/%s.json" % pid,
        "replay_cmd_template": "bin/check %s --replay {path}" % pid,
        "engine": "coq-proof+correspondence",
        "level_claimed": {"category": "proof", "text": P.get("level_text", ""), "design_ref": P.get("design_ref", "DESIGN.md section 6, " + pid)},
        "level_note": P.get("level_note", ""),
        "technique": P.get("technique", "machine-checked proof in Rocq (Coq 8.16.1) over a hand-written executable model; model tied to the code by a differential correspondence check evaluated inside Coq (vm_compute)"),
    })
na = [{"property_id": pid, "reason": props.NOT_YET.get(pid, "not claimed in this commit: model and theorems exist in coq/theories but the correspondence harness for this property is not wired yet")} for pid in allids if pid not in props.PROPS or pid not in ready]
m = {
    "version": 1,
    "setup_cmd": "bin/setup",
    "hooks": {"guard": "verif", "enable": "go build -tags verif (the harness module replaces github.com/pinealctx/neptune by /repo)",
              "baseline_off_cmd": "cd /repo && go test -vet=off -count=1 -timeout 25m ./...",
              "source_commits": hooks_commits, "add_only": True},
    "engines": [{"name": "coq-proof+correspondence", "path": "/verif/bin/check", "serves_properties": [c["property_id"] for c in checks],
                 "kind_free_text": "Coq 8.16.1 theorems over hand-written Gallina models (coq/theories), re-checked on every run; Go harness rebuilt from /repo's working tree runs the implementation, Coq evaluates case_accept (model = implementation) and case_holds (property monitor) on every observed case"}],
    "checks": checks,
    "notes": "See DESIGN.md (sections 13-15 describe the framework as built). KNOWN_FINDINGS.txt lists the 21 repaired defects (fixed: lines only; no known: line). All twenty properties are claimed; not_applicable is empty.",
}
m["not_applicable"] = na  # every property is claimed: the list is empty
json.dump(m, open(os.path.join(V, "MANIFEST.json"), "w"), indent=1)
print("claimed:", [c["property_id"] for c in checks])
