"""Lock-discipline lint (DESIGN.md section 3.3): every listed method of the current source takes its
mutex first and releases it by defer (or brackets the body with Lock ... Unlock without an early
return).  Syntactic, by a small go/ast program (harness/cmd/vlint); part of the trusted base."""
import json
import os
import vlib


def run_lint(rules):
    if not rules:
        return {"checked": 0, "failures": []}
    h = os.path.join(vlib.VERIF, "harness")
    spec = json.dumps([dict(r, file=os.path.join(vlib.REPO, r["file"])) for r in rules])
    with vlib.Lock("vlint"):
        exe = os.path.join(vlib.BUILD, "vlint")
        rc, out, err, _ = 0, "", "", 0
        src = os.path.join(h, "cmd", "vlint", "main.go")
        if not os.path.exists(exe) or os.path.getmtime(exe) < os.path.getmtime(src):
            rc, out, err, _ = vlib.run(["go", "build", "-o", exe, "cmd/vlint/main.go"], cwd=h, env=vlib.GOENV, timeout=600)
    if rc != 0:
        return {"checked": 0, "failures": ["lint tool does not build: " + err[-500:]]}
    rc, out, err, _ = vlib.run([exe], stdin=spec, timeout=120)
    try:
        res = json.loads(out)
    except Exception:
        return {"checked": 0, "failures": ["lint tool failed: " + (err or out)[-500:]]}
    return res
