#!/usr/bin/env python3
"""Record the number of cases each tier emits on the unchanged tree (from evidence/<ID>.json as it stands) into
py/expected_cases.json; bin/check treats a run with fewer than half of that as a degenerate run (broken tie)."""
import glob, json, os
V = os.path.dirname(os.path.dirname(os.path.abspath(__file__)))
p = os.path.join(V, "py", "expected_cases.json")
exp = json.load(open(p)) if os.path.exists(p) else {}
for f in sorted(glob.glob(os.path.join(V, "evidence", "C*.json"))):
    e = json.load(open(f))
    if e.get("violations"):
        continue
    n = e["coverage"].get("evaluations", 0)
    if n:
        exp.setdefault(e["property_id"], {})[e["tier"]] = n
json.dump(exp, open(p, "w"), indent=1, sort_keys=True)
print(json.dumps(exp))
