#!/usr/bin/env python3
"""Regenerate the per-property numbers table of DESIGN.md section 14.1 (between the STATUSTABLE markers) from what is on
disk: evidence/<ID>.json (theorems, cases), coq/theories (files and lines of the property), seeded/ and benign/ metas."""
import glob, json, os, re, sys
V = os.path.dirname(os.path.dirname(os.path.abspath(__file__)))
sys.path.insert(0, os.path.join(V, "py"))
import props  # noqa: E402
exp = json.load(open(os.path.join(V, "py", "expected_cases.json")))
rows = []
tot_th = tot_lines = 0
for pid in sorted(props.PROPS):
    ev = json.load(open(os.path.join(V, "evidence", pid + ".json")))
    cov = ev["coverage"]
    files = sorted(glob.glob(os.path.join(V, "coq", "theories", pid + "*.v")))
    lines = sum(len(open(f).read().split("\n")) for f in files)
    seeded = [json.load(open(m)) for m in glob.glob(os.path.join(V, "seeded", pid + "-*", "meta.json"))]
    now = [m.get("current_verdict", "") for m in seeded]
    caught_case = sum(1 for v in now if v.startswith("caught with a concrete"))
    caught_noinp = sum(1 for v in now if v.startswith("caught, no failing"))
    missed = sum(1 for v in now if v.startswith("MISSED"))
    benign = [json.load(open(m)) for m in glob.glob(os.path.join(V, "benign", pid + "-*", "meta.json"))]
    quiet = sum(1 for m in benign if m.get("current_verdict", "") == "no alarm")
    selftest = len(glob.glob(os.path.join(V, "seeded", "selftest", pid, "*.diff")))
    covf = os.path.join(V, "coverage", pid + ".txt")
    covp = ""
    if os.path.exists(covf):
        m = re.search(r"total: (\d+) of (\d+) statements \(([\d.]+)%\)", open(covf).read())
        covp = m.group(3) + " %" if m else ""
    e = exp.get(pid, {})
    rows.append("| %s | %d | %d files, %d lines | %s / %s | %s | %d | %d: %d / %d / %d | %d / %d |" % (
        pid, cov.get("obligations", 0), len(files), lines, e.get("quick", "?"), e.get("thorough", "?"), covp, selftest,
        len(seeded), caught_case, caught_noinp, missed, quiet, len(benign)))
    tot_th += cov.get("obligations", 0)
    tot_lines += lines
allv = glob.glob(os.path.join(V, "coq", "theories", "*.v"))
alll = sum(len(open(f).read().split("\n")) for f in allv)
head = ("| property | theorems in `Cxx_Props.v` (all closed) | Coq files named after the property | cases per run, quick / thorough | anchor statements run by the harness | own self-test changes | independently seeded changes: caught with a case / caught without input / missed (as re-verified at the end) | behaviour-preserving changes left quiet |\n"
        "|---|---|---|---|---|---|---|---|\n")
table = head + "\n".join(rows) + "\n\nTotals: %d theorems in the twenty `Cxx_Props.v` files; %d `.v` files, %d lines in `coq/theories` (prototype files of the appendices included).\n" % (tot_th, len(allv), alll)
p = os.path.join(V, "DESIGN.md")
s = open(p).read()
a, b = "<!-- STATUSTABLE BEGIN -->", "<!-- STATUSTABLE END -->"
i, j = s.index(a), s.index(b)
s = s[:i + len(a)] + "\n" + table + s[j:]
open(p, "w").write(s)
print(table[-300:])
