"""C11 tex.Buffer is observationally identical to bytes.Buffer (+ ReWrite, NewSizedBuffer)"""

CFG = {
    "check": "C11_Check",
    "props": ["C11_Props"],
    "chunk": 45,
    "level_text": (
        "Theorems in Coq over ALL histories of ALL lengths with arbitrary payloads: the concrete model of tex.Buffer "
        "(storage, read offset, lastRead, capacity, nil-ness; the five grow paths and the reslice-first variant of the "
        "writes; every public operation incl. runes with a concrete UTF-8 encoder/decoder, ReadFrom over scripted "
        "readers, WriteTo over scripted writers, panics with the state they leave behind) refines the contract of "
        "bytes.Buffer (unread contents + last-read kind) step by step: equal results, errors, panics, Len and Bytes "
        "(c11_tex_buffer_is_bytes_buffer, from every constructor; c11_step_sim for all twenty operations), on every "
        "history without Unread* whose nearest non-query predecessor is Grow - and that exclusion is shown necessary. "
        "ReWrite: panics exactly outside the storage, otherwise exactly the addressed bytes change "
        "(c11_rewrite_contract, c11_rewrite_model_exact). The model and the contract are tied to the code on every run by "
        "a two-sided differential check: the same generated history runs on tex.Buffer (/repo) and on the installed "
        "bytes.Buffer; Coq evaluates that the model reproduces tex.Buffer and the contract reproduces bytes.Buffer at "
        "every step (case_accept) and that the two implementations agree (case_holds). Proof is the right level: "
        "equivalence of two stateful implementations is a property of every history (growth path depends on earlier "
        "reads, Unread validity on the previous operation)."),
    "level_note": (
        "case_sound is proved through the refinement (model_matches implies holds), not by conjunction. "
        "Trusted: Coq kernel + vm_compute; hand model TexModel.v / contract C11_Spec.v / UTF-8 model C11_Utf8.v tied by "
        "the correspondence; bytes.Buffer of the installed Go is an oracle observed, not proved; the capacity a "
        "constructor ends with is read from Cap() and fed to the model as input. Not compared (by the property): Cap(), "
        "Unread* directly after Grow. Panics are compared by the CLASS of the panic value (ErrTooLarge / negative count / truncation / errNegativeRead / invalid Write count / index-or-slice runtime error / other runtime error / other) between tex.Buffer, bytes.Buffer and the model. ErrTooLarge: Grow beyond max_alloc (2^48, a parameter of the model; the harness only generates sizes >= 2^49 or small ones) panics with ErrTooLarge on both sides (c11_grow_too_large); sizes between the worst-case-allocatable bound and max_alloc depend on the memory actually available and are excluded by op_ok through the capacity bound k. Left out: a writer returning a "
        "negative count and a reader delivering more than it was offered (excluded by op_ok). "
        "Class par-eq (instances confined to their own goroutine, really parallel) is sound under every schedule because "
        "instances share nothing by contract: each emitted round is judged by Coq against the sequential model of its own "
        "history; the Go-side suspect filter only selects what is shown and can cause a miss, never an alarm. "
        "Aliased arguments (class eq-selfalias): the model has value semantics - a Write step carries the bytes its argument held at "
        "the call - so for Write(b.Bytes()[k:]) the model / contract state what a correct self-append yields (old contents followed "
        "by their own tail), which is also what bytes.Buffer shows on every grow path (reslice: disjoint destination; slide only when "
        "off > cap/2 >= m+n, so neither copy reaches the argument; reallocate: the argument stays in the old array). Only Bytes() is "
        "used as an aliasing argument, never the slice returned by Next (a later slide may legitimately reuse that storage). "
        "ReWrite addresses the storage from its start; the contract fixes the addressing only while the consumed "
        "prefix is known (no write/Grow/ReadFrom since a read moved the offset) - ReWrite steps outside that are "
        "checked against the concrete model only (case_accept), not by case_holds. No axioms."),
    "rule": ("one case = one history (12..33 operations, up to 51 in the thorough tier) from a zero value / NewBuffer / "
             "NewBufferString / NewSizedBuffer start, next operation and sizes drawn knowing Len() and Cap() of the running "
             "tex.Buffer; eq-* classes run tex.Buffer and bytes.Buffer side by side, tex-* classes tex.Buffer alone "
             "(ReWrite, NewSizedBuffer); class par-eq = private instances in parallel: 8 goroutines behind a spin barrier, each with "
             "its OWN tex.Buffer/bytes.Buffer pair, 25 000 rounds each (100 000 thorough) of 12..21 operations heavy in 2/3/4-byte "
             "WriteRune with runes, payloads and reader chunks distinct per goroutine; the first two, the last and up to six "
             "rounds per goroutine that an (untrusted) Go comparison flags are emitted as ordinary two-sided cases; "
             "classes alias-tex / alias-eq (24 instances): two buffers built from the SAME run-time-built string (then a third), resp. from "
             "the same slice per side; the first performs the in-place write paths (ReWrite, drain-then-Write, slide-down, "
             "Truncate(0)+Write), the untouched ones are then observed as ordinary cases (string: original bytes; slice: the "
             "current contents, NewBuffer aliases by contract); ops that panic on their argument are ordinary steps in the middle "
             "of histories and are injected right after successful reads so that Unread* follows them; ONil = a method called on "
             "a nil *Buffer of either type (String answers <nil>, Len is a nil dereference); "
             "class eq-utf8 (56 histories): every family of malformed / boundary UTF-8 (surrogate halves ED A0..BF xx, overlong C0/C1, "
             "E0 80.., F0 80.., beyond U+10FFFF F4 90.., F5..FF, lone continuations, bad 2nd/3rd/4th byte, truncated tails, the "
             "acceptRanges edges) placed where ReadRune starts decoding and drained rune by rune with Unread* in between; scripted "
             "readers / writers also answer with errors that must keep their identity (wrapping io.EOF, wrapping "
             "io.ErrUnexpectedEOF, a custom Is(io.EOF) type, errors.Join with io.EOF, io.ErrUnexpectedEOF, a writer's io.EOF), "
             "(0, nil) reads and EOF together with bytes; "
             "class eq-selfalias (330 deterministic histories, the same on every seed, emitted after all other classes): "
             "Write(b.Bytes()[k:]) - the argument ALIASES the buffer's own unread window - after Next(r), from zero-value and "
             "NewBuffer starts of 20..100 bytes (capacity 64 / 128 / exact), r and k on a grid (0, 1, 5, 10, half, all but one, all), "
             "three aliased writes per history so that the reslice, slide-down, reallocate and reset-if-empty paths of grow are all "
             "taken with an aliased argument; bytes.Buffer runs the same aliased call on its own storage and defines the expected "
             "result; the Coq term carries the bytes the argument held when the call was made; "
             "a case is non-trivial when at least two of its operations moved bytes (wrote "
             "something or consumed at least one byte); distinct = distinct Coq term (operations + everything observed)"),
    "trusted": ["bytes.Buffer of the installed Go toolchain as the reference implementation (observed, not proved)",
                "scripted io.Reader / io.Writer of the harness (deliver exactly the scripted chunk / count / error)",
                "unicode/utf8 re-modelled in C11_Utf8.v (EncodeRune, DecodeRune), tied by the WriteRune/ReadRune steps"],
    "assumptions": ["a Buffer is used by one goroutine at a time (tex.Buffer, like bytes.Buffer, has no lock; the property is about sequential histories)",
                    "readers passed to ReadFrom return at most len(p) bytes and at most MinRead-sized chunks are scripted; writers passed to WriteTo return a non-negative count",
                    "make([]byte, n) yields capacity exactly n (the model's 2c+n reallocation) - affects only Cap() and the ReWrite addressing after a move, both outside case_holds"],
    "lint": [],
}
