"""C03 B-tree: ordered-set equivalence, bounded range scans, clone isolation"""

CFG = {
    "check": "C03_Check",
    "props": ["C03_Props"],
    "chunk": 30,
    "level_text": "TBD",
    "level_note": "TBD",
    "rule": "TBD",
    "trusted": [],
    "assumptions": [],
    "lint": [
        {"file": "ds/tree/btree.go", "recv": "BTree", "methods": ["Insert", "Update", "UpdateOrInsert", "Delete"], "lock": "rw", "mode": "lock"},
        {"file": "ds/tree/btree.go", "recv": "BTree", "methods": ["Get"], "lock": "rw", "mode": "rlock"},
    ],
}
