"""C03 B-tree: ordered-set equivalence, bounded range scans, clone isolation"""

CFG = {
    "check": "C03_Check",
    "props": ["C03_Props"],
    "chunk": 21,
    "level_text": (
        "Theorems in Coq 8.16 over an executable model of ds/tree/btree (items = (key, payload) ordered by key; find, "
        "split, maybeSplitChild, insert, growChildAndRemove, remove, root split / collapse, the length field, get / min / "
        "max, node.iterate in both directions with start, stop, includeStart and an arbitrary callback, the ten scan "
        "entry points incl. AscendGreater / DescendLess, and the wrapper's Insert / Update / UpdateOrInsert / Delete / "
        "Get / iterWalk with filter and limit): for every degree >= 2 and every operation list (unbounded, as long as "
        "the set stays below 2^31 items so that the model's constant recursion fuel provably suffices) each operation "
        "returns exactly what a strictly sorted key->item list returns (most recently stored item, replaced / removed "
        "item, first n matching items in scan order from any pivot incl. absent / below min / above max, limit 0, "
        "negative limit = panic, empty tree) and the tree stays ordered and balanced (occupancy degree-1..2*degree-1, "
        "all leaves at one depth, length = item count).  Proof is the right level: the quantifier is over unboundedly "
        "many histories and tree shapes and the code is a pure data structure; the repository's tests assert none of it.  "
        "The model is tied to the source on every run: random and boundary-biased histories on the real wrapper and on "
        "the real inner tree (degrees 2,3,4,8; 5,16,32 in the thorough tier), clone programs on up to 4 handles and "
        "concurrent callers of one wrapper are executed, and Coq evaluates on every observed case (vm_compute) that "
        "each returned value is the model's and that the implementation's ACTUAL nodes, read through the verif hook "
        "VerifShape, satisfy Coq's own ordered / balanced / flatten = sorted map / length predicates and upward-closed "
        "copy-on-write ownership.  case_sound (accepted by the model => satisfies the sorted-map monitor) is a theorem "
        "proved through the refinement, not by construction."
    ),
    "level_note": (
        "Trusted: Coq kernel + vm_compute; the hand-written model C03_Model.v (tied by the correspondence check; node-level "
        "functions are the prototypes BTmodel/BTI/BTDs, which were validated shape-for-shape against the code, with the payload "
        "carried along); the Go harness incl. its supervisor that turns a crashed / hung child process into a failing case; "
        "the hooks VerifShape / VerifInner.  Partial: clone isolation is proved as an ownership discipline on an abstract heap "
        "(write through one handle leaves every other handle's tree unchanged, invariant kept, Clone establishes it: "
        "c03_write_isolated, c03_write_keeps_ownership, c03_clone_establishes_ownership); that btree.go's own heap-level write "
        "functions with the shared free list follow that discipline is NOT proved (PENDING in C03_Props.v) and is carried by "
        "the clone-program correspondence (independent values per handle after every write, ownership flags closed upwards).  "
        "The concurrent clause is reduced to sequential histories by the lock-discipline lint (Insert/Update/UpdateOrInsert/"
        "Delete/Get hold rw for the whole body) plus a run-time check with concurrent callers on disjoint key classes; "
        "iterWalk takes RLock only after allocating its result slice (it touches no shared state before), which the "
        "syntactic lint cannot express and is therefore an assumption.  The size bound 2^31 is a restriction of the theorems "
        "(fuel), not of the code.  No axioms."
    ),
    "rule": (
        "one case = one history (wrapper: 20-100 ops; inner tree: 25-150 ops per degree; sweep = all four / all ten scans from "
        "every pivot position of one tree; clone program: up to 4 handles, 25-75 steps with snapshots of all handles; concurrent: "
        "2-4 goroutines on disjoint key classes of one wrapper; targeted: every limit 0..len+1 of the four wrapper scans and every stop "
        "count of the ten entry points on trees of >= 3 levels, every present key stored again, Clone taken exactly when the root "
        "is full, as a leaf and as an inner root, followed by a write on either side) generated from its own seed; non-trivial = at least 4 steps; "
        "distinct = distinct Coq term (ops + observed results + observed shapes)"
    ),
    "trusted": [
        "Go harness cmd/c03 (generators, recover wrappers, child-process supervisor), items type kv{k,p} with Less on k",
        "verif hooks (*btree.BTree).VerifShape (items / children / ownership flag per node, degree, length field) and (*tree.BTree).VerifInner",
        "lock-discipline lint (syntactic) for the five wrapper methods that lock in their first statement",
    ],
    "assumptions": [
        "each wrapper method is one critical section of rw (lint: Insert/Update/UpdateOrInsert/Delete under Lock, Get under RLock; "
        "iterWalk: RLock taken after the local slice allocation, before the tree is touched - read from the source, not lintable)",
        "sync.RWMutex gives writers exclusion and readers a consistent tree (Go runtime)",
        "Item.Less is a strict weak order on keys (the harness's kv type compares integer keys)",
        "trees hold fewer than 2^31 items (the model's recursion fuel is proved sufficient below that size)",
        "heap-level copy-on-write functions follow the ownership discipline of C03_Cow.v (not proved; checked on clone programs)",
    ],
    "lint": [
        {"file": "ds/tree/btree.go", "recv": "BTree", "methods": ["Insert", "Update", "UpdateOrInsert", "Delete"], "lock": "rw", "mode": "lock"},
        {"file": "ds/tree/btree.go", "recv": "BTree", "methods": ["Get"], "lock": "rw", "mode": "rlock"},
    ],
}
