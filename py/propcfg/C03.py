"""C03 B-tree: ordered-set equivalence, bounded range scans, clone isolation"""

CFG = {
    "check": "C03_Check",
    "props": ["C03_Props"],
    "chunk": 21,
    "level_text": (
        "Theorems in Coq 8.16 over an executable model of ds/tree/btree (items = (key, payload) ordered by key; find, "
        "split, maybeSplitChild, insert, growChildAndRemove, remove, root split / collapse, the length field, get / min / "
        "max, node.iterate in both directions with start, stop, includeStart and an arbitrary callback, the ten scan "
        "entry points incl. AscendGreater / DescendLess, and the wrapper's Insert / Update / UpdateOrInsert / Delete / "
        "Get / iterWalk with filter and limit): for every degree >= 2 and every operation list (unbounded, as long as "
        "the set stays below 2^31 items so that the model's constant recursion fuel provably suffices) each operation "
        "returns exactly what a strictly sorted key->item list returns (most recently stored item, replaced / removed "
        "item, first n matching items in scan order from any pivot incl. absent / below min / above max, limit 0, "
        "negative limit = panic, empty tree) and the tree stays ordered and balanced (occupancy degree-1..2*degree-1, "
        "all leaves at one depth, length = item count).  Proof is the right level: the quantifier is over unboundedly "
        "many histories and tree shapes and the code is a pure data structure; the repository's tests assert none of it.  "
        "The model is tied to the source on every run: random and boundary-biased histories on the real wrapper and on "
        "the real inner tree (degrees 2,3,4,8; 5,16,32 in the thorough tier), clone programs on up to 4 handles and "
        "concurrent callers of one wrapper are executed, and Coq evaluates on every observed case (vm_compute) that "
        "each returned value is the model's and that the implementation's ACTUAL nodes, read through the verif hook "
        "VerifShape, satisfy Coq's own ordered / balanced / flatten = sorted map / length predicates and upward-closed "
        "copy-on-write ownership.  case_sound (accepted by the model => satisfies the sorted-map monitor) is a theorem "
        "proved through the refinement, not by construction."
    ),
    "level_note": (
        "Trusted: Coq kernel + vm_compute; the hand-written models C03_Model.v (functional, tied by the correspondence check; node-level "
        "functions are the prototypes BTmodel/BTI/BTDs, validated shape-for-shape against the code, with the payload carried along) and "
        "C03_Heap.v (the same write path on a store addr -> node with owner tags, mutableFor / mutableChild / split / insert / "
        "growChildAndRemove / remove / root split and collapse / Clone / shared free list, proved equal to the functional model on "
        "abstraction, so tied to the code through it; its allocation order and its treating a released node as gone are modelling "
        "choices, not observed); the Go harness incl. its supervisor that turns a crashed / hung child process into a failing case; the "
        "hooks VerifShape / VerifInner.  Clone isolation is now proved at full strength for the heap-level model (c03_clone_isolation, "
        "c03_heap_history, c03_heap_ownership, c03_heap_Own, c03_free_list_sound): in every family of handles reachable from the empty "
        "tree by Clone / ReplaceOrInsert / Delete / DeleteMin / DeleteMax each handle stands for the functional tree of the functional "
        "model, an operation through one handle leaves every other handle's tree unchanged, a node owned by a handle's context is in no "
        "other handle's tree, and newNode never hands out a node of any tree.  Clear(addNodesToFreelist) and node.reset are modelled too "
        "(C03_HeapClear.v: reset releases only nodes of the cleared tree that the clearing handle's context owns - "
        "c03_heap_reset_owned_only, c03_heap_clear - so with the ownership invariant Clear through one handle changes no other "
        "handle's tree: c03_clone_isolation and c03_heap_history now range over Clear(true|false) and over NewWithFreeList on the "
        "shared free list as well, for a free list of any size, c03_heap_history_any_free_list; that reset releases ALL owned nodes "
        "until the list is full is not claimed, it does not matter for what a tree holds).  Not modelled at the heap level: the reads, "
        "concurrent use of a tree and its clone from different goroutines (one operation at a time).  The concurrent clause for the "
        "wrapper is reduced to sequential histories by the lock-discipline lint (Insert/Update/UpdateOrInsert/Delete/Get hold rw for the "
        "whole body) plus run-time checks with concurrent callers (disjoint key classes; one writer moving an entry with Update under "
        "concurrent readers); iterWalk takes RLock only after allocating its result slice (it touches no shared state before), which the "
        "syntactic lint cannot express and is therefore an assumption.  The size bound 2^31 is a restriction of the theorems (fuel), "
        "not of the code.  Calls that panic inside the caller's Less (class I/*/fault) are outside the model's operations: the "
        "check holds the tree after the recovered panic to the state before the call (same items, well formed, length = item count), "
        "which btree.go satisfies because every mutation before a comparison (root split, child split) is complete and the length "
        "field is written only after insert returned.  No axioms."
    ),
    "rule": (
        "one case = one history (wrapper: 20-100 ops; inner tree: 25-150 ops per degree; sweep = all four / all ten scans from "
        "every pivot position of one tree; clone program: up to 4 handles, 25-75 steps with snapshots of all handles; concurrent: "
        "2-4 goroutines on disjoint key classes of one wrapper; targeted: every limit 0..len+1 of the four wrapper scans and every stop "
        "count of the ten entry points on trees of >= 3 levels, every present key stored again, Clone taken exactly when the root "
        "is full, as a leaf and as an inner root, followed by a write on either side; wrapper histories in which Update / "
        "UpdateOrInsert get ONE value as both arguments (UpdateOrInsert(x, x), the upsert idiom) for a key that is absent, present "
        "with another payload, or present with this very item (x fetched with Get), and an old argument that is the stored item "
        "with a fresh new item of the same key, with scans and Gets in between - the step text names the payload each argument "
        "carries; the model's Update(old, new) deletes key(old) and stores new iff the key was there (UpdateOrInsert: always), "
        "whatever the identity of the arguments, so the Coq term carries the old key and the new item only; clone programs whose trees (the first one "
        "and further ones made during the program) are made with NewWithFreeList on one free list of 1-4 or 32 nodes, with "
        "Clear(true/false) on originals and clones, right after Clone and later, each followed by a burst of inserts on some "
        "handle that takes the recycled nodes and by snapshots of all handles - the model says Clear empties that tree only; "
        "these programs first check directly in the harness that New / NewWithFreeList with degree <= 1 and ReplaceOrInsert(nil) "
        "panic, a missing panic is reported as a failing case; big wrapper trees of 1100-1500 keys (thorough: up to "
        "5000) given compactly as key = start + step*((j*stride) mod count), payload = key+7, which both sides expand and insert in "
        "that order, then the four scans with the all-pass and one sparse filter and limits from {1023, 1024, 1025, 2000, len-1, len, "
        "len+1, 2^20}; for these the scan results are compared through a summary only - (number of items, first 3 items, last 3 "
        "items, checksum acc := (acc*1000003 + 7*key + payload) mod (2^31-1) over the whole result, defined in C03_Check.v and in "
        "the harness) - because printing 30 full lists of >1000 items per case is too slow to elaborate; all other cases compare "
        "full lists) generated from its own seed; a call that never returns is an outcome too: every wrapper operation of a sequential "
        "history runs in its own goroutine under a watchdog, and if after 3 s it is found WAITING inside sync.RWMutex Lock/RLock "
        "called from that wrapper method (one stop-the-world snapshot of all goroutine stacks, nobody else uses that wrapper) the "
        "step's outcome is OStuck, which equals no outcome of the model (c03_stuck_is_no_outcome), the history ends there and the "
        "case is emitted; an operation that is still computing keeps being waited for; in the concurrent classes the same snapshot "
        "is taken for the whole case - every caller still alive waiting on the wrapper's lock at one instant (impossible with a "
        "correctly used lock: a holder is not waiting, a freed lock makes its waiter runnable) is reported as a failing case with the "
        "operation each caller is in; after 3 such histories the remaining wrapper classes of the run are skipped; class I/<deg>/fault (degrees 2,3,4,8, generated "
        "after all other classes): inner-tree histories in which, on a tree that holds items, the harness issues ReplaceOrInsert with "
        "an item whose Less panics at one particular point - an item of a foreign type (the first comparison, in the root, after a "
        "possible root split), an item below every key whose Less panics when it meets the current minimum key (the last comparison, "
        "in the leftmost leaf, after every split on the way down), or one that panics at its n-th comparison, n <= number of levels - "
        "and recovers from the panic; such a call has not returned and stored nothing, so it is NOT a step of the Coq term (the model "
        "in which nothing happened is the reference): the next steps are Len with the actual tree (items, balance, length field) and a "
        "full Ascend / Descend, and the history goes on; the step text names the faulted call; a faulted call that returns ends the "
        "history without a verdict; non-trivial = at least 4 steps; "
        "distinct = distinct Coq term (ops + observed results + observed shapes)"
    ),
    "trusted": [
        "Go harness cmd/c03 (generators, recover wrappers, the per-operation watchdog reading goroutine stacks (watch.go), child-process supervisor), items type kv{k,p} with Less on k",
        "verif hooks (*btree.BTree).VerifShape (items / children / ownership flag per node, degree, length field) and (*tree.BTree).VerifInner",
        "lock-discipline lint (syntactic) for the five wrapper methods that lock in their first statement",
    ],
    "assumptions": [
        "each wrapper method is one critical section of rw (lint: Insert/Update/UpdateOrInsert/Delete under Lock, Get under RLock; "
        "iterWalk: RLock taken after the local slice allocation, before the tree is touched - read from the source, not lintable)",
        "sync.RWMutex gives writers exclusion and readers a consistent tree (Go runtime)",
        "Item.Less is a strict weak order on keys (the harness's kv type compares integer keys); in class I/*/fault the item of a faulted ReplaceOrInsert has a Less that panics, and that call is required to leave the tree as it was",
        "trees hold fewer than 2^31 items (the model's recursion fuel is proved sufficient below that size)",
        "the heap-level model C03_Heap.v renders btree.go's pointer code faithfully (proved equal to the functional model; the functional model is what the correspondence check ties to the code, incl. per-node ownership flags being closed upwards)",
    ],
    "lint": [
        {"file": "ds/tree/btree.go", "recv": "BTree", "methods": ["Insert", "Update", "UpdateOrInsert", "Delete"], "lock": "rw", "mode": "lock"},
        {"file": "ds/tree/btree.go", "recv": "BTree", "methods": ["Get"], "lock": "rw", "mode": "rlock"},
    ],
}
