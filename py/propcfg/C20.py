"""C20 tex scalar wrappers: text/SQL forms round-trip and never mis-decode"""

CFG = {
    "check": "C20_Check",
    "props": ["C20_Props"],
    "level_text": (
        "Theorems in Coq over an executable model of all anchored code (JsInt64, JsUInt64, JsUnixTime, JsNanoTime, UnixStamp, "
        "Duration, JsByte incl. ToString/FromString, the eight hex.go functions, Unix2Time/UnixNano2Time/UnixStamp/SQLTime2Unix/"
        "Base64Bytes Scan+Value, Duration.UnmarshalTOML), with strconv's FormatInt/FormatUint/Atoi/ParseInt/ParseUint re-modelled "
        "for every base 2..36 and time.Unix's normalisation re-modelled: (1) exact-or-error for EVERY byte string (hence every JSON "
        "scalar token of any length): a decoded value equals the independent arbitrary-precision reading of the token "
        "(c20_exact_or_error; the only panic is JsInt64 on the lone quote character, c20_only_panic); (2) decode(encode v) = v for "
        "every value of every type, extremes included (c20_roundtrip and per-type corollaries; c20_value_scan for the SQL forms); "
        "(2b) the round trip is also checked on what an encoder's result reads as AFTER later encoder calls, sequential and concurrent "
        "(an encoder must not hand out memory it keeps using); (3) no false rejection for the integer wrappers; (4) the pre-fix decoders refuted on 123 / 1234 / 101 / 256/-1/7. "
        "The model is tied to the source on every run: generated tokens/values are run through the real wrappers directly and "
        "through encoding/json and jsoniter (top level and struct field, with a probe type recording what reaches UnmarshalJSON) "
        "and Coq evaluates model-equality and the monitor on every observation with vm_compute. Proof is the right level: the "
        "quantifier is over unboundedly many tokens (decimals of any length), which no test enumerates."
    ),
    "level_note": (
        "case_sound is proved through the model theorems (accept c = true -> holds c = true; no '&& holds' shortcut). "
        "time.ParseDuration / Duration.String and base64.RawStdEncoding are stdlib codecs the wrappers only call: in the theorems "
        "they are universally quantified functions (round trips carry the hypothesis parse(show d) = Ok d and show d <> \"\"), in the "
        "correspondence their results on the strings of each case are observed by the harness and carried in the case (oracle), and "
        "the hypothesis is checked on every sampled value. Not modelled: the time.Location set by .Local() (not an observable the "
        "property names), error identities (one class Err), the partially filled slice JsByte leaves behind on an error. "
        "Observations outside the quantifier, modelled as coded and reported: JsInt64.UnmarshalJSON panics on the one-byte input '\"' "
        "(not a JSON token; never delivered by encoding/json or jsoniter); Unix2Time/UnixNano2Time.Scan silently read 0 from an "
        "unsupported dynamic type and wrap uint64 >= 2^63; UnixStamp/SQLTime2Unix.Scan silently ignore a non-time argument. "
        "Concurrent classes (conc, par) report only what is a violation under every legal schedule: each observation is 'this call with "
        "this input returned that', compared with a stateless model; nothing is inferred from timing. "
        "Trusted: Coq kernel + vm_compute; hand model tied by this run's differential check; Go harness/generators; no axioms."
    ),
    "rule": (
        "one case = one input run through the real code: a token through UnmarshalJSON on up to five paths (direct, encoding/json "
        "top-level and struct field, jsoniter top-level and struct field; paths grouped by the bytes that reached UnmarshalJSON), "
        "each path twice with the receiver holding two different non-zero values beforehand (a decoder that forgets to assign is seen); "
        "instants come in Local / UTC / +08:00 and as the zero time.Time, with the year-one second -62135596800 and its neighbours, "
        "year 9999, and the wrap points of time.Time's second counter in every pool; "
        "a text through FromString/HexI64/..., a value through MarshalJSON/ToString/I64Hex/... and back, an SQL argument through "
        "Scan, a value through Value and Scan, an argument through UnmarshalTOML; or one HISTORY of encoder calls (class hist: 2-8 "
        "values encoded through every encoder entry point of the type - MarshalJSON, json.Marshal, jsoniter.Marshal, both inside a "
        "struct, ToJS, ToString, the hex formatters, Value - the results kept exactly as the API returned them, 1-4 further values "
        "encoded, and only then every kept result read, compared with the model's text and decoded; class conc: 4-8 goroutines "
        "started together each repeat one encoder call 200 times, first and last result kept, read and decoded after all "
        "goroutines returned - WaitGroup barrier, no sleeps); or the distinct results ONE input produced in the classes par / seq: "
        "par = 8 goroutines released together by a spin barrier each make 30 000 - 150 000 calls over their own 3-6 inputs (texts "
        "distinct between goroutines; decoders, UnmarshalTOML and encode-then-decode of Duration, JsInt64, JsUInt64, the three "
        "time wrappers, JsByte, hex), seq = the same inputs interleaved on one goroutine (A, B, A, ...); the functions are "
        "specified as pure, so every call must give the model's result for its own input under every schedule, and the case "
        "(an ordinary CDec / CEnc / CToml with the up to five most frequent distinct results) is decided in Coq. Zone classes: the "
        "time-carrying round trips (Value->Scan of UnixStamp / SQLTime2Unix / Unix2Time / UnixNano2Time, Scan of a time, the JSON "
        "time wrappers) are repeated with the process zone time.Local set (embedded time/tzdata) to UTC, America/New_York, "
        "Europe/Berlin, Australia/Lord_Howe and Asia/Shanghai: usual boundaries, every stamp at -3600..+3600 s around each DST "
        "transition of 2021, 2024 and one seed-chosen year (thorough: eight more years), and 10-minute sweeps over +-3 h as "
        "histories; the model is zone-free, so the instant must survive in every zone; inputs run one after the other and the "
        "parallel classes never carry a zone. A decode case is non-trivial when the token "
        "reached the wrapper through at least one JSON library path or was decoded to a value; every encode/round-trip, Scan, "
        "Value and string-typed TOML case is non-trivial. distinct = distinct Coq case term (input + observation)."
    ),
    "trusted": [
        "Go harness c20: token/value generators, recover wrapper, probe type recording what encoding/json and jsoniter hand to UnmarshalJSON, printing of observations as Coq terms",
        "stdlib codecs observed, not modelled: time.ParseDuration, time.Duration.String, base64.RawStdEncoding (their results enter each case as an oracle; the theorems quantify over them)",
        "hand transcription of strconv (FormatInt/FormatUint/Atoi/ParseInt/ParseUint) and of time.Unix/UnixNano into Gallina, exercised on every run through the wrappers that call them",
    ],
    "assumptions": [
        "64-bit platform: strconv.Atoi parses into a 64-bit int (the harness runs on amd64)",
        "time.ParseDuration(time.Duration(d).String()) = d and String() is never empty (hypothesis of the Duration round trip; sampled on every run)",
        "base64.RawStdEncoding.DecodeString(EncodeToString(b)) = b (hypothesis of the Base64Bytes round trip; sampled on every run)",
        "time.Time(x).Unix()/Nanosecond()/UnixNano() observe the instant built by time.Unix as modelled (wrapping int64 arithmetic), location ignored",
    ],
    "lint": [],
    "chunk": 400,
}
