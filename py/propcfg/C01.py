"""C01 semap: per-key reader/writer exclusion, FIFO hand-off, no residue"""

CFG = {
    "check": "C01_Check",
    "props": ["C01_Props"],
    "chunk": 150,
    "level_text": "Theorems in Coq over ALL label sequences (= all interleavings, at mutex granularity, of the critical sections of "
                  "AcquireRead / AcquireWrite / Release* / context-cancel by any number of callers over any keys) for every rwRatio >= 1: "
                  "accounting, exclusion (one writer alone or at most rwRatio readers), arrival-order admission (one step: grant only when "
                  "nobody waits, hand-off to a prefix of the queue; histories: nobody is admitted before a caller queued in front of it has "
                  "been admitted or cancelled), no missed hand-off (the head of the queue never fits), a cancelled acquire holds nothing, "
                  "a successful one holds until its own release, no residue (entry exists iff someone holds or waits; untouched keys "
                  "absent), and the reduction of the sharded containers to the single map for ANY routing function (same admissions and "
                  "cancellations at every step, entries only in the shard a key routes to).  The model is tied to the code by forced "
                  "schedules through the public API on SemMap, WideSemMap (modulo) and the xxhash variant: one label at a time "
                  "(plus release-vs-cancel pairs issued back to back to exercise the race of the cancel path), quiescence observed "
                  "positively (returned = channel closed by the wrapper goroutine; queued = VerifKeyState waiter count equals the number of "
                  "callers that have not returned), after every label who returned with what, VerifKeyState of every key and VerifEntries "
                  "are recorded; Coq replays the labels in the model and compares every observation (case_accept) and runs a monitor that "
                  "keeps its own book of returned-and-not-released callers and of queued callers in arrival order (case_holds); "
                  "case_sound is proved through a simulation between monitor book and model state.  Proof is the right level: the "
                  "quantifier is over schedules, the failing histories need specific call orders no test produces.",
    "level_note": "Trusted: Coq kernel + vm_compute; hand model of semaphore.go / map.go / wmap.go (C01_Model.v on top of Semap.v) tied by the "
                  "correspondence run; sync.Mutex, channel close/receive, select and context cancellation are modelled (one label per critical "
                  "section; the cancel path's `case <-ready` is the model's no-op Cancel of a holder), not verified; the harness's schedule "
                  "forcing and quiescence detection; the verif hooks VerifKeyState / VerifEntries.  The lint checks SemMap.release (lock / deferred unlock) and, in mode 'handoff', that SemMap.acquire is one critical section handed unbroken to Weighted.acquire (look-up, entry creation and grant/enqueue under one hold of the map mutex) - the atomicity the labels of the model stand for; a lint failure sends the driver into the search mode of the harness.  The forced schedules issue one call at a time and therefore cannot put two callers inside one critical section; races inside a label are looked for by the free-running classes: stress (in-section monitor counters, cancellations racing against grants) and fresh-key-burst (every round 8..16 callers let loose from a spin barrier on a never-used key, in-section counters, VerifEntries = 0 after the round), batch-cancel (every round on a never-used key with rwRatio 16..64: a writer holds, 1..40 readers are positively observed parked, ReleaseWrite - one hand-off to the whole queue - and the cancellation of all / half of the readers' contexts are let loose from a spin barrier; every Acquire* must return; whoever returned nil releases, whoever returned the context error must hold nothing: the tokens booked equal the number of nil returns, and after the releases VerifKeyState = (0,0,absent), VerifEntries = 0 and a fresh writer is admitted at once - facts that hold under every legal schedule).  Deadline contexts are not generated (only explicit cancellation): the code path is the same "
                  "(ctx.Done()).  The stress class has no label trace, so for it case_accept = case_holds = the in-section monitor summary.  "
                  "The theorems are over Z for every rwRatio >= 1; the code computes in 64-bit int: C01_Int64.v wraps every arithmetic operation of "
                  "semaphore.go to int64 and proves the wrapped machine equal to the Z machine under the invariant for 1 <= rwRatio <= MaxInt64 "
                  "(the sum form of the fit test is refuted at MaxInt64); the generator includes rwRatio MaxInt, MaxInt-1, MaxInt32, 2^62.  "
                  "Configuration: C01_Options.v models option.go (options : list opt -> cfg, no WithRwRatio => DefaultRWRatio = 10, independent of "
                  "earlier constructor calls; a shared default object is refuted); the class ctor-history builds maps one after another with "
                  "different option sets through all three constructors (explicit ratio, then defaults, then WithPrime only, ...) and runs each "
                  "against the model of its own options - the rwRatio of those case terms is computed in Coq by `options` from the option list "
                  "actually passed; 1/8 of the random schedules run on default-built maps.  "
                  "No axioms; nothing PENDING.",
    "rule": "a forced schedule is non-trivial when at some step a caller was observed queued (waiter count > 0 on some key); a stress run "
            "when more than one reader or at least one writer was seen inside a critical section; a fresh-key-burst summary when at least one round ran; a batch-cancel summary when some round saw both outcomes (nil and context error); distinct = distinct "
            "(rwRatio, number of keys, labels, observations) - the container variant and shard count are not part of the Coq term",
    "trusted": ["forced-schedule driver of harness/cmd/c01 (one goroutine per pending Acquire*, done-channel per caller, polling of "
                "semap.VerifKeyState until every not-returned caller of a key is in its wait queue; the only time-outs are 10 s bounds on "
                "steps that must complete)",
                "verif hooks semap.VerifKeyState / semap.VerifEntries (read cur, len(waiters), map membership under the shard mutex)"],
    "assumptions": ["sync.Mutex gives mutual exclusion; close(ch) wakes the receiver parked in select; a select with one ready case takes "
                    "it (Go runtime semantics, modelled as one label per critical section)",
                    "context.WithCancel: cancel() closes Done() and Err() is context.Canceled afterwards",
                    "callers obey the API: Release* only by a caller whose Acquire* returned nil, once, with the same key and kind"],
    "lint": [{"file": "syncx/semap/map.go", "recv": "SemMap", "methods": ["release"], "lock": "mux", "mode": "lock"},
             # SemMap.acquire is ONE critical section handed unbroken to Weighted.acquire (look-up, entry creation, grant/enqueue)
             {"file": "syncx/semap/map.go", "recv": "SemMap", "methods": ["acquire"], "lock": "mux", "mode": "handoff"}],
}
