"""C13 queues: no lost wake-ups; close releases every blocked consumer"""

_PIPE = ["AddReq", "AddPriorReq", "Close"]

CFG = {
    "check": "C13_Check",
    "props": ["C13_Props"],
    "chunk": 150,
    "level_text": (
        "Theorems in Coq over ALL label sequences (= every number of producers and consumers, every interleaving) of two "
        "executable labelled transition systems at mutex granularity with thread identities and item values: the "
        "condition-variable queues (q.Q, async.Q, mux.Q, mq.MQ with its two lists and TryClose, syncq.SyncQueue with "
        "Signal-on-Push and TryPop; Pop and PopAnyway) and the PriQueue wake-up token (mutex sections of Push/Pop, "
        "tyrSignal, blocking and polling receive on WaitCh()). Proved: a parked consumer implies an open queue whose "
        "every item is promised to an already woken consumer, hence at every quiescent point nobody is parked beside an "
        "item or a closed queue; Close leaves nobody parked and every consumer blocked at the Close has returned at the "
        "next quiescent point; k blocked consumers + k accepted items => all k return, with exactly the accepted items "
        "(conservation as a permutation, so pairwise distinct); woken consumers always can run and their number is a "
        "decreasing measure; PriQueue: items remain => token buffered, or pending, or held; at rest with nobody holding "
        "the token is readable and nobody sleeps on the channel; progress with the item count as measure. The model is "
        "tied to the code on every run by forced schedules on the real queues: one batch of calls at a time, quiescence "
        "observed positively (returned = channel closed by the wrapper; parked = runtime.Stack wait reason "
        "sync.Cond.Wait inside the queue's package, or select inside the protocol's receive), the runtime's hidden "
        "choices (which woken consumer re-takes the lock first, whom Signal / the channel hand-off picks, how concurrent "
        "lanes interleave) resolved by an untrusted state-set search whose single resolved label sequence Coq replays "
        "with `step`, comparing every call result and every observation. Proof is the right level: the quantifier is "
        "over unboundedly many schedules and liveness cannot be sampled by timing."
    ),
    "level_note": (
        "case_sound is a real theorem (simulation between the model run and the monitor: invariant + conservation + "
        "what a consumer can return), not the accept:=matches&&holds fall-back. Liveness is proved as: no reachable "
        "quiescent state has a parked consumer next to an item or a closed flag, every woken consumer's step is enabled "
        "and lowers a measure; that the Go scheduler eventually runs a runnable goroutine is assumed. sync.Cond, "
        "sync.Mutex and a 1-buffered channel with direct hand-off to a parked receiver are modelled, not verified; the "
        "thread Signal wakes and the receiver a send is handed to are free choices of the model (label parameters), so "
        "the theorems do not depend on FIFO wake order. AddReqAnyway / AddAnyway / AddCtrlAnyway are sleep-and-retry "
        "loops around the ordinary add: every attempt is an LAdd / LAddCtrl label, an attempt answered full or closed is "
        "a no-op (c13_full_add_is_noop), the accepted one wakes everybody (c13_accepted_add_wakes_all), so a trace "
        "lists the last attempt only; they are issued in every class on unbounded lists and, on FULL bounded lists and "
        "on closed queues, in the class anyway-full (which supplies the consumer that makes room, or the Close). "
        "MQ.TryClear is label LTryClear (true exactly on a closed drained queue, state untouched: c13_tryclear_spec). "
        "WaitClose (mux.Q, mq.MQ): one goroutine is blocked in it for the whole schedule and must have returned at a "
        "quiescent point exactly when the queue is closed (observation o_wc; otherwise it is positively seen parked in "
        "WaitClose's select). NOT covered: MQ.WaitClear and MQ.IsCleared (the cleared flag is not part of the model "
        "state) and Size(); SyncQueue.Len as an operation is outside the model "
        "(Len and IsClosed are read only as observations at quiescent points). Items are abstract identities (Z) in the "
        "model: the unchanged pipe queues hand a nil / typed-nil / zero-valued item out like any other (Pop returns "
        "(nil, nil) for a nil item), which the harness checks by mapping these values to reserved ids; SyncQueue.Pop "
        "cannot tell a nil item from `closed`, so the nil interface is outside its contract and not generated there; "
        "PriQueue takes IEntry values, not interface{}, and is driven with non-nil entries only. For PriQueue the schedules also keep a "
        "Push / Pop parked at the entry of its critical section (mutex held through the hook priq.VerifHold) and read "
        "len(WaitCh()) at that moment (trace element PEMid: the model's token, nothing of the parked call has happened); "
        "the monitor does not speak about that moment (a call is in progress). A consumer thread makes one pop call "
        "(thread = call). No axioms; no PENDING clause."
    ),
    "rule": (
        "one case = one forced schedule (3-20 batches of calls; a batch = up to 2 concurrent lanes of non-blocking calls "
        "plus newly launched consumers) on a fresh queue of one of the six types, run on the real implementation and "
        "replayed in Coq; generator classes per type: random walk, park-close, park-add, drain-after-close, bound, "
        "close-race, steal, tryclose, add-close-burst (k>=2 parked, an add and Close back to back from one goroutine), "
        "park-add-nil (k parked, k items some of which are boundary values), anyway-full (a bounded list filled up, then "
        "the retrying add - first seen asleep between two attempts - next to a consumer / after Close / next to Close; "
        "MQ: TryClear at the end), anyway-drain-park (full bounded list, the retrying add seen asleep in a 15-25 ms pause, "
        "consumers drain the list and k more park, then the retry finds room); two race classes on FRESH queue objects "
        "(persistent spinning goroutines released from a barrier with varying delays, 10^3..10^6 trials, one case "
        "emitted per class: the violating trial if there is one): priq first-waitch-race (a Push racing the first "
        "WaitCh(); judged after both returned: non-empty and nobody holding => channel readable) and pop-close-race "
        "for every condition-variable type (5 consumers entering Pop/PopAnyway at the instant of Close; violation only "
        "on the positive observation `Close has returned and every consumer not yet back is parked in cond.Wait`); "
        "class backlog-<kind> for every condition-variable type: b ordinary adds with NO consumer, b in {0, 1, 7, 8, 15, 16, "
        "17, 31, 32, 33, 63, 64, 65, 127, 128, 129}, then one last add of each kind in turn (add, prior, ...Anyway; MQ "
        "also ctrl, priorctrl, ctrl-Anyway), then min(b+1, 6) consumers (now and then 40) arriving one after the other: "
        "each returns at once with its own item; variant: up to 4 consumers parked first, the adds as one burst "
        "(quick: every size x kind with one variant, thorough: both); runs of >= 4 accepted ordinary adds of "
        "consecutive items are written run-length in the case term (CCondR / CAdds, expanded by `expand` before the "
        "same cond_accept / cond_holds are applied); "
        "the schedule classes stop after 60 s (90 s in the violation search) and after two stuck schedules; every add on an unbounded list goes through its ...Anyway variant with probability "
        "1/4 (every other add in the stress class), MQ schedules contain TryClear; in every class about one item in eight is "
        "a boundary value of interface{} - the nil interface, a typed nil pointer, \"\", int(0), false, struct{}{} - "
        "each used at most once per schedule and identified by a reserved negative id (the nil interface is not used "
        "on SyncQueue, whose Pop returns nil for `closed`) "
        "(condition-variable queues) and random, resignal, park-push, collapse, full, push-parked (PriQueue; a call "
        "held at the entry of its critical section through the hook); plus one protocol-following stress case per type "
        "and consumer count (CStress: consumers run the documented protocol - receive from WaitCh(), Pop until nil with "
        "a varying number of extra polls / Pop in a loop - and the producer adds the next item the moment the previous "
        "one was taken, 10^4..10^7 rounds; a lost wake-up is reported only on the positive observation `item "
        "outstanding + every consumer seen parked + channel not readable + no call in progress`, otherwise the run just "
        "continues; budget ~2 s in the quick tier, 4 s per configuration thorough, 12 s per configuration in the "
        "violation search); thorough tier additionally enumerates every sequence of 1..5 single-call batches per "
        "condition-variable type. Non-trivial = at some quiescent point at least one consumer was observed parked "
        "(PriQueue: parked on WaitCh() or holding a token; stress: at least one round); distinct = distinct resolved traces"
    ),
    "trusted": [
        "parked-goroutine detection: runtime.Stack(all) header wait reason `sync.Cond.Wait` with a frame of the queue's package (`select` inside main.c13WaitTok for PriQueue), matched to the consumer by goroutine id; flags are read before the snapshot",
        "verif hook priq.VerifHold (queue/priq/zz_verif.go, build tag verif): takes the PriQueue's mutex like a concurrent Push/Pop inside its critical section and returns the release function; used to keep a Push / Pop parked at the entry of its critical section (seen as wait reason sync.Mutex.Lock under priq.(*PriQueue)) while len(WaitCh()) is read",
        "the Go transcription of the two LTSs and the witness search are NOT trusted (a wrong search can only fail to find a witness, which Coq's replay then rejects)",
        "Go runtime semantics of sync.Mutex, sync.Cond (Wait/Signal/Broadcast) and buffered channels as modelled",
    ],
    "assumptions": [
        "every shared access of the queues happens inside the critical sections the labels stand for (lint on the non-blocking methods and on the pipe queues' pop loops; SyncQueue.Pop/TryPop copy the immutable fields popable/buffer before Lock and PriQueue.Push/Pop unlock on two paths, so these four are read by hand)",
        "sync.Cond.Wait atomically enqueues the waiter and releases the mutex; Broadcast wakes every waiter enqueued before it, Signal one of them; a woken waiter re-takes the mutex before it continues",
        "a non-blocking send on a 1-buffered channel is handed to a parked receiver if there is one, is buffered if the slot is free, and is dropped otherwise",
        "a runnable goroutine is eventually scheduled (fairness of the Go scheduler)",
    ],
    "lint": [
        {"file": "syncx/pipe/q/q.go", "recv": "Q", "methods": _PIPE + ["pop"], "lock": "lock", "mode": "lock"},
        {"file": "syncx/pipe/async/q.go", "recv": "Q", "methods": ["Add", "AddPrior", "Close", "pop", "IsClosed"], "lock": "lock", "mode": "lock"},
        {"file": "syncx/pipe/mux/q.go", "recv": "Q", "methods": _PIPE + ["Pop", "PopAnyway", "IsClosed"], "lock": "lock", "mode": "lock"},
        {"file": "syncx/pipe/mq/mq.go", "recv": "MQ", "methods": _PIPE + ["AddCtrl", "AddPriorCtrl", "Pop", "PopAnyway", "TryClose", "IsClosed"], "lock": "lock", "mode": "lock"},
        {"file": "queue/syncq/syncqueue.go", "recv": "SyncQueue", "methods": ["Push", "Close", "Len"], "lock": "lock", "mode": "lock"},
        {"file": "queue/priq/priority_queue.go", "recv": "PriQueue", "methods": ["Len"], "lock": "mu", "mode": "lock"},
    ],
}
