"""C12 queues: FIFO/priority order, capacity, close semantics (sequential histories)"""

_PIPE = ["AddReq", "AddPriorReq", "Close"]

CFG = {
    "check": "C12_Check",
    "props": ["C12_Props"],
    "chunk": 1200,
    "level_text": (
        "Theorems in Coq over ALL histories (call lists of any length, by structural recursion h_run), all capacities and all six "
        "queue types: executable Gallina models that mirror the code branch for branch - the pipe queue (q.Q / async.Q / mux.Q: "
        "closed test, bound test, PushBack / PushFront, pop(checkClose)), mq.MQ (two lists, control drained first, TryClose / TryClear, "
        "closed / cleared flags), SyncQueue (silent drop after Close, Pop / TryPop drain), PriQueue (Less as coded on (priority, sequence), "
        "capacity test in Push). Proved: refusal exactly at capacity, prior adds bypass the bound and go to the front, closed refuses / drops "
        "every add and stays closed, Pop versus PopAnyway after close incl. the drain theorems, control before request, try-close iff empty, "
        "try-clear iff closed and empty, conservation (Permutation) and FIFO over whole histories, the specified order of the pipe queue with prior adds stated declaratively on ghost acceptance stamps (a pop hands out the newest pending prior add, else the oldest pending item), the bound over histories (capacity + accepted prior adds), the priority order (highest first, FIFO among "
        "equals) incl. uniqueness of the Less-minimum so that container/heap's contract determines Pop's result, PriQueue capacity. "
        "The models are tied to the source on every run: the six real queue types are driven through a fixed corpus of witness histories, every call sequence up to a small length "
        "(exhaustive small scope at the boundary capacities) and through seeded random phase-structured histories; Coq evaluates case_accept "
        "(result-by-result equality with the model) and case_holds (a monitor that follows the OBSERVED results and checks the property's clause "
        "for each call). Proof is the right level: the quantifier is over unboundedly many histories; the code is six small lock-protected state machines."
    ),
    "level_note": (
        "case_sound is a real theorem for the sequential classes (generic simulation h_sound + one-step lemmas p_step_ok / m_step_ok / s_step_ok / q_step_ok), not a conjunction. "
        "For the concurrent class 'race add-vs-close' (C12_Race.v) case_accept := (the harness' witness linearisation respects real-time precedence and is replayed by the sequential model with the observed results) && r_holds, "
        "so case_sound is by conjunction there; r_holds states clauses that hold for every linearisation (an add invoked after Close returned is refused; after a drain reported closed-and-empty no later pop hands out an item and no later add is accepted; "
        "no invention / duplication / loss; real-time FIFO of ordinary adds). "
        "Class 'constructors' (C12_More.v): 2-4 queues built one after the other with different option sets (q.NewQ with / without WithSize, mq.NewMQ with any subset and order of its two options, "
        "async.NewQ / mux.NewQ sizes), construction interleaved with use; each queue is accepted against the model of ITS OWN options (None = option not given = capacity 0); sound by the per-queue simulation proofs. "
        "Class 'parallel priq.PriQueue': 2-4 pushers and 2-4 poppers released from a spin barrier on one queue (GOMAXPROCS >= 8, 6000 rounds / ~4e5 calls in quick), final drain at quiescence; "
        "pp_holds = clauses valid for every linearisation (no invention / duplication, no loss once a Pop invoked after all pushes said empty, real-time FIFO among equal priorities, real-time highest-priority-first); "
        "no witness search for this class, case_accept := pp_holds; a sample of 40 ordinary rounds (300 thorough) and EVERY round whose handed-out multiset differs from the accepted pushes is evaluated in Coq. "
        "Held calls: in the sequential classes (corpus, random, dedicated 'held-calls' streams) a call that has to block is sometimes STARTED anyway - a Pop / PopAnyway on an empty open queue, an add-anyway on a level that is exactly at its capacity - and released by the ONE next call "
        "(an add / prior add / Close, resp. a pop that takes from that level / Close); the harness then joins it under the watchdog before issuing anything else. With one held and one releasing call the results are the same under every schedule and the held call "
        "takes effect after the releasing one, so the case lists them in that order and the ordinary sequential model / monitor judge them (lemmas p_held_*; no new model behaviour). This runs the cond.Wait branches of all pops, SyncQueue.Pop's wait and the retry branch of every Anyway add; "
        "it is NOT C13's class (one waiter, one releaser, no choice of who wakes). IsClosed / IsCleared answering true is additionally required to mean that WaitClose / WaitClear return nil at once (mux.Q, mq.MQ); Wait* on an open queue would block and is left to C13; "
        "IsClosed / IsCleared answering false is required to mean that WaitClose / WaitClear with an already cancelled context return context.Canceled; async.Q.Size must equal the configured size and PriQueue.WaitCh must be non-nil at construction (token protocol: C13); the six `return nil, ErrSync` statements are unreachable. "
        "Class 'backlog' (C12_Runs.v): for every queue type and every add kind (ordinary, prior, Anyway; control and request level; Push) a backlog of exactly b items, b in {0,1,2,7,8,9,15,16,17,31,32,33,63,64,65,127,128,129,255,256,257,1023,1024,1025}, "
        "built after h in {0,1,3,b/2} items have come and gone (both 'h first' and 'b+h then pop h'), then the add under test (sometimes one more of the other kind, sometimes Close, sometimes at the last slot the bound lets in), then a full drain; plus a shrink path (fill to 1025, drain to 1, refill with prior adds at 14/16/31...). "
        "Quick runs the three largest backlogs with h = 3 only. These histories are emitted run-length encoded (((op, result), n) = n consecutive steps with consecutive items) and judged by EXPANDING them and applying the ordinary accept / holds, so soundness is the sequential simulation theorem; p_backlog_prior / p_backlog_add state the order for every backlog. "
        "Class 'gated-priority priq.PriQueue' (round 8, harness/cmd/c12/gated.go, deterministic, last class): 0-2 items queued, then Push(A) in a goroutine with A's FIRST GetPriority call held in a gate of the harness; observed through the gate, another goroutine pops the queued items (queue empty) - if those Pops cannot proceed because the callback runs under the queue's mutex (unchanged code, non-empty queue) the gate opens after 150 ms and the member is an ordinary legal history; after Push(A) returned 1-2 more items (equal / higher priority) are pushed and all popped; mirror members without the intermediate Pops and on an empty queue (30 members); judged by the same CParPri / pp_holds clauses (A's Push returned before B's was invoked => A before B in every linearisation). "
        "A held add-anyway released by Close is, when the next call is a PopAnyway, joined only after that pop (asleep across Close and the freed slot: it must still be refused). "
        "Watchdog: 30 s; after a first call of the run has really not returned (the run is then a violation anyway) later waits are cut to 2 s. A history also stops when a pop hands out something that was not pending. "
        "Boundary item values: a quarter of the random histories of the pipe queues and mq.MQ queue nil, a typed nil pointer, the empty string, int(0) and struct{}{} (written -1..-5) like any other item - the unchanged code stores and returns them unchanged; "
        "SyncQueue gets the non-nil ones only and PriQueue none, because their API answers nil for 'closed' / 'empty' (SyncQueue.Pop / TryPop, PriQueue.Pop), so an untyped nil item is indistinguishable there by the API's own definition (and a nil IEntry panics in Less). "
        "Trusted: Coq kernel + vm_compute; the hand models (C12_Pipe.v, C12_MQ.v, C12_Sync.v, C12_Pri.v) tied by the differential check; container/list, "
        "container/heap and github.com/eapache/queue are not re-modelled (list semantics; for the heap the theorems show that its documented contract "
        "- Pop returns a Less-minimum - determines the result uniquely); the Go harness' shadow count that decides which calls would block. "
        "Blocking behaviour (a pop on an empty open queue, add-anyway on a full queue) and wake-ups are C13's: here such calls are recorded as RNotIssued "
        "and the model agrees that they would block. The WaitClose / WaitClear channels of mux.Q / mq.MQ are not observed (IsClosed / IsCleared are). "
        "PriQueue's curSeq is a Z in the model (int64 in the code: no wrap below 2^63 accepted pushes). The concurrent reading of the property rests on "
        "'every public method is one critical section': checked syntactically by the lint for the pipe queues, mq.MQ and SyncQueue.Push/Len/Close, "
        "PriQueue.Len; SyncQueue.Pop/TryPop and PriQueue.Push/Pop use a Lock ... Unlock bracket with early unlock-and-return that the lint cannot "
        "express (read: they touch shared state only inside the bracket)."
    ),
    "rule": (
        "one case = one sequential history of calls on a freshly constructed queue (one of pipe/q.Q, pipe/async.Q, pipe/mux.Q, pipe/mq.MQ, "
        "queue/syncq.SyncQueue, queue/priq.PriQueue) with the result of every call; a case is non-trivial when at least one item was handed out or "
        "at least one add was refused (full / closed); distinct = distinct Coq case term (configuration + calls + results). "
        "Constructor class: one case = one group of queues with the per-queue histories. Parallel PriQueue class: one case = one round (calls, results, tick ranks). Gated-priority PriQueue class: one case = one member (main sequence + the gated Push + the Pops beside it, results, tick ranks). "
        "Concurrent class: one case = one distinct round of 'add versus close' (1-3 adder goroutines x 1-3 adds, one goroutine Close + drain, final drain at quiescence; results with invocation/response ticks of one atomic counter replaced by ranks); "
        "identical rounds are evaluated once (rounds run / distinct / evaluated are in harness_meta.race_add_vs_close); at most 600 distinct ordinary rounds per queue type are evaluated in Coq (6000 thorough) plus EVERY round in which the harness found no witness or an item after closed-and-empty"
    ),
    "trusted": [
        "container/list, container/heap (contract: Pop returns a Less-minimum; shown to determine the result), github.com/eapache/queue ring buffer: list semantics, exercised but not modelled",
        "concurrent class: tick recording (one atomic counter, before the call / after it returned), the untrusted Go transcription of the sequential models used only to FIND the witness linearisation that Coq replays, de-duplication of identical rounds, the Go scheduler producing overlapping calls (no sleeps; rounds run under a 30 s watchdog)",
        "harness shadow count (accepted adds minus handed-out items, Close seen) deciding which calls are not issued because they would block; every call that can block runs under a 30 s watchdog and a call that never returns is an observed outcome the model never produces",
    ],
    "assumptions": [
        "every public method of the six queue types is one critical section on the queue's mutex (lint for the methods it can express; the remaining four methods by reading), so a concurrent execution is some sequential history of the calls",
        "calls that block (pop on an empty open queue, add-anyway on a full open queue) are outside this property's sequential exploration (C13 covers wake-ups); the model marks them RNotIssued",
        "PriQueue: fewer than 2^63 accepted pushes in a queue's lifetime (curSeq int64 does not wrap); items are non-nil",
    ],
    "lint": [
        {"file": "syncx/pipe/q/q.go", "recv": "Q", "methods": ["AddReq", "AddPriorReq", "Close", "pop"], "lock": "lock", "mode": "lock"},
        {"file": "syncx/pipe/async/q.go", "recv": "Q", "methods": ["Add", "AddPrior", "Close", "IsClosed", "pop"], "lock": "lock", "mode": "lock"},
        {"file": "syncx/pipe/mux/q.go", "recv": "Q", "methods": ["AddReq", "AddPriorReq", "Pop", "PopAnyway", "Close", "IsClosed"], "lock": "lock", "mode": "lock"},
        {"file": "syncx/pipe/mq/mq.go", "recv": "MQ",
         "methods": ["AddCtrl", "AddPriorCtrl", "AddReq", "AddPriorReq", "Pop", "PopAnyway", "Close", "TryClose", "TryClear", "IsClosed", "IsCleared"],
         "lock": "lock", "mode": "lock"},
        {"file": "queue/syncq/syncqueue.go", "recv": "SyncQueue", "methods": ["Push", "Len", "Close"], "lock": "lock", "mode": "lock"},
        {"file": "queue/priq/priority_queue.go", "recv": "PriQueue", "methods": ["Len"], "lock": "mu", "mode": "lock"},
    ],
}
