"""C16 stcp session: single exit, balanced count, flush before local close"""

CFG = {
    "check": "C16_Check",
    "props": ["C16_Props"],
    "chunk": 60,
    "level_text": (
        "Theorems in Coq over every label sequence of the composed machine (C16_Model.v: the manager's count, the accept "
        "loop with its maximum, any number of sessions each with send queue, both loops, exitOnce, connection, injected "
        "read/write faults, handler error/panic, peer close, reading or stalled peer): exit callback at most once; once "
        "either loop has stopped it ran exactly once and connection and queue are closed; at quiescence every "
        "terminating event has stopped both goroutines; the sessions' own steps are bounded by a measure; count = "
        "initial value + sessions not yet over (every exit returns exactly one unit, back to the previous value when "
        "all are over); count <= maximum for every accept-only history, surplus connections closed and never counted; "
        "flush before local close (only Sends - zero-length ones included - and Close issued, session closed => peer has read the concatenation of all accepted payloads; "
        "with a reading peer Close does end the session); peer bytes are always a prefix of the accepted bytes; nothing "
        "accepted after exit. The model is tied to the code on every run by real stcp Sessions over net.Pipe and "
        "loopback TCP behind a fault-injecting net.Conn and a real stcp.Server accept loop (maxConn 0..3): each "
        "scenario is replayed in the model inside Coq (case_accept: the resolved label sequence is a run, its external "
        "labels are the issued ones, it ends in a state where no session goroutine can move, and OnExit calls, "
        "conn.Close, goroutines per loop, handler bytes, peer bytes and ConnCount are exactly the model's); case_holds "
        "checks the property's clauses on issued labels and observations alone; case_sound is proved (accept => holds) "
        "from the invariants, not by construction."
    ),
    "level_note": (
        "Trusted: Coq kernel + vm_compute; hand model C16_Model.v (one label per critical section / runtime event: the "
        "queue operations are atomic under q.lock, quit is atomic under exitOnce, the accept test and Start's count.Inc "
        "happen in the one accepting goroutine before it accepts again - an internal label of that goroutine, distinct from the arrival of the connection); Go runtime semantics assumed as in DESIGN "
        "section 6: conn.Close unblocks a pending Read/Write and makes later ones fail, deadlines fire, deferred calls "
        "run on panic, sync.Once. Pop and Write of one payload are one label (the queue length is not observable). "
        "The moment quit reads s.rh and calls the exit callback is a step of its own (Pick) because the callback may run for a while before the count, the queue and the connection change (found by the thorough tier: UpdateHandler and accepted Sends can fall into that window). A peer that does not read is the label PeerPause. Error kinds (error / timeout / EOF / handler error / panic with any value incl. nil / Goexit: eight constructors of rkind, theorem c16_handler_end_kinds) take the same branch in the code and set the same "
        "flag in the model; they are distinguished in the generator only. Session.UpdateHandler is a plain store to s.rh read by both loops without synchronisation (a data race by the Go memory model when called after Start; the model takes the store as atomic and the exit callback as going to the handler in charge at the moment of the exit: theorems c16_exit_picks_current_handler, c16_exit_handler). The accept loop's error handling is modelled with its retry counter, give-up limit and Server.Close (labels AcceptFail / FdExhaust / FdRestore / SrvClose; theorems c16_temporary_error_below_limit, _at_limit, c16_accept_loop_ends_only, c16_loop_death_needs_retries); it is tied to the code by provoking genuine temporary errors of ln.Accept (EMFILE through a lowered RLIMIT_NOFILE and a filled descriptor table, public API only); the number of failed Accept calls is not observable, only bounded from above by elapsed time / configured back-off (every failure but the last is followed by a sleep of at least WithAccDelay), so 'the loop ended although fewer than acceptMaxRetry calls can have failed' is what the monitor can and does reject - an exact count would need a hook in /repo (a scripted net.Listener: Server.ln is private and only ever set by net.Listen). Not reachable through the public API and therefore not executed: the non-[]byte queue item branch of loopSend (Send only enqueues []byte), the 'error without Temporary()' branch of loopAccept (a *net.OpError always has it). echo.go is NOT covered: Echo/EchoMgr has no exit protocol of its own - no loops, no exit callback, the count is decremented only by the user's explicit ReleaseRef, Close is a bare conn.Close - so the clauses of this property (single exit, both goroutines stop, flush before close) have no counterpart in it; only Echo.Start's once-only count.Inc and the accept loop's bound through EchoMgr.ConnCount would apply, and the latter is the same loopAccept code exercised here through SessionMgr. A panic inside OnExit is outside the "
        "statement. A zero-length payload is popped and skipped by the send loop (repair 225387c; class empty-send); the "
        "flush theorem and the monitor's flush clause hold for all payloads, zero-length included (the accepted bytes "
        "are the concatenation). The pre-fix loop, which ended the session on a zero-length payload and lost what was "
        "queued behind it, is kept as the named variant sess_step_prefix / run_prefix with the witness "
        "c16_prefix_flush_refuted, and as selftest mutant empty_payload_quits.diff. The composed machine refines the "
        "prototype Accept.v (C16_Compose.v); the prototype Session.v is subsumed by the per-session part of "
        "C16_Model.v (same invariant, plus faults, peer and ghost history). The "
        "harness's own Go transcription of the model and its interleaving search are not trusted: Coq replays the "
        "sequence it proposes."
    ),
    "rule": (
        "one case = one scenario on real sessions (phases of back-to-back issued events, observation at quiescence after "
        "each phase); classes: one terminating event after 0..20 queued sends (8 events x pipe/TCP), every ordered pair "
        "of terminating events sequentially and racing in one burst, flush with 0..20 sends (burst / one by one / "
        "stalled peer that later reads), blocked write then each event, zero-length payloads between real ones, slow drain (50-65 queued sends, local Close, write timeout 800 ms, a peer reading one chunk every 40 ms so that the drain lasts 2-4 write timeouts while no write waits near one; net.Pipe and loopback TCP with every payload byte 8 KiB on the wire and 32 KiB socket buffers; a case is emitted only when the longest interval between peer reads and the latest 2 ms watchdog tick both stayed below a third of the write timeout, else retried up to 3 times and dropped, counted in harness_meta), concurrent Sends from 2-8 goroutines on one session in one to three rounds, then Close (small payloads, and large ones: every payload symbol is 8 or 32 KiB handed to Session.Send, 40 KiB-1.1 MiB per call, folded back by the peer; the calls are released by a spin barrier so that they overlap; the phase is marked concurrent and the order in which the calls took effect is read off the observation and checked in Coq to be a permutation of them), peer bytes written after the session is over (the handler must stay silent), a third of all scenarios with a connection whose Close closes and then returns an error, every way the read handler can unwind the receive loop, each deterministically on both transports (class handler-end: panic with a string / with nil - recover() answers nil under the go 1.19 semantics of the module - / with an error value / with a user type, runtime.Goexit), histories on one manager (a session ends with a write error while a payload is in hand, then a healthy session queues several equally sized payloads before its peer reads, then Close), an exit callback that takes 300 us in all racing classes and half of the walks (schedule perturbation only), Session.UpdateHandler before Start / after Start / twice / back to the manager's handler / after the exit / racing with the terminating event (class handler/*), a terminating event in the same burst as Start (start-race/*), the accept loop under genuine temporary Accept errors: back-off and recovery, giving up after acceptMaxRetry 1..8 failures, Server.Close with sessions alive (accept-errors/*; a scenario whose descriptor-table set-up cannot be verified is dropped and counted), session accessors Set/Get/SetRemoteAddr/Logger on every directly started session, several servers in one process (every accept scenario also starts one or two other stcp servers with different WithMaxConn / retry options before or after its own and leaves them idle: each server must go by the options it was started with), flush through the real accept path (class accept-flush: Server with the real SessionMgr as connection manager so that the accepted *net.TCPConn reaches SessionMgr.Do unwrapped, 80-110 Sends of 8-10 symbols of 32 KiB each - about 25 MiB, far beyond the socket buffers -, local Close, the peer starts to read only afterwards and must get every byte in order and then the end of the stream), one more byte from the peer AFTER the local Close and BEFORE the queue has drained (class close-then-peer-byte on net.Pipe and on loopback TCP with about 25 MiB queued, and every second accept-flush scenario: the peer does not read yet, the send loop is blocked with 64 KiB and more queued, the handler consumes the byte, then the peer reads and must get everything - a deterministic member of every run), the manager's own read and "
        "write deadlines firing, accept loop with maxConn 0..3 (random arrivals, surplus, exits, re-arrivals), several "
        "sessions on one manager, random walks with bursts; non-trivial = at least one session ended (OnExit observed) "
        "or one connection was closed on accept; distinct = distinct Coq case term"
    ),
    "trusted": [
        "fault-injecting net.Conn wrapper (passes through to net.Pipe / loopback TCP; on command makes the pending or next Read / Write return an error or an expired deadline; counts Close calls; over TCP it also offers CloseWrite like *net.TCPConn, so a half-close is not mistaken for a close; optional: Close returns an error after closing; optional byte amplification towards the wire for the slow-drain class)",
        "goroutine census by runtime.Stack: goroutines inside stcp.(*Session).loopSend / loopReceive keyed by the receiver pointer printed in the frame, parked = wait reason sync.Cond.Wait in q.pop / select in net.(*pipe) / IO wait; quiescence = every observed goroutine parked AND the observation equals a stable state the model predicts, polled with a 10 s upper bound (no sleeps as evidence)",
        "descriptor-table plug (fd.go): RLIMIT_NOFILE lowered and every free slot filled with /dev/null so that accept4 fails with EMFILE; each step verified by a dup that must fail; garbage collection is switched off while a server runs so that a finalizer cannot close a connection the accept loop merely dropped",
        "stcp.IConnMgr wrapper around the real SessionMgr that wraps the accepted connection before handing it to SessionMgr.Do",
    ],
    "assumptions": [
        "conn.Close unblocks a pending Read or Write of the same connection and makes later ones fail (net.Pipe and TCP; observed on every run)",
        "read and write deadlines fire (observed in class natural-timeout)",
        "deferred quit/recovery run when the read handler panics (Go defer/recover semantics)",
        "only the accept goroutine increments the count through SessionMgr.Do; exits only decrement, so the test-then-increment of the accept loop is one (internal) label Accept, separate from the client's Arrive",
        "the value returned by conn.Close is ignored by the session (as coded: it is only logged); a connection whose Close reports an error is closed nevertheless",
        "a panic inside the OnExit callback is outside the statement",
    ],
    "lint": [],
}
