"""C07 snowflake id codec: fields, date-string form and time ranges agree"""

CFG = {
    "check": "C07_Check",
    "props": ["C07_Props"],
    "chunk": 300,
    "level_text": (
        "Theorems in Coq over an executable model of idgen/snowflake/snowflake.go (C07_Model.v), for ALL ids, layouts, epochs and "
        "instants: split-then-recombine gives the id back with every field inside its width (all 2^63 non-negative ids, node widths "
        "8/9/10, node-at-lowest on/off; the recombination identity even for every integer id and width) and recombine-then-split gives "
        "the fields back; ids order exactly as their (timestamp, remaining bits) pairs; CnStyle yields 24 characters and FromChStyle "
        "returns the identical id for every non-negative id whose local year has four digits (calendar: all 146097 days of the "
        "400-year cycle swept by vm_compute and lifted to every era; decimal text; month normalisation of time.Date; int64 wraps "
        "shown absent); TimeBetweenID/TimeIDRange: an id lies in the interval iff its timestamp lies between the second-truncated "
        "endpoints, for every pair of instants whose offset from the epoch fits the timestamp width (complete / sound as the property "
        "words them, the exact interval, and adequacy of the monitor's four boundary ids). The guards are shown necessary (five-digit "
        "year, shift overflow) and the repaired UnixNano defect stays refuted. Proof is the right level: the quantifier is over 2^63 "
        "ids x all epochs x all instants; the code is pure shifts, masks, calendar and decimal arithmetic. The model is tied to the "
        "current source on every run by running the real IDFields/IDParse/IDParseEx/CnStyle/FromChStyle/TimeIDRange/TimeBetweenID "
        "under layouts set through VerifSetConfig and comparing every returned value inside Coq."),
    "level_note": (
        "case_sound is a real theorem proved through model_holds-style lemmas (accept = observed values equal the model's; holds = the "
        "property's clauses on the observed values; no model_matches && holds shortcut). Trusted: Coq kernel + vm_compute; the hand "
        "model of snowflake.go; Asia/Shanghai = constant +8 h for instants after 1991-09-15 (sampled against Go's tzdata on every run, "
        "CZone cases); Go's time.Date / time.Unix / Time.UnixMilli / fmt %0Nd / strconv.Atoi re-modelled (civil calendar, month "
        "normalisation, decimal digits, Atoi fast path with sign) and compared on every run, including malformed and out-of-range "
        "date strings. Outside the model: node widths other than 8/9/10 (not reachable through Setup), instants before 1991-09-16 "
        "(variable zone offset), |epoch| >= 2^62 ms. No axioms, nothing PENDING. Setup is modelled as it is (C07_Model.setup_from): starts from the current globals, UseEpoch = floor of the instant to the ms, every UseNodeMode value other than 8/9 means 10, NodeAtLowest only switches on; theorems: the result is always one of the three layouts (c07_setup_layout), a configuration of the quantifier for epochs from 2000 on (c07_setup_from_valid), composition and stickiness. The held and par classes need no new model behaviour: the model is a function of (configuration, argument), so a kept result that later reads differently, or a result that depends on what other goroutines convert, fails case_accept and (inside the quantifier) case_holds of the existing CCn/CFields cases; detection of a data race is probabilistic, soundness is not (no verdict depends on the schedule on correct code)."),
    "rule": (
        "one case = one call (or one pair of calls) of the real functions under one layout: fields (IDFields+IDParse+IDParseEx of an id), "
        "order (IDFields of two ids), cn (CnStyle then FromChStyle), from (FromChStyle of a mutated / malformed date string), range / "
        "between (TimeIDRange / TimeBetweenID plus IDParse of probe ids around both ends), zone (offset Go reports for an instant). "
        "A case is non-trivial when it lies inside the property's quantifier, so that case_holds is not vacuous: node bits 8/9/10, "
        "epoch >= 2000-01-01 (+08), id >= 0; for cn additionally local year <= 9999; for range/between begin <= end and both second-truncated "
        "offsets from the epoch are values of the timestamp field (0 <= off < 2^(63-shift)); the monitor reads the range clause literally: "
        "ids stamped bs..es inside, ids stamped before bs or from es+1000 on outside, ids stamped es+1..es+999 left open. distinct = distinct Coq terms. Two further classes treat the codec as the pure functions the property specifies (same case constructors, so the same accept/holds): held = a whole batch of ids is rendered with CnStyle first, the strings are kept, and only afterwards each kept string is read again (its bytes as they read AFTER the batch go into the case) and decoded with FromChStyle; par = 8 goroutines behind a spin barrier each convert their own ids (own seconds, runs of 1..8 ids per second, 150000 iterations each in the quick tier) through CnStyle/FromChStyle/IDFields/IDParse/IDParseEx; the first observation per id and every observation that differs from it are emitted (totals in harness_meta.parallel). A differing value is a violation under every schedule because the functions are specified as pure; nothing is inferred from timing. The range classes read TimeIDRange/TimeBetweenID as functions of the INSTANT (the quantifier says 'all begin <= end instants'; the Shanghai zone is named only for the date-string form): the endpoints are handed over as time.Time values in several Locations (Local, UTC, Asia/Shanghai, America/New_York, Europe/Berlin, Australia/Lord_Howe, America/St_Johns, Asia/Kathmandu; embedded time/tzdata), and classes dst-fold / dst-gap put endpoints inside both passes of the repeated hour of a fall-back and next to the skipped hour of a spring-forward (transitions found on Go's zone data by bisection); the case still carries only the instant in ns, the Location is in the description and the replay argument. Deterministic calendar members of every run (class calendar-corpus, ~790 ids + fields for a third of them): Feb 28 / Feb 29 / Mar 1 of 2000, 2004, 2100, 2400, Dec 31 / Jan 1 and every month end of those years, each with 23:59:59.999 and 00:00:00.000 in Asia/Shanghai, under the epochs 2000-01-01, 2000-02-01, 2000-02-28, the default and later ones that put the instant inside the timestamp width, rotating through the six layouts. Configurations: the default, year-2000 and special epochs always and the random ones half of the time (24 of 30 in the quick tier) are set through the PUBLIC API Setup(UseEpoch(t), UseNodeMode(m), NodeAtLowest()) - the hook only puts the three globals into a start state (package defaults, or an earlier configuration: Setup is cumulative); the case then carries (start, option list) and the configuration of EVERY class is the Coq term `setup_from start options`, so the behaviour Setup really produced is compared with the model of Setup (decoy options that a later one overrides, values that are no node mode, sub-millisecond epoch instants). setup = the configuration read back through behaviour (IDParse 0, IDFields -1, IDFields 1) incl. option values outside the quantifier (epoch 1970, before 1970, 1900; node modes 0..255)."),
    "trusted": [
        "snowflake.VerifSetConfig hook (sets _epoch/_nodeBits/_nodeAtLowest: the whole configuration for the hook-configured cases, only the start state and the restore for the Setup-configured ones)",
        "zone data of Asia/Shanghai: constant offset +8 h after 1991-09-15 (assumption of the model, sampled on every run)",
        "Go time.Date / time.Unix / UnixMilli / fmt.Sprintf(%0Nd) / strconv.Atoi re-modelled in Gallina and compared on every run",
    ],
    "assumptions": [
        "timeLoc (Asia/Shanghai) has the constant offset +8 h for every instant from 1991-09-16 on (checked against Go's tzdata by the CZone cases of every run)",
        "the layout is one Setup can configure: node bits 8, 9 or 10 (VerifSetConfig could set others; they are outside the property)",
        "an instant handed to TimeIDRange/TimeBetweenID is a time.Time whose Unix() is the floor of the instant to the second, whatever Location it carries (the range functions are functions of the instant)",
    ],
    "lint": [],
}
