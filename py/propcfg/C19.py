"""C19 vcode: a sent code verifies once-correct, attempts and sends are bounded"""

CFG = {
    "check": "C19_Check",
    "props": ["C19_Props"],
    "level_text": (
        "Theorems in Coq 8.16 over an executable model of vcode.sender (SendSMSCode / VerifySMSCode, the mock code rule, "
        "the LRU cache it owns with Peek / Get / Set and eviction, time.Sub saturation) and of random.genNonceStr, for every "
        "configuration (all cache sizes, code lengths, limits, lifetimes and intervals, mock and real sender), every history "
        "of sends and verifications over any set of pairs with any clock readings, drawn codes, hashes and SMS gateway answers: "
        "model_holds (the model's state is exactly what the history says: last send, attempts since, running window), and from it "
        "verify-after-send, only-the-last-sent-code-and-hash-verify, attempt bound, a send resets the attempts, minimum interval, "
        "window limit, send counter and cache size invariants, key injectivity, mock / generated code length and alphabet, "
        "every alphabet character (every string) reachable, and the two pre-repair behaviours refuted. The model is tied to the "
        "current source on every run: generated histories (classes random, attempts, window, lru, collide, reject, timed-*) run "
        "through the real service with a recording SMS sender, the real nonce generator runs with a scripted draw function that "
        "records the bound it is asked, and Coq evaluates on every observed case that it is exactly a behaviour of the model "
        "(case_accept) and satisfies the monitor (case_holds). Proof is the right level: the clauses quantify over unboundedly many "
        "guess sequences and send/verify interleavings; the code is ~150 lines of pure bookkeeping over a map."
    ),
    "level_note": (
        "case_sound is a real theorem (case_accept = the history is a behaviour of the model; model_holds proves every such history "
        "satisfies the monitor). The monitor is strict when the history touches no more pairs than CacheSize (nothing evicted); "
        "with evictions it only demands that a verification answers as the history says or not-exist, and leaves sends to the "
        "correspondence check (the property text does not speak about the cache size). Pairs are identified by the service's own key "
        "area-phone; key_injective shows this is the pair whenever area codes contain no '-' (the collision "
        "('1-2','3') = ('1','2-3') exists and is modelled as coded). The window limit is as coded: the test is count > MaxCount, so "
        "MaxCount + 1 sends fit into one window (DESIGN section 8, not claimed as a finding). The real clock: all classes but timed-* "
        "use durations below zero / zero / at least 1000 h, timed-* cross one 60 ms duration by sleeping and are kept only when the "
        "measured timing was unambiguous (margin D/10) - never a load-dependent verdict; exact-boundary comparisons (elapsed == "
        "duration) are covered by the theorems only. 'Every character can occur' is a theorem about the generator with in-range "
        "draws (nonce_reaches_all / nonce_reaches_every_string) + the observed bound len(alphabet) + a sample of 2 x 200 real codes "
        "in which all ten digits must occur (probability of a false alarm below 1e-35). Trusted: Coq kernel + vm_compute; the hand "
        "model; the harness (recording sender, hash interning, time stamps taken just before each call); math/rand, crypto/rand, "
        "satori uuid + md5 (hash treated as an opaque fresh value). Concurrency of one sender instance is not part of C19 (the type "
        "has no lock; the property speaks of sequences). Long histories (classes long-attempts, long-sends) are emitted in run-length "
        "form - (n, item) = n consecutive identical calls with identical observations, time stamp of the first, and for consecutive "
        "mock-mode sends that all went out the last returned hash - and evaluated by the one-pass monitor holds_fast (proved equal to "
        "holds); the correspondence thereby also exercises counts beyond 2^8 and 2^16 (65536 / 70000 / 131075 further attempts against "
        "one sent code, 65536 refused sends, a window of >= 65536 sends filled and overrun); the attempt bound itself is a theorem for "
        "every number of attempts (the model's counters are unbounded integers). Class codelen and the nonce runs also put the configured "
        "length at and around 32, 64, 128, 256, 1024, 4096 and random lengths up to 6000 (real sender and VerifGenNonceStr; lengths 33, 65, "
        "4096 on every run): the code handed to the sender must have exactly that length over the digits and equal the model's pick from the "
        "draws, exactly that code verifies and the empty / shorter / longer / changed one does not; the model and the theorems "
        "(nonce_length, valid_code_iff_generated, mock_code_length) are for every length. Class cfgvalues runs the limits and durations at "
        "the ends of int / int64 (the model is in Z: nothing wraps in it, and the unchanged code does no arithmetic on the limits, so "
        "MaxVerifyCount = MaxInt is 'unlimited' and MinInt 'nothing allowed'); timed-ttl-refused checks that the lifetime runs from the "
        "send that went out (verify_after_send / verify_ok_only_if speak of last_send, which refused sends do not change)."
    ),
    "rule": (
        "a history case = one fresh service instance + one generated sequence of SendSMSCode / VerifySMSCode calls (6-30 calls, 1-5 "
        "pairs) with the verifier's code / hash derived from what was observed (right, stale, mutated, longer, shorter, empty, another "
        "pair's, literal, and structured near-misses: hash upper-cased / mixed case / with a space, newline, 0x prefix / doubled; code "
        "with a leading zero dropped or added, a sign, full-width digits, trailing newline or space - all of them once against one sent code in two corpus histories on every run); non-trivial when it verifies a pair to which a send went out earlier; cfgvalues histories put MaxVerifyCount / MaxCount / CacheSize / the durations at 0, +-1, MaxInt, MaxInt-1, MinInt, 2^31+-1, MaxInt64 ns (MaxInt, MaxInt-1, MinInt, 2^31 on every run); timed-ttl-refused histories have 0 < TTL < MinInterval with refused sends between the send and verifications clearly before / clearly after the ORIGINAL deadline; codelen histories put CodeLen at buffer boundaries (31..33, 63..65, 127..129, 255..257, 1000..6000); long-* histories repeat one call up to 131075 times (run-length form); a nonce case = one VerifGenNonceStr run "
        "with scripted draws, non-trivial when length > 0 and the alphabet is non-empty; a sample case = 200 codes from the real "
        "generator; distinct = distinct generator script"
    ),
    "trusted": [
        "recording SMS sender (fake smsModule) and the harness's own bookkeeping of the last code / hash per pair (only used to choose verifier arguments; the Coq model decides what is right)",
        "hash strings interned to numbers (equal strings = equal numbers, \"\" = 0): the hash is an opaque value to the property",
        "time stamps: time.Since(start) read just before each call stands for the service's own time.Now() in that call (sound for the always/never duration regimes; for timed-* cases checked per case from before/after stamps)",
        "errors mapped to a small enum with errors.Is against the package's exported error values",
    ],
    "assumptions": [
        "time.Time.Sub semantics: monotonic difference, saturating at +-(2^63-1) ns; now.Sub(zero Time) is the maximal duration",
        "cache.LRUCache Get/Peek/Set behave as the LRU list of C19_Model.v for values of Size 1 (observed on every run through small caches; C04 proves the LRU itself)",
        "math/rand.Intn(n) returns a number in [0, n) (the scripted draw function of the harness does; the real one is sampled)",
        "one goroutine per sender instance (the property is about sequences; sender has no lock)",
    ],
    "lint": [],
    "chunk": 100,
}
