"""C09 bitmap1024: serialisation and block-integer mapping round-trip"""

CFG = {
    "check": "C09_Check",
    "props": ["C09_Props"],
    "level_text": (
        "Theorems in Coq 8.16 over ALL inputs (unbounded): for every well-formed bitmap Unmarshal(Marshal(b)) into a fresh "
        "bitmap is b again, in both encodings, with the form fixed by the member count (c09_marshal_unmarshal, c09_marshal_form); "
        "for every byte string of every length Unmarshal never panics, refuses exactly the strings that denote nothing and "
        "otherwise yields a well-formed bitmap with exactly the denoted members (c09_unmarshal_total, c09_member_ext); the 16-word "
        "iteration returns the first n members ascending / descending for every count and offset (c09_iter1024); a BigU32 built "
        "from any int64 in [0, (2^32-1)*1024) iterates back exactly that integer in both directions and every other int64 is "
        "refused (c09_big_build), accepts a further integer exactly when it is in range and in the block (c09_big_accepts), "
        "forward iteration is strictly ascending and reverse strictly descending over exactly the block's integers "
        "(c09_big_iteration, c09_big_model_holds); the same for U32BitTip over all of uint32 (c09_tip_*); the list forms are the "
        "per-block iterations concatenated in the coded block order and truncated (c09_lists_concat); both pre-fix behaviours "
        "are refuted (c09_prefix_refuted). The hand-written model (C09_Model.v, branch for branch after bit1024.go:108-159, "
        "bigu32.go, u32bittip.go) is tied to the source on every run by a differential check: the Go harness runs the real "
        "Marshal/Unmarshal/NewBigU32FromData/NewU32BitTipFromData/NewBigU32FromI64/SetI64/GetNAsI64/RGetNAsI64/"
        "NewU32BitTipFromU32/SetU32/GetNAsU32/RGetNAsU32 and both list types on generated inputs, and Coq evaluates "
        "case_accept (= every observable equals what the model computes) and case_holds (the property's clauses on the "
        "observation alone) with vm_compute; case_sound (accept -> holds) is proved through model-satisfies-monitor lemmas for "
        "all six kinds of case, not assumed."
    ),
    "level_note": (
        "Trusted: Coq kernel + vm_compute; the hand model tied by this run's correspondence; the Go harness (generators, recover "
        "wrappers, printing of case terms). No axioms; case_accept is pure correspondence (no '&& holds' fallback). Left out / "
        "abstracted: the traversal of ONE 64-bit word (table scan above sparseMagic members, ctz/clz loop below) is written in "
        "C09_Model.v by its result 'the first n set positions in the direction'; c09_iterators_c08 proves, through C08's "
        "iter64_spec / iter1024_spec (C08_Iter.v), that C08's loop-by-loop model of Bit64.IterAsT / RIterAsT and of the Bit1024 "
        "chain writes exactly this list - both directions, every element type, every threshold (c09_word_iter_forward is the "
        "older forward-only bridge to Bit64.v); the 16-word loop and the list loop over blocks are also modelled and proved "
        "here (one shared iter_loop lemma). The four Reverse methods are modelled (block_reverse: same Start, "
        "every word complemented on 64 bits, receiver untouched) with c09_reverse; the cases check freshness by re-reading "
        "each side after the other was modified. Concurrency: the property's functions are pure functions of receiver and "
        "arguments; the 'conc' class runs them from 8 goroutines on goroutine-owned values and every divergent observation "
        "is an ordinary case (an interleaving-dependent defect such as shared scratch state is found by repetition, not by "
        "proof - the model has no notion of shared state). Errors are compared as error / no error (the "
        "message text is not an observable of the property); nil and the empty slice are not distinguished; after a refused "
        "Unmarshal the partially filled receiver is not compared. Negative iteration counts panic in make([]T, n) (model: Panic; "
        "the monitor puts no requirement there). Bit1024.Unmarshal into a NON-fresh bitmap (sparse form ORs into it) is outside "
        "the property and not exercised. The reverse list form's block order differs between BigU32s (first to last) and "
        "U32BitTips (last to first): modelled as coded, the monitor accepts either order (DESIGN section 8). Struct literals with "
        "Start > MaxU32TipStart (uint32 wrap in U32BitTip iteration) are modelled (u32 wrap) but c09_tip_order carries the guard "
        "start <= MaxU32TipStart, which both constructors establish."
    ),
    "rule": (
        "six kinds of case, each one run of the real code: marshal = Marshal + Unmarshal into a fresh bitmap (non-trivial: at "
        "least one member); unmarshal = arbitrary bytes through Bit1024.Unmarshal / NewBigU32FromData / NewU32BitTipFromData "
        "(non-trivial: non-empty string); big / tip = constructor from an integer, 0..12 further integers offered, Start, "
        "forward and reverse iteration with one count (non-trivial: integer accepted and count > 0); bigs / tips = list of 0..5 "
        "blocks, per-block and list iterations (non-trivial: at least two blocks, a member, count > 0); topbit = the same four "
        "block entry points on words of 9/10/11/33/64 members including bits 63 and 0, in word 0 / 7 / 15, counts below / at / "
        "above what reaches the word, under sparseMagic 9, 0 and 64; conc = marshal round trips and block / list calls made by "
        "8 goroutines at once on goroutine-owned values (every observation differing from the single-threaded one, plus the "
        "last observation of every goroutine); rev = BigU32.Reverse / U32BitTip.Reverse of a block with 0..1024 members: result Start and words, receiver re-read, "
        "Equal(receiver, result) and Equal(receiver, rebuilt receiver), result.B1024.GetNAsI16(n), an integer offered to the "
        "RESULT then the receiver re-read, an integer offered to the RECEIVER then the result re-read, further integers offered "
        "to the result, its forward / reverse iteration (non-trivial: receiver neither empty nor full); revs = BigU32s.Reverse / "
        "U32BitTips.Reverse of 0..4 blocks: result (Start, words) per element, then every result element modified and the "
        "receivers re-read; dense = BigU32s / U32BitTips of 1..4 FULL or nearly full blocks (1024, 1023, 1022, 1021 members; built by "
        "Reverse, by the 128-byte payload or by 1024 sets) at Starts 0, 2^22-1, 2^22, 2^30, max, with counts 1023..5000 and "
        "total-1 / total / total+1, forward and reverse, each answer in compact form (count, first 3, last 3, sum, "
        "position-weighted sum) compared with the compact form of the model's answer; "
        "distinct = distinct Coq case term (inputs and observations) plus threshold / goroutine"
    ),
    "trusted": [
        "per-word traversal Bit64.IterAs*/RIterAs* abstracted to 'first n set positions in the direction' (proved for the forward direction in C08's Bit64.v; observed here through every iteration result)",
        "Go harness cmd/c09: generators, recover wrappers, mapping of error values to error/no-error, printing of observations as Coq terms",
    ],
    "assumptions": [
        "a Bit1024 handed to the anchored code has 16 words (NewBit1024; every constructor of the block types establishes it)",
        "encoding/binary.LittleEndian PutUint16/Uint16/PutUint64/Uint64 are the little-endian codecs of LE.v (observed on every marshal/unmarshal case)",
        "math/bits.OnesCount64 counts set bits (Bit64.Len), observed through the choice of encoding on every marshal case",
    ],
    "lint": [],
    "chunk": 200,
}
