"""C05 TTL cache: never serves expired/removed data, one-shot reads, bounded"""

CFG = {
    "check": "C05_Check",
    "props": ["C05_Props"],
    "chunk": 120,
    "level_text": (
        "Theorems in Coq (8.16, no axioms) over a hand-written model of cache/ttlmem.go (every branch of set/get/Remove/Clear, "
        "int64 wrap of now()+ttl) and of cache/ttlrds.go (the command each method sends through go-redis' own argument building, "
        "reply decoding, over a modelled redis): for EVERY size, default ttl and history inside the int64 domain the cache's trace "
        "satisfies a specification monitor that is an unbounded ideal TTL map plus the touch order (a hit returns the latest Set's "
        "value and only for a key not removed/cleared/consumed/elapsed; already-exists only for such a key; a miss on such a key "
        "only after `size` other distinct keys were touched more recently) - c05_model_satisfies_monitor, by a simulation invariant "
        "kept by every step (c05_step_sim); Get = the retrievable view, elapsed = never set for every operation, one-shot reads, "
        "Remove/Clear, at most max(0,size) entries after every history, the LRU guarantee, and agreement of the redis-backed model "
        "with the in-memory one on every restricted history (c05_rds_agrees, hence c05_rds_satisfies_monitor); which deadline governs "
        "a key after Set / keep-ttl / update-ttl at every later clock reading; the frame of Set up to the one evicted key. "
        "The models are tied to the current source on every "
        "run by a differential check: generated histories (exhaustive deadline-1/0/+1 x operation-kind scripts, random histories "
        "with clock jumps onto deadlines, LRU pressure, out-of-domain ttls/sizes/clocks, goroutines racing on one key of the memory "
        "cache, goroutines hammering Remove / Remove+Set on one key followed at quiescence by a deterministic history (c05_hammer_collapses), "
        "a redis shared with many foreign keys whose SCAN pages like redis (COUNT raw keys, MATCH afterwards, empty pages), callers racing on one key of the redis adapter with their commands interleaved by the fake) run on the "
        "real caches under a virtual clock, a real go-redis client whose process hook interprets the actual command stream, and "
        "Coq evaluates case_accept / case_holds on every observed case. Proof is the right level: the quantifier is over "
        "unboundedly many histories and clock positions; the code is two small sequential state machines."
    ),
    "level_note": (
        "case_sound is a real theorem (accept -> holds through the simulation and through c05_rds_agrees), not the accept:=matches&&holds "
        "fallback. Guards stated in the theorems: clock readings are int64 values and now+ttl does not overflow (outside this domain "
        "the monitor is not evaluated; the model still follows Go's wrapping and is compared by case_accept); redis agreement needs "
        "0 < ttl <= 9223372036 (nanosecond count fits int64). Not modelled: the value returned together with a not-found error, "
        "caller-side writes into a slice after Set returned (the code retains the caller's slice and hands out its internal slice, so they show through by construction; the harness hands over aliased slices - a Get result stored under another key, one payload for several keys, sub-slices of one arena - but never writes into them, so only the cache's own writes can change a value), real redis (a model of the seven commands is trusted; its clock has second resolution), "
        "redis' own hash-table iteration order (the fake pages in a fixed pseudo-random order). Concurrency: every public method of ttlMemCache is one critical section (lint, checked on every run), so the "
        "sequential theorems over histories are the concurrent ones; racing goroutines are additionally observed and replayed in a witness order "
        "(found by the untrusted Go reference, checked by Coq). The redis adapter's remove-after-get is one GETDEL; its update-ttl is GET followed by "
        "EXPIRE (two commands, not atomic - outside the racing clause of the property, which names remove-after-get; not raced by the harness). "
        "The size-0 pre-fix defect is kept as a rejected trace, not as a variant model."
    ),
    "rule": (
        "one case = one history (6-36 operations over <= 6 keys, clock reading per operation) run on the real cache(s); "
        "memory case non-trivial = at least one Get hit and at least one Get miss on a previously set key or one already-exists; "
        "redis case non-trivial = the history is in the restricted class (harness-side ledger) and has a hit and a miss/already-exists "
        "(redis-only racing case: restricted, a hit, at least two racing callers; bystander case = a second cache with another prefix on the "
        "same redis sets a key before and reads it after the history, non-trivial when the cache under test was cleared in between); "
        "distinct = distinct Coq case term (history + observed results [+ command stream])"
    ),
    "trusted": [
        "hand models TTL.v/C05_Hist.v (memory) and C05_Rds.v (adapter + redis commands SET[NX|PX|EX|KEEPTTL]/SETNX/GET/GETDEL/EXPIRE/DEL/SCAN), tied by the correspondence check",
        "fake redis in harness/cmd/c05/fake.go (same semantics as C05_Rds.rexec; interprets the argument vectors of a real go-redis v9 client through a process hook)",
        "verif hook cache.VerifSetNow (virtual clock); Go reference model in harness/cmd/c05/ref.go is NOT trusted (only orders racing steps and labels cases)",
        "lock-discipline lint for ttlMemCache.{Set,Get,Remove,Clear}",
    ],
    "assumptions": [
        "every public method of ttlMemCache holds the embedded mutex for its whole body (lint on every run)",
        "the clock source returns one value per method call (virtual clock in the harness; time.Now().Unix() in production can tick between the two now() calls of set, which only moves the deadline by that tick)",
        "redis behaves as modelled in C05_Rds.rexec for a non-decreasing clock with second resolution; GETDEL is atomic",
        "clock readings and now+ttl fit int64 (guard of the monitor); for the redis clause 0 < ttl <= 9223372036",
    ],
    "lint": [
        {"file": "cache/ttlmem.go", "recv": "ttlMemCache", "methods": ["Set", "Get", "Remove", "Clear"], "lock": "", "mode": "lock"},
    ],
}
