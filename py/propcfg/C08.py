"""C08 bitmap1024: set algebra and ordered, bounded iteration"""

CFG = {
    "check": "C08_Check",
    "props": ["C08_Props"],
    "level_text": (
        "Theorems in Coq over every 64-bit word / every 16-word bitmap (all 2^1024), every n (negative, 0, <, =, > Len), "
        "every pos / add / slice, the five element types with their wrap-around, both directions and EVERY value of the "
        "sparse threshold: each Bit64 and Bit1024 iterator equals the specification `spec_iter` (the first min(max n 0, Len) "
        "members, ascending or descending, each norm ty (m + add), spliced into the slice at pos, count returned; Panic exactly "
        "when they do not fit), hence is independent of sparseMagic; GetN wrappers; Len/NLen = number of members / non-members; "
        "Set/Unset (int32 and int16, truncating / and %, byte conversion) change exactly the addressed member and nothing when "
        "out of range; And/Or/Reverse/OrThenReverse/Equal are intersection, union, complement, complement of union, equality. "
        "The hand model mirrors the Go loops statement by statement (dense scan with progressive clearing and early exit, "
        "find-first-set loop with ctz / log2, cursor/left/iterN chaining) and is tied to the source on every run by calling all "
        "32 iterator/GetN functions and all set operations of the real package on generated inputs, every Bit64 iterator input "
        "under a threshold on each side of its popcount (VerifSetSparseMagic), and comparing slice contents, counts, panics and "
        "result words inside Coq. Proof is the right level: correctness depends on which of 2^64 words meets which of twenty "
        "hand-copied loop bodies - a per-input guarantee over a space no enumeration reaches."
    ),
    "level_note": (
        "Results are fresh values: program cases (CProg) are accepted only when every pool member after every step equals the "
        "model in which each result is an independent value; prog_sound proves those observations satisfy the boolean-array "
        "specification for every program (c08_prog_sound, c08_fresh_values). "
        "Independent bitmaps used from different goroutines: class par/* (no new Coq - its observations are ordinary "
        "CGet/CIter/CBin/CReverse/CLen cases); the sequential theorems apply because the instances share no state by contract. "
        "case_sound is proved through the model theorems (accept = 'observed = model output', holds = 'observed = specification', "
        "no conjunction trick). Trusted: Coq kernel + vm_compute; the hand model C08_Model.v (+ BitSet.v set_i32/unset_i32/band/bor/"
        "brev/bequal); math/bits.TrailingZeros64 / Len64 / OnesCount64 modelled as ctz / N.log2 / popcount on the binary "
        "representation (c08_pick_find, popcount_filter relate them to the member list); Go slice indexing panics exactly when the "
        "index is outside [0, len); integer conversions T(i)+add wrap modulo 2^bits. 64-bit literals in the generated case files are spelled with the "
        "byte constructors of Coq.Init.Byte (C08_Lit.v: wb/zp/zn, axiom-free; number notations cost ~1 ms per 64-bit numeral). Not claimed: a Bit1024 whose slice does not have 16 words (NewBit1024 always makes 16); "
        "concurrent mutation of one bitmap (the package has no synchronisation and the property does not speak of it)."
    ),
    "rule": (
        "one case = one call of one exported function on the real package (Bit64: 10 iterators, 8 GetN, Set/Unset/And/Or/Reverse/"
        "Len/NLen/Full; Bit1024: 8 iterators, 6 GetN, SetI32/UnsetI32/SetI16/UnsetI16, Len/NLen, Reverse/And/Or/OrThenReverse/Equal); "
        "class prog/* = one PROGRAM over a pool of bitmaps (C08_Prog.v): NewBit1024 / literal bitmaps, And/Or/OrThenReverse/Reverse "
        "results stored as returned (new pool members, never copied), later SetI32/UnsetI32/SetI16/UnsetI16 of any member (results "
        "and operands), every pool member re-read after every step and compared with independent boolean arrays; prog/alias forces "
        "empty intersections (disjoint operands), x op x, an empty operand (result equal to the other operand), mutates the result, "
        "repeats the same kind of operation on other operands, then mutates operands and both results; "
        "class par/* = private instances in parallel: 2*GOMAXPROCS (16..32) goroutines behind a spin barrier (atomic counter, no "
        "sleeps), each with its OWN bitmaps (distinct contents), 40 000 iterations (300 000 thorough) of 12 value-returning calls "
        "(GetNAs*/RGetNAs*, Iter*/RIter*, And/Or/OrThenReverse/Reverse, Len/NLen); each result is compared in Go with the first "
        "result of the same call in that goroutine and every DISTINCT observation per (goroutine, call) is emitted as an ordinary "
        "case decided by Coq; instances share nothing by contract, so any second observation is a violation under every schedule; "
        "boundary stream over n for EVERY Iter*/RIter*/GetN*/RGetN* entry point and width: n in {32767, 32768, 65535, 65536, 65539, "
        "2^20, 2^31-1, 2^31, 2^32+5, MaxInt64, -1, -32768, -32769, -65536, MinInt32, MinInt64} (GetN: up to 65539, it allocates n) "
        "with the slice sized pos+min(n,Len) exactly and with slack (the random geometry also has pos+n sizing), huge pos; "
        "Equal on structured pairs: the same bit in 2/4/8/16 words (bit 63 twice ...), a word difference and its arithmetic "
        "negative, the same difference twice, one flip, equal, random; "
        "iterator / GetN cases are non-trivial when the bitmap has at least one member, every other case always; "
        "distinct = distinct (function, inputs incl. sparse threshold, observed outcome)"
    ),
    "trusted": [
        "hook bitmap1024.VerifSetSparseMagic (zz_verif.go, build tag verif) forwards to internal.SetSparseMagic",
        "math/bits (TrailingZeros64, Len64, OnesCount64) and Go slice bounds checks behave as documented",
        "C08_Lit.v wb/zp/zn: little-endian byte spelling of 64-bit literals in generated case files (plain Gallina, no axioms)",
    ],
    "assumptions": [
        "a Bit1024 value has exactly 16 words (NewBit1024); words are uint64",
        "slice index out of range and make with a negative length are Go panics (recovered and reported as Panic)",
        "sparseMagic is only changed through SetSparseMagic (an int32); the theorems hold for every value of it",
    ],
    "lint": [],
    "chunk": 1100,
}
