"""C06 id generators: unique, strictly increasing under any clock history"""

CFG = {
    "check": "C06_Check",
    "props": ["C06_Props"],
    "chunk": 24,
    "level_text": (
        "Theorems in Coq 8.16 over an exact model of HardNode.Generate / NewNode / IDFields / MonoNode.Generate / "
        "UnixNanoID.GenIDByTS (Z with explicit int64 wrap, both node positions, node widths as a variable, any epoch): "
        "for EVERY sequence of clock readings (stalled, set back, far ahead, any number of 4096-wraps), every node number, "
        "every restart point and every schedule of callers the ids are pairwise distinct and strictly increasing, a node "
        "restarted with its last id continues exactly where it stopped, no id carries a timestamp before the clock reading "
        "of its call and IDFields returns the configured node. The quantifier is over unboundedly many histories and "
        "schedules, so proof is the right level; the model is tied to the current source on every run by driving the real "
        "generators with scripted clocks (verif hook) / the real monotonic clock and comparing every id and every IDFields "
        "triple inside Coq (case_accept), while case_holds evaluates the property's clauses on the observed ids alone."
    ),
    "level_note": (
        "Trusted: Coq kernel + vm_compute; hand-written model C06_Model.v tied by the correspondence run; the lint's claim "
        "that Generate / GenIDByTS are one critical section each (then a concurrent execution is the sequence of critical "
        "sections in lock order, which c06_hard_any_schedule / c06_nano_any_schedule quantify over); for concurrent HardNode cases "
        "the clock hook yields inside Generate (schedule forcing) so that an unprotected read-modify-write shows up as a duplicate id; "
        "the harness' lock-order witness is checked "
        "by Coq (linearize), not trusted; transport encoding of case terms as differences (decoded in Coq). "
        "The only guard of the theorems is the 63-bit format (hard_dom: time below 2^(63-timeShift); nano_dom: below 2^63); "
        "outside it the model still matches the code bit for bit (wrap64) and the monitor abstains. "
        "MonoNode: its clock cannot be injected, so case_accept replays the model on the readings the ids carry and requires "
        "them non-decreasing (Go's monotonic clock: assumption); case_holds for MonoNode is unguarded (strict increase + node "
        "field). case_sound is proved through model_holds lemmas (not by conjunction). "
        "The concurrent clause for MonoNode is covered by the sequential theorem over all reading "
        "sequences plus the lint. Setup is modelled (fold of the three options) with the theorem that every reachable layout has "
        "node width 8, 9 or 10. No -race run is part of the check "
        "(the driver builds without -race); concurrent callers are exercised natively with up to 16 (quick) / 64 (thorough) goroutines."
    ),
    "rule": (
        "one case = one generator instance driven through one history: HardNode with a scripted wall clock (all six layouts, "
        "epochs incl. 0 / negative / after 2262, nodes 0/1/max/random, restart ids: 0, last issued id (chains), seeded just below "
        "the step wrap, arbitrary int64), 1..64 callers; MonoNode on the real monotonic clock (tight / yielding / napping callers, "
        "9000-call tight loops that cross the 4096 wrap); UnixNanoID and UnixNanoNoLockID with supplied timestamps and with GenID; "
        "Setup with random option lists probed through IDParse / IDFields; stress runs of EVERY public generating entry point "
        "(UnixNanoID.GenID, GenIDByTS with real / frozen ts, HardNode.Generate with frozen / real clock, MonoNode.Generate): 8-32 callers "
        "released from a barrier, 160 000-320 000 calls per run, restart point ahead of and behind the clock, scanned completely by the "
        "harness; Coq gets a sample that always contains the neighbourhood of the first duplicates / regressions and evaluates the "
        "order-free clauses (pairwise distinct, per caller increasing, above the restart point); one source-audit case for the nano entry points. "
        "Non-trivial = the generator was constructed, at least two ids were issued and the history lies inside the representable "
        "range (so every clause of case_holds is actually evaluated; for Setup: at least one option); distinct = distinct Coq term"
    ),
    "trusted": [
        "verif hooks snowflake.VerifSetNow / VerifSetConfig (zz_verif.go); the scripted clock hands out readings in the order the hook is called (under the node mutex)",
        "time.UnixMilli(ms).UnixMilli() == ms for every int64 (Go runtime; exercised with extreme values on every run)",
        "lock-discipline lint (harness/cmd/vlint) for HardNode.Generate, MonoNode.Generate, UnixNanoID.GenIDByTS",
    ],
    "assumptions": [
        "every Generate / GenIDByTS call is one critical section of the generator's mutex (checked syntactically by the lint on every run)",
        "Go's monotonic clock never goes back (MonoNode only; observed on every run: the time fields of consecutive ids never decrease)",
        "timestamps stay inside the 63-bit format: ms since epoch (plus one per 4096 ids issued in a stalled millisecond) below 2^(51 - node bits); unix-nano ids below 2^63",
        "MonoNode's spin loop terminates, i.e. the clock eventually advances past the current millisecond",
    ],
    "lint": [
        {"file": "idgen/snowflake/node.go", "recv": "HardNode", "methods": ["Generate"], "lock": "mu", "mode": "lock"},
        {"file": "idgen/snowflake/mono.go", "recv": "MonoNode", "methods": ["Generate"], "lock": "mu", "mode": "lock"},
        {"file": "idgen/nano/nano.go", "recv": "UnixNanoID", "methods": ["GenIDByTS"], "lock": "", "mode": "lock"},
    ],
}
