"""C04 LRU caches: capacity bound, exact recency eviction, size accounting"""

_PUBLIC = {"methods": ["*"], "except": ["Init", "StatsJSON"], "lock": "mu", "mode": "lock"}

CFG = {
    "check": "C04_Check",
    "props": ["C04_Props"],
    "chunk": 100,
    "search_timeout": 300,
    "level_text": (
        "Theorems in Coq for every history (list of Get/Peek/Exist/Set/SetAndGetRemoved/SetIfAbsent/Delete/Clear/SetCapacity of any length, "
        "arbitrary keys, item sizes and capacities in [0, 2^62-1]): the machine-level models of cache.LRUCache (int64 running size, "
        "updateInPlace/addNew, the checkCapacity loop with its nil dereference) and of cache/tiny.LRUCache (entry count, in-place update "
        "without capacity check, SetAndGetRemoved returning nil on a present key) return exactly the outcomes of the ideal LRU (recency list "
        "trimmed to the longest prefix that fits) and end in its state; Keys/Items/Stats are projections of that state; size = sum of sizes <= "
        "capacity after every call; the eviction loop computes the trim and reports evicted values least recently used first; Get/Set/"
        "SetIfAbsent move to front, Peek/Exist leave the state unchanged; an oversize item empties the cache; the wide caches are, for every "
        "routing function and shard count, families of single caches of capacity capacity/shards+1 (Shard.sharded_projection) that refine "
        "the family of ideal LRUs; for every schedule of concurrent callers the interleaving it selects is such a history (c04_every_schedule; "
        "atomicity of each method by the lint). The models are tied to the source on every run: generated sequential histories (all nine operations, "
        "outcome + Keys/Items/Stats/Length/Size/Capacity/Evictions after every call, both packages), histories through the four wide "
        "constructors with 1..211 shards (outcome + Peek of every key after every call), concurrent runs of 2-4 goroutines linearised by the "
        "harness and replayed in Coq, same-key bursts (6-16 goroutines released from spin barriers onto 24-79 initially absent keys of one "
        "fresh cache, single and wide, observed only at quiescence and checked against what every linearisation guarantees: no duplicate "
        "keys, Length = len Keys, Size = sum of listed sizes <= Capacity, Exist/Peek agree with Items, nothing evicted or lost when the "
        "written keys fit - c04_burst_every_linearisation), SetIfAbsent-only bursts (4-12 goroutines each doing SetIfAbsent(k, own value of "
        "own size) then Get/Peek(k) on 40-80 fresh keys behind a per-key spin barrier, capacity large enough that nothing evicts; checked "
        "against first-insert-wins: per key every recorded read and the value at quiescence are one and the same, every key present, Size = "
        "sum of the winners' sizes, no eviction - c04_sia_every_linearisation, c04_first_insert_is_never_replaced), kept results (in every sequential history the caller keeps, "
        "uncopied, each non-empty removed list and the Keys()/Items() slices of every fourth step and re-reads them when the history is over; "
        "2-8 goroutines issuing only SetAndGetRemoved of distinct fresh keys into a cache of capacity 1-6 keep their removed lists and "
        "re-read them after all calls returned: every kept slice equals its copy taken at return time, every inserted value is reported "
        "removed exactly once or still cached - c04_rem_every_linearisation), Stats() readers (1-2 goroutines calling Stats() in a loop while 1-3 "
        "writers Set/SetIfAbsent/SetAndGetRemoved/Delete items that all have one size c: every answer has Size = c*Length <= Capacity, the "
        "constructor's capacity and a non-decreasing eviction counter - c04_uniform_size), first touches (batches of 1500 trials, each on a "
        "NEW wide cache of 2..211 shards: 4-12 goroutines behind a spin barrier each issue one Set of its own key - most keys in one shard - "
        "or one read; every shard can hold what is Set into it; after all returned exactly the Set keys must be present with their values - "
        "c04_wide_first_touch; the batch is reported as run-length encoded presence masks, all evaluated in Coq), own-key churn (6-16 writer "
        "goroutines from a spin barrier each repeating 30-80 times a short cycle of Set/SetAndGetRemoved/SetIfAbsent/Delete/reads on keys "
        "no other goroutine writes, sizes 1-4, plus reader goroutines, on a single cache or wide facade that can hold everything; at "
        "quiescence the key->value map, Length, Size and Evictions = 0 must be those of the programs run one after the other - "
        "c04_churn_key_local, c04_churn_interleaving_independent), and an out-of-domain stream (negative sizes/capacities -> panic, sizes near 2^63 -> int64 wrap). "
        "Proof is the right level: the claim is equality with an ideal LRU on every history; tests reach a dozen scenarios."
    ),
    "level_note": (
        "Trusted: Coq kernel + vm_compute; hand models C04_Model.v (machine level) and LRUOps.v (ideal LRU) tied by this run's "
        "correspondence; the Go harness (adapters, recover wrappers, tick stamping, its untrusted reference LRU used only to search a "
        "linearisation that Coq re-checks); the lock-discipline lint for the concurrent clause (every exported method of both LRUCache types "
        "is one critical section, so a concurrent execution is one of the histories the theorems quantify over; Init and StatsJSON are not "
        "covered: Init is the constructor's unsynchronised initialiser, StatsJSON is a formatting wrapper around Stats). case_sound is proved "
        "through the refinement theorems (not by defining accept as matches && holds), except for burst cases (CBurst, CSia, CRem, CStat, CFirst, CChurn) and CHung (a call that did not return within 20 s without any "
        "other call completing: never accepted; a violation inside the domain, where c04_no_panic says every call returns; every unit of the "
        "harness runs under that watchdog, a class is given up after its first blocked call and the run after six, and the violation search "
        "uses 4x the quick volume, so that a broken implementation cannot stall the check): a burst has no single model "
        "run to compare with, so there case_accept = case_holds = the monitor; for CSia the monitor is the per-key reading of "
        "c04_sia_every_linearisation (every linearisation is a first-insert-wins map that never replaces a present key); for CRem it is the multiset reading of c04_rem_every_linearisation plus 'a kept list never changes' (the model is "
        "value-semantic; Go slice aliasing is outside the model and is observed directly); for CBurst it is "
        "the quiescent-state monitor, which c04_burst_every_linearisation proves "
        "of the model's final state for every linearisation of the burst (single caches; the wide-facade variant of the monitor - per "
        "shard the present keys fit and a shard whose written keys fit has lost none - is evaluated but not restated as a theorem). Guard: sizes and capacities <= 2^62-1; beyond it the "
        "int64 size field wraps (c04_guard_needed) - such cases are compared with the model but case_holds claims nothing for them. "
        "The eviction counter and tiny's entry count are unbounded integers in the model (2^63 evictions are not reachable). "
        "Wide caches: the routing of SimpleIndex on int64 keys is modelled ((k mod 2^64) mod shards); XHashIndex is taken as a table computed "
        "with package remap for the keys used (C17 covers remap). Per-shard state of a wide cache is observed through Peek on every key, "
        "not through its private shard slice. StatsJSON text is not compared. No axioms."
    ),
    "rule": (
        "one case = one generated history run on a fresh real cache. Class seq/std/fault (60 per quick run, after every other class): a third of the calls are Set / SetAndGetRemoved with a value whose Size() panics (or a nil Value), recovered by the harness and followed by a Peek of that key; a call that panicked in the user callback has not returned, so the ideal cache has not performed it: the Peek outcome and the full snapshot are compared with the model in which nothing happened (on the unchanged code Size() is read before any mutation). Sequential: non-trivial when at least one Get/Peek hit and at least one "
        "eviction occurred; wide: non-trivial when a Set made the number of present keys not grow while keys were present (a shard evicted); "
        "concurrent: non-trivial when >= 2 goroutines ran and at least one eviction occurred; burst: non-trivial when >= 2 goroutines ran and at least one key is present at quiescence; SetIfAbsent-only burst: non-trivial when >= 2 goroutines ran; concurrent SetAndGetRemoved: non-trivial when >= 2 goroutines ran and something was evicted; Stats readers: non-trivial when more than one distinct answer was kept; first-touch batch: non-trivial when >= 2 goroutines ran (one case = one batch of trials); churn: non-trivial when >= 2 goroutines ran. distinct = distinct Coq case terms"
    ),
    "trusted": [
        "Go harness c04: adapters over cache.LRUCache / tiny.LRUCache / the four wide constructors, recover wrappers, atomic tick stamping of concurrent calls",
        "linearisation search on an untrusted Go reference LRU (its result, an order of the observed events, is re-checked in Coq against the ticks and both models)",
        "package remap's XHashIndex used to tabulate the expected shard of each key for the xxhash-routed wide caches (property C17)",
        "sync.Mutex gives mutual exclusion and happens-before between critical sections (Go memory model)",
    ],
    "assumptions": [
        "item sizes and capacities are in [0, 2^62-1] (int64 running size cannot wrap); outside, the cache is compared with the model but the property is not claimed",
        "every exported method of cache.LRUCache and tiny.LRUCache except Init/StatsJSON holds lru.mu for its whole body (checked by the lint on every run), so concurrent callers produce one of the sequential histories",
        "keys are comparable Go values used consistently (map key identity = the model's key equality)",
        "Value.Size() is read once per Set call (as the code does); later changes of a stored value's Size() are not seen by the cache",
    ],
    "lint": [
        dict(_PUBLIC, file="cache/lru.go", recv="LRUCache"),
        dict(_PUBLIC, file="cache/tiny/lru.go", recv="LRUCache"),
    ],
}
