"""C02 keylock: per-key RW mutual exclusion, key independence, ordered multi-key acquisition, reclaim"""

CFG = {
    "check": "C02_Check",
    "props": ["C02_Props"],
    "level_text": (
        "Theorems in Coq over EVERY label sequence (= every schedule, any number of callers and keys, any routing "
        "function, i.e. any shard count with modulo or xxhash) of a labelled transition system at mutex granularity: "
        "the reference-counted table of lock objects of syncx/keylock (fresh object per created entry, count++ under "
        "the table mutex before any blocking step, per-key unlock = RWMutex unlock + count-- + tryFree, multi-key calls "
        "registered per shard and locked in (shard index, list) order) on top of a model of Go's sync.RWMutex "
        "(holder, announced writer, writers queued on rw.w, active readers, parked readers, reader tokens). Proved: the "
        "invariant of every reachable state; same object (a caller always unlocks the object it locked, the entry is "
        "never freed while somebody holds or waits), the unlock section never faults; exclusion per key (a write-held "
        "key is held by nobody else, read holds only among readers), a returned Locks/RLocks caller holds all its keys "
        "at once; distinct keys have distinct objects and every step touches one object (key independence), "
        "uncontended acquisition; caller lists increasing in the key order are acquired in one global (shard, key) "
        "order for every routing, and ordered acquisition never deadlocks (strictest enabling rule) while rotated "
        "orders do; an entry exists exactly while a caller is registered on its key, none when all are released. "
        "The model is tied to the code on every run by forced schedules on all four lockers (KeyLocker, KeyLockerGrp, "
        "TKeyLocker[int|string], TKeyLockerGrp[int|string]; modulo and xxhash; 1, 2, 3, 73 shards): after every API "
        "action the harness waits for positive quiescence (every goroutine returned = channel closed, or parked = "
        "stop-the-world goroutine snapshot shows it inside sync.(RW)Mutex), records who has returned and the hook's "
        "per-key (readCount, writeCount) and entry count, finds by state-set search one fully resolved label sequence, "
        "and Coq replays it (`frun`), checks quiescence of the reached model state and equality of the implied "
        "observation, and evaluates the property's clauses on the observations alone. Proof is the right level: the "
        "quantifier is over all interleavings, which no finite run enumerates."
    ),
    "level_note": (
        "Round-8 classes (after all older ones, their random streams unchanged): fault-key - a Locks/RLocks on a sharded generic "
        "locker over a struct key implementing remap.HitGroup/Bs whose list holds, at position >= 1, a key whose Hit()/ToBytes() "
        "panics; the caller recovers, the call is not a step of the schedule and the following observations must be those of the "
        "model in which it never happened (nothing stays registered); release-race - several two-key lists whose shards are in "
        "descending order and one long list over many shards, pairwise disjoint, entered one by one and then released ALL AT ONCE "
        "from a spin barrier (thousands of bursts); a verdict only from one goroutine snapshot showing a release parked in a mutex "
        "with every other release finished or parked likewise, recorded as the round `caller unlocks: blocked` (a release of "
        "disjoint keys never blocks in the model, whatever runs beside it). "
        "case_accept := model_matches && drained, and case_sound is a real theorem: EVERY clause of case_holds is derived "
        "from the replayed run of the LTS (C02_Complete.v: c02_model_matches_holds) - hook counts per key and entry count = "
        "the live callers (bijection between the table's registrations and (caller, key) pairs; zero entries when all are "
        "released), exclusion among returned callers with all their keys, returned-is-live, a blocked caller conflicts with "
        "another live caller (the boolean quiescence test of the replay implies quietness: callers beyond the bound are "
        "absent, lock objects at or above tnext are idle, whoever runs has a request), some caller has returned while "
        "callers of ordered programs are inside, no unlock/hook blocked. The one conjunct that does NOT follow from a model "
        "match is kept explicitly in case_accept: `drained` = the action list releases every caller of an ordered program "
        "(completion); it is a fact about the harness's schedule (it always drains; a deadlock would stop the drain and is "
        "itself excluded at every round by the derived progress clause), not about the model. "
        "The entry-count hook walks every slot of a group; if it faults on a locker whose slot table is laid out differently the "
        "count over the key universe stands in (recorded as entries_hook_faults), so a hook fault is never a verdict. "
        "Generation stops after 25 ordered schedules that ended in an anomaly or deadlock (never on a correct locker): a "
        "diverging implementation leaves goroutines parked for good and must not make the check slow. "
        "Modelling choices: the table mutex is not a model lock - every table section is one atomic label except the "
        "multi-key unlock section, which is split per key (the code's coarser atomicity admits a subset of the model's "
        "schedules, so the safety theorems cover it); a step the Go code could only take by faulting (nil entry, "
        "unlocking an object the caller does not hold, negative count) is disabled and proved unreachable "
        "(keylock_unlock_never_faults). Trusted: Coq kernel + vm_compute; the hand model (C02_Model.v over KeyLTS.v) "
        "tied by this run's correspondence; the model of sync.RWMutex / sync.Mutex (documented runtime behaviour, "
        "validated against the running implementation on every schedule); the Go harness (schedule forcing, "
        "quiescence detection via runtime.Stack wait reasons, witness search - a bug there can only lose a witness, "
        "which Coq reports as a rejected case). No axioms. The lint is not used: the atomicity of the table sections "
        "is exercised dynamically (a locker that blocks inside a table section is caught as a blocked hook/unlock)."
    ),
    "rule": (
        "one case = one forced schedule (12-37 random API actions over 3-6 callers and 2-5 keys, then a drain; an action is one "
        "caller entering, one returned caller unlocking, or a BURST of 2-3 callers released through one gate so that their "
        "table sections and lock steps really race and the runtime picks the interleaving) on one "
        "freshly built locker; plus the class long-lists (50 per quick run): sharded generic lockers (modulo/xxhash; 2, 3, 73 "
        "shards), Locks/RLocks of 13-24 keys ascending in one global order with several keys per shard, either "
        "parked at a helper-held key and probed by single-key Locks on same-shard keys before/after it, or two such "
        "callers sharing same-shard keys behind private blockers and then drained; key values: the single interface{}-keyed KeyLocker mostly gets boundary keys (untyped nil, typed nil pointers, 0, "", "
        "struct{}{}, false, [0]int{}, 0.0 - all legal, distinct map keys; the sharded interface-keyed lockers panic on nil in "
        "remap.ToBytes before touching any state, recorded as advisory meta, so they keep hashable keys); on the generic lockers "
        "3 of 4 universes pass multi-key lists in per-caller buffers that are REUSED and overwritten in place for the next call "
        "and scrambled as soon as Locks/RLocks returns (Unlocks gets a fresh equal slice); shard counts: besides 1/2/3/73, 16% of the sharded universes use the primes 251, 257, 509, 1021, 1031, 4099 and 2% use 65537, "
        "with keys whose shard number is >= 256 (>= 1024 where the prime allows), so list-form and single-form callers of one "
        "key meet beyond any narrow index width; plus the class first-touch (30 per quick run, ~700 bursts): a fresh sharded "
        "locker (interface-keyed and generic, modulo/xxhash, mostly 1031/4099/65537 slots) and, for one never-used slot after "
        "the other, a burst of 2-5 callers released from a spin barrier onto the same never-used key (or two keys of that slot), "
        "observed at quiescence and drained before the next slot (sound under every schedule; whether a first-touch window of a "
        "few instructions is hit is a matter of chance: about 1 in 100 bursts on this machine); a third of the interface-keyed universes (KeyLocker and both KeyLockerGrp routings) hold ONE numeric value under several "
        "dynamic types (intN/uintN of one width always together; int, uint, uintptr, float32/64, string, named ints, a struct, an "
        "array, bool for the single locker; only the kinds remap.ToBytes can route for the groups): distinct keys that must not "
        "block each other and have entries/counts of their own; plus the class edge-int-keys (25 per quick run, after every other class): "
        "ordered schedules on the lockers that route integers by value (both generic groups, both interface-keyed groups, the single "
        "generic locker; 2/3/73/251 shards) over 3-5 integer keys drawn from -1, -2, -3, -n, -n+-1, MinInt64(+1), MaxInt64(-1), "
        "MinInt32(-1), MaxInt32+1, MaxUint32(+1), -(2^40)-7, 2^62+5 and one small key, so that every site computing a shard (single-key "
        "path, sorting of a multi-key list, unlock path) must agree on the signed->uint64 conversion; plus the classes fault-key (30 per quick run: ordered schedules on both generic "
        "groups over 3-5 struct keys implementing remap.HitGroup/Bs, with 1-3 faulted Locks/RLocks - a key whose Hit()/ToBytes() panics at list "
        "position >= 1, recovered by the caller, issued at quiescence and NOT a step: later observations must be the model's) and release-race "
        "(6 plain members with an observed sequential drain + up to 3000 unrecorded bursts in which 3-5 two-key callers with descending shards and "
        "one 10-18-key caller over many shards, pairwise disjoint, release at once from a spin barrier; a case only when a release is observed parked for good); first-touch schedules are sent as compact pieces (cut where the "
        "locker is empty, keys renumbered per piece); a case is non-trivial when it has at least 6 rounds and at some quiescent point a live "
        "caller was blocked (had not returned); distinct = distinct Coq case term (actions + observations + labels)"
    ),
    "trusted": [
        "model of sync.RWMutex/sync.Mutex (announced/queued writers, reader tokens) - modelled, validated against the running implementation on every schedule, not verified",
        "quiescence detection: wrapper goroutine closes a channel on return; parked = goroutine header of a stop-the-world runtime.Stack snapshot shows sync.Mutex.Lock / sync.RWMutex.Lock / sync.RWMutex.RLock",
        "verif hooks keylock.VerifEntries/VerifKeyCounts/VerifShard (+I variants) reading the table under its mutex",
    ],
    "assumptions": [
        "Go's sync.RWMutex behaves as modelled (writer preference via readerCount, reader tokens via readerSem, writers serialised by rw.w)",
        "multi-key calls use duplicate-free lists; the no-deadlock clause additionally assumes lists increasing in one global key order",
        "table sections are atomic (they run under the per-shard table mutex); exercised dynamically, not linted",
    ],
    "lint": [],
    "chunk": 40,
    "harness_timeout": 1500,
}
