"""C15 mux worker group: write-through cache coherent with the store"""

CFG = {
    "check": "C15_Check",
    "props": ["C15_Props"],
    "level_text": (
        "Theorems in Coq 8.16 over a hand-written executable model of syncx/pipe/mux (the seven handlers as "
        "branch-for-branch programs, map and LRU cache facade, locHash, one queue and one goroutine per worker; values "
        "carry a size - a cache.Value reports its own Size(), anything else counts 1, the LRU facade evicts from the "
        "back while the total exceeds the capacity, so a value bigger than the whole capacity leaves its key "
        "uncached; values are integers or Go's nil - a callback may answer (nil, nil) and the handlers cache that nil as a present "
        "entry; the handlers never look at the caller's context, as coded): "
        "(1) for EVERY sequential history of get/add/update/delete/update-or-add/upsert-then-load/upsert-then-renew "
        "over any keys, every worker count, either facade and EVERY pattern of failing load/add/update/upsert/delete "
        "callbacks the cache stays coherent with the store, a successful delete evicts, an add for a cached key is "
        "a duplicate that makes no store callback; (2) for EVERY schedule of a machine whose labels are 'caller "
        "queues a request / reads the cache on DoGet's fast path', 'worker makes its next single cache call or store "
        "callback', 'Stop' (queues of any bound): in every reachable state a cached value is the store's value or, "
        "only while an operation on that key is in progress, the value after the last completed operation; the fast "
        "path answer obeys the same; store callbacks of one key are made job after job in the order the requests "
        "were queued. Proof is the right level: the quantifier is over unboundedly many histories, schedules and "
        "fault positions of a 340-line control skeleton. The model is tied to the current source on every run by "
        "differential runs of the real WorkerGrp: sequential histories (exact event list, result, worker index, cache "
        "and store contents after every call) and forced schedules (one instrumented call per step, positive "
        "signals only, exact answer and snapshot per label), all evaluated inside Coq. Sequential histories also let "
        "store callbacks cancel the caller's context (on entry / just before a successful return): the model's cache, "
        "store and callbacks are those of an uncancelled call, the caller may receive either its result or the "
        "context's error (AsyncC.R selects), and a barrier call through the same worker makes the harness wait for "
        "the handler before it reads cache and store."
    ),
    "level_note": (
        "Trusted: Coq kernel + vm_compute; hand model (C15_Model.v, C15_LTS.v) tied by correspondence; the Go "
        "harness (instrumented in-memory store, logging cache facade around the real FacadeMap/FacadeLRU, gate "
        "scheduler, tagged keys that carry the calling job through the group). case_accept = 'the observation is "
        "exactly the model's' for both kinds of case (sequential: the model's event list / result / worker / cache "
        "and store contents after every call; scheduled: the observed labels replay on the machine with exactly "
        "these answers and snapshots); case_sound is a real theorem in both cases, proved through the model "
        "(seq_sound via do_op_spec; conc_sound via the invariants of C15_Sched.v and sched_same_key_serial). "
        "Environment assumptions: a failing callback leaves the store unchanged; callbacks touch only the key they "
        "are called for; value sizes are encoded in the value's number (hundreds digits) so that model and harness agree on Size(); mux.Bytes keys are routed by the group but handed to the real cache facade as a string with the same "
        "content (a []byte is not comparable: with the two provided facades DoGet panics in the caller and every "
        "other call in the worker goroutine - an observation outside the property, recorded in DESIGN); "
        "locHash is modelled as repaired (defect 21: reduce, then absolute value): in range for every hash, no "
        "call panics (c15_no_call_panics; the monitors count a panicking call as a violation); the code before the "
        "repair is kept as loc_prefix with c15_lochash_prefix_refuted (hash MinInt, 3 workers: index -2); the "
        "a callback that fails AND hands back a non-nil value (fault kinds FErrV / FNFV of the model) is a failed "
        "callback like FErr / FNF - same store, same answer, the value goes nowhere "
        "(c15_value_with_error_is_an_error; the coherence theorems quantify over every fault list, these kinds "
        "included; the harness store hands back 990000042, which is no row of the store); "
        "a cached nil stands for 'the store holds nothing for the key' (store row absent = nil), so coherence with "
        "nil values is the same equation; context cancellation by a callback is exercised in sequential histories; in scheduled runs the scheduler itself "
        "cancels the context of the job a worker is parked in (machine label GAbandon: the caller gets the context's "
        "error, nothing else changes, the job's result then goes nowhere), its end being observed at the worker's "
        "arrival at the next job; the theorems quantify over schedules containing such labels; the "
        "machine's atomic step is one instrumented call (cache call or store callback) - sound because the caches "
        "and the queue are lock-protected (lint) and a worker is one goroutine. No axioms, nothing PENDING."
    ),
    "rule": (
        "sequential: a random history (6..36 calls + probes) over 2..5 keys of one hasher.go key type (all eighteen "
        "types take turns; keys at the boundaries of the type: min, max, 0, +-1, 2^31, 2^32, values >= 2^63 of the "
        "unsigned 64-bit types whose HashedInt() is negative; keys are handed to the group as the real hasher.go "
        "values unless the history cancels contexts), 1/2/3/5/127 "
        "workers, map or LRU(0..6,100) facade, data that become plain values or cache.Values of size 0,1,cap-1,cap,cap+1,3*cap, built by NewWorkGrp+logging facade or by NewWorkGrpWithMapCache/"
        "WithLRU, callback faults at rate 0/0.1/0.25/0.5, '(nil, nil)' answers at rate 0/0.05/0.15, context "
        "cancellation by a callback at rate 0/0.08/0.2 (each followed by a barrier call); non-trivial = at least one cache hit and one successful "
        "store write. scheduled: 3..12 jobs on 1..3 keys, 1..3 workers, queue bound 0/1/2, a random interleaving of "
        "call / single-call worker steps / Stop; callers giving up: 120 runs in which the caller of a Get has its "
        "context cancelled while the worker is parked inside the load of that key (label GAbandon), the same "
        "goroutine goes straight on to a Get of another key (same or another worker; possibly abandoned in turn), a "
        "barrier behind every abandoned job makes its end observable, the rest is scheduled at random; 60 runs in which "
        "Stop is called (on a goroutine of its own) while a worker is parked inside a store callback with further "
        "requests for the same key queued behind it; keys that differ but hash alike (string pairs with equal crc32, "
        "64-bit pairs with equal 8-byte crc32) in half of the histories of the key types that have such pairs; "
        "deep backlog on one worker: 3 runs (20 in the thorough tier) in which 1/3/7 requests are served, the "
        "worker is then held inside a store callback, b further requests for keys of that worker (b in 63..66, "
        "127..130, 255, 257; at least one run beyond 64) are queued behind it one at a time - each seen to be "
        "queued before the next is made - and the worker is let go (most of the backlog are deletes whose callback "
        "fails: one call each); parallel callers: 'hashers are functions' (8 goroutines released by a spin barrier call HashedInt of their "
        "own keys 60000 times each, every key type: every answer equals the single-goroutine value - case kind "
        "CHash) and 4 runs of 8 goroutines x 120 calls, each goroutine on its own two keys of an 8-byte-crc / "
        "string / plain key type, spin barrier before every call, map facade: every goroutine's observation is an "
        "ordinary sequential case of its keys (per key the history is sequential and keys do not interact); "
        "non-trivial = at least 6 labels and (a fast-path hit or >= 3 jobs). "
        "value together with an error (class seq/value-with-error, deterministic, emitted last, draws nothing from the "
        "run's random stream): 18 fixed sequential histories (2 scripts x map / LRU 1, 2, 100 facades, logging and "
        "plain construction, 1/2/3/5 workers, six key types) whose store callbacks FAIL and hand back a non-nil "
        "value next to their error (fault kinds FErrV / FNFV; ORM style 'return &row, err') at every callback position - "
        "the load of Get / Update / UpdOrAdd on a miss for a present and an absent row, update, add, upsert, the "
        "reload of upsert-then-load, delete, miss and hit paths - each followed by a probe Get whose load fails. "
        "distinct = distinct (configuration, inputs, observation)"
    ),
    "trusted": [
        "instrumented in-memory store behind the five callbacks (scripted faults, per-key write counter making "
        "every stored value unique, event log); it merges: the row it keeps is computed from its actual current "
        "row, an update / upsert callback answers with the value computed from the 'existing' argument it was "
        "handed - the two coincide exactly when the handler passed the store's current row (on a cache miss upsert "
        "is handed nil, so for an existing row its answer is not the stored row; the model has exactly this)",
        "logging CacheFacade wrapper around the real mux.FacadeMap / mux.FacadeLRU (passes every call through, "
        "reads contents with Peek below the log)",
        "gate scheduler of the scheduled runs: a worker parks before each instrumented call and is released one "
        "call at a time; 'request queued' is signalled from ctx.Done(), which AsyncC.R evaluates after AddReq; "
        "every key handed to the group carries its job (stripped by the logging facade), so each parked call names "
        "its job; a call made by a caller's own goroutine (recognised by goroutine id) is parked and released "
        "like a worker's and written down as label GCaller, which no run of the machine has",
        "sync.Mutex/RWMutex/Cond, channels and goroutine scheduling of the Go runtime (modelled: one queue per "
        "worker, handlers of one worker run one after another)",
    ],
    "assumptions": [
        "routing is a function of the key alone: the model takes HashedInt() of every key as data (the key itself "
        "for the plain-conversion types, Go's crc32 value for the others) and applies locHash; the sequential "
        "monitor additionally checks on the observations that every call on a key is served by the same cache",
        "mux.Bytes keys can be routed but not stored by either real facade (a []byte is not comparable: DoGet "
        "panics in the caller, every other call panics in the worker goroutine); the logging facade hands the real "
        "facade a string with the same content, so only Bytes.HashedInt is exercised for that type",
        "a store callback that returns an error has not changed the store (c15_failed_callback_changes_nothing is "
        "this property of the modelled store; the harness store behaves so)",
        "store callbacks are key-local: a callback for key k reads and writes only k's row",
        "each public method of cache.Map, cache.LRUCache and mux.Q is one critical section (lock-discipline lint "
        "on every run), so a cache call by the DoGet fast path is atomic with respect to the worker's cache calls",
        "the size of a cached value does not change while it is cached (the LRU stores entry.size at Set time)",
        "NewWorkGrp builds the workers' caches in index order (worker index observed as cache creation index)",
    ],
    "lint": [
        {"file": "cache/map.go", "recv": "Map", "methods": ["Set", "Get", "Delete"], "lock": "lock", "mode": "any"},
        {"file": "cache/lru.go", "recv": "LRUCache", "methods": ["Get", "Peek", "Set", "Delete"], "lock": "mu", "mode": "any"},
        {"file": "syncx/pipe/mux/q.go", "recv": "Q", "methods": ["AddReq", "PopAnyway", "Close"], "lock": "lock", "mode": "any"},
    ],
    "chunk": 40,
}
