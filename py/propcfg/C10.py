"""C10 bytex: typed stream codec round-trips; stream and buffer readers agree"""

CFG = {
    "check": "C10_Check",
    "props": ["C10_Props"],
    "chunk": 350,
    "level_text": "Theorems in Coq over an executable model of BufferX (every method, over the unread bytes of its bytes.Buffer) "
                  "and of ReaderX (over a source that delivers arbitrary chunks, empty reads, EOF with or after the last data): "
                  "for EVERY sequence of typed writes (bool, u8, i/u16, i/u32, i/u64, the four varints, float64 as its bit pattern "
                  "incl. every NaN payload, strings incl. the empty one, limited strings, raw bytes) the same sequence of reads "
                  "returns the values and leaves nothing (c10_codec_roundtrip, also in front of any continuation); ReWrite changes "
                  "exactly the addressed bytes and panics exactly outside 0..len (c10_rewrite_exact; c10_rewrite_from_self: also when the argument is a slice of the buffer's own bytes, overlapping or not); on arbitrary bytes every read "
                  "is a value of its type or an error, never a panic, and consumes a prefix (c10_decode_total); a stream truncated at "
                  "ANY byte yields the written values, then an error, never another value (c10_truncated_stream, "
                  "c10_proper_prefix_is_error); for EVERY chunking and every read program ReaderX decodes what BufferX decodes "
                  "from the concatenation (c10_read_agrees: same data or same error at the Read level; c10_readerx_agrees: same "
                  "values, errors at the same reads, same bytes left). case_sound is a theorem through model_holds-style lemmas "
                  "(round_sound, trunc_sound, rewrite_sound, hist_sound, stream_sound); a refused write is the identity on the buffer (c10_failed_write_identity) and the accepted writes around it still read back (c10_roundtrip_with_refused); Reset is the empty buffer, so a history with Resets is the concatenation of independent per-message runs (c10_reset_independent, c10_messages_independent) and the FIFO monitor of the re-use class holds on every history (c10_reuse_monitor). The model is tied to the code on every run "
                  "by nine kinds of experiment on the real package (typed programs with all / sampled truncation points, random "
                  "histories incl. mismatched reads and rewrites, crafted and arbitrary decoder input, rewrites on a partly consumed "
                  "buffer, ReaderX over one-byte / random / empty-chunk / all-at-once sources against BufferX), each outcome "
                  "compared inside Coq with the model (values, error class, bytes left). Proof is the right level: the quantifiers "
                  "are over unboundedly many programs, byte strings and chunkings; the code is first-order byte shuffling.",
    "level_note": "Trusted: Coq kernel + vm_compute; the hand model C10_Model.v (tied by correspondence); bytes.Buffer / io.ReadFull / "
                  "encoding/binary semantics are re-modelled (Read, Next, ReadByte, ReadFull loop, PutUvarint/ReadUvarint incl. the "
                  "ten-byte overflow rule, zig-zag) and observed through bytex on every run; math.Float64bits/Float64frombits are "
                  "taken as inverse bit casts (the harness converts at the boundary). c10_readerx_agrees assumes the source bytes "
                  "are bytes (0..255), which case_accept checks on every case. Error classes: the stream reader reports io.EOF "
                  "where the buffer reader reports ErrByteBufferEmpty when a non-empty string / ZReadN finds the source exhausted "
                  "exactly at its start (modelled as coded; the property asks for 'an error instead of a value', `sims` compares "
                  "error-ness, c10_read_agrees gives equal classes at the Read level). An argument of ReWrite that aliases the buffer is modelled by its values at the call (Go's copy is a memmove); "
                  "the rewrite-alias class observes this on the real package on every run. No axioms, nothing admitted, no PENDING clause.",
    "rule": "one case = one experiment on the real bytex package: CRound (typed writes - some of them limited strings over their limit, "
            "which must be refused and leave the buffer unchanged -, Bytes, the typed reads of the accepted writes, Len), CTrunc (the stream of "
            "the accepted writes cut at a byte position, same reads), CHist (random history of writes / reads of any type / rewrites / Len / "
            "Bytes / Reset, optionally from arbitrary initial bytes; every refused write is bracketed by Len or Bytes observations and the "
            "monitor demands the same length before and after), CHold (codec loop in which the caller keeps the strings of ReadString / "
            "ReadLimitString and the slices of ReadN WITHOUT copying while the buffer is drained and rewritten, Reset and reused, or reads the "
            "caller's own slice which the caller overwrites at the end; every kept value is rendered again after the history and must equal "
            "what it was when returned; ZReadN is documented 'no copy' and Bytes() hands out the buffer itself, so these two are excluded), "
            "CReWrite (Bytes, ReWrite or ReWriteU32 at a position in or out of range on a partly consumed buffer, Bytes), CStream (read program "
            "on ReaderX and on BufferX over the same bytes; the io.Reader given to NewReaderX is chosen per case: the chunk reader itself, "
            "*bufio.Reader of size 16 / 64 / 4096 (NewReaderSize and NewReader), *bytes.Reader, *strings.Reader, *io.LimitedReader, "
            "iotest.OneByteReader, iotest.HalfReader, a DataErrReader; strings and byte counts of 15..17, 63..65, 4095..4097 bytes around the "
            "bufio windows), CLarge (the same comparison for strings / ReadN / ZReadN / Read blocks of 65535, 65536, 65537, 131071, 131072, "
            "131073, 196608, 262144 bytes - 1<<20 in the thorough tier - between small fields, over several reader types and chunk sizes; the "
            "case term carries no large literal: the source is a list of segments, the big ones expanded in Coq and in Go by the same "
            "two-counter byte generator gen_bytes, and every observed byte string is compared NOT byte for byte but through a digest "
            "computed on both sides: length, first and last eight bytes, sum of the bytes, sum of the prefix sums). Re-use after Reset (CReuse): ONE BufferX (NewBufferX / NewSizedBufferX(0, 9, 1024, 2048, 70000) / "
            "NewReadableBufferX(nil)) carries 3-5 messages separated by Reset or by reading it empty; message payloads around the default "
            "size (1000..1100, 1019..1025, 2048 bytes), around 64 KiB (65531..65538) and 100-220 KiB, at least one message above 64 KiB that "
            "is not the last; Len() and Bytes() are observed after every Reset, after the writes and after the reads of every message, "
            "with ReWrite on the empty buffer and inside a message; payloads are generator parameters (length, start, step) and observed "
            "byte strings are digests (length, first/last 8 bytes, sum, sum of prefix sums), not byte lists; the monitor is a FIFO of the "
            "values written and not yet read: empty after Reset, known lengths stay true, every matching read returns the oldest unread "
            "value. The varint boundary values (unsigned 2^(7k)-1, 2^(7k), 2^(7k)+1, k = 1..9, 2^63, 2^64-1; signed +-2^(7k-1), "
            "+-2^(7k-1)+-1, MinInt64, MaxInt64; the 32-bit variants where they fit) are fixed CRound / CTrunc members of every run. "
            "Private instances in parallel (class parallel, judged as CLarge cases): 8 goroutines released together by a "
            "spin barrier, each with its own bytes (recognisable generator parameters per goroutine, strings / blocks from a few bytes to "
            "45 KiB between fields of every fixed-width type), its own BufferX and its own ReaderX over its own source, decode their stream "
            "120 times (400 in the thorough tier); the first observation of each goroutine and every observation that differs from it (at "
            "most 3 more per goroutine; the comparison in Go only selects what is emitted) are judged in Coq against the model's decode of "
            "that goroutine's own bytes - the only admissible outcome under every schedule, since the instances share nothing. Aliased rewrite (class rewrite-alias, judged as CReWrite; fixed members, the same on every seed, emitted after all other classes): "
            "ReWrite(pos, b.Bytes()[from:from+m]) - the argument shares memory with the buffer - for every (from, m, pos) on 4 unread bytes and on "
            "6 unread bytes behind 2 consumed ones, the header idiom (body moved right by 4 and back) on 8..260 bytes, distances 1, 2, 7, 8, 9, 31, 32, 33 "
            "on 64 bytes in both directions, arguments reaching past the end of the destination, positions out of range; the payload in the case "
            "term is a copy of the argument taken before the call, so the model demands the values passed in (an overlap-safe move, c10_rewrite_from_self). Non-trivial: round = at least one write; trunc = cut < total; hist/rewrite = always; arbitrary bytes = non-empty "
            "input; hold = at least one kept value; stream = non-empty input and at least one read; large = always. distinct = distinct Coq case term.",
    "trusted": ["Go harness cmd/c10: chunkSrc (the fragmenting io.Reader: one chunk per Read, empty chunks = (0,nil), optional EOF with the last data), "
                "the reader types wrapped around it (bufio, bytes, strings, io.LimitedReader, testing/iotest; the model is the same for all: an io.Reader delivering these bytes), "
                "recover wrappers, error-to-enum mapping (errors.Is on io.EOF, io.ErrUnexpectedEOF, bytex.Err*; the text 'varint overflows' for binary's unexported error)",
                "announced string lengths above 8192 are not passed to ReaderX.ReadString (it allocates the announced length): such reads are replaced by ReadU32 in the stream class; BufferX sees them unrestricted"],
    "assumptions": ["one BufferX / ReaderX instance is used by one goroutine at a time (neither type has a lock); DIFFERENT instances over different bytes may be used by different goroutines at the same time and must not influence each other (no package-level state): exercised by the parallel class on every run, not proved",
                    "int is 64 bits (int(uint32) is non-negative), as on the amd64 platform the check runs on",
                    "math.Float64frombits / Float64bits are inverse bit casts that preserve NaN payloads",
                    "values are immutable in the model; that a returned Go string / copied slice really is (no aliasing of the buffer) is observed by the hold-results experiments, not proved"],
    "lint": [],
}
