"""C10 bytex: typed stream codec round-trips; stream and buffer readers agree"""

CFG = {
    "check": "C10_Check",
    "props": ["C10_Props"],
    "chunk": 350,
    "level_text": "Theorems in Coq over an executable model of BufferX (every method, over the unread bytes of its bytes.Buffer) "
                  "and of ReaderX (over a source that delivers arbitrary chunks, empty reads, EOF with or after the last data): "
                  "for EVERY sequence of typed writes (bool, u8, i/u16, i/u32, i/u64, the four varints, float64 as its bit pattern "
                  "incl. every NaN payload, strings incl. the empty one, limited strings, raw bytes) the same sequence of reads "
                  "returns the values and leaves nothing (c10_codec_roundtrip, also in front of any continuation); ReWrite changes "
                  "exactly the addressed bytes and panics exactly outside 0..len (c10_rewrite_exact); on arbitrary bytes every read "
                  "is a value of its type or an error, never a panic, and consumes a prefix (c10_decode_total); a stream truncated at "
                  "ANY byte yields the written values, then an error, never another value (c10_truncated_stream, "
                  "c10_proper_prefix_is_error); for EVERY chunking and every read program ReaderX decodes what BufferX decodes "
                  "from the concatenation (c10_read_agrees: same data or same error at the Read level; c10_readerx_agrees: same "
                  "values, errors at the same reads, same bytes left). case_sound is a theorem through model_holds-style lemmas "
                  "(round_sound, trunc_sound, rewrite_sound, hist_sound, stream_sound). The model is tied to the code on every run "
                  "by five kinds of experiment on the real package (typed programs with all / sampled truncation points, random "
                  "histories incl. mismatched reads and rewrites, crafted and arbitrary decoder input, rewrites on a partly consumed "
                  "buffer, ReaderX over one-byte / random / empty-chunk / all-at-once sources against BufferX), each outcome "
                  "compared inside Coq with the model (values, error class, bytes left). Proof is the right level: the quantifiers "
                  "are over unboundedly many programs, byte strings and chunkings; the code is first-order byte shuffling.",
    "level_note": "Trusted: Coq kernel + vm_compute; the hand model C10_Model.v (tied by correspondence); bytes.Buffer / io.ReadFull / "
                  "encoding/binary semantics are re-modelled (Read, Next, ReadByte, ReadFull loop, PutUvarint/ReadUvarint incl. the "
                  "ten-byte overflow rule, zig-zag) and observed through bytex on every run; math.Float64bits/Float64frombits are "
                  "taken as inverse bit casts (the harness converts at the boundary). c10_readerx_agrees assumes the source bytes "
                  "are bytes (0..255), which case_accept checks on every case. Error classes: the stream reader reports io.EOF "
                  "where the buffer reader reports ErrByteBufferEmpty when a non-empty string / ZReadN finds the source exhausted "
                  "exactly at its start (modelled as coded; the property asks for 'an error instead of a value', `sims` compares "
                  "error-ness, c10_read_agrees gives equal classes at the Read level). No axioms, nothing admitted, no PENDING clause.",
    "rule": "one case = one experiment on the real bytex package: CRound (typed writes, Bytes, same typed reads, Len), CTrunc (the same "
            "stream cut at a byte position, same reads), CHist (random history of writes / reads of any type / rewrites / Len / Bytes / "
            "Reset, optionally from arbitrary initial bytes), CReWrite (Bytes, ReWrite or ReWriteU32 at a position in or out of range on "
            "a partly consumed buffer, Bytes), CStream (read program on ReaderX over a chunked source and on BufferX over the same "
            "bytes). Non-trivial: round = at least one write; trunc = cut < total; hist/rewrite = always; arbitrary bytes = non-empty "
            "input; stream = non-empty input and at least one read. distinct = distinct Coq case term.",
    "trusted": ["Go harness cmd/c10: chunkSrc (the fragmenting io.Reader: one chunk per Read, empty chunks = (0,nil), optional EOF with the last data), "
                "recover wrappers, error-to-enum mapping (errors.Is on io.EOF, io.ErrUnexpectedEOF, bytex.Err*; the text 'varint overflows' for binary's unexported error)",
                "announced string lengths above 4096 are not passed to ReaderX.ReadString (it allocates the announced length): such reads are replaced by ReadU32 in the stream class; BufferX sees them unrestricted"],
    "assumptions": ["BufferX / ReaderX are used by one goroutine at a time (the property is sequential; neither type has a lock)",
                    "int is 64 bits (int(uint32) is non-negative), as on the amd64 platform the check runs on",
                    "math.Float64frombits / Float64bits are inverse bit casts that preserve NaN payloads"],
    "lint": [],
}
