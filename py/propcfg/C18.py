"""C18 gormx.Transact"""

CFG = {
    "check": "C18_Check",
    "level_text": "Theorems in Coq for every step list of every length and every begin/commit/rollback fault vector (finished exactly once, commit iff all steps ok, no step after a failure, result, begin failure, empty list); the model is tied to the code by running ALL outcome vectors up to 4 steps (5 in the thorough tier) through the real gormx.Transact on a recording database/sql driver and comparing event list and result inside Coq. Proof is the right level: the quantifier is over unboundedly many step lists, the code is a 30-line pure control skeleton.",
    "level_note": "Trusted: Coq kernel + vm_compute; hand model of Transact (C18.v) tied by exhaustive small-scope correspondence; gorm/database-sql plumbing observed at a fake driver; defer/recover semantics of Go. No axioms.",
    "props": ["C18_Props"],
    "rule": "(a) every outcome vector (ok/fail/panic per step, 0..4 steps; begin/commit/rollback ok or failing) is run through gormx.Transact twice (steps passed directly; steps wrapped into one step by gormx.Combine) on a fake database/sql driver; (b) begin failures that report driver.ErrBadConn on every attempt; vectors with a step that panics with nil or calls runtime.Goexit (Transact runs in its own goroutine), with a step whose error wraps context.Canceled / context.DeadlineExceeded and vectors whose last step rolls the transaction back itself and returns nil (Transact returning while the transaction still holds its pooled connection is observed as a TX-LEFT-OPEN event); (c) 8 goroutines x 25 000 transactions (150 000 thorough), each on its own database handle, all sharing ONE combined step and one set of step functions whose behaviour is read from the transaction's context - every distinct (configuration, observed trace) is emitted once; a case is non-trivial when it has at least one step; distinct = distinct (cfg, observed trace)",
    "trusted": ["fake database/sql driver recording Begin/Commit/Rollback/Exec; gorm + mysql dialector plumbing from gorm.DB.Begin down to driver.Conn (observed, not modelled)"],
    "assumptions": ["gorm's Begin/Commit/Rollback reach the driver exactly once per call (observed at the fake driver on every run)",
                    "a panicking step is a Go panic recovered by Transact's deferred handler (runtime semantics of defer/recover)"],
}
