"""C14 actor lanes: line.Line, mline.MultiLine, async.RunnerQ, async.ProcChan, pipe.NormalizeSlotIndex"""

CFG = {
    "check": "C14_Check",
    "props": ["C14_Props"],
    "level_text": (
        "Theorems in Coq over ALL label sequences of a lane LTS at mutex granularity (C14_Exec.v: Submit / Pop / Skip / Done / Stop / Exit / "
        "Cancel / Recv; three kinds of lane: Line and every MultiLine lane, RunnerQ with its context test before the call, ProcChan with its "
        "channel and stopChan), all queue sizes, and of the lane family with hash routing (C14_Multi.v: all lane counts, all 64-bit hashes): "
        "calls on a lane never overlap, the worker takes calls in acceptance order and starts them in that order (a runner passes over exactly "
        "the calls whose context was done), at most once, only accepted calls; a caller holds the value of its own completed call or the error "
        "of its own cancelled context (ProcChan: or ErrClosed after Stop); after Stop nothing is accepted by any executor; Line / MultiLine / "
        "RunnerQ drain and their goroutines exit, ProcChan's goroutine exits; a call is only ever found on the lane NormalizeSlotIndex selects, "
        "whose index is in [0, lanes) for every hash including the minimum integer. The model is tied to the code on every run by forced "
        "schedules on the real executors: the callee blocks on a per-call gate, so the harness decides when a running call ends, places Stop and "
        "context cancellation before the enqueue / while queued / while running, and waits for each consequence on a condition over recorded "
        "facts (never a sleep); Coq replays the observed trace in the LTS and evaluates a monitor of the property's clauses on it. Proof is "
        "the right level: serial execution, order and exactly-once quantify over all interleavings, slot routing over all integers."),
    "level_note": (
        "Trusted: Coq kernel + vm_compute; the hand-written lane LTS (C14_Exec.v, C14_Multi.v) tied by the forced-schedule correspondence; the "
        "Go harness (gates, stamps from one atomic counter, its own untrusted transcription of the LTS used to know what to wait for and to "
        "insert the unobservable labels Skip / Exit / select case), sync.Mutex / sync.Cond / channel / select semantics of the Go runtime "
        "(select = free choice among ready cases, fairness not modelled), the lock-discipline lint for q.Q and async.Q. "
        "case_accept = the observed trace is a complete run of the lane family in which every observation is what the model state says; "
        "case_sound (accept -> monitor holds) is a real theorem: a simulation between the replayed family and the monitor state "
        "(C14_Sound.v, 780 lines, all ten item kinds, FIFO with a runner's passed-over calls included); together with the 32 unbounded "
        "theorems of C14_Props.v. "
        "A long-backlog history has thousands of calls and the monitor is quadratic in unary numbers: what Coq evaluates is the PROJECTION of the observed history onto 18-50 calls (first, last, those around 1024 and 2048, random ones, and every call a Go counter finds suspicious), renumbered in submission order; with an unbounded queue a projection of a model run is a model run and every monitor clause is inherited by projections, so a failing projection is a failing history (the choice of the projection is the untrusted part: it can only miss). "
        "Acceptance of a call is observed at the caller's first ctx.Done() after a successful enqueue (the executors call it on entering their "
        "select) - an implementation whose callers never consult their context would be reported as a hang. A callee panic kills a lane "
        "(no recover in the code): excluded by the statement. ProcChan with size 0 (unbuffered channel) is not exercised. "
        "In the unforced 'burst' cases the enqueue order is resolved by the harness from the start order, so the start-order clause is not "
        "evaluated there (fifo = false). No axioms."),
    "rule": (
        "one case = one call of pipe.NormalizeSlotIndex (all pairs of 16-26 boundary hashes x 18 lane counts incl. 0 and negatives, plus random "
        "ones), or one forced schedule of one executor (random plan over run / submit / release gate / cancel context / Stop with 1-9 calls, "
        "queue sizes 0,1,2,3,8, MultiLine lane counts 1,2,7,509 with hashes from the boundary set and colliding partners, RunnerQ calls spread "
        "over AsyncCall / AsyncDelegate / AsyncProc), or one unforced burst of 4-9 concurrent callers, or one stop-vs-submit round (fresh executor, 8-128 submitters and one Stop released from a barrier; 3800 rounds in the quick tier, 24000 thorough; every round is screened in Go by counters, the rounds the screen flags and a sample of the others are decided in Coq; \"accepted but never run\" is established positively - lane goroutines returned, caller consulted its context, callee never entered - not by a deadline), or one round of 2-4 independent instances of one executor kind driven at the same time with disjoint call ids (class instances-*: per instance every clause holds under every schedule since instances share nothing by contract; 300 rounds RunnerQ, 40 each other kind, screened like stop-vs-submit), or one line-reuse schedule (Line only: each caller keeps ONE line.CallCtx value and re-submits it with a new Param once its previous AsyncCall has returned, typically after its context ended while the call was queued; 150 forced schedules), or one instance of a shared-callctx group (120 groups: ONE mline.CallCtx value per key, prepared once, handed to 2-3 MultiLine instances with different lane counts - 4 then 5, 8 then 3, 7 then 509, ... - and several times to each, mixed with fresh contexts of equal hash, hashes incl. MinInt / MaxInt / negatives; the instances are driven one after the other by forced schedules and each is its own case: lane = NormalizeSlotIndex(hash, lane count of THAT instance) whatever the context value went through before; likewise two line.Line instances sharing the line.CallCtx values of the owners), or one Run-again schedule (Run() called twice / three times before and after the first submissions on Line, RunnerQ, ProcChan - guarded by a sync.Once on the unchanged code; gated callee with two or more calls queued; 15 deterministic schedules per run plus rare random insertion; MultiLine.Run is not guarded as the code is and stays out), or one long-backlog history (call 1 held, N-1 calls queued behind it, all let go, N in 1023..1027, 2048..2051, 3100; or a window of 1-3 queued calls kept non-empty over 1100 / 2100 calls); a schedule case is non-trivial when at "
        "least two calls were accepted, a slot case when the hash is negative or >= the lane count; distinct = distinct Coq term"),
    "trusted": [
        "forced-schedule driver: per-call gate channels, harness-owned context.Context counting Done() calls, waits on conditions over recorded facts with a 10 s bound that only a real hang can reach",
        "harness transcription of the lane LTS (untrusted for verdicts: Coq replays every trace)",
        "lock-discipline lint on q.Q / async.Q (AddReq/Add, Close, pop are one critical section each)",
    ],
    "assumptions": [
        "each of q.Q.AddReq / Close / pop and async.Q.Add / Close / pop is one critical section under the queue mutex (checked by the lint on every run): the labels Submit, Stop, Pop of the LTS are atomic",
        "Go channel send/receive/close and select behave as the runtime specifies; a select with several ready cases may take any of them",
        "callees do not panic (the code has no recover; a panicking callee kills its lane)",
        "callers consult ctx.Done() when they start waiting (how the harness sees that an enqueue succeeded)",
    ],
    "lint": [
        {"file": "syncx/pipe/q/q.go", "recv": "Q", "methods": ["AddReq", "Close", "pop"], "lock": "lock", "mode": "lock"},
        {"file": "syncx/pipe/async/q.go", "recv": "Q", "methods": ["Add", "Close", "pop"], "lock": "lock", "mode": "lock"},
    ],
    "chunk": 300,
    "harness_timeout": 1500,
}
