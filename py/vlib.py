"""Driver library for the neptune verification checks (see DESIGN.md sections 2.4 and 4).

One check = (1) the Coq development builds and the property's theorem file
re-checks with closed assumptions, (2) the lock-discipline lint, (3) the Go
harness is rebuilt against the current /repo tree (tag verif) and run, (4) its
observed cases are evaluated inside Coq by `case_accept` (correspondence with the
model) and `case_holds` (the property's monitor), (5) verdict + evidence.
"""
import fcntl
import hashlib
import json
import os
import re
import shutil
import subprocess
import sys
import time

VERIF = os.path.dirname(os.path.dirname(os.path.abspath(__file__)))
REPO = os.environ.get("VERIF_REPO", "/repo")
COQ = os.path.join(VERIF, "coq")
OUT = os.environ.get("VERIF_OUT", VERIF)  # evidence/ and replays/ go here (scratch runs set it)
BUILD = os.path.join(VERIF, ".build")
GOENV = dict(os.environ, GOFLAGS="-mod=mod", GOPROXY="off", GOSUMDB="off", GOTOOLCHAIN="local")

TRUSTED_BASE_COMMON = [
    "Coq 8.16.1 kernel incl. the vm_compute machine (no native_compute)",
    "axioms: none (every Print Assumptions in the property file must answer 'Closed under the global context'; allow-list empty)",
    "hand-written Gallina model tied to /repo by this run's correspondence check (Go harness, build tag verif, module replace => /repo)",
    "Go harness generators / recover wrappers / schedule forcing, verif hook files (*_verif.go), Python driver printing case files and reading index lists",
]


def log(*a):
    print(*a, file=sys.stderr, flush=True)


class Lock:
    def __init__(self, name):
        os.makedirs(BUILD, exist_ok=True)
        self.path = os.path.join(BUILD, name + ".lock")

    def __enter__(self):
        self.f = open(self.path, "w")
        fcntl.flock(self.f, fcntl.LOCK_EX)
        return self

    def __exit__(self, *a):
        fcntl.flock(self.f, fcntl.LOCK_UN)
        self.f.close()


def run(cmd, cwd=None, timeout=None, env=None, stdin=None):
    t0 = time.time()
    try:
        p = subprocess.run(cmd, cwd=cwd, env=env, stdout=subprocess.PIPE, stderr=subprocess.PIPE,
                           timeout=timeout, text=True, input=stdin)
        return p.returncode, p.stdout, p.stderr, time.time() - t0
    except subprocess.TimeoutExpired as e:
        out = e.stdout if isinstance(e.stdout, str) else (e.stdout or b"").decode("utf8", "replace")
        err = e.stderr if isinstance(e.stderr, str) else (e.stderr or b"").decode("utf8", "replace")
        return 124, out, err + "\nTIMEOUT after %ss" % timeout, time.time() - t0


# ---------------------------------------------------------------- Coq build

def coq_project():
    """(Re)generate _CoqProject and Makefile when the set of theory files changed."""
    files = sorted(f for f in os.listdir(os.path.join(COQ, "theories")) if f.endswith(".v"))
    body = '-Q theories ""\n' + "\n".join("theories/" + f for f in files) + "\n"
    cp = os.path.join(COQ, "_CoqProject")
    old = open(cp).read() if os.path.exists(cp) else ""
    if old != body or not os.path.exists(os.path.join(COQ, "Makefile")):
        open(cp, "w").write(body)
        rc, out, err, _ = run(["coq_makefile", "-f", "_CoqProject", "-o", "Makefile"], cwd=COQ)
        if rc != 0:
            raise RuntimeError("coq_makefile failed: " + err)


def coq_make(timeout=3000, mods=None):
    """Full .vo build (incremental) of the whole development, or of the given modules and what they depend on.

    Every coqc runs under a shell timeout, so that one diverging file cannot stall the build."""
    with Lock("coq"):
        coq_project()
        cmd = ["make", "-k", "-j16", "COQC=timeout 1200 coqc"]
        if mods:
            cmd += ["theories/%s.vo" % m for m in mods]
        rc, out, err, dt = run(cmd, cwd=COQ, timeout=timeout)
    return rc == 0, out + err, dt


def vo_current(mod):
    """Is theories/<mod>.vo present and newer than its source?"""
    v = os.path.join(COQ, "theories", mod + ".v")
    vo = v + "o"
    return os.path.exists(vo) and os.path.getmtime(vo) >= os.path.getmtime(v)


def check_props(mod, timeout=900):
    """Re-check the property file from scratch and read its Print Assumptions output.

    Returns dict(ok, obligations, discharged, theorems=[(name, assumptions)], log)."""
    src = os.path.join(COQ, "theories", mod + ".v")
    text = open(src).read()
    names = re.findall(r"Print Assumptions\s+([A-Za-z0-9_'.]+)\s*\.", text)
    forbidden = re.findall(r"\b(Admitted|admit|Axiom|Parameter|Conjecture|Unset Guard Checking|bypass_check)\b", strip_comments(text))
    tmpd = os.path.join(BUILD, "props_" + mod + "_%d" % os.getpid())
    os.makedirs(tmpd, exist_ok=True)
    try:
        # compile a copy under another name so that the shared .vo is untouched
        dst = os.path.join(tmpd, mod + "_recheck.v")
        shutil.copy(src, dst)
        rc, out, err, dt = run(["coqc", "-Q", os.path.join(COQ, "theories"), "", "-Q", tmpd, "Recheck", dst], cwd=tmpd, timeout=timeout)
    finally:
        shutil.rmtree(tmpd, ignore_errors=True)
    res = {"ok": rc == 0 and not forbidden, "log": (out + err)[-4000:], "theorems": [], "wall_s": dt, "forbidden": forbidden}
    # Print Assumptions answers, in order
    answers = re.findall(r"(Closed under the global context|Axioms:\n(?:.+\n?)+?(?=\n\n|\Z|Closed under|Axioms:))", out)
    for i, n in enumerate(names):
        a = answers[i].strip() if i < len(answers) else "MISSING"
        res["theorems"].append((n, a))
    res["obligations"] = len(names)
    res["discharged"] = sum(1 for n, a in res["theorems"] if a == "Closed under the global context") if rc == 0 else 0
    if res["discharged"] != res["obligations"]:
        res["ok"] = False
    return res


def coqchk(mods, timeout=2400):
    """Independent re-check of the compiled theorem files and everything they depend on (thorough tier)."""
    rc, out, err, dt = run(["coqchk", "-silent", "-o", "-Q", os.path.join(COQ, "theories"), ""] + list(mods), cwd=COQ, timeout=timeout)
    txt = out + err
    m = re.search(r"CONTEXT SUMMARY.*", txt, re.S)
    summary = m.group(0) if m else txt[-1500:]
    axioms = []
    ma = re.search(r"\* Axioms:\s*(.*?)(?=\n\* |\Z)", summary, re.S)
    if ma:
        axioms = [l.strip() for l in ma.group(1).splitlines() if l.strip() and l.strip() != "<none>"]
    return {"ok": rc == 0, "axioms": axioms, "summary": summary[:3000], "wall_s": round(dt, 1)}


def strip_comments(s):
    out = []
    depth = 0
    i = 0
    while i < len(s):
        if s.startswith("(*", i):
            depth += 1
            i += 2
        elif s.startswith("*)", i) and depth > 0:
            depth -= 1
            i += 2
        else:
            if depth == 0:
                out.append(s[i])
            i += 1
    return "".join(out)


# ---------------------------------------------------------------- harness

def build_harness(pid):
    """go build -tags verif against REPO's current working tree. Returns (ok, path, log).

    The module file is generated per repository path (-modfile), so that a scratch copy can be
    checked (VERIF_REPO) while other checks run against /repo."""
    h = os.path.join(VERIF, "harness")
    os.makedirs(BUILD, exist_ok=True)
    tag = hashlib.sha1(REPO.encode()).hexdigest()[:8]
    # one module file per process: `go build -mod=mod` may rewrite it, concurrent checks must not share it
    modfile = os.path.join(BUILD, "harness_%s_%d.mod" % (tag, os.getpid()))
    tmpl = open(os.path.join(h, "go.mod.tmpl")).read().replace("@REPO@", REPO)
    open(modfile, "w").write(tmpl)
    shutil.copy(os.path.join(REPO, "go.sum"), modfile[:-4] + ".sum")
    mine = os.path.join(BUILD, "vh.%d" % os.getpid())
    try:
        rc, out, err, dt = run(["go", "build", "-modfile=" + modfile, "-tags", "verif", "-o", mine, "./cmd/" + pid.lower()], cwd=h, env=GOENV, timeout=900)
    finally:
        for f in (modfile, modfile[:-4] + ".sum"):
            try:
                os.remove(f)
            except OSError:
                pass
    if rc == 0:
        return True, mine, out + err
    return False, None, out + err


def run_harness(exe, pid, seed, tier, outfile, extra=(), timeout=1500, race=False):
    cmd = [exe, "-seed", str(seed), "-tier", tier, "-out", outfile] + list(extra)
    # the harness must not be able to exhaust memory on hostile length prefixes
    rc, out, err, dt = run(["bash", "-c", "ulimit -v 16000000; exec \"$@\"", "vh"] + cmd, timeout=timeout, env=GOENV)
    return rc, out, err, dt


def load_cases(path):
    cases, meta = [], {}
    if not os.path.exists(path):
        return cases, meta
    for line in open(path):
        line = line.strip()
        if not line:
            continue
        try:
            o = json.loads(line)
        except Exception:
            continue
        if "meta" in o and "coq" not in o:
            meta = o
        else:
            cases.append(o)
    return cases, meta


# ---------------------------------------------------------------- case files

CASES_TMPL = """Require Import Cases_Common {mod}.
From Coq Require Import List ZArith NArith Bool String.
Import ListNotations.
Definition cases : list case := [
{body}
].
Definition bad_accept := Eval vm_compute in idx_filter (fun c => negb (case_accept c)) cases.
Definition bad_holds := Eval vm_compute in idx_filter (fun c => negb (case_holds c)) cases.
Print bad_accept.
Print bad_holds.
"""

CASES_HOLDS_ONLY_TMPL = """Require Import Cases_Common {mod}.
From Coq Require Import List ZArith NArith Bool String.
Import ListNotations.
Definition cases : list case := [
{body}
].
Definition bad_accept : list nat := [].
Definition bad_holds := Eval vm_compute in idx_filter (fun c => negb (case_holds c)) cases.
Print bad_accept.
Print bad_holds.
"""


def parse_idx(out, name):
    m = re.search(name + r"\s*=\s*(.*?)\s*:\s*list nat", out, re.S)
    if not m:
        return None
    body = m.group(1)
    return [int(x) for x in re.findall(r"\d+", body)]


def eval_cases(pid, mod, cases, chunk=500, holds_only=False, timeout=1200, tag="q"):
    """Evaluate accept / holds on all cases inside Coq. Returns (bad_accept, bad_holds, errors, wall)."""
    cdir = os.path.join(COQ, "cases", "%s_%s_%d" % (pid, tag, os.getpid()))
    shutil.rmtree(cdir, ignore_errors=True)
    os.makedirs(cdir)
    t0 = time.time()
    procs = []
    tmpl = CASES_HOLDS_ONLY_TMPL if holds_only else CASES_TMPL
    chunks = [cases[i:i + chunk] for i in range(0, len(cases), chunk)] or [[]]
    maxpar = 12
    results = [None] * len(chunks)
    pending = list(enumerate(chunks))
    running = []
    errors = []

    def reap(block):
        for ent in list(running):
            k, p, f = ent
            if block:
                try:
                    p.wait(timeout=timeout)
                except subprocess.TimeoutExpired:
                    p.kill()
            if p.poll() is not None:
                out, err = p.communicate()
                running.remove(ent)
                if p.returncode != 0:
                    errors.append("case file %s: coqc exit %s: %s" % (f, p.returncode, (err or out)[-1500:]))
                    results[k] = (None, None)
                else:
                    results[k] = (parse_idx(out, "bad_accept"), parse_idx(out, "bad_holds"))
                    if results[k][0] is None or results[k][1] is None:
                        errors.append("case file %s: cannot read index lists: %s" % (f, out[-500:]))

    for k, ch in pending:
        f = os.path.join(cdir, "cases_%s_%d.v" % (pid, k))
        with open(f, "w") as fh:
            fh.write(tmpl.format(mod=mod, body=";\n".join(c["coq"] for c in ch)))
        while len(running) >= maxpar:
            reap(False)
            time.sleep(0.02)
        p = subprocess.Popen(["timeout", str(timeout), "coqc", "-Q", os.path.join(COQ, "theories"), "", f], cwd=cdir,
                             stdout=subprocess.PIPE, stderr=subprocess.PIPE, text=True)
        running.append((k, p, f))
    while running:
        reap(True)
    # a case-file process killed from outside (OOM killer under load, time-out) is retried once, alone
    if errors:
        retry = [k for k, r in enumerate(results) if r is None or r[0] is None or r[1] is None]
        errors_first = list(errors)
        del errors[:]
        for k in retry:
            f = os.path.join(cdir, "cases_%s_%d.v" % (pid, k))
            rc, out, err, _ = run(["timeout", str(timeout), "coqc", "-Q", os.path.join(COQ, "theories"), "", f], cwd=cdir, timeout=timeout + 30)
            if rc != 0:
                errors.append("case file %s: coqc exit %s (after one retry): %s" % (f, rc, (err or out)[-1500:]))
                results[k] = (None, None)
            else:
                results[k] = (parse_idx(out, "bad_accept"), parse_idx(out, "bad_holds"))
                if results[k][0] is None or results[k][1] is None:
                    errors.append("case file %s: cannot read index lists: %s" % (f, out[-500:]))
    bad_a, bad_h = [], []
    for k, r in enumerate(results):
        if r is None or r[0] is None or r[1] is None:
            continue
        bad_a += [k * chunk + i for i in r[0]]
        bad_h += [k * chunk + i for i in r[1]]
    if not errors:
        shutil.rmtree(cdir, ignore_errors=True)
    return bad_a, bad_h, errors, time.time() - t0


# ---------------------------------------------------------------- known findings

def known_findings(pid):
    """Lines of KNOWN_FINDINGS.txt for this property: (kind, sig, text)."""
    res = []
    p = os.path.join(VERIF, "KNOWN_FINDINGS.txt")
    if not os.path.exists(p):
        return res
    for line in open(p):
        line = line.strip()
        if not line or line.startswith("#"):
            continue
        m = re.match(r"(fixed|known):\s+property=(\S+)\s+(.*)", line)
        if not m or m.group(2) != pid:
            continue
        kind, rest = m.group(1), m.group(3)
        sig = None
        ms = re.match(r"sig=(\S+)\s+(.*)", rest)
        if ms:
            sig, rest = ms.group(1), ms.group(2)
        res.append((kind, sig, rest))
    return res


# ---------------------------------------------------------------- evidence / replay

def write_json(path, obj):
    os.makedirs(os.path.dirname(path), exist_ok=True)
    tmp = path + ".tmp%d" % os.getpid()
    with open(tmp, "w") as f:
        json.dump(obj, f, indent=1, sort_keys=True)
        f.write("\n")
    os.replace(tmp, path)


def case_hash(c):
    return hashlib.sha1(c["coq"].encode()).hexdigest()[:12]
