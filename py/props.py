"""Per-property configuration of the driver: one module py/propcfg/Cxx.py per claimed property, each defining CFG."""
import importlib
import os
import sys

_d = os.path.join(os.path.dirname(os.path.abspath(__file__)), "propcfg")
sys.path.insert(0, _d)
PROPS = {}
NOT_YET = {}
for _f in sorted(os.listdir(_d)):
    if _f.endswith(".py") and _f[0] == "C":
        try:
            _m = importlib.import_module(_f[:-3])
            PROPS[_f[:-3]] = _m.CFG
        except Exception as _e:  # a broken configuration must only affect its own property
            sys.stderr.write("propcfg %s does not load: %r\n" % (_f, _e))
