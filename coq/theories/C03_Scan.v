(* C03: the two directions of node.iterate on trees of items (key, payload), with the start pivot, includeStart,
   the stop bound and an arbitrary callback: the callback is fed exactly the selected part of the in-order list,
   in scan order, until it (or the stop bound) ends the scan.  Items version of BTI.v / BTDs.v, plus `stop`. *)
From Coq Require Import ZArith List Lia Bool Sorting.Sorted.
Require Import C03_Model.
Import ListNotations.
Open Scope Z_scope.


(* shape: leaf, or exactly one more child than items, to depth f *)
Fixpoint iwf (f : nat) (n : inode) : Prop :=
  match f with O => False | S f' =>
    ichildren n = [] \/
    (length (ichildren n) = S (length (iitems n)) /\ Forall (iwf f') (ichildren n))
  end.

(* a callback run over a list: stops at the first `false` *)
Fixpoint feed {A} (v : A -> item -> A * bool) (l : list item) (a : A) : A * bool :=
  match l with
  | [] => (a, true)
  | x :: l' => let '(a', cont) := v a x in if cont then feed v l' a' else (a', false)
  end.
Lemma feed_app {A} (v : A -> item -> A * bool) l1 l2 a :
  feed v (l1 ++ l2) a = let '(a', c) := feed v l1 a in if c then feed v l2 a' else (a', false).
Proof.
  revert a; induction l1 as [|x l1 IH]; intros a; cbn; [reflexivity|].
  destruct (v a x) as [a' c]. destruct c; [apply IH | reflexivity].
Qed.

Lemma filter_all {B} (P : B -> bool) l : Forall (fun x => P x = true) l -> filter P l = l.
Proof. induction 1 as [|x l Hx _ IH]; cbn; [reflexivity|]. now rewrite Hx, IH. Qed.
Lemma filter_none {B} (P : B -> bool) l : Forall (fun x => P x = false) l -> filter P l = [].
Proof. induction 1 as [|x l Hx _ IH]; cbn; [reflexivity|]. now rewrite Hx. Qed.
Lemma existsb_none {B} (P : B -> bool) l : Forall (fun x => P x = false) l -> existsb P l = false.
Proof. induction 1 as [|x l Hx _ IH]; cbn; [reflexivity|]. now rewrite Hx. Qed.

Lemma ss_app_inv (l1 : list item) x l2 :
  StronglySorted klt (l1 ++ x :: l2) ->
  StronglySorted klt l1 /\ StronglySorted klt l2 /\ Forall (fun y => key y < key x) l1 /\ Forall (fun y => key x < key y) l2.
Proof.
  induction l1 as [|y l1 IH]; cbn; intros H.
  - inversion H; subst. repeat split; auto; constructor.
  - inversion H as [|? ? Hs Hf]; subst. destruct (IH Hs) as (S1 & S2 & F1 & F2).
    rewrite Forall_app in Hf. destruct Hf as [Hf1 Hf2]. inversion Hf2; subst.
    split; [constructor; assumption|]. split; [assumption|]. split; [constructor; assumption|assumption].
Qed.
Lemma ss_app_inv_app (l1 l2 : list item) :
  StronglySorted klt (l1 ++ l2) -> StronglySorted klt l1 /\ StronglySorted klt l2.
Proof.
  induction l1 as [|y l1 IH]; cbn; intros H; [split; [constructor|assumption]|].
  inversion H as [|? ? Hs Hf]; subst. destruct (IH Hs). rewrite Forall_app in Hf. split; auto. constructor; tauto.
Qed.

(* ================= ascending ================= *)
Section Asc.
Variable A : Type.
Variable visit : A -> item -> A * bool.
Variable start stop : option Z.
Variable incl : bool.
Local Notation sv := (svisit_a A visit stop).
Local Notation lt_s := (lt_s start).
Local Notation le_s := (le_s start).
Local Notation skipb := (skipb start incl).
Local Notation loop := (aloop A visit start stop incl).
Local Notation drop_lt := (drop_lt start).
Local Notation asc := (asc A visit start stop incl).
Local Notation feed := (feed sv).
Local Notation rec_t := (rec_t A).

(* the items an ascending scan from the pivot must deliver *)
Definition keep (x : item) : bool := negb (lt_s x) && (incl || negb (le_s x)).
Definition keepH (hit : bool) (x : item) : bool := if hit then true else keep x.

Lemma le_s_false_lt x : le_s x = false -> lt_s x = false.
Proof. unfold C03_Model.le_s, C03_Model.lt_s. destruct start as [s|]; auto. intros H. apply Z.leb_gt in H. apply Z.ltb_ge. lia. Qed.
Lemma gt_after x y : lt_s x = false -> key x < key y -> le_s y = false.
Proof. unfold C03_Model.le_s, C03_Model.lt_s. destruct start as [s|]; auto. intros H Hxy. apply Z.ltb_ge in H. apply Z.leb_gt. lia. Qed.
Lemma lt_before x y : lt_s x = true -> key y < key x -> lt_s y = true.
Proof. unfold C03_Model.lt_s. destruct start as [s|]; [|discriminate]. intros H Hxy. apply Z.ltb_lt in H. apply Z.ltb_lt. lia. Qed.
Lemma le_eq_lt x y : le_s x = true -> key y < key x -> lt_s y = true.
Proof. unfold C03_Model.le_s, C03_Model.lt_s. destruct start as [s|]; [|discriminate]. intros H Hxy. apply Z.leb_le in H. apply Z.ltb_lt. lia. Qed.
Lemma keep_gt x : le_s x = false -> keep x = true.
Proof. intros H. unfold keep. rewrite (le_s_false_lt _ H), H. cbn. now rewrite orb_true_r. Qed.
Lemma keep_lt x : lt_s x = true -> keep x = false.
Proof. intros H. unfold keep. now rewrite H. Qed.

Definition ge_sb (x : item) : bool := negb (lt_s x).

Definition spec_res (hit : bool) (L : list item) (a : A) (r : A * bool * bool) : Prop :=
  let '(a', c) := feed (filter (keepH hit) L) a in
  fst (fst r) = a' /\ snd r = c /\ (c = true -> snd (fst r) = hit || existsb ge_sb L).

Definition all_gt (L : list item) := Forall (fun x => le_s x = false) L.

Definition rc_ok (f : nat) (rc : rec_t) : Prop :=
  forall c hit a, iwf f c -> StronglySorted klt (iflat f c) ->
    (hit = true -> all_gt (iflat f c)) -> spec_res hit (iflat f c) a (rc c hit a).

Lemma filter_keepH_all hit L : all_gt L -> filter (keepH hit) L = L.
Proof.
  intros H. apply filter_all. unfold all_gt in H. rewrite Forall_forall in *. intros x Hx.
  unfold keepH. destruct hit; [reflexivity|]. apply keep_gt, H, Hx.
Qed.

Lemma spec_hd f rc (Hrc : rc_ok f rc) ch hit a :
  Forall (iwf f) ch -> StronglySorted klt (hd_rec (iflat f) [] ch) ->
  (hit = true -> all_gt (hd_rec (iflat f) [] ch)) ->
  spec_res hit (hd_rec (iflat f) [] ch) a (hd_rec (fun c => rc c hit a) (a, hit, true) ch).
Proof.
  destruct ch as [|c ch]; cbn; intros Hwf Hs Hh.
  - unfold spec_res; cbn. repeat split; auto. intros _. now rewrite orb_false_r.
  - apply Hrc; auto. now inversion Hwf.
Qed.

Lemma loop_spec f rc (Hrc : rc_ok f rc) : forall its ch hit a,
  (ch = [] \/ length ch = S (length its)) -> Forall (iwf f) ch ->
  StronglySorted klt (inter (iflat f) its ch) ->
  Forall (fun x => lt_s x = false) its ->
  (hit = true -> all_gt (inter (iflat f) its ch)) ->
  spec_res hit (inter (iflat f) its ch) a (loop rc its ch hit a).
Proof.
  induction its as [|x its IH]; intros ch hit a Hshape Hwf Hs Hits Hh.
  - cbn [inter aloop]. apply spec_hd; auto.
  - cbn [inter aloop] in *.
    set (Lc := hd_rec (iflat f) [] ch) in *.
    set (rest := inter (iflat f) its (tl ch)) in *.
    destruct (ss_app_inv _ _ _ Hs) as (SLc & Srest & FLc & Frest).
    inversion Hits as [|? ? Hx Hits']; subst.
    assert (Hrest_gt : all_gt rest).
    { unfold all_gt. rewrite Forall_forall in *. intros y Hy. eapply gt_after; eauto. }
    assert (Hshape' : tl ch = [] \/ length (tl ch) = S (length its)).
    { destruct Hshape as [->|Hl]; [now left|]. destruct ch; cbn in *; [discriminate|]. right. lia. }
    assert (Hwf' : Forall (iwf f) (tl ch)).
    { destruct ch; cbn; auto. now inversion Hwf. }
    assert (Hh1 : hit = true -> all_gt Lc).
    { intros E. specialize (Hh E). unfold all_gt in *. rewrite Forall_app in Hh. tauto. }
    pose proof (spec_hd f rc Hrc ch hit a Hwf SLc Hh1) as H1.
    fold Lc in H1.
    destruct (hd_rec (fun c => rc c hit a) (a, hit, true) ch) as [[a1 h1] ok1].
    unfold spec_res in H1 |- *. cbn [fst snd] in H1.
    rewrite filter_app. cbn [filter]. rewrite feed_app.
    destruct (feed (filter (keepH hit) Lc) a) as [a1' c1].
    destruct H1 as (-> & -> & Hh1').
    destruct c1; cbn [negb].
    2:{ cbn. repeat split; auto; try discriminate. }
    specialize (Hh1' eq_refl). subst h1.
    assert (Hfr : filter (keepH hit) rest = rest) by (apply filter_keepH_all; exact Hrest_gt).
    assert (Hfr' : filter (keepH true) rest = rest) by (apply filter_keepH_all; exact Hrest_gt).
    assert (Hex : existsb ge_sb (Lc ++ x :: rest) = true).
    { rewrite existsb_app. cbn. unfold ge_sb at 2. rewrite Hx. cbn. now rewrite orb_true_r. }
    assert (IHt : forall a0, spec_res true rest a0 (loop rc its (tl ch) true a0)).
    { intros a0. apply IH; auto. }
    destruct (le_s x) eqn:Ele.
    + assert (Hhit : hit = false).
      { destruct hit; auto. specialize (Hh eq_refl). unfold all_gt in Hh.
        rewrite Forall_app in Hh. destruct Hh as [_ Hh]. inversion Hh; congruence. }
      assert (HexLc : existsb ge_sb Lc = false).
      { apply existsb_none. rewrite Forall_forall in *. intros y Hy. unfold ge_sb.
        rewrite (le_eq_lt x y Ele (FLc y Hy)). reflexivity. }
      subst hit. rewrite HexLc. cbn [orb].
      unfold C03_Model.skipb. cbn [negb andb]. rewrite Ele, andb_true_r.
      unfold keepH at 1. unfold keep. rewrite Hx, Ele. cbn [negb andb orb]. rewrite orb_false_r.
      destruct incl; cbn [negb andb].
      * cbn [feed app]. destruct (sv a1' x) as [a2 cont]. destruct cont.
        -- specialize (IHt a2). unfold spec_res in IHt. rewrite Hfr' in IHt. rewrite Hfr.
           destruct (loop rc its (tl ch) true a2) as [[a3 h3] ok3]. cbn [fst snd] in *.
           destruct (feed rest a2) as [a4 c4]. destruct IHt as (-> & -> & Hh3).
           repeat split; auto. intros E. rewrite (Hh3 E). cbn. now rewrite Hex.
        -- cbn. repeat split; auto; try discriminate.
      * cbn [app]. specialize (IHt a1'). unfold spec_res in IHt. rewrite Hfr' in IHt. rewrite Hfr.
        destruct (loop rc its (tl ch) true a1') as [[a3 h3] ok3]. cbn [fst snd] in *.
        destruct (feed rest a1') as [a4 c4]. destruct IHt as (-> & -> & Hh3).
        repeat split; auto. intros E. rewrite (Hh3 E). cbn. now rewrite Hex.
    + unfold C03_Model.skipb. rewrite Ele, andb_false_r.
      assert (Hk : keepH hit x = true).
      { unfold keepH. destruct hit; auto. now apply keep_gt. }
      rewrite Hk. cbn [feed app]. destruct (sv a1' x) as [a2 cont]. destruct cont.
      * specialize (IHt a2). unfold spec_res in IHt. rewrite Hfr' in IHt. rewrite Hfr.
        destruct (loop rc its (tl ch) true a2) as [[a3 h3] ok3]. cbn [fst snd] in *.
        destruct (feed rest a2) as [a4 c4]. destruct IHt as (-> & -> & Hh3).
        repeat split; auto. intros E. rewrite (Hh3 E). cbn. rewrite Hex. now rewrite orb_true_r.
      * cbn. repeat split; auto; try discriminate.
Qed.

Lemma drop_lt_spec f : forall its ch,
  (ch = [] \/ length ch = S (length its)) -> Forall (iwf f) ch ->
  StronglySorted klt (inter (iflat f) its ch) ->
  exists dropped,
    let '(its', ch') := drop_lt its ch in
    inter (iflat f) its ch = dropped ++ inter (iflat f) its' ch' /\
    Forall (fun x => lt_s x = true) dropped /\
    Forall (fun x => lt_s x = false) its' /\
    (ch' = [] \/ length ch' = S (length its')) /\ Forall (iwf f) ch'.
Proof.
  induction its as [|x its IH]; intros ch Hshape Hwf Hs.
  - exists []. cbn. repeat split; auto.
  - cbn [C03_Model.drop_lt]. destruct (lt_s x) eqn:Ex.
    + cbn [inter] in Hs.
      destruct (ss_app_inv _ _ _ Hs) as (SLc & Srest & FLc & Frest).
      assert (Hshape' : tl ch = [] \/ length (tl ch) = S (length its)).
      { destruct Hshape as [->|Hl]; [now left|]. destruct ch; cbn in *; [discriminate|]. right. lia. }
      assert (Hwf' : Forall (iwf f) (tl ch)) by (destruct ch; cbn; auto; now inversion Hwf).
      destruct (IH (tl ch) Hshape' Hwf' Srest) as [d Hd].
      destruct (drop_lt its (tl ch)) as [its' ch'].
      destruct Hd as (Heq & Hd1 & Hd2 & Hd3 & Hd4).
      exists (hd_rec (iflat f) [] ch ++ x :: d). cbn [inter]. rewrite Heq.
      repeat split; auto.
      * now rewrite <- app_assoc.
      * rewrite Forall_app. split.
        -- rewrite Forall_forall in *. intros y Hy. eapply lt_before; eauto.
        -- constructor; auto.
    + exists []. cbn [app]. repeat split; auto.
      constructor; auto.
      cbn [inter] in Hs. destruct (ss_app_inv _ _ _ Hs) as (_ & Srest & _ & Frest).
      clear IH Hshape Hwf Hs. revert ch Srest Frest. induction its as [|y its IH2]; intros ch Srest Frest; [constructor|].
      cbn [inter] in *. rewrite Forall_app in Frest. destruct Frest as [_ Fr]. inversion Fr as [|? ? Hy Fr']; subst.
      constructor.
      * destruct (lt_s y) eqn:Ey; auto. rewrite (lt_before y x Ey Hy) in Ex. discriminate.
      * destruct (ss_app_inv _ _ _ Srest) as (_ & S2 & _ & _). eapply IH2; eauto.
Qed.

Lemma asc_spec : forall f, rc_ok f (asc f).
Proof.
  induction f as [|f IH]; intros n hit a Hwf Hs Hh; [destruct Hwf|].
  cbn [C03_Model.asc iflat] in *. cbn [iwf] in Hwf.
  assert (Hshape : ichildren n = [] \/ length (ichildren n) = S (length (iitems n))) by tauto.
  assert (Hwfc : Forall (iwf f) (ichildren n)).
  { destruct Hwf as [->|[_ H]]; auto. }
  destruct (drop_lt_spec f _ _ Hshape Hwfc Hs) as [d Hd].
  destruct (drop_lt (iitems n) (ichildren n)) as [its' ch'].
  destruct Hd as (Heq & Hd1 & Hd2 & Hd3 & Hd4).
  rewrite Heq in *.
  destruct (ss_app_inv_app d (inter (iflat f) its' ch') Hs) as [Sd Sr].
  assert (Hd_nil : hit = true -> d = []).
  { intros E. specialize (Hh E). unfold all_gt in Hh. rewrite Forall_app in Hh. destruct Hh as [Hh _].
    destruct d as [|y d]; auto. inversion Hh; subst. inversion Hd1; subst.
    match goal with H1 : le_s y = false, H2 : lt_s y = true |- _ => rewrite (le_s_false_lt _ H1) in H2; discriminate end. }
  assert (Hh' : hit = true -> all_gt (inter (iflat f) its' ch')).
  { intros E. specialize (Hh E). unfold all_gt in *. rewrite Forall_app in Hh. tauto. }
  pose proof (loop_spec f (asc f) IH its' ch' hit a Hd3 Hd4 Sr Hd2 Hh') as HL.
  unfold spec_res in *. rewrite filter_app, existsb_app.
  assert (Hex : existsb ge_sb d = false).
  { apply existsb_none. rewrite Forall_forall in *. intros y Hy. unfold ge_sb. now rewrite (Hd1 y Hy). }
  rewrite Hex. cbn [orb].
  assert (Hfd : filter (keepH hit) d = []).
  { destruct hit; [now rewrite (Hd_nil eq_refl)|].
    apply filter_none. rewrite Forall_forall in *. intros y Hy. unfold keepH. apply keep_lt, Hd1, Hy. }
  rewrite Hfd. cbn [app]. exact HL.
Qed.
End Asc.

(* node.iterate(ascend, start, stop, includeStart, false, iter) on a well-formed, ordered tree:
   the callback (behind the stop test) is run over the kept part of the in-order list *)
Theorem ascend_scan_correct A (visit : A -> item -> A * bool) (start stop : option Z) (incl : bool) f n a :
  iwf f n -> StronglySorted klt (iflat f n) ->
  let r := asc A visit start stop incl f n false a in
  (fst (fst r), snd r) = feed (svisit_a A visit stop) (filter (keep start incl) (iflat f n)) a.
Proof.
  intros Hwf Hs r.
  pose proof (asc_spec A visit start stop incl f n false a Hwf Hs (fun E => False_ind _ (Bool.diff_false_true E))) as H.
  unfold spec_res, keepH in H. fold r in H.
  destruct (feed (svisit_a A visit stop) (filter (keep start incl) (iflat f n)) a) as [a' c].
  destruct H as (-> & -> & _). reflexivity.
Qed.

(* ================= descending ================= *)
(* the in-order list read from the right: last child, last item, ..., first child *)
Fixpoint dflat (f : nat) (n : inode) : list item :=
  match f with O => [] | S f' => inter (dflat f') (rev (iitems n)) (rev (ichildren n)) end.

Lemma ssd_app_inv (l1 : list item) x l2 :
  StronglySorted kgt (l1 ++ x :: l2) ->
  StronglySorted kgt l1 /\ StronglySorted kgt l2 /\ Forall (fun y => key x < key y) l1 /\ Forall (fun y => key y < key x) l2.
Proof.
  induction l1 as [|y l1 IH]; cbn [app]; intros H.
  - inversion H; subst. repeat split; auto; constructor.
  - inversion H as [|? ? Hs Hf]; subst. destruct (IH Hs) as (S1 & S2 & F1 & F2).
    rewrite Forall_app in Hf. destruct Hf as [Hf1 Hf2]. inversion Hf2; subst.
    split; [constructor; assumption|]. split; [assumption|]. split; [constructor; assumption|assumption].
Qed.
Lemma ssd_app_inv_app (l1 l2 : list item) : StronglySorted kgt (l1 ++ l2) -> StronglySorted kgt l1 /\ StronglySorted kgt l2.
Proof.
  induction l1 as [|y l1 IH]; cbn [app]; intros H; [split; [constructor|assumption]|].
  inversion H as [|? ? Hs Hf]; subst. destruct (IH Hs). rewrite Forall_app in Hf. split; [constructor; tauto|assumption].
Qed.

Section Desc.
Variable A : Type.
Variable visit : A -> item -> A * bool.
Variable start stop : option Z.
Variable incl : bool.
Local Notation sv := (svisit_d A visit stop).
Local Notation gt_s := (gt_s start).
Local Notation ge_s := (ge_s start).
Local Notation skipd := (skipd start incl).
Local Notation dloop := (dloop A visit start stop incl).
Local Notation ddrop := (ddrop start).
Local Notation desc := (desc A visit start stop incl).
Local Notation feed := (feed sv).
Local Notation rec_t := (rec_t A).

(* the items a descending scan from the pivot must deliver *)
Definition keepd (x : item) : bool := negb (gt_s x) && (incl || negb (ge_s x)).
Definition keepHd (hit : bool) (x : item) : bool := if hit then true else keepd x.

Lemma gt_ge x : gt_s x = true -> ge_s x = true.
Proof. unfold C03_Model.gt_s, C03_Model.ge_s. destruct start as [s|]; [|discriminate]. intros H. apply Z.ltb_lt in H. apply Z.leb_le. lia. Qed.
Lemma ge_false_gt x : ge_s x = false -> gt_s x = false.
Proof. intros H. destruct (gt_s x) eqn:E; [rewrite (gt_ge x E) in H; discriminate|reflexivity]. Qed.
Lemma below_stays x y : ge_s x = false -> key y < key x -> ge_s y = false.
Proof. unfold C03_Model.ge_s. destruct start as [s|]; [|reflexivity]. intros H Hxy. apply Z.leb_gt in H. apply Z.leb_gt. lia. Qed.
Lemma above_gt x y : ge_s x = true -> key x < key y -> gt_s y = true.
Proof. unfold C03_Model.ge_s, C03_Model.gt_s. destruct start as [s|]; [|discriminate]. intros H Hxy. apply Z.leb_le in H. apply Z.ltb_lt. lia. Qed.
Lemma notgt_below x y : gt_s x = false -> ge_s x = true -> key y < key x -> ge_s y = false.
Proof. unfold C03_Model.ge_s, C03_Model.gt_s. destruct start as [s|]; [|reflexivity]. intros H1 H2 Hxy. apply Z.ltb_ge in H1. apply Z.leb_gt. lia. Qed.
Lemma gt_above x y : gt_s x = true -> key x < key y -> gt_s y = true.
Proof. unfold C03_Model.gt_s. destruct start as [s|]; [|discriminate]. intros H Hxy. apply Z.ltb_lt in H. apply Z.ltb_lt. lia. Qed.
Lemma keepd_below x : ge_s x = false -> keepd x = true.
Proof. intros H. unfold keepd. rewrite (ge_false_gt _ H), H. cbn. apply orb_true_r. Qed.
Lemma keepd_above x : gt_s x = true -> keepd x = false.
Proof. intros H. unfold keepd. rewrite H. reflexivity. Qed.

Definition spec_resd (hit : bool) (L : list item) (a : A) (r : A * bool * bool) : Prop :=
  let '(a', c) := feed (filter (keepHd hit) L) a in
  fst (fst r) = a' /\ snd r = c /\ (c = true -> snd (fst r) = hit || existsb (keepHd hit) L).

Definition all_lt (L : list item) := Forall (fun x => ge_s x = false) L.

Definition rc_okd (f : nat) (rc : rec_t) : Prop :=
  forall c hit a, iwf f c -> StronglySorted kgt (dflat f c) ->
    (hit = true -> all_lt (dflat f c)) -> spec_resd hit (dflat f c) a (rc c hit a).

Lemma filter_keepHd_all hit L : all_lt L -> filter (keepHd hit) L = L.
Proof.
  intros H. apply filter_all. unfold all_lt in H. rewrite Forall_forall in *. intros x Hx.
  unfold keepHd. destruct hit; [reflexivity|]. apply keepd_below, H, Hx.
Qed.
Lemma filter_keepHd_above L : Forall (fun x => gt_s x = true) L -> filter (keepHd false) L = [] /\ existsb (keepHd false) L = false.
Proof.
  intros H. split; [apply filter_none|apply existsb_none]; rewrite Forall_forall in *; intros x Hx; unfold keepHd; apply keepd_above, H, Hx.
Qed.

Lemma spec_hdd f rc (Hrc : rc_okd f rc) ch hit a :
  Forall (iwf f) ch -> StronglySorted kgt (hd_rec (dflat f) [] ch) ->
  (hit = true -> all_lt (hd_rec (dflat f) [] ch)) ->
  spec_resd hit (hd_rec (dflat f) [] ch) a (hd_rec (fun c => rc c hit a) (a, hit, true) ch).
Proof.
  destruct ch as [|c ch]; cbn [hd_rec]; intros Hwf Hs Hh.
  - unfold spec_resd; cbn. split; [reflexivity|split; [reflexivity|]]. intros _. symmetry. apply orb_false_r.
  - apply Hrc; [inversion Hwf; assumption|assumption|assumption].
Qed.

Lemma dloop_spec f rc (Hrc : rc_okd f rc) : forall its ch hit a,
  (ch = [] \/ length ch = S (length its)) -> Forall (iwf f) ch ->
  StronglySorted kgt (inter (dflat f) its ch) ->
  Forall (fun x => gt_s x = false) its ->
  (hit = true -> all_lt (inter (dflat f) its ch)) ->
  spec_resd hit (inter (dflat f) its ch) a (dloop rc its ch hit a).
Proof.
  induction its as [|x its IH]; intros ch hit a Hshape Hwf Hs Hits Hh.
  - cbn [inter C03_Model.dloop]. apply spec_hdd; assumption.
  - cbn [inter C03_Model.dloop] in *.
    set (Lc := hd_rec (dflat f) [] ch) in *.
    set (rest := inter (dflat f) its (tl ch)) in *.
    destruct (ssd_app_inv _ _ _ Hs) as (SLc & Srest & FLc & Frest).
    inversion Hits as [|? ? Hx Hits']; subst.
    assert (Hshape' : tl ch = [] \/ length (tl ch) = S (length its)).
    { destruct Hshape as [->|Hl]; [left; reflexivity|]. destruct ch; cbn in *; [discriminate|]. right. lia. }
    assert (Hwf' : Forall (iwf f) (tl ch)) by (destruct ch; cbn; [constructor|inversion Hwf; assumption]).
    assert (Hh1 : hit = true -> all_lt Lc).
    { intros E. specialize (Hh E). unfold all_lt in *. rewrite Forall_app in Hh. tauto. }
    assert (Hhx : hit = true -> ge_s x = false).
    { intros E. specialize (Hh E). unfold all_lt in Hh. rewrite Forall_app in Hh. destruct Hh as [_ Hh]. inversion Hh; assumption. }
    unfold spec_resd. rewrite filter_app. cbn [filter]. rewrite feed_app. rewrite existsb_app. cbn [existsb].
    destruct (ge_s x) eqn:Ege.
    + assert (Hhit : hit = false) by (destruct hit; [specialize (Hhx eq_refl); discriminate|reflexivity]). subst hit.
      assert (HLc : Forall (fun y => gt_s y = true) Lc).
      { rewrite Forall_forall in *. intros y Hy. apply (above_gt x y Ege (FLc y Hy)). }
      destruct (filter_keepHd_above Lc HLc) as [FLc0 ELc0]. rewrite FLc0, ELc0. cbn [C03_Scan.feed orb].
      assert (Hrest_lt : all_lt rest).
      { unfold all_lt. rewrite Forall_forall in *. intros y Hy. apply (notgt_below x y Hx Ege (Frest y Hy)). }
      assert (Hkx : keepHd false x = incl) by (unfold keepHd, keepd; rewrite Hx, Ege; cbn [negb andb]; apply orb_false_r).
      assert (Hsk : skipd false x = negb incl) by (unfold C03_Model.skipd; rewrite Ege, Hx; cbn [andb]; rewrite !orb_false_r; reflexivity).
      rewrite Hkx, Hsk.
      destruct incl; cbn [negb].
      * pose proof (spec_hdd f rc Hrc ch false a Hwf SLc Hh1) as H1. fold Lc in H1. unfold spec_resd in H1. rewrite FLc0 in H1. cbn [C03_Scan.feed] in H1.
        destruct (hd_rec (fun c => rc c false a) (a, false, true) ch) as [[a1 h1] ok1]. cbn [fst snd] in H1.
        destruct H1 as (-> & -> & _). cbn [negb C03_Scan.feed app].
        destruct (sv a x) as [a2 cont]. destruct cont.
        -- pose proof (IH (tl ch) true a2 Hshape' Hwf' Srest Hits' (fun _ => Hrest_lt)) as IHt. fold rest in IHt. unfold spec_resd in IHt.
           rewrite (filter_keepHd_all true rest Hrest_lt) in IHt. rewrite (filter_keepHd_all false rest Hrest_lt).
           destruct (dloop rc its (tl ch) true a2) as [[a3 h3] ok3]. cbn [fst snd] in *.
           destruct (feed rest a2) as [a4 c4]. destruct IHt as (-> & -> & Hh3).
           split; [reflexivity|split; [reflexivity|]]. intros E. rewrite (Hh3 E). reflexivity.
        -- cbn. split; [reflexivity|split; [reflexivity|discriminate]].
      * cbn [app orb].
        pose proof (IH (tl ch) false a Hshape' Hwf' Srest Hits' (fun E => False_ind _ (Bool.diff_false_true E))) as IHt. fold rest in IHt.
        unfold spec_resd in IHt. destruct (dloop rc its (tl ch) false a) as [[a3 h3] ok3]. cbn [fst snd] in *.
        destruct (feed (filter (keepHd false) rest) a) as [a4 c4]. exact IHt.
    + unfold C03_Model.skipd. rewrite Ege. cbn [andb].
      assert (Hrest_lt : all_lt rest).
      { unfold all_lt. rewrite Forall_forall in *. intros y Hy. apply (below_stays x y Ege (Frest y Hy)). }
      pose proof (spec_hdd f rc Hrc ch hit a Hwf SLc Hh1) as H1. fold Lc in H1. unfold spec_resd in H1.
      destruct (hd_rec (fun c => rc c hit a) (a, hit, true) ch) as [[a1 h1] ok1]. cbn [fst snd] in H1.
      destruct (feed (filter (keepHd hit) Lc) a) as [a1' c1]. destruct H1 as (-> & -> & Hh1').
      assert (Hk : keepHd hit x = true) by (unfold keepHd; destruct hit; [reflexivity|apply keepd_below, Ege]).
      rewrite Hk. destruct c1; cbn [negb].
      2:{ cbn. split; [reflexivity|split; [reflexivity|discriminate]]. }
      cbn [C03_Scan.feed app]. destruct (sv a1' x) as [a2 cont]. destruct cont.
      * pose proof (IH (tl ch) true a2 Hshape' Hwf' Srest Hits' (fun _ => Hrest_lt)) as IHt. fold rest in IHt. unfold spec_resd in IHt.
        rewrite (filter_keepHd_all true rest Hrest_lt) in IHt. rewrite (filter_keepHd_all hit rest Hrest_lt).
        destruct (dloop rc its (tl ch) true a2) as [[a3 h3] ok3]. cbn [fst snd] in *.
        destruct (feed rest a2) as [a4 c4]. destruct IHt as (-> & -> & Hh3).
        split; [reflexivity|split; [reflexivity|]]. intros E. rewrite (Hh3 E). cbn [orb]. rewrite !orb_true_r. reflexivity.
      * cbn. split; [reflexivity|split; [reflexivity|discriminate]].
Qed.

Lemma ddrop_spec f : forall its ch,
  (ch = [] \/ length ch = S (length its)) -> Forall (iwf f) ch ->
  StronglySorted kgt (inter (dflat f) its ch) ->
  exists dropped,
    let '(its', ch') := ddrop its ch in
    inter (dflat f) its ch = dropped ++ inter (dflat f) its' ch' /\
    Forall (fun x => gt_s x = true) dropped /\
    Forall (fun x => gt_s x = false) its' /\
    (ch' = [] \/ length ch' = S (length its')) /\ Forall (iwf f) ch'.
Proof.
  induction its as [|x its IH]; intros ch Hshape Hwf Hs.
  - exists []. cbn. repeat split; auto.
  - cbn [C03_Model.ddrop]. destruct (gt_s x) eqn:Ex.
    + cbn [inter] in Hs. destruct (ssd_app_inv _ _ _ Hs) as (SLc & Srest & FLc & Frest).
      assert (Hshape' : tl ch = [] \/ length (tl ch) = S (length its)).
      { destruct Hshape as [->|Hl]; [left; reflexivity|]. destruct ch; cbn in *; [discriminate|]. right. lia. }
      assert (Hwf' : Forall (iwf f) (tl ch)) by (destruct ch; cbn; [constructor|inversion Hwf; assumption]).
      destruct (IH (tl ch) Hshape' Hwf' Srest) as [d Hd].
      destruct (ddrop its (tl ch)) as [its' ch']. destruct Hd as (Heq & Hd1 & Hd2 & Hd3 & Hd4).
      exists (hd_rec (dflat f) [] ch ++ x :: d). cbn [inter]. rewrite Heq.
      split; [rewrite <- app_assoc; reflexivity|]. split; [|split; [exact Hd2|split; [exact Hd3|exact Hd4]]].
      rewrite Forall_app. split; [|constructor; assumption].
      rewrite Forall_forall in *. intros y Hy. apply (gt_above x y Ex (FLc y Hy)).
    + exists []. cbn [app]. split; [reflexivity|]. split; [constructor|]. split; [|split; assumption].
      constructor; [exact Ex|].
      cbn [inter] in Hs. destruct (ssd_app_inv _ _ _ Hs) as (_ & Srest & _ & Frest).
      clear IH Hshape Hwf Hs. revert ch Srest Frest. induction its as [|y its IH2]; intros ch Srest Frest; [constructor|].
      cbn [inter] in *. rewrite Forall_app in Frest. destruct Frest as [_ Fr]. inversion Fr as [|? ? Hy Fr']; subst.
      constructor.
      * destruct (gt_s y) eqn:Ey; [|reflexivity]. rewrite (gt_above y x Ey Hy) in Ex. discriminate.
      * destruct (ssd_app_inv _ _ _ Srest) as (_ & S2 & _ & _). apply (IH2 (tl ch) S2 Fr').
Qed.

Lemma iwf_rev f n : iwf (S f) n ->
  (rev (ichildren n) = [] \/ length (rev (ichildren n)) = S (length (rev (iitems n)))) /\ Forall (iwf f) (rev (ichildren n)).
Proof.
  cbn [iwf]. intros [E|[Hl Hf]].
  - rewrite E. cbn. split; [left; reflexivity|constructor].
  - split; [right; rewrite !rev_length; exact Hl|]. apply Forall_rev, Hf.
Qed.

Lemma desc_spec : forall f, rc_okd f (desc f).
Proof.
  induction f as [|f IH]; intros n hit a Hwf Hs Hh; [destruct Hwf|].
  cbn [C03_Model.desc dflat] in *. destruct (iwf_rev f n Hwf) as [Hshape Hwfc].
  destruct (ddrop_spec f _ _ Hshape Hwfc Hs) as [d Hd].
  destruct (ddrop (rev (iitems n)) (rev (ichildren n))) as [its' ch'].
  destruct Hd as (Heq & Hd1 & Hd2 & Hd3 & Hd4). rewrite Heq in *.
  destruct (ssd_app_inv_app d (inter (dflat f) its' ch') Hs) as [Sd Sr].
  assert (Hd_nil : hit = true -> d = []).
  { intros E. specialize (Hh E). unfold all_lt in Hh. rewrite Forall_app in Hh. destruct Hh as [Hh _].
    destruct d as [|y d]; [reflexivity|]. inversion Hh; subst. inversion Hd1; subst.
    match goal with H1 : ge_s y = false, H2 : gt_s y = true |- _ => rewrite (gt_ge y H2) in H1; discriminate end. }
  assert (Hh' : hit = true -> all_lt (inter (dflat f) its' ch')).
  { intros E. specialize (Hh E). unfold all_lt in *. rewrite Forall_app in Hh. tauto. }
  pose proof (dloop_spec f (desc f) IH its' ch' hit a Hd3 Hd4 Sr Hd2 Hh') as HL.
  unfold spec_resd in *. rewrite filter_app, existsb_app.
  assert (Hfd : filter (keepHd hit) d = [] /\ existsb (keepHd hit) d = false).
  { destruct hit; [rewrite (Hd_nil eq_refl); split; reflexivity|]. apply filter_keepHd_above, Hd1. }
  destruct Hfd as [Hfd Hed]. rewrite Hfd, Hed. cbn [app orb]. exact HL.
Qed.
End Desc.

(* ---------- the descending list is the ascending one reversed ---------- *)
Lemma inter_leaf F its : inter F its [] = its.
Proof. induction its as [|x its IH]; [reflexivity|]. cbn [inter hd_rec tl app]. rewrite IH. reflexivity. Qed.
Lemma inter_snoc F : forall its ch x c, length ch = S (length its) -> inter F (its ++ [x]) (ch ++ [c]) = inter F its ch ++ x :: F c.
Proof.
  induction its as [|y its IH]; intros ch x c Hl.
  - destruct ch as [|c0 [|c1 ch]]; cbn in Hl; try lia. cbn. reflexivity.
  - destruct ch as [|c0 ch]; [cbn in Hl; lia|]. cbn [app inter hd_rec tl]. rewrite IH by (cbn in Hl; lia). rewrite <- app_assoc. reflexivity.
Qed.
Lemma dflat_rev : forall f n, iwf f n -> dflat f n = rev (iflat f n).
Proof.
  induction f as [|f IH]; intros n Hwf; [destruct Hwf|]. cbn [dflat iflat]. cbn [iwf] in Hwf.
  destruct Hwf as [E|[Hl Hf]].
  - rewrite E. cbn [rev]. rewrite !inter_leaf. reflexivity.
  - assert (Hg : forall its ch, (ch = [] \/ length ch = S (length its)) -> Forall (iwf f) ch ->
              inter (dflat f) (rev its) (rev ch) = rev (inter (iflat f) its ch)).
    { induction its as [|x its IHi]; intros ch Hshape Hfa.
      - destruct Hshape as [->|Hl']; [reflexivity|]. destruct ch as [|c [|c1 ch]]; cbn in Hl'; try lia. cbn. inversion Hfa; subst. apply IH. assumption.
      - destruct Hshape as [->|Hl'].
        + cbn [rev]. rewrite !inter_leaf. reflexivity.
        + destruct ch as [|c ch]; [cbn in Hl'; lia|]. inversion Hfa; subst. cbn [rev inter hd_rec tl].
          rewrite inter_snoc by (rewrite !rev_length; cbn in Hl'; lia).
          rewrite IHi by (try (right; cbn in Hl'; lia); assumption). rewrite (IH c) by assumption.
          rewrite rev_app_distr. cbn [rev]. rewrite <- app_assoc. reflexivity. }
    apply Hg; [right; exact Hl|exact Hf].
Qed.

Lemma ss_rev (l : list item) : StronglySorted klt l -> StronglySorted kgt (rev l).
Proof.
  induction 1 as [|x l Hs IH Hf]; [constructor|]. cbn [rev].
  assert (G : forall a b, StronglySorted kgt a -> Forall (fun y => klt b y) a -> StronglySorted kgt (a ++ [b])).
  { induction a as [|y a IHa]; intros b Sa Fa; cbn [app]; [constructor; constructor|].
    inversion Sa; subst. inversion Fa; subst. constructor; [apply IHa; assumption|]. apply Forall_app. split; [assumption|constructor; [assumption|constructor]]. }
  apply G; [exact IH|]. apply Forall_rev. exact Hf.
Qed.

(* node.iterate(descend, start, stop, includeStart, false, iter) on a well-formed, ordered tree *)
Theorem descend_scan_correct A (visit : A -> item -> A * bool) (start stop : option Z) (incl : bool) f n a :
  iwf f n -> StronglySorted klt (iflat f n) ->
  let r := desc A visit start stop incl f n false a in
  (fst (fst r), snd r) = feed (svisit_d A visit stop) (filter (keepd start incl) (rev (iflat f n))) a.
Proof.
  intros Hwf Hs r. rewrite <- (dflat_rev f n Hwf).
  assert (Hsd : StronglySorted kgt (dflat f n)) by (rewrite (dflat_rev f n Hwf); apply ss_rev, Hs).
  pose proof (desc_spec A visit start stop incl f n false a Hwf Hsd (fun E => False_ind _ (Bool.diff_false_true E))) as H.
  unfold spec_resd, keepHd in H. fold r in H.
  destruct (feed (svisit_d A visit stop) (filter (keepd start incl) (dflat f n)) a) as [a' c].
  destruct H as (-> & -> & _). reflexivity.
Qed.
