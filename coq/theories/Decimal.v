(* shared by C07 (CnStyle / FromChStyle) and C20 (FormatInt / Atoi / ParseUint): decimal text <-> Z *)
From Coq Require Import ZArith List Lia Bool.
Import ListNotations.
Open Scope Z_scope.

Definition is_digit (d : Z) : bool := (48 <=? d) && (d <=? 57).

(* least significant digit first; fuel = maximal number of digits *)
Fixpoint digits_rev (fuel : nat) (n : Z) : list Z :=
  match fuel with
  | O => []
  | S f => if n <? 10 then [48 + n] else (48 + n mod 10) :: digits_rev f (n / 10)
  end.
Definition digits (fuel : nat) (n : Z) : list Z := rev (digits_rev fuel n).      (* strconv.FormatUint(n, 10) *)
Definition pad (k : nat) (l : list Z) : list Z := repeat 48 (k - length l) ++ l.  (* the zero flag of %0kd *)

(* strconv's digit loop: most significant first, fails on a non-digit *)
Fixpoint parse_acc (l : list Z) (acc : Z) : option Z :=
  match l with
  | [] => Some acc
  | d :: r => if is_digit d then parse_acc r (acc * 10 + (d - 48)) else None
  end.
Definition parse (l : list Z) : option Z := match l with [] => None | _ => parse_acc l 0 end.

Fixpoint value_rev (l : list Z) : Z := match l with [] => 0 | d :: r => (d - 48) + 10 * value_rev r end.

Lemma digits_rev_spec : forall f n, 0 <= n < 10 ^ Z.of_nat f ->
  Forall (fun d => is_digit d = true) (digits_rev f n) /\ value_rev (digits_rev f n) = n /\ (f <> O -> digits_rev f n <> []).
Proof.
  induction f as [|f IH]; intros n Hn.
  - cbn in Hn. assert (n = 0) by lia. subst. cbn. repeat split; auto; congruence.
  - cbn [digits_rev]. destruct (n <? 10) eqn:E.
    + apply Z.ltb_lt in E. cbn [value_rev]. split; [|split; [lia | discriminate]].
      apply Forall_cons; [|apply Forall_nil].
      unfold is_digit. apply andb_true_intro; split; [apply Z.leb_le | apply Z.leb_le]; lia.
    + apply Z.ltb_ge in E.
      assert (Hq : 0 <= n / 10 < 10 ^ Z.of_nat f).
      { rewrite Nat2Z.inj_succ, Z.pow_succ_r in Hn by lia. split; [apply Z.div_pos; lia|].
        apply Z.div_lt_upper_bound; lia. }
      destruct (IH (n / 10) Hq) as (Hd & Hv & _).
      pose proof (Z.mod_pos_bound n 10 ltac:(lia)) as Hm.
      cbn [value_rev]. split; [|split; [|discriminate]].
      * apply Forall_cons; auto.
        unfold is_digit. apply andb_true_intro; split; [apply Z.leb_le | apply Z.leb_le]; lia.
      * rewrite Hv. pose proof (Z.div_mod n 10 ltac:(lia)). lia.
Qed.

Lemma parse_acc_app : forall l1 l2 acc, parse_acc (l1 ++ l2) acc =
  match parse_acc l1 acc with Some a => parse_acc l2 a | None => None end.
Proof. induction l1 as [|d l1 IH]; intros l2 acc; cbn; [reflexivity|]. destruct (is_digit d); auto. Qed.

Lemma parse_acc_rev : forall l acc, Forall (fun d => is_digit d = true) l ->
  parse_acc (rev l) acc = Some (acc * 10 ^ Z.of_nat (length l) + value_rev l).
Proof.
  induction l as [|d l IH]; intros acc Hl.
  - cbn. f_equal. lia.
  - inversion Hl as [|? ? Hd Hl']; subst. cbn [rev]. rewrite parse_acc_app, IH by auto.
    cbn [parse_acc]. rewrite Hd. f_equal. cbn [length value_rev].
    rewrite Nat2Z.inj_succ, Z.pow_succ_r by lia. lia.
Qed.

Lemma parse_acc_zeros : forall k l acc, parse_acc (repeat 48 k ++ l) acc = parse_acc l (acc * 10 ^ Z.of_nat k).
Proof.
  induction k as [|k IH]; intros l acc; cbn [repeat app].
  - f_equal. cbn. lia.
  - cbn [parse_acc]. change (is_digit 48) with true. cbn match. rewrite IH. f_equal.
    rewrite Nat2Z.inj_succ, Z.pow_succ_r by lia. lia.
Qed.

Theorem parse_digits f n : f <> O -> 0 <= n < 10 ^ Z.of_nat f -> parse (digits f n) = Some n.
Proof.
  intros Hf Hn. destruct (digits_rev_spec f n Hn) as (Hd & Hv & Hne). specialize (Hne Hf).
  unfold parse, digits. destruct (rev (digits_rev f n)) eqn:E.
  - apply (f_equal (@rev Z)) in E. rewrite rev_involutive in E. cbn in E. congruence.
  - rewrite <- E. rewrite parse_acc_rev by auto. f_equal. lia.
Qed.

Theorem parse_padded k f n : f <> O -> 0 <= n < 10 ^ Z.of_nat f -> parse (pad k (digits f n)) = Some n.
Proof.
  intros Hf Hn. destruct (digits_rev_spec f n Hn) as (Hd & Hv & Hne). specialize (Hne Hf).
  unfold parse, pad, digits. destruct (repeat 48 (k - length (rev (digits_rev f n))) ++ rev (digits_rev f n)) eqn:E.
  - apply app_eq_nil in E as [_ E]. apply (f_equal (@rev Z)) in E. rewrite rev_involutive in E. cbn in E. congruence.
  - rewrite <- E. rewrite parse_acc_zeros, parse_acc_rev by auto. f_equal. lia.
Qed.
Print Assumptions parse_padded.
