(* C09: the bitmap as a set of positions - Set, membership, the member list, the 16-word iteration *)
From Coq Require Import ZArith List Bool Lia Sorted.
Require Import LE Marshal C09_Model C09_Lists.
Import ListNotations.
Open Scope Z_scope.

Definition wf (b : bitmap) : Prop := length b = 16%nat /\ Forall (fun w => 0 <= w < 2 ^ 64) b.
Definition bit (b : bitmap) (k m : Z) : bool := Z.testbit (nth (Z.to_nat k) b 0) m.
(* the members of a bitmap, ascending *)
Definition members (b : bitmap) : list Z := filter (member b) z1024.
Definition in_range (i : Z) : Prop := 0 <= i < 1024.

(* ------------------------------------------------------------------ words *)
Lemma high_bits w m : 0 <= w < 2 ^ 64 -> 64 <= m -> Z.testbit w m = false.
Proof.
  intros Hw Hm. destruct (Z.eq_dec w 0) as [->|Hne]; [apply Z.bits_0|].
  apply Z.bits_above_log2; [lia|]. assert (Z.log2 w < 64) by (apply Z.log2_lt_pow2; lia). lia.
Qed.

Lemma set64_bit w i m : 0 <= i <= 63 -> 0 <= m -> Z.testbit (set64 w i) m = Z.testbit w m || (m =? i).
Proof.
  intros Hi Hm. unfold set64. replace (i <=? 63) with true by (symmetry; apply Z.leb_le; lia).
  rewrite Z.lor_spec, Z.shiftl_1_l, Z.pow2_bits_eqb by lia. f_equal. apply Z.eqb_sym.
Qed.

Lemma upd_length b k f : length (upd b k f) = length b.
Proof. revert k. induction b as [|w b IH]; intros [|k]; cbn [upd length]; auto. Qed.
Lemma nth_upd_same b k f : (k < length b)%nat -> nth k (upd b k f) 0 = f (nth k b 0).
Proof.
  revert k. induction b as [|w b IH]; intros k H; cbn [length] in H; [lia|].
  destruct k as [|k]; cbn [upd nth]; [reflexivity|]. apply IH. lia.
Qed.
Lemma nth_upd_other b k k' f : k <> k' -> nth k (upd b k' f) 0 = nth k b 0.
Proof.
  revert k k'. induction b as [|w b IH]; intros [|k] [|k'] H; cbn [upd nth]; try reflexivity; try congruence.
  apply IH. congruence.
Qed.

(* ------------------------------------------------------------------ SetI16 *)
Lemma set_i16_shape b i : in_range i ->
  set_i16 b i = upd b (Z.to_nat (i / 64)) (fun w => set64 w (i mod 64)).
Proof.
  unfold in_range. intros Hi. unfold set_i16.
  assert (Hq : Z.quot i 64 = i / 64) by (apply Z.quot_div_nonneg; lia).
  assert (Hr : Z.rem i 64 = i mod 64) by (apply Z.rem_mod_nonneg; lia). rewrite Hq, Hr.
  assert (0 <= i / 64 < 16) by (split; [apply Z.div_pos; lia|apply Z.div_lt_upper_bound; lia]).
  assert (0 <= i mod 64 < 64) by (apply Z.mod_pos_bound; lia).
  replace ((0 <=? i / 64) && (i / 64 <? 16)) with true
    by (symmetry; apply andb_true_intro; split; [apply Z.leb_le|apply Z.ltb_lt]; lia).
  replace ((i mod 64) mod 256) with (i mod 64) by (symmetry; apply Z.mod_small; lia). reflexivity.
Qed.
Lemma set_i16_length b i : length (set_i16 b i) = length b.
Proof. unfold set_i16. destruct ((0 <=? Z.quot i 64) && (Z.quot i 64 <? 16)); [apply upd_length|reflexivity]. Qed.
Lemma fold_set_length ms : forall b, length (fold_left set_i16 ms b) = length b.
Proof. induction ms as [|i ms IH]; intros b; cbn [fold_left]; [reflexivity|]. now rewrite IH, set_i16_length. Qed.

Lemma bit_set_i16 b i k m : length b = 16%nat -> in_range i -> 0 <= k -> 0 <= m ->
  bit (set_i16 b i) k m = bit b k m || ((k =? i / 64) && (m =? i mod 64)).
Proof.
  intros Hl Hi Hk Hm. rewrite (set_i16_shape b i Hi). unfold bit. unfold in_range in Hi.
  assert (0 <= i / 64 < 16) by (split; [apply Z.div_pos; lia|apply Z.div_lt_upper_bound; lia]).
  assert (0 <= i mod 64 < 64) by (apply Z.mod_pos_bound; lia).
  destruct (k =? i / 64) eqn:E.
  - apply Z.eqb_eq in E. subst k. rewrite nth_upd_same by lia. rewrite set64_bit by lia. reflexivity.
  - apply Z.eqb_neq in E. rewrite nth_upd_other by lia. cbn [andb]. now rewrite orb_false_r.
Qed.

Lemma member_range b j : member b j = true -> in_range j.
Proof.
  unfold member, in_range. intros H. apply andb_prop in H. destruct H as [H _]. apply andb_prop in H. destruct H as [H1 H2].
  apply Z.leb_le in H1. apply Z.ltb_lt in H2. lia.
Qed.
Lemma member_bit b j : in_range j -> member b j = bit b (j / 64) (j mod 64).
Proof.
  unfold in_range. intros Hj. unfold member, bit.
  replace ((0 <=? j) && (j <? 1024)) with true by (symmetry; apply andb_true_intro; split; [apply Z.leb_le|apply Z.ltb_lt]; lia).
  reflexivity.
Qed.
Lemma member_out b j : ~ in_range j -> member b j = false.
Proof. intros H. destruct (member b j) eqn:E; [|reflexivity]. exfalso. apply H. eapply member_range. exact E. Qed.

Lemma same_cell i j : in_range i -> in_range j -> ((j / 64 =? i / 64) && (j mod 64 =? i mod 64)) = (j =? i).
Proof.
  unfold in_range. intros Hi Hj. destruct (j =? i) eqn:E.
  - apply Z.eqb_eq in E. subst j. now rewrite !Z.eqb_refl.
  - apply Z.eqb_neq in E. apply andb_false_iff.
    destruct (j / 64 =? i / 64) eqn:E1; [right|left; reflexivity].
    apply Z.eqb_eq in E1. apply Z.eqb_neq. intros E2. apply E.
    rewrite (Z.div_mod j 64), (Z.div_mod i 64) by lia. now rewrite E1, E2.
Qed.

Theorem member_set_i16 b i j : length b = 16%nat -> in_range i -> member (set_i16 b i) j = member b j || (j =? i).
Proof.
  intros Hl Hi. destruct (Z.lt_ge_cases j 0) as [Hj|Hj].
  { rewrite !member_out by (unfold in_range; lia). unfold in_range in Hi. cbn [orb]. symmetry. apply Z.eqb_neq. lia. }
  destruct (Z.lt_ge_cases j 1024) as [Hj2|Hj2].
  - assert (Hjr : in_range j) by (unfold in_range; lia).
    assert (0 <= j / 64) by (apply Z.div_pos; lia). assert (0 <= j mod 64 < 64) by (apply Z.mod_pos_bound; lia).
    rewrite !member_bit by exact Hjr. rewrite bit_set_i16 by (auto; lia). now rewrite same_cell.
  - rewrite !member_out by (unfold in_range; lia). unfold in_range in Hi. cbn [orb]. symmetry. apply Z.eqb_neq. lia.
Qed.

Lemma memz_In x l : memz x l = true <-> In x l.
Proof.
  unfold memz. rewrite existsb_exists. split.
  - intros (y & Hy & E). apply Z.eqb_eq in E. now subst.
  - intros H. exists x. split; [exact H|apply Z.eqb_refl].
Qed.

Theorem member_fold_set ms : Forall in_range ms -> forall b j, length b = 16%nat ->
  member (fold_left set_i16 ms b) j = member b j || memz j ms.
Proof.
  induction 1 as [|i ms Hi _ IH]; intros b j Hl; cbn [fold_left memz existsb].
  - now rewrite orb_false_r.
  - rewrite IH by (now rewrite set_i16_length). rewrite member_set_i16 by assumption. unfold memz. now rewrite orb_assoc.
Qed.

Lemma bit_fold_set ms : Forall in_range ms -> forall b k m, length b = 16%nat -> 0 <= k -> 0 <= m ->
  bit (fold_left set_i16 ms b) k m = bit b k m || existsb (fun i => (k =? i / 64) && (m =? i mod 64)) ms.
Proof.
  induction 1 as [|i ms Hi _ IH]; intros b k m Hl Hk Hm; cbn [fold_left existsb].
  - now rewrite orb_false_r.
  - rewrite IH by (try rewrite set_i16_length; assumption). rewrite bit_set_i16 by assumption. now rewrite orb_assoc.
Qed.

(* ------------------------------------------------------------------ equality of bitmaps *)
Lemma bitmap_ext a b : length a = 16%nat -> length b = 16%nat ->
  (forall k m, 0 <= k < 16 -> 0 <= m -> bit a k m = bit b k m) -> a = b.
Proof.
  intros Ha Hb H. apply (nth_ext a b 0 0); [congruence|]. intros n Hn.
  apply Z.bits_inj'. intros m Hm. specialize (H (Z.of_nat n) m). unfold bit in H. rewrite Nat2Z.id in H. apply H; lia.
Qed.
Lemma wf_word b k : wf b -> 0 <= k < 16 -> 0 <= nth (Z.to_nat k) b 0 < 2 ^ 64.
Proof.
  intros [Hl Hf] Hk. rewrite Forall_forall in Hf. apply Hf. apply nth_In. lia.
Qed.
Lemma wf_high b k m : wf b -> 0 <= k < 16 -> 64 <= m -> bit b k m = false.
Proof. intros Hw Hk Hm. unfold bit. apply high_bits; [apply wf_word; assumption|exact Hm]. Qed.

Lemma nth_repeat0 n k : nth k (repeat 0 n) 0 = 0.
Proof. revert k. induction n as [|n IH]; intros [|k]; cbn [repeat nth]; auto. Qed.
Lemma bit_zero k m : bit zero k m = false.
Proof. unfold bit. change zero with (repeat 0 16). rewrite nth_repeat0. apply Z.bits_0. Qed.
Lemma zero_length : length zero = 16%nat. Proof. reflexivity. Qed.
Lemma member_zero j : member zero j = false.
Proof.
  destruct (member zero j) eqn:E; [|reflexivity]. pose proof (member_range _ _ E) as Hr.
  rewrite member_bit in E by exact Hr. now rewrite bit_zero in E.
Qed.
Lemma zero_wf : wf zero.
Proof. split; [reflexivity|]. change zero with (repeat 0 16). apply Forall_forall. intros x Hx. apply repeat_spec in Hx. subst. lia. Qed.

(* ------------------------------------------------------------------ the member list *)
Lemma in_members b j : In j (members b) <-> member b j = true.
Proof.
  unfold members. rewrite filter_In, in_z1024. split; [tauto|]. intros H. split; [|exact H]. apply (member_range b j H).
Qed.
Lemma members_sorted b : StronglySorted Z.lt (members b).
Proof. apply sorted_filter, z1024_sorted. Qed.
Lemma members_range b : Forall in_range (members b).
Proof. apply Forall_forall. intros j Hj. apply in_members in Hj. eapply member_range. exact Hj. Qed.
Lemma zlen_members_le b : zlen (members b) <= 1024.
Proof.
  unfold members, zlen. pose proof (filter_length_le (member b) z1024) as H.
  assert (length z1024 = 1024%nat) by (rewrite z1024_eq; unfold zseq; now rewrite map_length, seq_length). lia.
Qed.

Lemma indexed_nth b : length b = 16%nat -> indexed b = map (fun k => (k, nth (Z.to_nat k) b 0)) z16.
Proof.
  intros H. do 16 (destruct b as [|? b]; [cbn [length] in H; lia|]). destruct b; [|cbn [length] in H; lia]. reflexivity.
Qed.

Definition chunk (kw : Z * Z) : list Z := map (fun i => i + 64 * fst kw) (wbits (snd kw)).
Lemma members_chunks b : length b = 16%nat -> members b = flat_map chunk (indexed b).
Proof.
  intros Hl. unfold members. rewrite z1024_chunks, filter_flat_map, (indexed_nth b Hl), flat_map_map'.
  apply flat_map_ext_in. intros k Hk. apply in_z16 in Hk. unfold chunk. cbn [fst snd].
  rewrite filter_map_comm. f_equal. unfold wbits. apply filter_ext_in'. intros i Hi. apply in_z64 in Hi.
  assert (Hr : in_range (i + 64 * k)) by (unfold in_range; lia).
  rewrite (member_bit b _ Hr). unfold bit.
  replace ((i + 64 * k) / 64) with k by (Z.to_euclidean_division_equations; lia).
  replace ((i + 64 * k) mod 64) with i by (Z.to_euclidean_division_equations; lia).
  reflexivity.
Qed.

Lemma wbits_unfold w : wbits w = filter (Z.testbit w) z64.
Proof. reflexivity. Qed.

(* from here on the position list of a word is never unfolded: comparing two stuck 64-fold filters by conversion is exponential *)
Global Opaque wbits.

Lemma zlen_chunks ks : forall ws, length ks = length ws ->
  zlen (flat_map chunk (combine ks ws)) = fold_right (fun w a => wlen w + a) 0 ws.
Proof.
  induction ks as [|k ks IH]; intros [|w ws] H; cbn [length] in H; try lia; cbn [combine flat_map fold_right]; [reflexivity|].
  rewrite zlen_app, IH by lia. unfold chunk at 1. cbn [fst snd]. rewrite zlen_map. unfold wlen. reflexivity.
Qed.
Theorem blen_members b : length b = 16%nat -> blen b = zlen (members b).
Proof. intros H. rewrite (members_chunks b H). unfold blen, indexed. symmetry. apply zlen_chunks. rewrite H. reflexivity. Qed.

(* ------------------------------------------------------------------ the 16-word iteration *)
Lemma map_flat_map {A B C} (g : B -> C) (f : A -> list B) l : map g (flat_map f l) = flat_map (fun x => map g (f x)) l.
Proof. induction l as [|x l IH]; cbn [flat_map map]; [reflexivity|]. now rewrite map_app, IH. Qed.

Definition dirbits (rv : bool) (w : Z) : list Z := if rv then rev (wbits w) else wbits w.
Lemma iter_words_spec rv wr ws add n :
  iter_words rv wr ws add n 0 [] =
  map (fun m => wr (m + add)) (take n (flat_map (fun kw => map (fun i => i + 64 * fst kw) (dirbits rv (snd kw))) ws)).
Proof.
  unfold iter_words.
  rewrite (iter_loop_spec _ (fun kw => map (fun i => wr (i + (64 * fst kw + add))) (dirbits rv (snd kw)))).
  - cbn [app]. rewrite Z.sub_0_r. rewrite <- take_map. f_equal. rewrite map_flat_map.
    apply flat_map_ext_in. intros kw _. rewrite map_map. apply map_ext. intros i. f_equal. lia.
  - intros kw _ k. unfold witer, dirbits. now rewrite take_map.
Qed.

Theorem iter1024_fwd wr b add n : length b = 16%nat ->
  iter1024 false wr b add n = map (fun m => wr (m + add)) (take n (members b)).
Proof.
  intros Hl. unfold iter1024. rewrite iter_words_spec. rewrite (members_chunks b Hl). reflexivity.
Qed.

Theorem iter1024_rev wr b add n : length b = 16%nat ->
  iter1024 true wr b add n = map (fun m => wr (m + add)) (take n (rev (members b))).
Proof.
  intros Hl. unfold iter1024. rewrite iter_words_spec. rewrite (members_chunks b Hl), rev_flat_map.
  f_equal. f_equal. apply flat_map_ext_in. intros kw _. unfold chunk, dirbits. rewrite map_rev. reflexivity.
Qed.

(* ------------------------------------------------------------------ a bitmap is rebuilt by setting its members *)
Theorem fold_set_members b : wf b -> fold_left set_i16 (members b) zero = b.
Proof.
  intros Hw. pose proof Hw as [Hl _]. apply bitmap_ext; [now rewrite fold_set_length|exact Hl|].
  intros k m Hk Hm. rewrite bit_fold_set by (try apply members_range; try reflexivity; lia).
  rewrite bit_zero. cbn [orb].
  destruct (Z.lt_ge_cases m 64) as [Hm64|Hm64].
  - assert (Hr : in_range (m + 64 * k)) by (unfold in_range; lia).
    assert (Hd : (m + 64 * k) / 64 = k) by (Z.to_euclidean_division_equations; lia).
    assert (Hmod : (m + 64 * k) mod 64 = m) by (Z.to_euclidean_division_equations; lia).
    destruct (bit b k m) eqn:Eb.
    + apply existsb_exists. exists (m + 64 * k). split.
      * apply in_members. rewrite member_bit by exact Hr. now rewrite Hd, Hmod.
      * rewrite Hd, Hmod. now rewrite !Z.eqb_refl.
    + apply not_true_is_false. intros He. apply existsb_exists in He. destruct He as (i & Hi & E).
      apply andb_prop in E. destruct E as [E1 E2]. apply Z.eqb_eq in E1. apply Z.eqb_eq in E2.
      apply in_members in Hi. pose proof (member_range _ _ Hi) as Hir. rewrite member_bit in Hi by exact Hir.
      rewrite <- E1, <- E2 in Hi. congruence.
  - rewrite (wf_high b k m Hw Hk Hm64). apply not_true_is_false. intros He. apply existsb_exists in He.
    destruct He as (i & Hi & E). apply andb_prop in E. destruct E as [_ E2]. apply Z.eqb_eq in E2.
    pose proof (Z.mod_pos_bound i 64 ltac:(lia)). lia.
Qed.

(* two well-formed bitmaps with the same members are equal *)
Theorem member_ext a b : wf a -> wf b -> (forall j, in_range j -> member a j = member b j) -> a = b.
Proof.
  intros Ha Hb H. pose proof Ha as [Hla _]. pose proof Hb as [Hlb _]. apply bitmap_ext; [exact Hla|exact Hlb|].
  intros k m Hk Hm. destruct (Z.lt_ge_cases m 64) as [Hm64|Hm64].
  - assert (Hr : in_range (m + 64 * k)) by (unfold in_range; lia).
    specialize (H _ Hr). rewrite !member_bit in H by exact Hr.
    replace ((m + 64 * k) / 64) with k in H by (Z.to_euclidean_division_equations; lia).
    replace ((m + 64 * k) mod 64) with m in H by (Z.to_euclidean_division_equations; lia). exact H.
  - now rewrite !wf_high.
Qed.

(* the index lists are never unfolded by later proofs (a stuck 1024-fold filter compared by conversion is exponential) *)
Global Opaque z16 z64 z1024.
