(* C17: the LRU caches in the regime where nothing is evicted.
   As long as the sizes set so far fit the capacity, Get / Peek / Exist / Set / Delete of cache.LRUCache and
   tiny.LRUCache answer exactly as a per-key cell (the "view": last value set and not deleted), which is key-local.
   Hence a sharded LRU whose histories never fill a shard nor the single cache answers every request exactly as the
   unsharded LRU: the only difference between the two is where capacity is applied. *)
From Coq Require Import List Bool Arith ZArith Lia.
Require Import Shard C17_Shard.
Import ListNotations.
Open Scope Z_scope.

Section LruView.
Variable K : Type.
Variable keq : K -> K -> bool.
Hypothesis keq_spec : forall a b, keq a b = true <-> a = b.

Local Notation ent := (ent K).
Local Notation lru := (lru K).
Local Notation cop := (cop K).
Local Notation ekey := (ekey K).
Local Notation eval_ := (eval_ K).
Local Notation esz := (esz K).
Local Notation lfind := (lfind K keq).
Local Notation lremove := (lremove K keq).
Local Notation lru_step := (lru_step K keq).
Local Notation okey := (okey K).

Definition is_some {A} (o : option A) : bool := match o with Some _ => true | None => false end.

(* the view: one cell per key holding the value last set and not deleted since *)
Definition view_cstep (c : option Z) (o : cop) : option Z * cres :=
  match o with
  | OGet _ _ | OPeek _ _ => (c, match c with Some v => RSome v | None => RNone end)
  | OExist _ _ => (c, RBool (is_some c))
  | OSet _ _ v _ => (Some v, RUnit)
  | ODelete _ _ => (None, RBool (is_some c))
  | _ => (c, RInvalid)
  end.
Local Notation view_step := (cell_step K (option Z) cop cres okey keq view_cstep).
Local Notation view_init := (cinit K (option Z) None).

(* what a history can add to the size counter *)
Definition wt (tiny : bool) (o : cop) : Z := match o with OSet _ _ _ sz => if tiny then 1 else sz | _ => 0 end.
Definition W (tiny : bool) (h : list cop) : Z := fold_right (fun o a => wt tiny o + a) 0 h.
Definition nonneg_op (o : cop) : bool := match o with OSet _ _ _ sz => 0 <=? sz | _ => true end.

Lemma wt_nonneg tiny o : nonneg_op o = true -> 0 <= wt tiny o.
Proof. destruct o; cbn; intros H; try lia. destruct tiny; [lia|]. now apply Z.leb_le. Qed.
Lemma W_nonneg tiny h : forallb nonneg_op h = true -> 0 <= W tiny h.
Proof.
  induction h as [|o h IH]; cbn [forallb W fold_right]; intros H; [lia|].
  apply andb_prop in H as [H1 H2]. pose proof (wt_nonneg tiny o H1). specialize (IH H2). unfold W in IH. lia.
Qed.
Lemma W_app tiny a b : W tiny (a ++ b) = W tiny a + W tiny b.
Proof. unfold W. induction a as [|o a IH]; cbn [app fold_right]; [lia|]. rewrite IH. lia. Qed.
Lemma W_filter tiny p h : forallb nonneg_op h = true -> W tiny (filter p h) <= W tiny h.
Proof.
  induction h as [|o h IH]; cbn [filter forallb W fold_right]; intros H; [lia|].
  apply andb_prop in H as [H1 H2]. pose proof (wt_nonneg tiny o H1). specialize (IH H2). unfold W in *.
  destruct (p o); cbn [fold_right]; lia.
Qed.
Lemma nonneg_filter p h : forallb nonneg_op h = true -> forallb nonneg_op (filter p h) = true.
Proof.
  induction h as [|o h IH]; cbn [filter forallb]; intros H; [reflexivity|].
  apply andb_prop in H as [H1 H2]. destruct (p o); cbn [forallb]; [rewrite H1|]; auto.
Qed.

(* ---- the entry list ---- *)
Lemma keq_refl' k : keq k k = true.
Proof. apply keq_spec. reflexivity. Qed.
Lemma keq_neq a b : a <> b -> keq a b = false.
Proof. intros H. destruct (keq a b) eqn:E; [|reflexivity]. apply keq_spec in E. contradiction. Qed.

Lemma lfind_some k l e : lfind k l = Some e -> ekey e = k /\ In e l.
Proof.
  induction l as [|a l IH]; cbn; [discriminate|]. destruct (keq (ekey a) k) eqn:E.
  - intros H. inversion H; subst. apply keq_spec in E. auto.
  - intros H. destruct (IH H). auto.
Qed.
Lemma lfind_none k l : lfind k l = None <-> ~ In k (map ekey l).
Proof.
  induction l as [|a l IH]; cbn; [tauto|]. destruct (keq (ekey a) k) eqn:E.
  - apply keq_spec in E. split; [discriminate|]. intros H. exfalso. apply H. now left.
  - rewrite IH. split.
    + intros H [H1|H1]; [|now apply H]. subst. rewrite keq_refl' in E. discriminate.
    + intros H H1. apply H. now right.
Qed.
Lemma lremove_incl k l x : In x (map ekey (lremove k l)) -> In x (map ekey l).
Proof.
  induction l as [|a l IH]; cbn; [tauto|]. destruct (keq (ekey a) k); cbn; [now right|].
  intros [H|H]; [now left|right; now apply IH].
Qed.
Lemma lremove_nodup k l : NoDup (map ekey l) -> NoDup (map ekey (lremove k l)).
Proof.
  induction l as [|a l IH]; cbn; intros H; [constructor|]. inversion H; subst.
  destruct (keq (ekey a) k); [assumption|]. cbn. constructor; [|now apply IH].
  intros Hin. apply lremove_incl in Hin. contradiction.
Qed.
Lemma lfind_lremove_same k l : NoDup (map ekey l) -> lfind k (lremove k l) = None.
Proof.
  induction l as [|a l IH]; cbn; intros H; [reflexivity|]. inversion H; subst.
  destruct (keq (ekey a) k) eqn:E.
  - apply keq_spec in E. subst. now apply lfind_none.
  - cbn. rewrite E. now apply IH.
Qed.
Lemma lfind_lremove_other k k' l : k' <> k -> lfind k' (lremove k l) = lfind k' l.
Proof.
  intros Hn. induction l as [|a l IH]; cbn; [reflexivity|]. destruct (keq (ekey a) k) eqn:E.
  - apply keq_spec in E. rewrite keq_neq by congruence. reflexivity.
  - cbn. destruct (keq (ekey a) k'); [reflexivity|exact IH].
Qed.
Lemma lremove_forall (P : ent -> Prop) k l : Forall P l -> Forall P (lremove k l).
Proof.
  induction l as [|a l IH]; cbn; intros H; [constructor|]. inversion H; subst.
  destruct (keq (ekey a) k); [assumption|constructor; auto].
Qed.

Lemma trim_noop r size cap : size <= cap -> trim_rev K r size cap = (r, size, false).
Proof. intros H. destruct r; cbn; (replace (cap <? size) with false by (symmetry; apply Z.ltb_ge; lia)); reflexivity. Qed.
Lemma check_capacity_noop l size cap ok : size <= cap ->
  check_capacity K l size cap ok = ({| ents := l; lsize := size; lcap := cap |}, ok).
Proof. intros H. unfold check_capacity. rewrite trim_noop by exact H. now rewrite rev_involutive. Qed.

(* ---- one step ---- *)
Definition agree (l : list ent) (m : K -> option Z) : Prop := forall k, option_map eval_ (lfind k l) = m k.

Record inv (tiny : bool) (s : lru) (m : K -> option Z) (h : list cop) : Prop := {
  inv_nodup : NoDup (map ekey (ents K s));
  inv_agree : agree (ents K s) m;
  inv_esz : Forall (fun e => 0 <= esz e) (ents K s);
  inv_nonneg : forallb nonneg_op h = true;
  inv_fit : lsize K s + W tiny h <= lcap K s }.

Lemma agree_front k e l m : NoDup (map ekey l) -> agree l m -> lfind k l = Some e ->
  forall v sz, agree ((k, v, sz) :: lremove k l) (cset K (option Z) keq m k (Some v)).
Proof.
  intros Hnd Ha Hf v sz k'. unfold cset. cbn [C17_Shard.lfind]. unfold C17_Shard.ekey at 1. cbn [fst].
  destruct (keq k k') eqn:E.
  - apply keq_spec in E. subst k'. rewrite keq_refl'. reflexivity.
  - assert (k' <> k) by (intros ->; rewrite keq_refl' in E; discriminate).
    rewrite keq_neq by assumption. rewrite lfind_lremove_other by assumption. apply Ha.
Qed.

Lemma nodup_front k l : NoDup (map ekey l) -> forall v sz, NoDup (map ekey ((k, v, sz) :: lremove k l)).
Proof.
  intros Hnd v sz. cbn. constructor; [|now apply lremove_nodup].
  apply lfind_none. now apply lfind_lremove_same.
Qed.

Lemma step_view tiny s m o rest : inv tiny s m (o :: rest) ->
  snd (lru_step tiny s o) = snd (view_step m o) /\ inv tiny (fst (lru_step tiny s o)) (fst (view_step m o)) rest.
Proof.
  intros [Hnd Ha He Hnn Hfit]. cbn [forallb] in Hnn. apply andb_prop in Hnn as [Hno Hnr].
  pose proof (W_nonneg tiny rest Hnr) as HWr.
  change (W tiny (o :: rest)) with (wt tiny o + W tiny rest) in Hfit.
  destruct s as [l size cap]. cbn [ents lsize lcap] in *.
  unfold cell_step. destruct o as [k|k|k|k v sz0|k|k|k|k|k|k|k|k|k]; cbn [lru_step view_cstep okey fst snd ents lsize lcap wt] in *.
  - (* Get *)
    pose proof (Ha k) as Hk. destruct (lfind k l) as [e|] eqn:Ef; cbn [option_map] in Hk; rewrite <- Hk; cbn [fst snd].
    + split; [reflexivity|]. destruct (lfind_some k l e Ef) as [Hek Hin]. destruct e as [[ke ve] se]. cbn in Hek. subst ke.
      constructor; cbn [ents lsize lcap]; try assumption; try lia.
      * now apply nodup_front.
      * change (eval_ (k, ve, se)) with ve. apply (agree_front k _ l m Hnd Ha Ef).
      * constructor; [|now apply lremove_forall]. rewrite Forall_forall in He. now apply (He _ Hin).
    + split; [reflexivity|]. constructor; cbn [ents lsize lcap]; try assumption; try lia.
      intros k'. unfold cset. destruct (keq k' k) eqn:E; [|apply Ha]. apply keq_spec in E. subst. now rewrite Ef.
  - (* Peek *)
    pose proof (Ha k) as Hk. split.
    + destruct (lfind k l) as [e|]; cbn [option_map] in Hk; rewrite <- Hk; reflexivity.
    + constructor; cbn [ents lsize lcap]; try assumption; try lia.
      intros k'. unfold cset. destruct (keq k' k) eqn:E; [|apply Ha]. apply keq_spec in E. subst. apply Ha.
  - (* Exist *)
    pose proof (Ha k) as Hk. split.
    + destruct (lfind k l) as [e|]; cbn [option_map] in Hk; rewrite <- Hk; reflexivity.
    + constructor; cbn [ents lsize lcap]; try assumption; try lia.
      intros k'. unfold cset. destruct (keq k' k) eqn:E; [|apply Ha]. apply keq_spec in E. subst. apply Ha.
  - (* Set *)
    assert (Hsz : 0 <= (if tiny then 1 else sz0)) by (destruct tiny; [lia|now apply Z.leb_le]).
    destruct (lfind k l) as [e|] eqn:Ef.
    + destruct (lfind_some k l e Ef) as [Hek Hin]. assert (0 <= esz e) by (rewrite Forall_forall in He; now apply He).
      assert (Hinv : forall size', size' + W tiny rest <= cap ->
                inv tiny {| ents := (k, v, if tiny then 1 else sz0) :: lremove k l; lsize := size'; lcap := cap |}
                         (cset K (option Z) keq m k (Some v)) rest).
      { intros size' Hs. constructor; cbn [ents lsize lcap]; try assumption.
        - now apply nodup_front.
        - apply (agree_front k e l m Hnd Ha Ef).
        - constructor; [exact Hsz|now apply lremove_forall]. }
      destruct tiny.
      * cbn [fst snd]. split; [reflexivity|]. apply Hinv. lia.
      * rewrite check_capacity_noop by lia. cbn [fst snd]. split; [reflexivity|]. apply Hinv. lia.
    + rewrite check_capacity_noop by (destruct tiny; lia). cbn [fst snd]. split; [reflexivity|].
      constructor; cbn [ents lsize lcap]; try assumption.
      * cbn. constructor; [now apply lfind_none|assumption].
      * intros k'. unfold cset. cbn [C17_Shard.lfind]. unfold C17_Shard.ekey at 1. cbn [fst].
        destruct (keq k k') eqn:E.
        -- apply keq_spec in E. subst. rewrite keq_refl'. reflexivity.
        -- assert (k' <> k) by (intros ->; rewrite keq_refl' in E; discriminate). rewrite keq_neq by assumption. apply Ha.
      * constructor; assumption.
      * destruct tiny; lia.
  - (* Delete *)
    pose proof (Ha k) as Hk. destruct (lfind k l) as [e|] eqn:Ef; cbn [option_map] in Hk; rewrite <- Hk; cbn [fst snd is_some].
    + split; [reflexivity|]. destruct (lfind_some k l e Ef) as [Hek Hin].
      assert (0 <= esz e) by (rewrite Forall_forall in He; now apply He).
      constructor; cbn [ents lsize lcap]; try assumption; try lia.
      * now apply lremove_nodup.
      * intros k'. unfold cset. destruct (keq k' k) eqn:E.
        -- apply keq_spec in E. subst. now rewrite lfind_lremove_same.
        -- assert (k' <> k) by (intros ->; rewrite keq_refl' in E; discriminate).
           rewrite lfind_lremove_other by assumption. apply Ha.
      * now apply lremove_forall.
    + split; [reflexivity|]. constructor; cbn [ents lsize lcap]; try assumption; try lia.
      intros k'. unfold cset. destruct (keq k' k) eqn:E; [|apply Ha]. apply keq_spec in E. subst. now rewrite Ef.
  - split; [reflexivity|]. constructor; cbn [ents lsize lcap]; try assumption; try lia.
    intros k'. unfold cset. destruct (keq k' k) eqn:E; [|apply Ha]. apply keq_spec in E. subst. apply Ha.
  - split; [reflexivity|]. constructor; cbn [ents lsize lcap]; try assumption; try lia.
    intros k'. unfold cset. destruct (keq k' k) eqn:E; [|apply Ha]. apply keq_spec in E. subst. apply Ha.
  - split; [reflexivity|]. constructor; cbn [ents lsize lcap]; try assumption; try lia.
    intros k'. unfold cset. destruct (keq k' k) eqn:E; [|apply Ha]. apply keq_spec in E. subst. apply Ha.
  - split; [reflexivity|]. constructor; cbn [ents lsize lcap]; try assumption; try lia.
    intros k'. unfold cset. destruct (keq k' k) eqn:E; [|apply Ha]. apply keq_spec in E. subst. apply Ha.
  - split; [reflexivity|]. constructor; cbn [ents lsize lcap]; try assumption; try lia.
    intros k'. unfold cset. destruct (keq k' k) eqn:E; [|apply Ha]. apply keq_spec in E. subst. apply Ha.
  - split; [reflexivity|]. constructor; cbn [ents lsize lcap]; try assumption; try lia.
    intros k'. unfold cset. destruct (keq k' k) eqn:E; [|apply Ha]. apply keq_spec in E. subst. apply Ha.
  - split; [reflexivity|]. constructor; cbn [ents lsize lcap]; try assumption; try lia.
    intros k'. unfold cset. destruct (keq k' k) eqn:E; [|apply Ha]. apply keq_spec in E. subst. apply Ha.
  - split; [reflexivity|]. constructor; cbn [ents lsize lcap]; try assumption; try lia.
    intros k'. unfold cset. destruct (keq k' k) eqn:E; [|apply Ha]. apply keq_spec in E. subst. apply Ha.
Qed.

(* ---- histories ---- *)
Lemma inv_run tiny : forall h s m rest, inv tiny s m (h ++ rest) ->
  inv tiny (run_state _ _ _ (lru_step tiny) s h) (run_state _ _ _ view_step m h) rest.
Proof.
  induction h as [|o h IH]; intros s m rest H; [exact H|].
  cbn [run_state fold_left]. apply IH. now apply step_view.
Qed.

Lemma inv_init tiny cap h : forallb nonneg_op h = true -> W tiny h <= cap -> inv tiny (lru_init K cap) view_init h.
Proof.
  intros Hn Hw. constructor; cbn [lru_init ents lsize lcap]; try assumption; try lia.
  - constructor.
  - intros k. reflexivity.
  - constructor.
Qed.

(* while the sizes set fit the capacity, the cache answers as the view *)
Theorem lru_result_view tiny cap h o : forallb nonneg_op (h ++ [o]) = true -> W tiny (h ++ [o]) <= cap ->
  result _ _ _ (lru_step tiny) (lru_init K cap) h o = result _ _ _ view_step view_init h o.
Proof.
  intros Hn Hw. unfold result.
  pose proof (inv_run tiny h _ _ [o] (inv_init tiny cap (h ++ [o]) Hn Hw)) as Hi.
  exact (proj1 (step_view tiny _ _ o [] Hi)).
Qed.

Lemma sub_snoc (route : K -> nat) h o :
  sub K cop okey route (route (okey o)) (h ++ [o]) = sub K cop okey route (route (okey o)) h ++ [o].
Proof. unfold sub. rewrite filter_app. cbn [filter]. now rewrite Nat.eqb_refl. Qed.

(* sharded LRU (per-shard capacity cap') = unsharded LRU (capacity cap) whenever neither can evict *)
Theorem sharded_lru_noevict tiny cap cap' (route : K -> nat) h o :
  forallb nonneg_op (h ++ [o]) = true -> W tiny (h ++ [o]) <= cap -> W tiny (h ++ [o]) <= cap' ->
  sh_result K lru cop cres okey (lru_step tiny) (lru_init K cap') route h o
  = result lru cop cres (lru_step tiny) (lru_init K cap) h o.
Proof.
  intros Hn Hw Hw'.
  rewrite sharded_result.
  rewrite lru_result_view.
  - rewrite <- (sharded_result K (cstate K (option Z)) cop cres okey view_step view_init route).
    rewrite (cell_sharded_result K (option Z) cop cres okey keq keq_spec view_cstep None route).
    symmetry. now apply lru_result_view.
  - rewrite <- sub_snoc. now apply nonneg_filter.
  - rewrite <- sub_snoc. eapply Z.le_trans; [apply W_filter; exact Hn|exact Hw'].
Qed.

Lemma forallb_app_l {A} (p : A -> bool) a b : forallb p (a ++ b) = true -> forallb p a = true.
Proof. rewrite forallb_app. intros H. now apply andb_prop in H as [H _]. Qed.

Lemma ref_un_noevict tiny cap cap' (route : K -> nat) : forall h pre,
  forallb nonneg_op (pre ++ h) = true -> W tiny (pre ++ h) <= cap -> W tiny (pre ++ h) <= cap' ->
  ref_trace K lru cop cres okey (lru_step tiny) (lru_init K cap') route pre h
  = un_trace lru cop cres (lru_step tiny) (lru_init K cap) pre h.
Proof.
  induction h as [|o h IH]; intros pre Hn Hw Hw'; [reflexivity|]. cbn [ref_trace un_trace].
  replace (pre ++ o :: h) with ((pre ++ [o]) ++ h) in Hn, Hw, Hw' by (rewrite <- app_assoc; reflexivity).
  f_equal.
  - rewrite <- (sharded_result K lru cop cres okey (lru_step tiny) (lru_init K cap') route).
    assert (Hh : 0 <= W tiny h).
    { apply W_nonneg. rewrite forallb_app in Hn. now apply andb_prop in Hn as [_ Hn]. }
    rewrite W_app in Hw, Hw'.
    apply sharded_lru_noevict; [now apply forallb_app_l in Hn|lia|lia].
  - apply IH; assumption.
Qed.

Theorem sharded_lru_trace_noevict tiny cap cap' (route : K -> nat) h :
  forallb nonneg_op h = true -> W tiny h <= cap -> W tiny h <= cap' ->
  sh_trace K lru cop cres okey (lru_step tiny) route (fun _ => lru_init K cap') h
  = trace lru cop cres (lru_step tiny) (lru_init K cap) h.
Proof.
  intros Hn Hw Hw'. rewrite sharded_trace_projection, single_trace. now apply ref_un_noevict.
Qed.
End LruView.

Print Assumptions sharded_lru_trace_noevict.
