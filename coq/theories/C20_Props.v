(* C20 tex scalar wrappers: the property, clause by clause, for every value and every byte string.
   This file contains statements closed by `exact` only.
   P / S stand for time.ParseDuration / time.Duration.String and D / E for base64.RawStdEncoding's DecodeString /
   EncodeToString: stdlib codecs the wrappers only call; they are universally quantified (any functions), with the one
   hypothesis "parse (show d) = d" where a round trip through them is claimed. *)
From Coq Require Import List Bool ZArith.
Require Import C20_Proofs C20_Check.
Import ListNotations.
Open Scope Z_scope.

(* whatever the driver accepts satisfies the monitor *)
Theorem c20_case_sound : forall c, case_accept c = true -> case_holds c = true.
Proof. exact case_sound. Qed.

(* ---- never mis-decode: for EVERY byte string (so for every JSON scalar token: quoted decimals of any length with
   sign / leading zeros / blanks / junk / empty, bare numbers incl. fractions and exponents, null, true ...) a decoded
   value is exactly what the token denotes by the arbitrary-precision reading `reads`; all thirteen decoders *)
Theorem c20_exact_or_error : forall (P : list Z -> res Z) t tok v, dec P true t tok = Ok v -> reads P t tok = Some v.
Proof. exact dec_exact. Qed.
(* the only panic is JsInt64.UnmarshalJSON on the lone quote character, which is not a JSON token *)
Theorem c20_only_panic : forall (P : list Z -> res Z) t tok, (forall s, P s <> Panic) -> dec P true t tok = Panic -> t = JI64 /\ tok = [QUOTE].
Proof. exact dec_panic. Qed.
(* the digit loops of strconv are the arbitrary-precision reading, and what is accepted fits the width *)
Theorem c20_parse_uint_exact : forall base l v, 0 <= base -> parse_uint base l = Ok v -> read_nat base l = Some v /\ 0 <= v < 2 ^ 64.
Proof. exact parse_uint_exact. Qed.
Theorem c20_parse_int_exact : forall base l v, 0 <= base -> parse_int base l = Ok v -> read_int base l = Some v /\ - 2 ^ 63 <= v < 2 ^ 63.
Proof. exact parse_int_exact. Qed.

(* ---- round trips: decode (encode v) = v for every value of every type, extremes included ---- *)
Theorem c20_roundtrip : forall (P : list Z -> res Z) (S : Z -> list Z) t v out, in_dom t v = true ->
  (forall d, t = JDur -> v = VZ d -> S d <> [] /\ P (S d) = Ok d) ->
  enc S t v = Some out -> dec P true t out = Ok (canon t v).
Proof. exact enc_dec. Qed.
Theorem c20_i64_roundtrip : forall v, - 2 ^ 63 <= v < 2 ^ 63 -> i64_unmarshal (i64_marshal v) = Ok v.
Proof. exact i64_roundtrip. Qed.
Theorem c20_u64_roundtrip : forall v, 0 <= v < 2 ^ 64 -> u64_unmarshal true (u64_marshal v) = Ok v.
Proof. exact u64_roundtrip. Qed.
Theorem c20_stamp_roundtrip : forall v, - 2 ^ 63 <= v < 2 ^ 63 -> qint_unmarshal true (wrapq (fmt_int 10 v)) = Ok v.
Proof. exact qint_roundtrip. Qed.
Theorem c20_byte_roundtrip : forall l, forallb is_byte l = true -> byte_unmarshal true true (byte_marshal l) = Ok l.
Proof. exact byte_roundtrip. Qed.
Theorem c20_byte_string_roundtrip : forall l, forallb is_byte l = true -> byte_from_string true (join l) = Ok l.
Proof. exact byte_string_roundtrip. Qed.
Theorem c20_dur_roundtrip : forall (P : list Z -> res Z) (S : Z -> list Z) d, S d <> [] -> P (S d) = Ok d -> dur_unmarshal P true (dur_marshal S d) = Ok d.
Proof. exact dur_roundtrip. Qed.
(* FormatInt / FormatUint then ParseInt / ParseUint, every base strconv has (hex.go uses 16 and 32, the wrappers 10) *)
Theorem c20_radix_int_roundtrip : forall base v, 2 <= base <= 36 -> - 2 ^ 63 <= v < 2 ^ 63 -> parse_int base (fmt_int base v) = Ok v.
Proof. exact parse_fmt_int. Qed.
Theorem c20_radix_uint_roundtrip : forall base n, 2 <= base <= 36 -> 0 <= n < 2 ^ 64 -> parse_uint base (fmt_uint base n) = Ok n.
Proof. exact parse_fmt_uint. Qed.
(* an instant given in nanoseconds is rebuilt exactly by time.Unix(0, n) (truncated division + adjustment = floor) *)
Theorem c20_time_unix_floor : forall z, time_unix 0 z = (z / E9, z mod E9).
Proof. exact time_unix_floor. Qed.

(* ---- SQL forms ---- *)
Theorem c20_value_scan : forall (D : list Z -> res (list Z)) (E : list Z -> list Z) k v old out, sql_dom k v = true ->
  (forall l, k = KBase64 -> v = VL l -> D (E l) = Ok l) ->
  value_of E k v = Some out -> scan D k old out = Ok (sql_canon k v).
Proof. exact value_scan. Qed.
Theorem c20_scan_sound : forall (D : list Z -> res (list Z)) k old v, (forall s, D s <> Panic) -> scan_ok D k v (scan D k old v) = true.
Proof. exact scan_sound. Qed.

(* base64 with the concrete RawStdEncoding model (compared with the real codec on every run): no hypothesis left *)
Theorem c20_base64_roundtrip : forall l, forallb is_byte8 l = true -> b64_dec (b64_enc l) = Ok l.
Proof. exact b64_roundtrip. Qed.
Theorem c20_base64_value_scan : forall l old, forallb is_byte l = true ->
  exists out, value_of b64_enc KBase64 (VL l) = Some out /\ scan b64_dec KBase64 old out = Ok (VL l).
Proof. exact base64_value_scan. Qed.

(* ---- no false rejection: a token that denotes a number that fits is decoded to it ---- *)
Theorem c20_u64_complete : forall s v, read_nat 10 s = Some v -> v < 2 ^ 64 -> u64_unmarshal true (wrapq s) = Ok v.
Proof. exact u64_complete. Qed.
Theorem c20_qint_complete : forall s v, read_int 10 s = Some v -> - 2 ^ 63 <= v < 2 ^ 63 -> qint_unmarshal true (wrapq s) = Ok v.
Proof. exact qint_complete. Qed.
Theorem c20_i64_complete_quoted : forall s v, read_int 10 s = Some v -> - 2 ^ 63 <= v < 2 ^ 63 -> i64_unmarshal (wrapq s) = Ok v.
Proof. exact i64_complete_quoted. Qed.
Theorem c20_i64_complete_bare : forall b v, quoted_ends b = false -> read_int 10 b = Some v -> - 2 ^ 63 <= v < 2 ^ 63 -> i64_unmarshal b = Ok v.
Proof. exact i64_complete_bare. Qed.

(* ---- code facts ---- *)
Theorem c20_u64_len2_branch_unreachable : forall c b, u64_unmarshal_coded c b = u64_unmarshal c b.
Proof. exact u64_len2_branch_unreachable. Qed.
Theorem c20_char_val_go : forall c, 0 <= c < 256 -> char_val_go c = char_val c.
Proof. exact char_val_go_eq. Qed.

(* ---- the pinned pre-fix decoders are refuted, the repaired ones reject the same tokens ---- *)
Theorem c20_prefix_u64_refuted : forall P : list Z -> res Z, dec P false JU64 [49; 50; 51] = Ok (VZ 2) /\ reads P JU64 [49; 50; 51] = None.
Proof. exact prefix_u64_refuted. Qed.
Theorem c20_prefix_unixtime_refuted : forall P : list Z -> res Z, dec P false JUnixTime [49; 50; 51; 52] = Ok (VT 23 0) /\ reads P JUnixTime [49; 50; 51; 52] = None.
Proof. exact prefix_unixtime_refuted. Qed.
Theorem c20_prefix_dur_refuted : forall P : list Z -> res Z, P [48] = Ok 0 -> dec P false JDur [49; 48; 49] = Ok (VZ 0) /\ reads P JDur [49; 48; 49] = None.
Proof. exact prefix_dur_refuted. Qed.
Theorem c20_prefix_byte_range_refuted : forall P : list Z -> res Z,
  dec P false XByteStr [50; 53; 54; 47; 45; 49; 47; 55] = Ok (VL [0; 255; 7]) /\ reads P XByteStr [50; 53; 54; 47; 45; 49; 47; 55] = None.
Proof. exact prefix_byte_range_refuted. Qed.
Theorem c20_prefix_byte_quote_refuted : forall P : list Z -> res Z, dec P false JByte [49; 50; 51; 52] = Ok (VL [23]) /\ reads P JByte [49; 50; 51; 52] = None.
Proof. exact prefix_byte_quote_refuted. Qed.
Theorem c20_fixed_rejects : forall P : list Z -> res Z,
  dec P true JU64 [49; 50; 51] = Err /\ dec P true JUnixTime [49; 50; 51; 52] = Err /\ dec P true JStamp [45; 49; 50] = Err
  /\ dec P true JDur [49; 48; 49] = Err /\ dec P true XByteStr [50; 53; 54; 47; 45; 49; 47; 55] = Err /\ dec P true JByte [49; 50; 51; 52] = Err.
Proof. exact fixed_rejects. Qed.

(* ---- non-vacuity ---- *)
Theorem c20_roundtrip_extremes :
  in_dom JI64 (VZ (- 2 ^ 63)) = true /\ in_dom JU64 (VZ (2 ^ 64 - 1)) = true /\ in_dom JNanoTime (VT (-9223372037) 145224192) = true
  /\ in_dom JNanoTime (VT 9223372036 854775807) = true /\ in_dom JByte (VL []) = true /\ in_dom JByte (VL [255]) = true
  /\ in_dom (XHex true 32) (VZ (- 2 ^ 63)) = true /\ in_dom JDur (VZ (- 2 ^ 63)) = true
  /\ dec (fun _ => Err) true JI64 (i64_marshal (- 2 ^ 63)) = Ok (VZ (- 2 ^ 63))
  /\ dec (fun _ => Err) true JNanoTime (wrapq (fmt_int 10 (unix_nano (-9223372037) 145224192))) = Ok (VT (-9223372037) 145224192).
Proof. exact roundtrip_extremes. Qed.

Print Assumptions c20_case_sound.
Print Assumptions c20_exact_or_error.
Print Assumptions c20_only_panic.
Print Assumptions c20_parse_uint_exact.
Print Assumptions c20_parse_int_exact.
Print Assumptions c20_roundtrip.
Print Assumptions c20_i64_roundtrip.
Print Assumptions c20_u64_roundtrip.
Print Assumptions c20_stamp_roundtrip.
Print Assumptions c20_byte_roundtrip.
Print Assumptions c20_byte_string_roundtrip.
Print Assumptions c20_dur_roundtrip.
Print Assumptions c20_radix_int_roundtrip.
Print Assumptions c20_radix_uint_roundtrip.
Print Assumptions c20_time_unix_floor.
Print Assumptions c20_value_scan.
Print Assumptions c20_scan_sound.
Print Assumptions c20_base64_roundtrip.
Print Assumptions c20_base64_value_scan.
Print Assumptions c20_u64_complete.
Print Assumptions c20_qint_complete.
Print Assumptions c20_i64_complete_quoted.
Print Assumptions c20_i64_complete_bare.
Print Assumptions c20_u64_len2_branch_unreachable.
Print Assumptions c20_char_val_go.
Print Assumptions c20_prefix_u64_refuted.
Print Assumptions c20_prefix_unixtime_refuted.
Print Assumptions c20_prefix_dur_refuted.
Print Assumptions c20_prefix_byte_range_refuted.
Print Assumptions c20_prefix_byte_quote_refuted.
Print Assumptions c20_fixed_rejects.
Print Assumptions c20_roundtrip_extremes.
