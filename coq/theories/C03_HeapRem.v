(* C03, layer H: the remove path on the store (growChildAndRemove with its three cases, remove) does to the functional
   value of the tree exactly what the functional model does; a merged sibling that the context owns is released. *)
From Coq Require Import ZArith List Lia Bool Sorting.Sorted.
Require Import C03_Model C03_Spec C03_D C03_Ins C03_Sel C03_Inv C03_Tot C03_InsInv C03_Up C03_Cow C03_Heap C03_HeapLib C03_HeapIns.
Import ListNotations.
Open Scope nat_scope.

Ltac inapp := repeat (rewrite in_app_iff || cbn [In]); first [tauto | solve [auto 12] | solve [intuition auto]].

(* ---------------- rearranging the top two levels of a tree in place ---------------- *)
Lemma addrs_unfold f h a n : h a = Some n -> addrs (S f) h a = a :: flat_map (addrs f h) (kids n).
Proof. intros H. cbn [addrs]. rewrite H. reflexivity. Qed.

Definition agree_out (W : list addr) (h h' : heap) : Prop := forall x, ~ In x W -> h' x = h x.

Lemma agree_frame W h h' f r t : agree_out W h h' -> abs f h r = Some t -> (forall x, In x W -> ~ In x (addrs f h r)) ->
  abs f h' r = Some t /\ addrs f h' r = addrs f h r.
Proof.
  intros Hag Ha Hd. apply frame_abs; [exact Ha|]. intros x Hx. apply Hag. intros Hw. exact (Hd x Hw Hx).
Qed.
Lemma agree_F2 W h h' f ks cs : agree_out W h h' -> Forall2 (fun k c => abs f h k = Some c) ks cs ->
  (forall k x, In k ks -> In x W -> ~ In x (addrs f h k)) ->
  Forall2 (fun k c => abs f h' k = Some c) ks cs /\ flat_map (addrs f h') ks = flat_map (addrs f h) ks.
Proof.
  intros Hag HF. induction HF as [|k c ks cs Hkc _ IH]; intros Hd; [split; [constructor|reflexivity]|].
  destruct (agree_frame W h h' f k c Hag Hkc (fun x Hw => Hd k x (or_introl eq_refl) Hw)) as [A B].
  destruct (IH (fun k' x Hk' => Hd k' x (or_intror Hk'))) as [C D]. split; [constructor; assumption|]. cbn [flat_map]. rewrite B, D. reflexivity.
Qed.

(* a rewritten node one level below the top: its new children are old subtrees *)
Lemma surgery_mid W f h h' k n' cs' : agree_out W h h' -> h' k = Some n' ->
  Forall2 (fun g c => abs f h g = Some c) (kids n') cs' -> (forall g x, In g (kids n') -> In x W -> ~ In x (addrs f h g)) ->
  abs (S f) h' k = Some (INode (hits n') cs') /\ addrs (S f) h' k = k :: flat_map (addrs f h) (kids n').
Proof.
  intros Hag Hk HF Hd. destruct (agree_F2 W h h' f _ _ Hag HF Hd) as [HF' Hfm]. split.
  - apply abs_S. exists n', cs'. auto.
  - cbn [addrs]. rewrite Hk, Hfm. reflexivity.
Qed.

(* what NoDup of the footprint says when the top node has two adjacent children k1, k2 in view *)
Lemma surgery_disj f h a na ka k1 k2 kb n1 n2 : h a = Some na -> kids na = ka ++ k1 :: k2 :: kb -> h k1 = Some n1 -> h k2 = Some n2 ->
  NoDup (addrs (S (S f)) h a) ->
  a <> k1 /\ a <> k2 /\ k1 <> k2 /\
  (forall g x, In g (kids n1) \/ In g (kids n2) -> In x [a; k1; k2] -> ~ In x (addrs f h g)) /\
  (forall k x, In k ka \/ In k kb -> In x [a; k1; k2] -> ~ In x (addrs (S f) h k)).
Proof.
  intros Ha Hk H1 H2 Hnd.
  set (FA := flat_map (addrs (S f) h) ka). set (FB := flat_map (addrs (S f) h) kb).
  set (G1 := flat_map (addrs f h) (kids n1)). set (G2 := flat_map (addrs f h) (kids n2)).
  assert (Hfp : addrs (S (S f)) h a = a :: FA ++ (k1 :: G1) ++ (k2 :: G2) ++ FB).
  { cbn [addrs]. rewrite Ha, Hk, flat_map_app'. cbn [flat_map addrs]. rewrite H1, H2. unfold FA, FB, G1, G2. rewrite <- ?app_assoc. reflexivity. }
  rewrite Hfp in Hnd.
  assert (Da : ~ In a (FA ++ (k1 :: G1) ++ (k2 :: G2) ++ FB)) by (inversion Hnd; assumption).
  assert (D1 : ~ In k1 ((a :: FA) ++ G1 ++ (k2 :: G2) ++ FB)).
  { replace (a :: FA ++ (k1 :: G1) ++ (k2 :: G2) ++ FB) with ((a :: FA) ++ k1 :: (G1 ++ (k2 :: G2) ++ FB)) in Hnd by (cbn [app]; reflexivity).
    apply NoDup_remove_2 in Hnd. exact Hnd. }
  assert (D2 : ~ In k2 ((a :: FA ++ k1 :: G1) ++ G2 ++ FB)).
  { replace (a :: FA ++ (k1 :: G1) ++ (k2 :: G2) ++ FB) with ((a :: FA ++ k1 :: G1) ++ k2 :: (G2 ++ FB)) in Hnd by (cbn [app]; rewrite <- !app_assoc; reflexivity).
    apply NoDup_remove_2 in Hnd. exact Hnd. }
  assert (Ea1 : a <> k1) by (intros E; apply Da; rewrite E; inapp).
  assert (Ea2 : a <> k2) by (intros E; apply Da; rewrite E; inapp).
  assert (E12 : k1 <> k2) by (intros E; apply D1; rewrite E; inapp).
  split; [exact Ea1|]. split; [exact Ea2|]. split; [exact E12|]. split.
  - intros g x Hg Hx Hin.
    assert (HG : In x G1 \/ In x G2) by (destruct Hg as [Hg|Hg]; [left|right]; apply in_flat_map; exists g; auto).
    destruct Hx as [<-|[<-|[<-|[]]]]; [apply Da|apply D1|apply D2]; inapp.
  - intros k x Hkk Hx Hin.
    assert (HF : In x FA \/ In x FB) by (destruct Hkk as [Hkk|Hkk]; [left|right]; apply in_flat_map; exists k; auto).
    destruct Hx as [<-|[<-|[<-|[]]]]; [apply Da|apply D1|apply D2]; inapp.
Qed.

(* the top node after its children k1, k2 were replaced by the children `mids` (k1 and k2 rewritten, or k1 alone) *)
Lemma surgery_top f h h' a na ka k1 k2 kb n1 n2 ca C1 C2 cb na' mids cm :
  h a = Some na -> kids na = ka ++ k1 :: k2 :: kb -> h k1 = Some n1 -> h k2 = Some n2 ->
  abs (S (S f)) h a = Some (INode (hits na) (ca ++ C1 :: C2 :: cb)) -> length ca = length ka ->
  NoDup (addrs (S (S f)) h a) -> agree_out [a; k1; k2] h h' ->
  h' a = Some na' -> kids na' = ka ++ mids ++ kb -> Forall2 (fun k c => abs (S f) h' k = Some c) mids cm ->
  abs (S (S f)) h' a = Some (INode (hits na') (ca ++ cm ++ cb)) /\
  addrs (S (S f)) h' a = a :: flat_map (addrs (S f) h) ka ++ flat_map (addrs (S f) h') mids ++ flat_map (addrs (S f) h) kb.
Proof.
  intros Ha Hk H1 H2 Hab Hlen Hnd Hag Ha' Hk' HFm.
  destruct (surgery_disj f h a na ka k1 k2 kb n1 n2 Ha Hk H1 H2 Hnd) as (_ & _ & _ & _ & Dk).
  apply abs_S in Hab. destruct Hab as (n0 & cs0 & Hn0 & HF & E). rewrite Ha in Hn0. inversion Hn0; subst n0. inversion E; subst cs0. clear Hn0 E.
  rewrite Hk in HF. apply Forall2_app_inv_l in HF. destruct HF as (d1 & d2 & HF1 & HF2 & Ed).
  assert (Hd1 : d1 = ca /\ d2 = C1 :: C2 :: cb).
  { apply app_len_inj in Ed; [destruct Ed; split; congruence|]. rewrite <- (Forall2_len _ _ _ HF1). lia. }
  destruct Hd1 as [-> ->]. inversion HF2 as [|? ? ? ? _ HF2']; subst. inversion HF2' as [|? ? ? ? _ HFb]; subst.
  destruct (agree_F2 _ h h' (S f) ka ca Hag HF1 (fun k x Hkk Hx => Dk k x (or_introl Hkk) Hx)) as [HF1' Hfm1].
  destruct (agree_F2 _ h h' (S f) kb cb Hag HFb (fun k x Hkk Hx => Dk k x (or_intror Hkk) Hx)) as [HFb' Hfmb].
  split.
  - apply abs_S. exists na', (ca ++ cm ++ cb). split; [exact Ha'|]. split; [|reflexivity].
    rewrite Hk'. apply F2_app; [exact HF1'|apply F2_app; [exact HFm|exact HFb']].
  - rewrite (addrs_unfold _ _ _ _ Ha'), Hk', !flat_map_app', Hfm1, Hfmb. reflexivity.
Qed.

(* ---------------- more lists in step ---------------- *)
Lemma F2_removelast {A B} (R : A -> B -> Prop) l1 l2 : Forall2 R l1 l2 -> Forall2 R (removelast l1) (removelast l2).
Proof.
  induction 1 as [|a b l1 l2 Hab H IH]; [constructor|]. cbn [removelast]. destruct H; [constructor|]. constructor; [exact Hab|exact IH].
Qed.
Lemma F2_last {A B} (R : A -> B -> Prop) l1 l2 d1 d2 : Forall2 R l1 l2 -> l1 <> [] -> R (last l1 d1) (last l2 d2).
Proof.
  induction 1 as [|a b l1 l2 Hab H IH]; intros Hne; [congruence|]. cbn [last]. destruct H; [exact Hab|]. apply IH. discriminate.
Qed.
Lemma F2_tl {A B} (R : A -> B -> Prop) l1 l2 : Forall2 R l1 l2 -> Forall2 R (tl l1) (tl l2).
Proof. destruct 1; [constructor|assumption]. Qed.
Lemma F2_hd {A B} (R : A -> B -> Prop) l1 l2 d1 d2 : Forall2 R l1 l2 -> l1 <> [] -> R (hd d1 l1) (hd d2 l2).
Proof. destruct 1; intros Hne; [congruence|assumption]. Qed.
Lemma in_tl' {A} (l : list A) x : In x (tl l) -> In x l.
Proof. destruct l; [intros []|intros H; right; exact H]. Qed.
Lemma last_in_ne {A} (l : list A) d : l <> [] -> In (last l d) l.
Proof. induction l as [|x l IH]; [congruence|]. intros _. destruct l; [left; reflexivity|]. right. apply IH. discriminate. Qed.
Lemma hd_in_ne {A} (l : list A) d : l <> [] -> In (hd d l) l.
Proof. destruct l; [congruence|intros _; left; reflexivity]. Qed.
Lemma is_nil_false' {A} (l : list A) : is_nil l = false -> l <> [].
Proof. destruct l; [discriminate|intros _; discriminate]. Qed.

Lemma F2_cons_r {A B} (R : A -> B -> Prop) l y l' : Forall2 R l (y :: l') -> exists x l0, l = x :: l0 /\ R x y /\ Forall2 R l0 l'.
Proof. intros H. inversion H; subst. eauto. Qed.

(* the store node behind a functional child *)
Lemma abs_node f h k C : abs (S f) h k = Some C ->
  exists n cs, h k = Some n /\ C = INode (hits n) cs /\ Forall2 (fun g c => abs f h g = Some c) (kids n) cs.
Proof. intros H. apply abs_S in H. destruct H as (n & cs & Hn & HF & ->). exists n, cs. auto. Qed.

Section GrowSim.
Variable minI : nat.
Hypothesis minI_pos : 1 <= minI.
Variable c : ctx.

(* the state in which growChildAndRemove rewrites two adjacent children k1, k2 of a and a itself *)
Record two_view (hh : nat) (s : hst) (a : addr) (na : hnode) (ka : list addr) (k1 k2 : addr) (kb : list addr) (n1 n2 : hnode)
                (ca : list inode) (cs1 cs2 : list inode) (cb : list inode) : Prop := {
  tv_alloc : good_alloc s;
  tv_a : hp s a = Some na; tv_oa : own na = c; tv_kids : kids na = ka ++ k1 :: k2 :: kb;
  tv_1 : hp s k1 = Some n1; tv_2 : hp s k2 = Some n2;
  tv_abs : abs (S (S hh)) (hp s) a = Some (INode (hits na) (ca ++ INode (hits n1) cs1 :: INode (hits n2) cs2 :: cb));
  tv_len : length ca = length ka;
  tv_f1 : Forall2 (fun g c0 => abs hh (hp s) g = Some c0) (kids n1) cs1;
  tv_f2 : Forall2 (fun g c0 => abs hh (hp s) g = Some c0) (kids n2) cs2;
  tv_nd : NoDup (addrs (S (S hh)) (hp s) a)
}.

(* both children rewritten, the parent's items changed *)
Lemma three_put hh s a na ka k1 k2 kb n1 n2 ca cs1 cs2 cb s' n1' n2' na' cs1' cs2' :
  two_view hh s a na ka k1 k2 kb n1 n2 ca cs1 cs2 cb ->
  own n1 = c -> own n2 = c -> own n1' = c -> own n2' = c -> own na' = c -> kids na' = kids na ->
  agree_out [a; k1; k2] (hp s) (hp s') -> hp s' a = Some na' -> hp s' k1 = Some n1' -> hp s' k2 = Some n2' ->
  (forall g, In g (kids n1') \/ In g (kids n2') -> In g (kids n1) \/ In g (kids n2)) ->
  Forall2 (fun g c0 => abs hh (hp s) g = Some c0) (kids n1') cs1' ->
  Forall2 (fun g c0 => abs hh (hp s) g = Some c0) (kids n2') cs2' ->
  abs (S (S hh)) (hp s') a = Some (INode (hits na') (ca ++ INode (hits n1') cs1' :: INode (hits n2') cs2' :: cb)) /\
  step_ok c (addrs (S (S hh)) (hp s) a) (hp s) (hp s') (addrs (S (S hh)) (hp s') a).
Proof.
  intros [Hg Ha Hoa Hk H1 H2 Hab Hlen HF1 HF2 Hnd] Ho1 Ho2 Ho1' Ho2' Hoa' Hk' Hag Ha' H1' H2' Hsub HF1' HF2'.
  destruct (surgery_disj hh (hp s) a na ka k1 k2 kb n1 n2 Ha Hk H1 H2 Hnd) as (Ea1 & Ea2 & E12 & Dg & Dk).
  destruct (surgery_mid [a; k1; k2] hh (hp s) (hp s') k1 n1' cs1' Hag H1' HF1') as [Hm1 Hfp1].
  { intros g x Hgin Hx. apply (Dg g x); [apply Hsub; left; exact Hgin|exact Hx]. }
  destruct (surgery_mid [a; k1; k2] hh (hp s) (hp s') k2 n2' cs2' Hag H2' HF2') as [Hm2 Hfp2].
  { intros g x Hgin Hx. apply (Dg g x); [apply Hsub; right; exact Hgin|exact Hx]. }
  destruct (surgery_top hh (hp s) (hp s') a na ka k1 k2 kb n1 n2 ca _ _ cb na' [k1; k2] [INode (hits n1') cs1'; INode (hits n2') cs2']
              Ha Hk H1 H2 Hab Hlen Hnd Hag Ha') as [Hat Hfpt].
  { rewrite Hk', Hk. reflexivity. }
  { constructor; [exact Hm1|constructor; [exact Hm2|constructor]]. }
  split; [exact Hat|].
  assert (Hfp0 : addrs (S (S hh)) (hp s) a = a :: flat_map (addrs (S hh) (hp s)) ka ++ (k1 :: flat_map (addrs hh (hp s)) (kids n1)) ++ (k2 :: flat_map (addrs hh (hp s)) (kids n2)) ++ flat_map (addrs (S hh) (hp s)) kb).
  { rewrite (addrs_unfold _ _ _ _ Ha), Hk, flat_map_app'. cbn [flat_map]. rewrite (addrs_unfold _ _ _ _ H1), (addrs_unfold _ _ _ _ H2), <- ?app_assoc. reflexivity. }
  split.
  - intros x. destruct (Nat.eq_dec x a) as [Exa|Hna].
    { subst x. right. split; [right; split; [rewrite Hfp0; left; reflexivity|exists na; auto]|]. intros n' Hn'. rewrite Ha' in Hn'. inversion Hn'; subst. exact Hoa'. }
    destruct (Nat.eq_dec x k1) as [Ex1|Hn1].
    { subst x. right. split; [right; split; [rewrite Hfp0; inapp|exists n1; auto]|]. intros n' Hn'. rewrite H1' in Hn'. inversion Hn'; subst. exact Ho1'. }
    destruct (Nat.eq_dec x k2) as [Ex2|Hn2].
    { subst x. right. split; [right; split; [rewrite Hfp0; inapp|exists n2; auto]|]. intros n' Hn'. rewrite H2' in Hn'. inversion Hn'; subst. exact Ho2'. }
    left. apply Hag. intros [E|[E|[E|[]]]]; congruence.
  - intros x Hx. left. rewrite Hfpt in Hx. cbn [flat_map] in Hx. rewrite Hfp1, Hfp2, app_nil_r in Hx. rewrite Hfp0.
    assert (Hsub' : forall y, In y (flat_map (addrs hh (hp s)) (kids n1')) \/ In y (flat_map (addrs hh (hp s)) (kids n2')) ->
                    In y (flat_map (addrs hh (hp s)) (kids n1)) \/ In y (flat_map (addrs hh (hp s)) (kids n2))).
    { intros y Hy. assert (Hy' : exists g, (In g (kids n1') \/ In g (kids n2')) /\ In y (addrs hh (hp s) g)).
      { destruct Hy as [Hy|Hy]; apply in_flat_map in Hy; destruct Hy as (g & Hg1 & Hg2); exists g; auto. }
      destruct Hy' as (g & Hgin & Hy'). destruct (Hsub g Hgin) as [Hg'|Hg']; [left|right]; apply in_flat_map; exists g; auto. }
    pose proof (fun H => Hsub' x (or_introl H)) as S1. pose proof (fun H => Hsub' x (or_intror H)) as S2.
    revert Hx. repeat (rewrite in_app_iff || cbn [In]). tauto.
Qed.

(* the right one of the two children is merged into the left one and leaves the tree *)
Lemma merge_put hh s a na ka k1 k2 kb n1 n2 ca cs1 cs2 cb s' n1' na' cs1' :
  two_view hh s a na ka k1 k2 kb n1 n2 ca cs1 cs2 cb ->
  own n1 = c -> own n1' = c -> own na' = c -> kids na' = ka ++ k1 :: kb ->
  agree_out [a; k1; k2] (hp s) (hp s') -> hp s' a = Some na' -> hp s' k1 = Some n1' ->
  (hp s' k2 = hp s k2 \/ (own n2 = c /\ hp s' k2 = None)) ->
  (forall g, In g (kids n1') -> In g (kids n1) \/ In g (kids n2)) ->
  Forall2 (fun g c0 => abs hh (hp s) g = Some c0) (kids n1') cs1' ->
  abs (S (S hh)) (hp s') a = Some (INode (hits na') (ca ++ INode (hits n1') cs1' :: cb)) /\
  step_ok c (addrs (S (S hh)) (hp s) a) (hp s) (hp s') (addrs (S (S hh)) (hp s') a).
Proof.
  intros [Hg Ha Hoa Hk H1 H2 Hab Hlen HF1 HF2 Hnd] Ho1 Ho1' Hoa' Hk' Hag Ha' H1' H2' Hsub HF1'.
  destruct (surgery_disj hh (hp s) a na ka k1 k2 kb n1 n2 Ha Hk H1 H2 Hnd) as (Ea1 & Ea2 & E12 & Dg & Dk).
  destruct (surgery_mid [a; k1; k2] hh (hp s) (hp s') k1 n1' cs1' Hag H1' HF1') as [Hm1 Hfp1].
  { intros g x Hgin Hx. apply (Dg g x); [apply Hsub; exact Hgin|exact Hx]. }
  destruct (surgery_top hh (hp s) (hp s') a na ka k1 k2 kb n1 n2 ca _ _ cb na' [k1] [INode (hits n1') cs1']
              Ha Hk H1 H2 Hab Hlen Hnd Hag Ha') as [Hat Hfpt].
  { rewrite Hk'. reflexivity. }
  { constructor; [exact Hm1|constructor]. }
  split; [exact Hat|].
  assert (Hfp0 : addrs (S (S hh)) (hp s) a = a :: flat_map (addrs (S hh) (hp s)) ka ++ (k1 :: flat_map (addrs hh (hp s)) (kids n1)) ++ (k2 :: flat_map (addrs hh (hp s)) (kids n2)) ++ flat_map (addrs (S hh) (hp s)) kb).
  { rewrite (addrs_unfold _ _ _ _ Ha), Hk, flat_map_app'. cbn [flat_map]. rewrite (addrs_unfold _ _ _ _ H1), (addrs_unfold _ _ _ _ H2), <- ?app_assoc. reflexivity. }
  split.
  - intros x. destruct (Nat.eq_dec x a) as [Exa|Hna].
    { subst x. right. split; [right; split; [rewrite Hfp0; left; reflexivity|exists na; auto]|]. intros n' Hn'. rewrite Ha' in Hn'. inversion Hn'; subst. exact Hoa'. }
    destruct (Nat.eq_dec x k1) as [Ex1|Hn1].
    { subst x. right. split; [right; split; [rewrite Hfp0; inapp|exists n1; auto]|]. intros n' Hn'. rewrite H1' in Hn'. inversion Hn'; subst. exact Ho1'. }
    destruct (Nat.eq_dec x k2) as [Ex2|Hn2].
    { subst x. destruct H2' as [E|[Ho2 E]]; [left; exact E|]. right. split; [right; split; [rewrite Hfp0; inapp|exists n2; auto]|]. intros n' Hn'. congruence. }
    left. apply Hag. intros [E|[E|[E|[]]]]; congruence.
  - intros x Hx. left. rewrite Hfpt in Hx. cbn [flat_map] in Hx. rewrite Hfp1, app_nil_r in Hx. rewrite Hfp0.
    assert (S1 : In x (flat_map (addrs hh (hp s)) (kids n1')) -> In x (flat_map (addrs hh (hp s)) (kids n1)) \/ In x (flat_map (addrs hh (hp s)) (kids n2))).
    { intros Hy. apply in_flat_map in Hy. destruct Hy as (g & Hg1 & Hg2). destruct (Hsub g Hg1) as [Hg'|Hg']; [left|right]; apply in_flat_map; exists g; auto. }
    revert Hx. repeat (rewrite in_app_iff || cbn [In]). tauto.
Qed.

(* seeing two adjacent children j, j+1 of a *)
Lemma view_at hh s a na cs j : good_alloc s -> hp s a = Some na -> own na = c ->
  abs (S (S hh)) (hp s) a = Some (INode (hits na) cs) ->
  shaped (S hh) (INode (hits na) cs) -> occ minI (S hh) (INode (hits na) cs) -> StronglySorted klt (iflat (S (S hh)) (INode (hits na) cs)) ->
  j < length (hits na) ->
  exists ia x ib ka k1 k2 kb n1 n2 ca cs1 cs2 cb,
    hits na = ia ++ x :: ib /\ length ia = j /\ cs = ca ++ INode (hits n1) cs1 :: INode (hits n2) cs2 :: cb /\
    length ka = j /\ length cb = length ib /\ length kb = length ib /\
    two_view hh s a na ka k1 k2 kb n1 n2 ca cs1 cs2 cb.
Proof.
  intros Hg Hna Hoa Ha Hsh Hoc Hsort Hj.
  pose proof (fp_nodup minI minI_pos (S hh) (hp s) a _ Ha Hsh Hoc Hsort) as Hnd.
  destruct Hsh as [Hl _]. cbn [iitems ichildren] in Hl.
  destruct (split2 (hits na) cs j Hl Hj) as (ia & x & ib & ca & C1 & C2 & cb & Hits & Hcs & Hia & Hca & Hcb).
  pose proof Ha as Ha0. apply abs_S in Ha. destruct Ha as (n0 & cs0 & Hn0 & HF & E). rewrite Hna in Hn0. inversion Hn0; subst n0. inversion E; subst cs0. clear Hn0 E.
  rewrite Hcs in HF. apply Forall2_app_inv_r in HF. destruct HF as (ka & krest & HFa & HFr & Hk).
  apply F2_cons_r in HFr. destruct HFr as (k1 & krest' & -> & Hk1 & HFr'). apply F2_cons_r in HFr'. destruct HFr' as (k2 & kb & -> & Hk2 & HFb).
  destruct (abs_node hh (hp s) k1 C1 Hk1) as (n1 & cs1 & Hn1 & -> & HF1).
  destruct (abs_node hh (hp s) k2 C2 Hk2) as (n2 & cs2 & Hn2 & -> & HF2).
  exists ia, x, ib, ka, k1, k2, kb, n1, n2, ca, cs1, cs2, cb.
  pose proof (Forall2_len _ _ _ HFa) as La. pose proof (Forall2_len _ _ _ HFb) as Lb.
  split; [exact Hits|]. split; [exact Hia|]. split; [exact Hcs|]. split; [lia|]. split; [exact Hcb|]. split; [lia|].
  rewrite Hcs in Ha0. constructor; try assumption. lia.
Qed.
End GrowSim.

Lemma nth_set_at_other {A} (l : list A) i j x d : i < length l -> i <> j -> nth j (set_at l i x) d = nth j l d.
Proof.
  revert i j. induction l as [|y l IH]; intros i j Hi Hne; [cbn in Hi; lia|].
  destruct i as [|i]; destruct j as [|j]; try congruence; unfold set_at in *; cbn [firstn skipn app nth]; [reflexivity|reflexivity|].
  apply IH; [cbn in Hi; lia|congruence].
Qed.

Section GrowSim2.
Variable minI : nat.
Hypothesis minI_pos : 1 <= minI.
Variable c : ctx.

Definition node_post (hh : nat) (s : hst) (a : addr) (s' : hst) (n' : inode) : Prop :=
  good_alloc s' /\ abs (S hh) (hp s') a = Some n' /\ (exists na', hp s' a = Some na' /\ own na' = c) /\
  step_ok c (addrs (S hh) (hp s) a) (hp s) (hp s') (addrs (S hh) (hp s') a).

(* mutableChild as one step seen from the parent *)
Lemma mc_step s a hh na cs i : good_alloc s -> hp s a = Some na -> own na = c ->
  abs (S (S hh)) (hp s) a = Some (INode (hits na) cs) -> i < length (kids na) ->
  let s' := fst (h_mutable_child s c a i) in let k := snd (h_mutable_child s c a i) in
  good_alloc s' /\ hp s' a = Some {| own := own na; hits := hits na; kids := set_at (kids na) i k |} /\
  abs (S (S hh)) (hp s') a = Some (INode (hits na) cs) /\ (exists nk, hp s' k = Some nk /\ own nk = c) /\ k <> a /\
  step_ok c (addrs (S (S hh)) (hp s) a) (hp s) (hp s') (addrs (S (S hh)) (hp s') a) /\
  (forall x n, hp s x = Some n -> x <> a -> hp s' x = Some n).
Proof.
  intros Hg Hna Hoa Ha Hi. destruct (h_mutable_child_spec c s a hh na cs i Hg Hna Hoa Ha Hi) as (A & B & C & D & _ & E & F & G & H).
  cbv zeta. split; [exact A|]. split; [exact B|]. split; [exact C|]. split; [exact D|]. split; [exact E|]. split; [|exact H].
  split; [|exact G]. apply (wr_mono c [a]); [|exact F]. intros x [<-|[]]. apply (addrs_self (S hh) (hp s) a na Hna).
Qed.

Lemma kid_hits f h s ks cs j : hp s = h -> Forall2 (fun k c0 => abs (S f) h k = Some c0) ks cs -> j < length ks ->
  hits (getn s (nth j ks 0)) = iitems (nth j cs dinode).
Proof.
  intros <- HF Hj. pose proof (F2_nth _ _ _ j (0 : addr) dinode HF Hj) as H. cbn beta in H.
  destruct (abs_node f (hp s) _ _ H) as (n & cs' & Hn & E & _). unfold getn. rewrite Hn, E. reflexivity.
Qed.
End GrowSim2.

Section GrowSim3.
Variable minI : nat.
Hypothesis minI_pos : 1 <= minI.
Variable c : ctx.
Notation node_post := (node_post c).

Lemma hput3_lookup s k1 n1' k2 n2' a na' : a <> k1 -> a <> k2 -> k1 <> k2 ->
  let s' := hput (hput (hput s k1 n1') k2 n2') a na' in
  agree_out [a; k1; k2] (hp s) (hp s') /\ hp s' a = Some na' /\ hp s' k1 = Some n1' /\ hp s' k2 = Some n2'.
Proof.
  intros E1 E2 E3. cbn [hput hp]. split; [|split; [apply hset_same|split]].
  - intros x Hx. rewrite !hset_other; [reflexivity| | |]; intros ->; apply Hx; cbn [In]; tauto.
  - rewrite hset_other by congruence. rewrite hset_other by congruence. apply hset_same.
  - rewrite hset_other by congruence. apply hset_same.
Qed.
Lemma hput3_good s k1 n1' k2 n2' a na' : good_alloc s -> hp s k1 <> None -> hp s k2 <> None -> hp s a <> None ->
  good_alloc (hput (hput (hput s k1 n1') k2 n2') a na').
Proof.
  intros Hg H1 H2 Ha. destruct (alloc_lt s k1 Hg H1), (alloc_lt s k2 Hg H2), (alloc_lt s a Hg Ha).
  apply hput_good; [apply hput_good; [apply hput_good|..]|..]; cbn [hput nxt fl]; assumption.
Qed.

(* steal from the left sibling *)
Lemma grow_left_sim hh s a na cs j :
  good_alloc s -> hp s a = Some na -> own na = c ->
  abs (S (S hh)) (hp s) a = Some (INode (hits na) cs) ->
  shaped (S hh) (INode (hits na) cs) -> occ minI (S hh) (INode (hits na) cs) ->
  StronglySorted klt (iflat (S (S hh)) (INode (hits na) cs)) ->
  j < length (hits na) ->
  forall s1 child s2 sf, h_mutable_child s c a (S j) = (s1, child) -> h_mutable_child s1 c a j = (s2, sf) ->
  let na2 := getn s2 a in let nc := getn s2 child in let nl := getn s2 sf in
  let s3 := hput s2 sf {| own := own nl; hits := removelast (hits nl); kids := removelast (kids nl) |} in
  let s4 := hput s3 child {| own := own nc; hits := nth j (hits na2) ditem :: hits nc;
                             kids := if is_nil (kids nl) then kids nc else last (kids nl) 0 :: kids nc |} in
  let s5 := hput s4 a {| own := own na2; hits := set_at (hits na2) j (last (hits nl) ditem); kids := kids na2 |} in
  let L := nth j cs dinode in let C := nth (S j) cs dinode in
  node_post (S hh) s a s5
    (INode (set_at (hits na) j (last (iitems L) ditem))
           (set_at (set_at cs j (INode (removelast (iitems L)) (removelast (ichildren L)))) (S j)
                   (INode (nth j (hits na) ditem :: iitems C)
                          (if is_nil (ichildren L) then ichildren C else last (ichildren L) dinode :: ichildren C)))).
Proof.
  intros Hg Hna Hoa Ha Hsh Hoc Hsort Hj s1 child s2 sf E1 E2.
  pose proof (proj1 Hsh) as Hl. cbn [iitems ichildren] in Hl.
  assert (Hlk : length (kids na) = length cs).
  { pose proof Ha as Ha'. apply abs_S in Ha'. destruct Ha' as (n0 & cs0 & Hn0 & HF & E). rewrite Hna in Hn0. inversion Hn0; subst. inversion E; subst. apply (Forall2_len _ _ _ HF). }
  destruct (mc_step c s a hh na cs (S j) Hg Hna Hoa Ha ltac:(lia)) as (Hg1 & Hna1 & Ha1 & (nk & Hnk & Hok) & Hka & Hstep1 & Hoth1).
  rewrite E1 in *. cbn [fst snd] in *.
  set (na1 := {| own := own na; hits := hits na; kids := set_at (kids na) (S j) child |}) in *.
  assert (Hlk1 : length (kids na1) = length (kids na)) by (cbn [kids na1]; apply length_set_at; lia).
  destruct (mc_step c s1 a hh na1 cs j Hg1 Hna1 Hoa Ha1 ltac:(lia)) as (Hg2 & Hna2 & Ha2 & (nf & Hnf & Hof) & Hfa & Hstep2 & Hoth2).
  rewrite E2 in *. cbn [fst snd] in *. cbn [own hits kids na1] in Hna2.
  set (na2 := {| own := own na; hits := hits na; kids := set_at (set_at (kids na) (S j) child) j sf |}) in *.
  assert (Hnk2 : hp s2 child = Some nk) by (apply Hoth2; [exact Hnk|exact Hka]).
  destruct (view_at minI minI_pos c hh s2 a na2 cs j Hg2 Hna2 Hoa Ha2 Hsh Hoc Hsort Hj)
    as (ia & x & ib & ka & k1 & k2 & kb & n1 & n2 & ca & cs1 & cs2 & cb & Hits & Hia & Hcs & Hlka & Hlcb & Hlkb & V).
  pose proof (tv_kids _ _ _ _ _ _ _ _ _ _ _ _ _ _ _ V) as Hk2. cbn [kids na2] in Hk2.
  assert (Ek1 : k1 = sf).
  { transitivity (nth j (ka ++ k1 :: k2 :: kb) 0); [symmetry; apply nth_app_len', Hlka|]. rewrite <- Hk2. apply nth_set_at. rewrite length_set_at; lia. }
  assert (Ek2 : k2 = child).
  { transitivity (nth (S j) (ka ++ k1 :: k2 :: kb) 0); [symmetry; apply nth_app_len_S', Hlka|]. rewrite <- Hk2.
    rewrite nth_set_at_other by (rewrite ?length_set_at; lia). apply nth_set_at. lia. }
  subst k1 k2.
  pose proof (tv_1 _ _ _ _ _ _ _ _ _ _ _ _ _ _ _ V) as H1. pose proof (tv_2 _ _ _ _ _ _ _ _ _ _ _ _ _ _ _ V) as H2.
  rewrite Hnf in H1. inversion H1; subst n1. rewrite Hnk2 in H2. inversion H2; subst n2. clear H1 H2.
  cbv zeta. rewrite (getn_some s2 a na2 Hna2), (getn_some s2 child nk Hnk2), (getn_some s2 sf nf Hnf). cbn [own hits kids na2].
  set (n1' := {| own := own nf; hits := removelast (hits nf); kids := removelast (kids nf) |}).
  set (n2' := {| own := own nk; hits := nth j (hits na) ditem :: hits nk; kids := if is_nil (kids nf) then kids nk else last (kids nf) 0 :: kids nk |}).
  set (na' := {| own := own na; hits := set_at (hits na) j (last (hits nf) ditem); kids := set_at (set_at (kids na) (S j) child) j sf |}).
  destruct (surgery_disj hh (hp s2) a na2 ka sf child kb nf nk Hna2 Hk2 Hnf Hnk2 (tv_nd _ _ _ _ _ _ _ _ _ _ _ _ _ _ _ V)) as (Ea1 & Ea2 & E12 & _ & _).
  destruct (hput3_lookup s2 sf n1' child n2' a na' Ea1 Ea2 E12) as (Hag & Ha5 & H15 & H25).
  set (s5 := hput (hput (hput s2 sf n1') child n2') a na') in *.
  pose proof (tv_f1 _ _ _ _ _ _ _ _ _ _ _ _ _ _ _ V) as HF1. pose proof (tv_f2 _ _ _ _ _ _ _ _ _ _ _ _ _ _ _ V) as HF2.
  set (cs2' := if is_nil (kids nf) then cs2 else last cs1 dinode :: cs2).
  assert (HF2' : Forall2 (fun g c0 => abs hh (hp s2) g = Some c0) (kids n2') cs2').
  { cbn [kids n2']. unfold cs2'. destruct (is_nil (kids nf)) eqn:En; [exact HF2|]. constructor; [|exact HF2].
    apply (F2_last _ _ _ (0 : addr) dinode HF1). apply is_nil_false', En. }
  destruct (three_put c hh s2 a na2 ka sf child kb nf nk ca cs1 cs2 cb s5 n1' n2' na' (removelast cs1) cs2' V Hof Hok Hof Hok Hoa eq_refl Hag Ha5 H15 H25)
    as [Hab5 Hstep5].
  { cbn [kids n1' n2']. intros g [Hg'|Hg']; [left; apply C03_Up.in_removelast, Hg'|].
    destruct (is_nil (kids nf)) eqn:En; [right; exact Hg'|]. destruct Hg' as [<-|Hg']; [left; apply last_in_ne, is_nil_false', En|right; exact Hg']. }
  { cbn [kids n1']. apply F2_removelast, HF1. }
  { exact HF2'. }
  assert (Hlca : length ca = j) by (rewrite (tv_len _ _ _ _ _ _ _ _ _ _ _ _ _ _ _ V); exact Hlka).
  split; [apply hput3_good; [exact Hg2|congruence|congruence|congruence]|]. split.
  - rewrite Hab5. f_equal. cbn [hits na' n1' n2']. rewrite Hcs.
    rewrite (nth_app_len' ca _ (_ :: cb) dinode j ltac:(lia)), (nth_app_len_S' ca _ _ cb dinode j ltac:(lia)). cbn [iitems ichildren].
    rewrite (set_at_app' ca _ (_ :: cb) _ j ltac:(lia)), (set_at_app_S' ca _ _ cb _ j ltac:(lia)).
    unfold cs2'. rewrite (is_nil_F2 _ _ _ HF1). reflexivity.
  - split; [exists na'; split; [exact Ha5|exact Hoa]|].
    apply (step_trans c _ _ _ _ _ _ Hstep1). apply (step_trans c _ _ _ _ _ _ Hstep2). exact Hstep5.
Qed.

Lemma agree_out_perm W W' h h' : (forall x, In x W' -> In x W) -> agree_out W' h h' -> agree_out W h h'.
Proof. intros Hi H x Hx. apply H. intros Hx'. apply Hx, Hi, Hx'. Qed.

(* steal from the right sibling *)
Lemma grow_right_sim hh s a na cs i :
  good_alloc s -> hp s a = Some na -> own na = c ->
  abs (S (S hh)) (hp s) a = Some (INode (hits na) cs) ->
  shaped (S hh) (INode (hits na) cs) -> occ minI (S hh) (INode (hits na) cs) ->
  StronglySorted klt (iflat (S (S hh)) (INode (hits na) cs)) ->
  i < length (hits na) ->
  forall s1 child s2 sf, h_mutable_child s c a i = (s1, child) -> h_mutable_child s1 c a (S i) = (s2, sf) ->
  let na2 := getn s2 a in let nc := getn s2 child in let nr := getn s2 sf in
  let s3 := hput s2 sf {| own := own nr; hits := tl (hits nr); kids := tl (kids nr) |} in
  let s4 := hput s3 child {| own := own nc; hits := hits nc ++ [nth i (hits na2) ditem];
                             kids := if is_nil (kids nr) then kids nc else kids nc ++ [hd 0 (kids nr)] |} in
  let s5 := hput s4 a {| own := own na2; hits := set_at (hits na2) i (hd ditem (hits nr)); kids := kids na2 |} in
  let C := nth i cs dinode in let R := nth (S i) cs dinode in
  node_post (S hh) s a s5
    (INode (set_at (hits na) i (hd ditem (iitems R)))
           (set_at (set_at cs i (INode (iitems C ++ [nth i (hits na) ditem])
                                       (if is_nil (ichildren R) then ichildren C else ichildren C ++ [hd dinode (ichildren R)])))
                   (S i) (INode (tl (iitems R)) (tl (ichildren R))))).
Proof.
  intros Hg Hna Hoa Ha Hsh Hoc Hsort Hj s1 child s2 sf E1 E2.
  pose proof (proj1 Hsh) as Hl. cbn [iitems ichildren] in Hl.
  assert (Hlk : length (kids na) = length cs).
  { pose proof Ha as Ha'. apply abs_S in Ha'. destruct Ha' as (n0 & cs0 & Hn0 & HF & E). rewrite Hna in Hn0. inversion Hn0; subst. inversion E; subst. apply (Forall2_len _ _ _ HF). }
  destruct (mc_step c s a hh na cs i Hg Hna Hoa Ha ltac:(lia)) as (Hg1 & Hna1 & Ha1 & (nk & Hnk & Hok) & Hka & Hstep1 & Hoth1).
  rewrite E1 in *. cbn [fst snd] in *.
  set (na1 := {| own := own na; hits := hits na; kids := set_at (kids na) i child |}) in *.
  assert (Hlk1 : length (kids na1) = length (kids na)) by (cbn [kids na1]; apply length_set_at; lia).
  destruct (mc_step c s1 a hh na1 cs (S i) Hg1 Hna1 Hoa Ha1 ltac:(lia)) as (Hg2 & Hna2 & Ha2 & (nf & Hnf & Hof) & Hfa & Hstep2 & Hoth2).
  rewrite E2 in *. cbn [fst snd] in *. cbn [own hits kids na1] in Hna2.
  set (na2 := {| own := own na; hits := hits na; kids := set_at (set_at (kids na) i child) (S i) sf |}) in *.
  assert (Hnk2 : hp s2 child = Some nk) by (apply Hoth2; [exact Hnk|exact Hka]).
  destruct (view_at minI minI_pos c hh s2 a na2 cs i Hg2 Hna2 Hoa Ha2 Hsh Hoc Hsort Hj)
    as (ia & x & ib & ka & k1 & k2 & kb & n1 & n2 & ca & cs1 & cs2 & cb & Hits & Hia & Hcs & Hlka & Hlcb & Hlkb & V).
  pose proof (tv_kids _ _ _ _ _ _ _ _ _ _ _ _ _ _ _ V) as Hk2. cbn [kids na2] in Hk2.
  assert (Ek2 : k2 = sf).
  { transitivity (nth (S i) (ka ++ k1 :: k2 :: kb) 0); [symmetry; apply nth_app_len_S', Hlka|]. rewrite <- Hk2. apply nth_set_at. rewrite length_set_at; lia. }
  assert (Ek1 : k1 = child).
  { transitivity (nth i (ka ++ k1 :: k2 :: kb) 0); [symmetry; apply nth_app_len', Hlka|]. rewrite <- Hk2.
    rewrite nth_set_at_other by (rewrite ?length_set_at; lia). apply nth_set_at. lia. }
  subst k1 k2.
  pose proof (tv_1 _ _ _ _ _ _ _ _ _ _ _ _ _ _ _ V) as H1. pose proof (tv_2 _ _ _ _ _ _ _ _ _ _ _ _ _ _ _ V) as H2.
  rewrite Hnk2 in H1. inversion H1; subst n1. rewrite Hnf in H2. inversion H2; subst n2. clear H1 H2.
  cbv zeta. rewrite (getn_some s2 a na2 Hna2), (getn_some s2 child nk Hnk2), (getn_some s2 sf nf Hnf). cbn [own hits kids na2].
  set (n2' := {| own := own nf; hits := tl (hits nf); kids := tl (kids nf) |}).
  set (n1' := {| own := own nk; hits := hits nk ++ [nth i (hits na) ditem]; kids := if is_nil (kids nf) then kids nk else kids nk ++ [hd 0 (kids nf)] |}).
  set (na' := {| own := own na; hits := set_at (hits na) i (hd ditem (hits nf)); kids := set_at (set_at (kids na) i child) (S i) sf |}).
  destruct (surgery_disj hh (hp s2) a na2 ka child sf kb nk nf Hna2 Hk2 Hnk2 Hnf (tv_nd _ _ _ _ _ _ _ _ _ _ _ _ _ _ _ V)) as (Ea1 & Ea2 & E12 & _ & _).
  destruct (hput3_lookup s2 sf n2' child n1' a na' Ea2 Ea1 (fun E => E12 (eq_sym E))) as (Hag & Ha5 & H25 & H15).
  set (s5 := hput (hput (hput s2 sf n2') child n1') a na') in *.
  apply (agree_out_perm [a; child; sf]) in Hag; [|intros y; cbn [In]; tauto].
  pose proof (tv_f1 _ _ _ _ _ _ _ _ _ _ _ _ _ _ _ V) as HF1. pose proof (tv_f2 _ _ _ _ _ _ _ _ _ _ _ _ _ _ _ V) as HF2.
  set (cs1' := if is_nil (kids nf) then cs1 else cs1 ++ [hd dinode cs2]).
  assert (HF1' : Forall2 (fun g c0 => abs hh (hp s2) g = Some c0) (kids n1') cs1').
  { cbn [kids n1']. unfold cs1'. destruct (is_nil (kids nf)) eqn:En; [exact HF1|]. apply F2_app; [exact HF1|]. constructor; [|constructor].
    apply (F2_hd _ _ _ (0 : addr) dinode HF2). apply is_nil_false', En. }
  destruct (three_put c hh s2 a na2 ka child sf kb nk nf ca cs1 cs2 cb s5 n1' n2' na' cs1' (tl cs2) V Hok Hof Hok Hof Hoa eq_refl Hag Ha5 H15 H25)
    as [Hab5 Hstep5].
  { cbn [kids n1' n2']. intros g [Hg'|Hg']; [|right; apply in_tl', Hg'].
    destruct (is_nil (kids nf)) eqn:En; [left; exact Hg'|]. apply in_app_or in Hg'. destruct Hg' as [Hg'|[<-|[]]]; [left; exact Hg'|right; apply hd_in_ne, is_nil_false', En]. }
  { exact HF1'. }
  { cbn [kids n2']. apply F2_tl, HF2. }
  assert (Hlca : length ca = i) by (rewrite (tv_len _ _ _ _ _ _ _ _ _ _ _ _ _ _ _ V); exact Hlka).
  split; [apply hput3_good; [exact Hg2|congruence|congruence|congruence]|]. split.
  - rewrite Hab5. f_equal. cbn [hits na' n1' n2']. rewrite Hcs.
    rewrite (nth_app_len' ca _ (_ :: cb) dinode i ltac:(lia)), (nth_app_len_S' ca _ _ cb dinode i ltac:(lia)). cbn [iitems ichildren].
    rewrite (set_at_app' ca _ (_ :: cb) _ i ltac:(lia)), (set_at_app_S' ca _ _ cb _ i ltac:(lia)).
    unfold cs1'. rewrite (is_nil_F2 _ _ _ HF2). reflexivity.
  - split; [exists na'; split; [exact Ha5|exact Hoa]|].
    apply (step_trans c _ _ _ _ _ _ Hstep1). apply (step_trans c _ _ _ _ _ _ Hstep2). exact Hstep5.
Qed.

Lemma h_free_spec s m : good_alloc s ->
  good_alloc (h_free s c m) /\ (forall x, x <> m -> hp (h_free s c m) x = hp s x) /\ (hp (h_free s c m) m = hp s m \/ (exists nm, hp s m = Some nm /\ own nm = c /\ hp (h_free s c m) m = None)).
Proof.
  intros Hg. unfold h_free. destruct (hp s m) as [nm|] eqn:Em; [|split; [exact Hg|split; [reflexivity|left; exact Em]]].
  destruct (Nat.eqb (own nm) c) eqn:Eo; [|split; [exact Hg|split; [reflexivity|left; exact Em]]].
  apply Nat.eqb_eq in Eo. destruct (alloc_lt s m Hg ltac:(congruence)) as [Hlt Hnin]. destruct Hg as (G1 & G2 & G3).
  cbn [hp]. split; [|split].
  - unfold good_alloc. cbn [hp nxt fl]. unfold hdel. split; [|split].
    + intros x Hx. destruct (Nat.eqb x m); [reflexivity|apply G1, Hx].
    + intros x Hx. destruct (Nat.eqb x m) eqn:E.
      * apply Nat.eqb_eq in E. subst x. split; [reflexivity|exact Hlt].
      * destruct (Nat.ltb (length (fl s)) (cap s)); [destruct Hx as [->|Hx]; [rewrite Nat.eqb_refl in E; discriminate|apply G2, Hx]|apply G2, Hx].
    + destruct (Nat.ltb (length (fl s)) (cap s)); [constructor; assumption|exact G3].
  - intros x Hx. unfold hdel. destruct (Nat.eqb x m) eqn:E; [apply Nat.eqb_eq in E; congruence|reflexivity].
  - right. exists nm. split; [reflexivity|split; [exact Eo|]]. unfold hdel. now rewrite Nat.eqb_refl.
Qed.

(* merge child j with its right sibling *)
Lemma grow_merge_sim hh s a na cs j :
  good_alloc s -> hp s a = Some na -> own na = c ->
  abs (S (S hh)) (hp s) a = Some (INode (hits na) cs) ->
  shaped (S hh) (INode (hits na) cs) -> occ minI (S hh) (INode (hits na) cs) ->
  StronglySorted klt (iflat (S (S hh)) (INode (hits na) cs)) ->
  j < length (hits na) ->
  forall s1 child, h_mutable_child s c a j = (s1, child) ->
  let na1 := getn s1 a in let nc := getn s1 child in
  let m := nth (S j) (kids na1) 0 in let nm := getn s1 m in
  let s2 := hput s1 a {| own := own na1; hits := remove_at (hits na1) j; kids := remove_at (kids na1) (S j) |} in
  let s3 := hput s2 child {| own := own nc; hits := hits nc ++ nth j (hits na1) ditem :: hits nm; kids := kids nc ++ kids nm |} in
  let C := nth j cs dinode in let M := nth (S j) cs dinode in
  node_post (S hh) s a (h_free s3 c m)
    (INode (remove_at (hits na) j)
           (remove_at (set_at cs j (INode (iitems C ++ nth j (hits na) ditem :: iitems M) (ichildren C ++ ichildren M))) (S j))).
Proof.
  intros Hg Hna Hoa Ha Hsh Hoc Hsort Hj s1 child E1.
  pose proof (proj1 Hsh) as Hl. cbn [iitems ichildren] in Hl.
  assert (Hlk : length (kids na) = length cs).
  { pose proof Ha as Ha'. apply abs_S in Ha'. destruct Ha' as (n0 & cs0 & Hn0 & HF & E). rewrite Hna in Hn0. inversion Hn0; subst. inversion E; subst. apply (Forall2_len _ _ _ HF). }
  destruct (mc_step c s a hh na cs j Hg Hna Hoa Ha ltac:(lia)) as (Hg1 & Hna1 & Ha1 & (nk & Hnk & Hok) & Hka & Hstep1 & Hoth1).
  rewrite E1 in *. cbn [fst snd] in *.
  set (na1 := {| own := own na; hits := hits na; kids := set_at (kids na) j child |}) in *.
  destruct (view_at minI minI_pos c hh s1 a na1 cs j Hg1 Hna1 Hoa Ha1 Hsh Hoc Hsort Hj)
    as (ia & x & ib & ka & k1 & k2 & kb & n1 & n2 & ca & cs1 & cs2 & cb & Hits & Hia & Hcs & Hlka & Hlcb & Hlkb & V).
  pose proof (tv_kids _ _ _ _ _ _ _ _ _ _ _ _ _ _ _ V) as Hk1. cbn [kids na1] in Hk1.
  assert (Ek1 : k1 = child).
  { transitivity (nth j (ka ++ k1 :: k2 :: kb) 0); [symmetry; apply nth_app_len', Hlka|]. rewrite <- Hk1. apply nth_set_at. lia. }
  subst k1.
  pose proof (tv_1 _ _ _ _ _ _ _ _ _ _ _ _ _ _ _ V) as H1. pose proof (tv_2 _ _ _ _ _ _ _ _ _ _ _ _ _ _ _ V) as H2.
  rewrite Hnk in H1. inversion H1; subst n1. clear H1.
  cbv zeta. rewrite (getn_some s1 a na1 Hna1), (getn_some s1 child nk Hnk). cbn [own hits kids na1].
  assert (Em : nth (S j) (set_at (kids na) j child) 0 = k2) by (rewrite Hk1; apply nth_app_len_S', Hlka).
  rewrite Em, (getn_some s1 k2 n2 H2).
  set (n1' := {| own := own nk; hits := hits nk ++ nth j (hits na) ditem :: hits n2; kids := kids nk ++ kids n2 |}).
  set (na' := {| own := own na; hits := remove_at (hits na) j; kids := remove_at (set_at (kids na) j child) (S j) |}).
  destruct (surgery_disj hh (hp s1) a na1 ka child k2 kb nk n2 Hna1 Hk1 Hnk H2 (tv_nd _ _ _ _ _ _ _ _ _ _ _ _ _ _ _ V)) as (Ea1 & Ea2 & E12 & _ & _).
  set (s3 := hput (hput s1 a na') child n1').
  assert (Hg3 : good_alloc s3).
  { destruct (alloc_lt s1 a Hg1 ltac:(congruence)), (alloc_lt s1 child Hg1 ltac:(congruence)). apply hput_good; [apply hput_good|..]; cbn [hput nxt fl]; assumption. }
  destruct (h_free_spec s3 k2 Hg3) as (Hg4 & Hoth4 & Hm4).
  assert (H3a : hp s3 a = Some na') by (unfold s3; cbn [hput hp]; rewrite hset_other by congruence; apply hset_same).
  assert (H3c : hp s3 child = Some n1') by (unfold s3; cbn [hput hp]; apply hset_same).
  assert (H3m : hp s3 k2 = Some n2) by (unfold s3; cbn [hput hp]; rewrite !hset_other by congruence; exact H2).
  set (s4 := h_free s3 c k2) in *.
  assert (Hag : agree_out [a; child; k2] (hp s1) (hp s4)).
  { intros y Hy. rewrite Hoth4 by (intros ->; apply Hy; cbn [In]; tauto). unfold s3. cbn [hput hp].
    rewrite !hset_other; [reflexivity| |]; intros ->; apply Hy; cbn [In]; tauto. }
  pose proof (tv_f1 _ _ _ _ _ _ _ _ _ _ _ _ _ _ _ V) as HF1. pose proof (tv_f2 _ _ _ _ _ _ _ _ _ _ _ _ _ _ _ V) as HF2.
  assert (Hlca : length ca = j) by (rewrite (tv_len _ _ _ _ _ _ _ _ _ _ _ _ _ _ _ V); exact Hlka).
  destruct (merge_put c hh s1 a na1 ka child k2 kb nk n2 ca cs1 cs2 cb s4 n1' na' (cs1 ++ cs2) V Hok Hok Hoa) as [Hab Hstep].
  { cbn [kids na']. rewrite Hk1. apply remove_at_app_S', Hlka. }
  { exact Hag. }
  { rewrite Hoth4 by congruence. exact H3a. }
  { rewrite Hoth4 by congruence. exact H3c. }
  { destruct Hm4 as [E|(nm & Hnm & Hom & E)]; [left; rewrite E, H3m, H2; reflexivity|right]. rewrite H3m in Hnm. inversion Hnm; subst nm. auto. }
  { cbn [kids n1']. intros g Hg'. apply in_app_or in Hg'. exact Hg'. }
  { cbn [kids n1']. apply F2_app; assumption. }
  split; [exact Hg4|]. split.
  - rewrite Hab. f_equal. cbn [hits na' n1']. rewrite Hcs.
    rewrite (nth_app_len' ca _ (_ :: cb) dinode j ltac:(lia)), (nth_app_len_S' ca _ _ cb dinode j ltac:(lia)). cbn [iitems ichildren].
    rewrite (set_at_app' ca _ (_ :: cb) _ j ltac:(lia)), (remove_at_app_S' ca _ _ cb j ltac:(lia)). reflexivity.
  - split; [exists na'; split; [rewrite Hoth4 by congruence; exact H3a|exact Hoa]|].
    apply (step_trans c _ _ _ _ _ _ Hstep1). exact Hstep.
Qed.
End GrowSim3.

Section RemSim.
Variable minI : nat.
Hypothesis minI_pos : 1 <= minI.
Variable c : ctx.
Notation node_post := (node_post c).

(* growChildAndRemove's restructuring *)
Theorem h_grow_sim hh s a na cs i :
  good_alloc s -> hp s a = Some na -> own na = c ->
  abs (S (S hh)) (hp s) a = Some (INode (hits na) cs) ->
  shaped (S hh) (INode (hits na) cs) -> occ minI (S hh) (INode (hits na) cs) ->
  StronglySorted klt (iflat (S (S hh)) (INode (hits na) cs)) ->
  i <= length (hits na) -> 1 <= length (hits na) ->
  node_post (S hh) s a (h_grow minI c s a i) (igrow minI (INode (hits na) cs) i).
Proof.
  intros Hg Hna Hoa Ha Hsh Hoc Hsort Hi H1.
  pose proof (proj1 Hsh) as Hl. cbn [iitems ichildren] in Hl.
  assert (HF : Forall2 (fun k c0 => abs (S hh) (hp s) k = Some c0) (kids na) cs).
  { pose proof Ha as Ha'. apply abs_S in Ha'. destruct Ha' as (n0 & cs0 & Hn0 & HF & E). rewrite Hna in Hn0. inversion Hn0; subst. inversion E; subst. exact HF. }
  pose proof (Forall2_len _ _ _ HF) as Hlk.
  unfold h_grow, igrow. cbn [iitems ichildren]. rewrite (getn_some s a na Hna). unfold nth_inode.
  assert (Hc1 : (Nat.ltb 0 i && Nat.ltb minI (length (hits (getn s (nth (i - 1) (kids na) 0))))) =
                (Nat.ltb 0 i && Nat.ltb minI (length (iitems (nth (i - 1) cs dinode))))).
  { destruct (Nat.ltb 0 i) eqn:E0; [|reflexivity]. apply Nat.ltb_lt in E0. cbn [andb].
    rewrite (kid_hits hh (hp s) s (kids na) cs (i - 1) eq_refl HF ltac:(lia)). reflexivity. }
  assert (Hc2 : (Nat.ltb i (length (hits na)) && Nat.ltb minI (length (hits (getn s (nth (S i) (kids na) 0))))) =
                (Nat.ltb i (length (hits na)) && Nat.ltb minI (length (iitems (nth (S i) cs dinode))))).
  { destruct (Nat.ltb i (length (hits na))) eqn:E0; [|reflexivity]. apply Nat.ltb_lt in E0. cbn [andb].
    rewrite (kid_hits hh (hp s) s (kids na) cs (S i) eq_refl HF ltac:(lia)). reflexivity. }
  rewrite Hc1, Hc2.
  destruct (Nat.ltb 0 i && Nat.ltb minI (length (iitems (nth (i - 1) cs dinode)))) eqn:E1.
  - apply andb_prop in E1. destruct E1 as [E0 _]. apply Nat.ltb_lt in E0. destruct i as [|j]; [lia|].
    replace (S j - 1) with j by lia.
    destruct (h_mutable_child s c a (S j)) as [s1 child] eqn:Em1. destruct (h_mutable_child s1 c a j) as [s2 sf] eqn:Em2.
    apply (grow_left_sim minI minI_pos c hh s a na cs j Hg Hna Hoa Ha Hsh Hoc Hsort ltac:(lia) s1 child s2 sf Em1 Em2).
  - destruct (Nat.ltb i (length (hits na)) && Nat.ltb minI (length (iitems (nth (S i) cs dinode)))) eqn:E2.
    + apply andb_prop in E2. destruct E2 as [E0 _]. apply Nat.ltb_lt in E0.
      destruct (h_mutable_child s c a i) as [s1 child] eqn:Em1. destruct (h_mutable_child s1 c a (S i)) as [s2 sf] eqn:Em2.
      apply (grow_right_sim minI minI_pos c hh s a na cs i Hg Hna Hoa Ha Hsh Hoc Hsort E0 s1 child s2 sf Em1 Em2).
    + set (j := if Nat.leb (length (hits na)) i then i - 1 else i).
      assert (Hj : j < length (hits na)).
      { unfold j. destruct (Nat.leb (length (hits na)) i) eqn:E; [apply Nat.leb_le in E|apply Nat.leb_gt in E]; lia. }
      destruct (h_mutable_child s c a j) as [s1 child] eqn:Em1.
      apply (grow_merge_sim minI minI_pos c hh s a na cs j Hg Hna Hoa Ha Hsh Hoc Hsort Hj s1 child Em1).
Qed.

Definition rem_spec (fuel : nat) : Prop := forall hh s a na n t n' out,
  good_alloc s -> hp s a = Some na -> own na = c -> abs (S hh) (hp s) a = Some n ->
  good minI hh n -> ok_rm minI n -> StronglySorted klt (iflat (S hh) n) -> pre_t hh n t ->
  iremove fuel minI n t = Some (n', out) ->
  exists s', h_remove fuel minI c s a t = Some (s', out) /\ node_post hh s a s' n'.

(* mutableChild(j), then the removal from that child, seen from the parent *)
Lemma rdescend f : rem_spec f -> forall hh s a na cs j t c' out,
  good_alloc s -> hp s a = Some na -> own na = c ->
  abs (S (S hh)) (hp s) a = Some (INode (hits na) cs) ->
  shaped (S hh) (INode (hits na) cs) -> occ minI (S hh) (INode (hits na) cs) ->
  StronglySorted klt (iflat (S (S hh)) (INode (hits na) cs)) ->
  j < length (kids na) -> good minI hh (nth j cs dinode) -> ok_rm minI (nth j cs dinode) ->
  StronglySorted klt (iflat (S hh) (nth j cs dinode)) -> pre_t hh (nth j cs dinode) t ->
  iremove f minI (nth j cs dinode) t = Some (c', out) ->
  exists s2, h_remove f minI c (fst (h_mutable_child s c a j)) (snd (h_mutable_child s c a j)) t = Some (s2, out) /\
             node_post (S hh) s a s2 (INode (hits na) (set_at cs j c')) /\
             hp s2 a = Some {| own := own na; hits := hits na; kids := set_at (kids na) j (snd (h_mutable_child s c a j)) |}.
Proof.
  intros IHf hh s a na cs j t c' out Hg Hna Hoa Ha Hsh Hoc Hsort Hj Hgc Hokc Hsc Hpc Hi.
  destruct (h_mutable_child_spec c s a hh na cs j Hg Hna Hoa Ha Hj) as (Hg1 & Hna1 & Ha1 & (nk & Hnk & Hok) & Hk1 & Hka & Hwr1 & Hfp1 & _).
  destruct (h_mutable_child s c a j) as [s1 k]. cbn [fst snd] in *.
  destruct (IHf hh s1 k nk _ t c' out Hg1 Hnk Hok Hk1 Hgc Hokc Hsc Hpc Hi) as (s2 & E2 & Hg2 & Hk2 & _ & Hstep2).
  exists s2. split; [exact E2|].
  set (n1 := {| own := own na; hits := hits na; kids := set_at (kids na) j k |}) in *.
  pose proof (fp_nodup minI minI_pos (S hh) (hp s1) a _ Ha1 Hsh Hoc Hsort) as Hnd.
  destruct (after_child c (S hh) (hp s1) (hp s2) a n1 cs (firstn j (kids na)) k (skipn (S j) (kids na)) c' Ha1 Hna1 eq_refl Hnd Hstep2 Hk2)
    as (Hn2 & Ha2 & Hstep_a).
  rewrite firstn_length_le in Ha2 by lia.
  split; [|exact Hn2].
  split; [exact Hg2|]. split; [exact Ha2|]. split; [exists n1; split; [exact Hn2|exact Hoa]|].
  apply (step_trans c _ (addrs (S (S hh)) (hp s1) a) _ (hp s) (hp s1) (hp s2)); [|exact Hstep_a].
  split; [|exact Hfp1]. apply (wr_mono c [a]); [|exact Hwr1]. intros x [<-|[]]. apply (addrs_self (S hh) (hp s) a na Hna).
Qed.
End RemSim.

Section RemSim2.
Variable minI : nat.
Hypothesis minI_pos : 1 <= minI.
Variable c : ctx.
Notation node_post := (node_post c).

Theorem h_remove_sim : forall fuel, rem_spec minI c fuel.
Proof.
  induction fuel as [|f IHf]; intros hh s a na n t n' out Hg Hna Hoa Ha [Hsh Hoc] Hok Hsort Hpre H; [discriminate|].
  destruct n as [its cs]. pose proof Ha as Ha0. apply abs_S in Ha. destruct Ha as (n0 & cs0 & Hn & HF & E).
  rewrite Hna in Hn. inversion Hn; subst n0. inversion E; subst its cs0. clear Hn E.
  pose proof (top_not_below hh (hp s) a _ na Ha0 Hna) as Htop.
  destruct (alloc_lt s a Hg ltac:(congruence)) as [Hlt Hnfl].
  assert (Hself : addrs (S hh) (hp s) a = a :: flat_map (addrs hh (hp s)) (kids na)) by (apply addrs_unfold, Hna).
  (* an in-place change of the items of a leaf *)
  assert (Hput : forall its', node_post hh s a (hput s a {| own := own na; hits := its'; kids := kids na |}) (INode its' cs)).
  { intros its'. set (n1 := {| own := own na; hits := its'; kids := kids na |}).
    destruct (put_top hh (hp s) a n1 cs HF Htop) as [Hab Hfp]. unfold C03_HeapRem.node_post. cbn [hput hp].
    split; [apply hput_good; assumption|]. split; [exact Hab|]. split; [exists n1; split; [apply hset_same|exact Hoa]|].
    split; [apply (wr_hset_owned c _ (hp s) a na n1 Hna Hoa); [rewrite Hself; left; reflexivity|exact Hoa]|].
    intros x Hx. left. rewrite Hfp in Hx. rewrite Hself. exact Hx. }
  cbn [iremove iitems ichildren] in H. cbn [h_remove]. rewrite (getn_some s a na Hna).
  rewrite <- (is_nil_F2 _ _ _ HF) in H. destruct (is_nil (kids na)) eqn:En.
  { (* leaf *)
    apply is_nil_true in En. assert (cs = []) by (rewrite En in HF; inversion HF; reflexivity). subst cs.
    destruct t as [k| |].
    - destruct (ifind (hits na) k) as [i found]. destruct found.
      + inversion H; subst n' out. eexists. split; [reflexivity|]. rewrite <- En. apply Hput.
      + inversion H; subst n' out. exists s. split; [reflexivity|]. split; [exact Hg|]. split; [exact Ha0|]. split; [exists na; auto|apply step_refl].
    - inversion H; subst n' out. eexists. split; [reflexivity|]. rewrite <- En. apply Hput.
    - inversion H; subst n' out. eexists. split; [reflexivity|]. rewrite <- En. apply Hput. }
  (* internal node *)
  destruct hh as [|hh]; [exfalso; cbn in Hsh; subst cs; inversion HF as [E0|]; rewrite <- E0 in En; discriminate|].
  pose proof Hsh as [Hl Hfa]. cbn [iitems ichildren] in Hl, Hfa.
  pose proof (Forall2_len _ _ _ HF) as Hlk.
  rewrite flat_S in Hsort. cbn [iitems ichildren] in Hsort.
  assert (Hbody : forall (i : nat) (found : bool), i <= length (hits na) ->
    (let c0 := nth_inode cs i in
     if Nat.leb (length (iitems c0)) minI then iremove f minI (igrow minI (INode (hits na) cs) i) t else
     if found then match iremove f minI c0 IRmMax with
                   | Some (c', Some m) => Some (INode (set_at (hits na) i m) (set_at cs i c'), Some (nth i (hits na) ditem))
                   | _ => None end
     else match iremove f minI c0 t with Some (c', o) => Some (INode (hits na) (set_at cs i c'), o) | None => None end) = Some (n', out) ->
    exists s',
    (if Nat.leb (length (hits (getn s (nth i (kids na) 0)))) minI then h_remove f minI c (h_grow minI c s a i) a t else
     let '(s1, child) := h_mutable_child s c a i in
     if found then match h_remove f minI c s1 child IRmMax with
                   | Some (s2, Some m) => let n2 := getn s2 a in
                       Some (hput s2 a {| own := own n2; hits := set_at (hits n2) i m; kids := kids n2 |}, Some (nth i (hits na) ditem))
                   | _ => None end
     else h_remove f minI c s1 child t) = Some (s', out) /\ node_post (S hh) s a s' n').
  { clear H. intros i found Hi H. cbv zeta in H. unfold nth_inode in H.
    assert (Hik : i < length (kids na)) by lia.
    rewrite (kid_hits hh (hp s) s (kids na) cs i eq_refl HF Hik).
    set (cf := nth i cs dinode) in *.
    assert (Hcin : In cf cs) by (apply nth_In; lia).
    destruct (Nat.leb (length (iitems cf)) minI) eqn:Esmall.
    - (* the child is too small: restructure, then retry at the same node *)
      apply Nat.leb_le in Esmall.
      assert (H1 : 1 <= length (hits na)).
      { destruct Hok as [Hok|Hok]; [exact Hok|]. cbn [ichildren] in Hok. rewrite Forall_forall in Hok. specialize (Hok cf Hcin). lia. }
      pose proof (grow_cases minI (hits na) cs i Hl Hi H1 Esmall) as Hc.
      destruct (grow_good minI minI_pos hh (hits na) cs i _ Hsh Hoc Hc) as (Gs & Go & Gk).
      assert (Hal : Forall aligned cs) by (eapply Forall_impl; [|exact Hfa]; intros; eapply shaped_aligned; eauto).
      assert (Hsk : forall x y, In x cs -> In y cs -> same_kind x y).
      { rewrite Forall_forall in Hfa. intros x y Hx Hy. eapply (shaped_same_kind minI minI_pos); eauto. }
      pose proof (grow_flat hh minI (hits na) cs i Hl Hi H1 Hal Hsk) as Gf.
      assert (HsortN : StronglySorted klt (iflat (S (S hh)) (INode (hits na) cs))) by (rewrite flat_S; exact Hsort).
      destruct (h_grow_sim minI minI_pos c hh s a na cs i Hg Hna Hoa Ha0 Hsh Hoc HsortN Hi H1) as (Hgg & Hag & (nag & Hnag & Hoag) & Hstepg).
      destruct (IHf (S hh) (h_grow minI c s a i) a nag _ t n' out Hgg Hnag Hoag Hag (conj Gs Go) Gk) as (s' & E' & Hg' & Ha' & Hn' & Hstep'); [rewrite Gf; exact HsortN| |exact H|].
      { unfold pre_t in *. destruct t; auto; rewrite Gf; exact Hpre. }
      exists s'. split; [exact E'|]. split; [exact Hg'|]. split; [exact Ha'|]. split; [exact Hn'|]. apply (step_trans c _ _ _ _ _ _ Hstepg Hstep').
    - apply Nat.leb_gt in Esmall.
      assert (Hcsh : shaped hh cf) by (rewrite Forall_forall in Hfa; auto).
      assert (Hcoc : occ minI hh cf) by (cbn [occ ichildren] in Hoc; rewrite Forall_forall in Hoc; apply Hoc; auto).
      assert (Hcok : ok_rm minI cf) by (left; lia).
      assert (Hcs : StronglySorted klt (iflat (S hh) cf)) by (apply (sorted_child (iflat (S hh)) (hits na) cs i Hl Hi Hsort)).
      assert (Hcne : iflat (S hh) cf <> []) by (apply flat_nonempty; destruct (iitems cf); [cbn in Esmall; lia|discriminate]).
      assert (HsortN : StronglySorted klt (iflat (S (S hh)) (INode (hits na) cs))) by (rewrite flat_S; exact Hsort).
      destruct found.
      + (* the key sits in this node: the predecessor from child i takes its place *)
        destruct (iremove f minI cf IRmMax) as [[c' [m|]]|] eqn:Er; try discriminate. inversion H; subst n' out; clear H.
        destruct (rdescend minI minI_pos c f IHf hh s a na cs i IRmMax c' (Some m) Hg Hna Hoa Ha0 Hsh Hoc HsortN Hik (conj Hcsh Hcoc) Hcok Hcs Hcne Er)
          as (s2 & E2 & (Hg2 & Ha2 & _ & Hstep2) & Hn2).
        destruct (h_mutable_child s c a i) as [s1 child]. cbn [fst snd] in *. rewrite E2.
        set (n1 := {| own := own na; hits := hits na; kids := set_at (kids na) i child |}) in *.
        rewrite (getn_some s2 a n1 Hn2). cbn [own hits kids n1].
        set (n3 := {| own := own na; hits := set_at (hits na) i m; kids := set_at (kids na) i child |}).
        eexists. split; [reflexivity|].
        pose proof (top_not_below (S hh) (hp s2) a _ n1 Ha2 Hn2) as Htop2.
        pose proof Ha2 as Ha2'. apply abs_S in Ha2'. destruct Ha2' as (n2' & cs2 & Hn2' & HF2 & E). rewrite Hn2 in Hn2'. inversion Hn2'; subst n2'. inversion E; subst cs2.
        destruct (put_top (S hh) (hp s2) a n3 _ HF2 Htop2) as [Ha3 Hfp3].
        destruct (alloc_lt s2 a Hg2 ltac:(congruence)) as [Hlt2 Hnfl2].
        unfold C03_HeapRem.node_post. cbn [hput hp].
        split; [apply hput_good; assumption|]. split; [exact Ha3|]. split; [exists n3; split; [apply hset_same|exact Hoa]|].
        apply (step_trans c _ _ _ _ _ _ Hstep2). split.
        * apply (wr_hset_owned c _ (hp s2) a n1 n3 Hn2 Hoa); [apply (addrs_self (S hh) (hp s2) a n1 Hn2)|exact Hoa].
        * intros x Hx. left. rewrite Hfp3 in Hx. rewrite (addrs_unfold _ _ _ _ Hn2). exact Hx.
      + (* descend *)
        destruct (iremove f minI cf t) as [[c' o]|] eqn:Er; try discriminate. inversion H; subst n' o; clear H.
        assert (Hpc : pre_t hh cf t) by (unfold pre_t; destruct t; auto).
        destruct (rdescend minI minI_pos c f IHf hh s a na cs i t c' out Hg Hna Hoa Ha0 Hsh Hoc HsortN Hik (conj Hcsh Hcoc) Hcok Hcs Hpc Er)
          as (s2 & E2 & Hpost & _).
        destruct (h_mutable_child s c a i) as [s1 child]. cbn [fst snd] in *. exists s2. split; [exact E2|exact Hpost]. }
  destruct t as [k| |].
  - destruct (ifind (hits na) k) as [i found] eqn:Ef. destruct (find_bound _ _ _ _ Ef) as [Hi _]. apply (Hbody i found Hi H).
  - apply (Hbody O false ltac:(lia) H).
  - apply (Hbody (length (hits na)) false ltac:(lia) H).
Qed.
End RemSim2.
