(* C03, layer H: ReplaceOrInsert on a tree handle in the store (mutableFor of the root, root split under a new root,
   insert) is itree_insert on the functional value of the handle; it writes only free addresses and nodes of the
   handle's tree owned by the handle's context. *)
From Coq Require Import ZArith List Lia Bool Sorting.Sorted.
Require Import C03_Model C03_Spec C03_D C03_Ins C03_Sel C03_Inv C03_Tot C03_InsInv C03_Up C03_Tree C03_Cow C03_Heap C03_HeapLib C03_HeapIns C03_HeapRem.
Import ListNotations.
Open Scope nat_scope.

(* less fuel is enough when the tree is not deeper *)
Lemma abs_fuel_down : forall hh f h a t, abs f h a = Some t -> shaped hh t -> S hh <= f -> abs (S hh) h a = Some t.
Proof.
  induction hh as [|hh IH]; intros f h a t Ha Hs Hf; destruct f as [|f]; try lia;
    apply abs_S in Ha; destruct Ha as (n & cs & Hn & HF & ->); apply abs_S; exists n, cs; split; try exact Hn; split; try reflexivity.
  - cbn in Hs. subst cs. inversion HF. constructor.
  - destruct Hs as [_ Hf']. cbn [ichildren] in Hf'. clear Hn. induction HF as [|k c ks cs Hkc _ IHF]; [constructor|].
    inversion Hf'; subst. constructor; [apply (IH f h k c Hkc); [assumption|lia]|apply IHF; assumption].
Qed.

Lemma IFUEL_eq : IFUEL = 64.
Proof. reflexivity. Qed.
(* the model's fuel is a number only here; below it is a name (the proofs never compute with it) *)
Local Strategy opaque [IFUEL].

(* the footprint of a handle *)
Definition hfp (h : heap) (hd : hhandle) : list addr := match hroot hd with None => [] | Some r => addrs IFUEL h r end.

Lemma abs_IFUEL hh h a t : abs (S hh) h a = Some t -> S hh <= IFUEL -> abs IFUEL h a = Some t /\ addrs IFUEL h a = addrs (S hh) h a.
Proof. intros Ha Hle. apply (abs_fuel_le (S hh) IFUEL h a t Hle Ha). Qed.

Section RoI.
Variable deg : nat.
Hypothesis deg_ok : 2 <= deg.
Notation minI := (minI_of deg).
Notation maxI := (maxI_of minI).

(* the functional root that node.insert is called on *)
Lemma root_pre_insert h r : tree_inv deg h r ->
  let R := if Nat.leb maxI (length (iitems r)) then let '(mid, a, b) := isplit r (Nat.div maxI 2) in INode [mid] [a; b] else r in
  let hR := if Nat.leb maxI (length (iitems r)) then S h else h in
  wf minI hR R /\ StronglySorted klt (iflat (S hR) R).
Proof.
  intros ((Hs & Ho & Hu) & Hlen & Hsort & Hemp). destruct (Nat.leb maxI (length (iitems r))) eqn:Efull; cbv zeta.
  - apply Nat.leb_le in Efull. assert (Hfull : length (iitems r) = maxI) by lia.
    replace (maxI / 2) with minI by (unfold maxI_of; symmetry; apply half_odd).
    assert (HP : P minI h r).
    { split; [exact Hs|split; [split; [unfold maxI_of in Hfull; lia|exact Ho]|split; [lia|exact Hu]]]. }
    pose proof (split_P minI (minI_pos deg deg_ok) h r HP Hfull) as Hsp.
    assert (Hidx : minI < length (iitems r)) by (rewrite Hfull; unfold maxI_of; lia).
    pose proof (split_flat h r minI (shaped_aligned h r Hs) Hidx) as Hsf.
    destruct (isplit r minI) as [[mid a] b]. destruct Hsp as (HPa & HPb & La & Lb). destruct Hsf as [Hsf _].
    split; [apply node_P; split; [reflexivity|constructor; [exact HPa|constructor; [exact HPb|constructor]]]|].
    rewrite root2_flat, <- Hsf. exact Hsort.
  - split; [split; [exact Hs|split; [exact Ho|exact Hu]]|exact Hsort].
Qed.

Theorem h_roi_sim s hd (it : item) t h t' out :
  good_alloc s -> habs (hp s) hd = Some t -> tinv deg h t -> S h < IFUEL ->
  itree_insert deg t it = Some (t', out) ->
  exists s' hd', h_replace_or_insert deg s hd it = Some (s', hd', out) /\ habs (hp s') hd' = Some t' /\
    hctx hd' = hctx hd /\ (exists r n, hroot hd' = Some r /\ hp s' r = Some n /\ own n = hctx hd) /\ good_alloc s' /\
    step_ok (hctx hd) (hfp (hp s) hd) (hp s) (hp s') (hfp (hp s') hd').
Proof.
  intros Hg Hab [Hinv Hlen] Hfuel Hins. set (c := hctx hd).
  unfold habs in Hab. unfold h_replace_or_insert, itree_insert in *. rewrite (maxI_deg deg deg_ok) in *. fold c.
  unfold hfp. destruct (hroot hd) as [r|] eqn:Er.
  2:{ (* the first item of an empty tree *)
    inversion Hab; subst t. cbn [iroot ilen] in *. inversion Hins; subst t' out.
    destruct (new_addr_spec s Hg) as (Hb & Hh1 & Hg1 & Hnin & Hlt). destruct (new_addr s) as [b s1]. cbn [fst snd] in *.
    set (nb := {| own := c; hits := [it]; kids := [] |}).
    eexists. eexists. split; [reflexivity|]. unfold habs. cbn [hroot hctx hlen hput hp]. rewrite Hh1.
    assert (Hab1 : abs IFUEL (hset (hp s) b nb) b = Some (INode [it] []) /\ addrs IFUEL (hset (hp s) b nb) b = addrs 1 (hset (hp s) b nb) b).
    { apply (abs_IFUEL 0); [|rewrite IFUEL_eq; lia]. apply abs_S. exists nb, []. split; [apply hset_same|split; [constructor|reflexivity]]. }
    destruct Hab1 as [Hab1 Hfpb]. rewrite Hab1, Hfpb. split; [reflexivity|]. split; [reflexivity|].
    split; [exists b, nb; split; [reflexivity|split; [apply hset_same|reflexivity]]|]. split; [apply hput_good; assumption|].
    split; [apply wr_hset_free; [exact Hb|reflexivity]|]. intros x Hx. right.
    cbn [addrs] in Hx. rewrite hset_same in Hx. cbn in Hx. destruct Hx as [<-|[]]. exact Hb. }
  destruct (abs IFUEL (hp s) r) as [n|] eqn:Ea; [|discriminate]. inversion Hab; subst t. cbn [iroot ilen contents] in *.
  destruct Hinv as ((Hs & Ho & Hu) & Hl & Hsort & Hemp).
  pose proof (abs_fuel_down h IFUEL (hp s) r n Ea Hs ltac:(lia)) as Ea0.
  destruct (abs_IFUEL h (hp s) r n Ea0 ltac:(lia)) as [_ Hfp0]. rewrite Hfp0.
  (* mutableFor on the root *)
  destruct (h_mutable_for_spec c s r (S h) n Hg Ea0) as (Hg1 & Ha1 & Hext1 & Hwr1 & (nr & n1 & Hnr & Hn1 & Ho1 & Hhits1 & Hkids1) & Hfresh1 & Hfp1).
  destruct (h_mutable_for s c r) as [s1 r1]. cbn [fst snd] in *.
  assert (Hits1 : hits n1 = iitems n).
  { pose proof Ha1 as Ha1'. apply abs_S in Ha1'. destruct Ha1' as (n1' & cs & Hn1' & _ & ->). rewrite Hn1 in Hn1'. inversion Hn1'; subst. reflexivity. }
  rewrite (getn_some s1 r1 n1 Hn1), Hits1.
  assert (Hstep1 : step_ok c (addrs (S h) (hp s) r) (hp s) (hp s1) (addrs (S h) (hp s1) r1)).
  { split; [apply (wr_mono c []); [intros ? []|exact Hwr1]|]. intros x Hx. destruct (Hfp1 x Hx) as [->|Hx']; [|left; exact Hx'].
    destruct Hfresh1 as [->|E]; [left; apply (addrs_self h (hp s) r nr Hnr)|right; exact E]. }
  pose proof (root_pre_insert h n (conj (conj Hs (conj Ho Hu)) (conj Hl (conj Hsort Hemp)))) as HR. cbv zeta in HR.
  destruct (Nat.leb maxI (length (iitems n))) eqn:Efull.
  - (* full root: split under a new root *)
    assert (Hhalf : Nat.div maxI 2 = minI) by (unfold maxI_of; apply half_odd). rewrite Hhalf in *.
    assert (En : n = INode (hits n1) (ichildren n)) by (rewrite Hits1; destruct n; reflexivity).
    assert (Ha1' : abs (S h) (hp s1) r1 = Some (INode (hits n1) (ichildren n))) by (rewrite <- En; exact Ha1).
    destruct (h_split_spec c s1 r1 h n1 (ichildren n) minI Hg1 Hn1 Ho1 Ha1') as (Hg2 & Emid & Hb1 & Hbr & Hk2 & Hb2 & (n1' & Hn1' & Ho1') & (nb & Hnb & Hob) & Hwr2 & Hfp2 & Hoth2).
    rewrite <- En in Emid, Hk2, Hb2.
    destruct (h_split s1 c r1 minI) as [[s2 mid] b]. cbn [fst snd] in *.
    destruct (isplit n minI) as [[midf c1] c2] eqn:Esp. cbn [fst snd] in *. subst midf.
    destruct (new_addr_spec s2 Hg2) as (Hrb & Hh3 & Hg3 & Hnin3 & Hlt3). destruct (new_addr s2) as [rb s3]. cbn [fst snd] in *.
    set (nrt := {| own := c; hits := [mid]; kids := [r1; b] |}).
    assert (HFr : Forall2 (fun k c0 => abs (S h) (hp s2) k = Some c0) (kids nrt) [c1; c2]) by (constructor; [exact Hk2|constructor; [exact Hb2|constructor]]).
    assert (Hnrb : ~ In rb (flat_map (addrs (S h) (hp s2)) (kids nrt))).
    { intros Hin. apply in_flat_map in Hin. destruct Hin as (k & _ & Hx). exact (addrs_alloc (S h) (hp s2) k rb Hx Hrb). }
    destruct (put_top (S h) (hp s2) rb nrt [c1; c2] HFr Hnrb) as [Ha4 Hfp4].
    set (s4 := hput s3 rb nrt). assert (Hh4 : hp s4 = hset (hp s2) rb nrt) by (unfold s4; cbn [hput hp]; rewrite Hh3; reflexivity).
    rewrite <- Hh4 in Ha4, Hfp4.
    assert (Hg4 : good_alloc s4) by (apply hput_good; assumption).
    assert (Hn4 : hp s4 rb = Some nrt) by (rewrite Hh4; apply hset_same).
    assert (Hrb1 : hp s1 rb = None).
    { destruct (hp s1 rb) as [m|] eqn:E; [|reflexivity]. destruct (Nat.eq_dec rb r1) as [->|Hne]; [congruence|]. rewrite (Hoth2 rb m E Hne) in Hrb. discriminate. }
    assert (Hstep4 : step_ok c (addrs (S h) (hp s1) r1) (hp s1) (hp s4) (addrs (S (S h)) (hp s4) rb)).
    { split.
      - apply (wr_trans c _ (addrs (S h) (hp s1) r1) (hp s1) (hp s2) (hp s4)); [apply (wr_mono c [r1]); [intros x [<-|[]]; apply (addrs_self h (hp s1) r1 n1 Hn1)|exact Hwr2]| |intros x Hx; left; exact Hx].
        rewrite Hh4. apply wr_hset_free; [exact Hrb|reflexivity].
      - intros x Hx. rewrite Hfp4 in Hx. destruct Hx as [<-|Hx]; [right; exact Hrb1|]. cbn [kids nrt flat_map] in Hx. rewrite app_nil_r in Hx.
        apply in_app_or in Hx. destruct (Hfp2 x Hx) as [->|Hx']; [right; exact Hb1|left; exact Hx']. }
    destruct HR as [HwfR HsortR].
    destruct (iinsert IFUEL maxI (INode [mid] [c1; c2]) it) as [[r' out']|] eqn:Ei; [|discriminate]. inversion Hins; subst t' out; clear Hins.
    destruct (h_insert_sim minI (minI_pos deg deg_ok) c IFUEL (S h) s4 rb nrt _ it r' out' Hg4 Hn4 eq_refl Ha4 HwfR HsortR Ei)
      as (s5 & E5 & Hg5 & Ha5 & (n5 & Hn5 & Ho5) & Hstep5).
    fold s4. rewrite E5. eexists. eexists. split; [reflexivity|]. unfold habs. cbn [hroot hctx hlen].
    destruct (abs_IFUEL (S h) (hp s5) rb r' Ha5 ltac:(lia)) as [Ha5' Hfp5]. rewrite Ha5', Hfp5.
    split; [reflexivity|]. split; [reflexivity|]. split; [exists rb, n5; auto|]. split; [exact Hg5|].
    apply (step_trans c _ _ _ _ _ _ Hstep1). apply (step_trans c _ _ _ _ _ _ Hstep4 Hstep5).
  - destruct HR as [HwfR HsortR].
    destruct (iinsert IFUEL maxI n it) as [[r' out']|] eqn:Ei; [|discriminate]. inversion Hins; subst t' out; clear Hins.
    destruct (h_insert_sim minI (minI_pos deg deg_ok) c IFUEL h s1 r1 n1 n it r' out' Hg1 Hn1 Ho1 Ha1 HwfR HsortR Ei)
      as (s5 & E5 & Hg5 & Ha5 & (n5 & Hn5 & Ho5) & Hstep5).
    rewrite E5. eexists. eexists. split; [reflexivity|]. unfold habs. cbn [hroot hctx hlen].
    destruct (abs_IFUEL h (hp s5) r1 r' Ha5 ltac:(lia)) as [Ha5' Hfp5]. rewrite Ha5', Hfp5.
    split; [reflexivity|]. split; [reflexivity|]. split; [exists r1, n5; auto|]. split; [exact Hg5|].
    apply (step_trans c _ _ _ _ _ _ Hstep1 Hstep5).
Qed.

Lemma hdel_frame h m f r t : abs f h r = Some t -> ~ In m (addrs f h r) -> abs f (hdel h m) r = Some t /\ addrs f (hdel h m) r = addrs f h r.
Proof.
  intros Ha Hnin. apply frame_abs; [exact Ha|]. intros x Hx. unfold hdel. destruct (Nat.eqb x m) eqn:E; [apply Nat.eqb_eq in E; subst; contradiction|reflexivity].
Qed.

Theorem h_delete_sim s hdl (r : irm) t h t' out :
  good_alloc s -> habs (hp s) hdl = Some t -> tinv deg h t -> 2 * h + 2 <= IFUEL ->
  itree_delete deg t r = Some (t', out) ->
  exists s' hdl', h_delete deg s hdl r = Some (s', hdl', out) /\ habs (hp s') hdl' = Some t' /\
    hctx hdl' = hctx hdl /\ good_alloc s' /\
    step_ok (hctx hdl) (hfp (hp s) hdl) (hp s) (hp s') (hfp (hp s') hdl').
Proof.
  intros Hg Hab [Hinv Hlen] Hfuel Hdel. set (c := hctx hdl).
  unfold habs in Hab. unfold h_delete, itree_delete in *. fold c. unfold hfp. destruct (hroot hdl) as [rt|] eqn:Er.
  2:{ inversion Hab; subst t. cbn [iroot] in Hdel. inversion Hdel; subst t' out. exists s, hdl. split; [reflexivity|].
      unfold habs, hfp. rewrite Er. split; [reflexivity|]. split; [reflexivity|]. split; [exact Hg|apply step_refl]. }
  destruct (abs IFUEL (hp s) rt) as [n|] eqn:Ea; [|discriminate]. inversion Hab; subst t. cbn [iroot ilen contents] in *.
  destruct Hinv as ((Hs & Ho & Hu) & Hl & Hsort & Hemp).
  pose proof (abs_fuel_down h IFUEL (hp s) rt n Ea Hs ltac:(lia)) as Ea0.
  destruct (abs_IFUEL h (hp s) rt n Ea0 ltac:(lia)) as [_ Hfp0]. rewrite Hfp0.
  destruct (abs_node h (hp s) rt n Ea0) as (nrt & csr & Hnrt & En & _).
  rewrite (getn_some s rt nrt Hnrt). assert (Ehits : hits nrt = iitems n) by (rewrite En; reflexivity). rewrite Ehits.
  destruct (is_nil (iitems n)) eqn:Enil.
  { inversion Hdel; subst t' out. exists s, hdl. split; [reflexivity|]. unfold habs, hfp. rewrite Er, Ea. cbn [iroot ilen].
    split; [reflexivity|]. split; [reflexivity|]. split; [exact Hg|]. rewrite Hfp0. apply step_refl. }
  assert (Hne : iitems n <> []) by (destruct (iitems n); [discriminate|discriminate]).
  destruct (h_mutable_for_spec c s rt (S h) n Hg Ea0) as (Hg1 & Ha1 & Hext1 & Hwr1 & (nr & n1 & Hnr & Hn1 & Ho1 & Hhits1 & Hkids1) & Hfresh1 & Hfp1).
  destruct (h_mutable_for s c rt) as [s1 r1]. cbn [fst snd] in *.
  assert (Hstep1 : step_ok c (addrs (S h) (hp s) rt) (hp s) (hp s1) (addrs (S h) (hp s1) r1)).
  { split; [apply (wr_mono c []); [intros ? []|exact Hwr1]|]. intros x Hx. destruct (Hfp1 x Hx) as [->|Hx']; [|left; exact Hx'].
    destruct Hfresh1 as [->|E]; [left; apply (addrs_self h (hp s) rt nr Hnr)|right; exact E]. }
  fold (minI_of deg) in Hdel |- *.
  destruct (iremove IFUEL (minI_of deg) n r) as [[r' out']|] eqn:Eir; [|discriminate]. inversion Hdel; subst t' out; clear Hdel.
  assert (Hok : ok_rm (minI_of deg) n) by (left; destruct (iitems n); [congruence|cbn; lia]).
  assert (Hpre : pre_t h n r) by (unfold pre_t; destruct r; auto; apply flat_nonempty; exact Hne).
  destruct (h_remove_sim (minI_of deg) (minI_pos deg deg_ok) c IFUEL h s1 r1 n1 n r r' out' Hg1 Hn1 Ho1 Ha1 (conj Hs Ho) Hok Hsort Hpre Eir)
    as (s2 & E2 & Hg2 & Ha2 & (n2 & Hn2 & Ho2) & Hstep2).
  rewrite E2. rewrite (getn_some s2 r1 n2 Hn2).
  destruct (abs_node h (hp s2) r1 r' Ha2) as (n2' & cs2 & Hn2' & Er' & HF2). rewrite Hn2 in Hn2'. inversion Hn2'; subst n2'.
  assert (Eh2 : hits n2 = iitems r') by (rewrite Er'; reflexivity). assert (Ek2 : is_nil (kids n2) = is_nil (ichildren r')) by (rewrite Er'; cbn [ichildren]; apply (is_nil_F2 _ _ _ HF2)).
  rewrite Eh2, Ek2.
  destruct (is_nil (iitems r') && negb (is_nil (ichildren r'))) eqn:Ec.
  - (* the root lost its last item: its only child becomes the root, the old root is released *)
    apply andb_prop in Ec. destruct Ec as [_ Ec2]. apply negb_true_iff in Ec2.
    assert (Hkne : kids n2 <> []) by (apply is_nil_false'; rewrite Ek2; exact Ec2).
    destruct h as [|h']; [exfalso; rewrite Er' in Ec2; cbn [ichildren] in Ec2; destruct cs2; [discriminate|]; inversion HF2; subst; discriminate|].
    set (r2 := hd 0 (kids n2)).
    assert (Hr2 : abs (S h') (hp s2) r2 = Some (hd dinode (ichildren r'))) by (rewrite Er'; cbn [ichildren]; apply (F2_hd _ _ _ (0 : addr) dinode HF2 Hkne)).
    pose proof (top_not_below (S h') (hp s2) r1 r' n2 Ha2 Hn2) as Htop.
    assert (Hr2in : forall x, In x (addrs (S h') (hp s2) r2) -> In x (flat_map (addrs (S h') (hp s2)) (kids n2))).
    { intros x Hx. apply in_flat_map. exists r2. split; [apply hd_in_ne, Hkne|exact Hx]. }
    destruct (h_free_spec c s2 r1 Hg2) as (Hg3 & Hoth3 & Hm3).
    assert (Hfree : hp (h_free s2 c r1) = hdel (hp s2) r1).
    { unfold h_free. rewrite Hn2, Ho2, Nat.eqb_refl. reflexivity. }
    destruct (hdel_frame (hp s2) r1 (S h') r2 _ Hr2 (fun Hin => Htop (Hr2in r1 Hin))) as [Hr3 Hfp3].
    eexists. eexists. split; [reflexivity|]. unfold habs. cbn [hroot hctx hlen]. fold r2. rewrite Hfree.
    destruct (abs_IFUEL h' _ r2 _ Hr3 ltac:(lia)) as [Hr3' Hfp3']. rewrite Hr3', Hfp3', Hfp3.
    split; [reflexivity|]. split; [reflexivity|]. split; [rewrite <- Hfree in *; exact Hg3|].
    apply (step_trans c _ _ _ _ _ _ Hstep1). apply (step_trans c _ _ _ _ _ _ Hstep2). split.
    + apply (wr_hdel_owned c _ (hp s2) r1 n2 Hn2 Ho2). apply (addrs_self (S h') (hp s2) r1 n2 Hn2).
    + intros x Hx. left. rewrite (addrs_unfold _ _ _ _ Hn2). right. apply Hr2in, Hx.
  - eexists. eexists. split; [reflexivity|]. unfold habs. cbn [hroot hctx hlen].
    destruct (abs_IFUEL h (hp s2) r1 r' Ha2 ltac:(lia)) as [Ha2' Hfp2]. rewrite Ha2', Hfp2.
    split; [reflexivity|]. split; [reflexivity|]. split; [exact Hg2|].
    apply (step_trans c _ _ _ _ _ _ Hstep1 Hstep2).
Qed.
End RoI.
