(* C15  syncx/pipe/mux worker group: the write-through cache stays coherent with the store.
   The property, clause by clause, over every sequential history, every schedule of callers and workers and every
   pattern of failing store callbacks; map facade and LRU facade of every capacity; every number of workers.
   This file contains statements closed by `exact` only. *)
From Coq Require Import ZArith List Bool.
Require Import C15_Model C15_Proofs C15_LTS C15_Sched C15_Obs C15_Conc C15_Check Mux MuxMore.
Import ListNotations.
Open Scope Z_scope.

(* ---- what the driver accepts satisfies the monitor ---- *)
Theorem c15_case_sound : forall c, case_accept c = true -> case_holds c = true.
Proof. exact case_sound. Qed.

(* the model's own observation of any sequential history satisfies the monitor (accept = "is the model's observation") *)
Theorem c15_seq_model_holds : forall l c univ steps g ws, gok g -> ws_ok c ws -> seq_accept l c univ g steps = true ->
  seq_holds l univ (snap_cache l c g univ) (snap_store c g univ) ws steps = true.
Proof. exact seq_sound. Qed.

(* the same for scheduled runs: any label sequence with answers and snapshots that replays on the machine satisfies
   the monitor of scheduled runs *)
Theorem c15_conc_model_holds : forall c deep univ items,
  conc_match c deep univ [] (minit c) items = true -> conc_holds c univ items = true.
Proof. exact conc_sound. Qed.

(* ---- one handler, any of the seven, from any coherent state, under any faults: coherent again; it touches the
        store and the cache under its own key only; update callbacks are handed the store's current value;
        a duplicate answer involves no store callback; a successful delete leaves nothing cached ---- *)
Theorem c15_handler_spec : forall o s fs s' evs r, wcoh s -> exec (handler o) s fs = (s', evs, r) ->
  wcoh s'
  /\ frame (key_of o) (wsr s) (wsr s') /\ cshrink (key_of o) s s' /\ c_cap (wc s') = c_cap (wc s)
  /\ Forall (fun e => ev_key e = key_of o) evs /\ Forall (pre_good (sview s (key_of o))) evs
  /\ (r = RErr EDupKey -> no_store_ev evs = true)
  /\ (r = RNil -> cview s' (key_of o) = None /\ sview s' (key_of o) = None)
  /\ r <> RPanic.
Proof. exact handle_spec. Qed.

(* ---- coherence after every sequential history (group of any size, either facade) and every fault pattern ---- *)
Theorem c15_seq_coherent : forall c ops k v,
  cache_at c (run_ops c (ginit c) ops) k = Some v -> store_at c (run_ops c (ginit c) ops) k = v.
Proof. exact seq_coherent. Qed.

(* ---- a successful delete removes the cached entry ---- *)
Theorem c15_delete_evicts : forall c ops k fs g' evs,
  do_op c (run_ops c (ginit c) ops) (ODelete k) fs = (g', evs, RNil) -> cache_at c g' k = None /\ store_at c g' k = None.
Proof. exact delete_evicts. Qed.

(* ---- an add for a cached key is rejected as duplicate without touching the store ---- *)
Theorem c15_add_cached_is_dup : forall c ops k d fs v g' evs r,
  cache_at c (run_ops c (ginit c) ops) k = Some v ->
  do_op c (run_ops c (ginit c) ops) (OAdd k d) fs = (g', evs, r) ->
  r = RErr EDupKey /\ no_store_ev evs = true /\ forall x, store_at c g' x = store_at c (run_ops c (ginit c) ops) x.
Proof. exact add_cached_is_dup. Qed.
(* the same at the level of one worker in ANY state (so at any point of any schedule): only the Peek is made *)
Theorem c15_add_cached_dup_any_state : forall k d s fs v, cview s k = Some v ->
  exec (handler (OAdd k d)) s fs = (s, [EvPeek k (Some v)], RErr EDupKey).
Proof. exact add_cached_dup. Qed.

(* ---- the environment: a failing callback leaves the store unchanged (the assumption the clauses are read under) ---- *)
Theorem c15_failed_callback_changes_nothing : forall s f k d pre,
  (forall e, snd (s_load s f k) = SErr e -> fst (s_load s f k) = s)
  /\ (forall e, snd (s_add s f k d) = SErr e -> fst (s_add s f k d) = s)
  /\ (forall e, snd (s_upd s f k d pre) = SErr e -> fst (s_upd s f k d pre) = s)
  /\ (forall e, snd (s_upsert s f k d pre) = SErr e -> fst (s_upsert s f k d pre) = s)
  /\ (forall e, snd (s_delete s f k) = Some e -> fst (s_delete s f k) = s).
Proof. exact failed_callback_changes_nothing. Qed.


(* ---- a callback that hands back a value TOGETHER with its error (FErrV / FNFV) is a failed callback like FErr / FNF:
   same store, same answer - the value goes nowhere (the handlers test the error before they touch the value); the
   theorems above quantify over every fault list, these two kinds included ---- *)
Theorem c15_value_with_error_is_an_error : forall s k d pre,
  s_load s FErrV k = s_load s FErr k /\ s_load s FNFV k = s_load s FNF k
  /\ s_add s FErrV k d = s_add s FErr k d /\ s_add s FNFV k d = s_add s FNF k d
  /\ s_upd s FErrV k d pre = s_upd s FErr k d pre /\ s_upd s FNFV k d pre = s_upd s FNF k d pre
  /\ s_upsert s FErrV k d pre = s_upsert s FErr k d pre /\ s_upsert s FNFV k d pre = s_upsert s FNF k d pre
  /\ s_delete s FErrV k = s_delete s FErr k /\ s_delete s FNFV k = s_delete s FNF k.
Proof. intros. repeat split. Qed.

(* ---- every schedule: callers (incl. the caller-side cache read of DoGet), workers advancing one call at a time,
        Stop; queues of any bound ---- *)
(* the invariant of C15_Sched.v holds in every reachable state *)
Theorem c15_sched_inv : forall c deep ls g g' tr, minv g -> grun c deep g ls = Some (g', tr) -> minv g'.
Proof. exact sched_inv. Qed.

(* whenever the cache holds a value for a key it is the store's value, or - only while an operation on that key is
   in progress - the value the store held after the last completed operation on that key *)
Theorem c15_sched_coherent : forall c deep ls g tr k v, grun c deep (minit c) ls = Some (g, tr) ->
  mcache_at c g k = Some v ->
  mstore_at c g k = v \/ (in_progress (g (loc_of c k)) k /\ mcommitted_at c g k = v).
Proof. exact sched_coherent. Qed.

Theorem c15_sched_coherent_idle : forall c deep ls g tr k, grun c deep (minit c) ls = Some (g, tr) ->
  ~ in_progress (g (loc_of c k)) k ->
  mcommitted_at c g k = mstore_at c g k /\ (forall v, mcache_at c g k = Some v -> mstore_at c g k = v).
Proof. exact sched_coherent_idle. Qed.

(* what DoGet's fast path returns from the caller's goroutine, at any point of any schedule *)
Theorem c15_sched_fast_get : forall c deep ls g tr j g' v, grun c deep (minit c) ls = Some (g, tr) ->
  gstep c deep g (GCall j) = Some (g', AFast v) ->
  exists k, j_op j = OGet k /\
    (mstore_at c g k = v \/ (in_progress (g (loc_of c k)) k /\ mcommitted_at c g k = v)).
Proof. exact sched_fast_get. Qed.

Theorem c15_sched_delete_evicts : forall c deep ls g tr w g' id e, grun c deep (minit c) ls = Some (g, tr) ->
  gstep c deep g (GStep w) = Some (g', AStep id e (Some RNil)) ->
  mcache_at c g' (ev_key e) = None /\ mstore_at c g' (ev_key e) = None.
Proof. exact sched_delete_evicts. Qed.

(* a caller whose context ends while its request is being handled gets the context's error and changes nothing;
   every theorem of this block quantifies over schedules that contain such labels *)
Theorem c15_sched_abandon_keeps_state : forall c deep g w g' a, gstep c deep g (GAbandon w) = Some (g', a) ->
  a = ARefused ECtx /\ forall k, mcache_at c g' k = mcache_at c g k /\ mstore_at c g' k = mstore_at c g k
                                 /\ mcommitted_at c g' k = mcommitted_at c g k.
Proof. exact sched_abandon_keeps_state. Qed.

(* operations on the same key are applied to the store one at a time, in the order they were accepted *)
Theorem c15_sched_same_key_serial : forall c deep ls g tr k, grun c deep (minit c) ls = Some (g, tr) ->
  follows (queued_of k tr) (store_calls_of k tr).
Proof. exact sched_same_key_serial. Qed.

(* every call a worker makes is about a key routed to that worker: same key, same worker, same cache *)
Theorem c15_sched_steps_routed : forall c deep ls g g' tr, minv g -> rinv c g -> grun c deep g ls = Some (g', tr) ->
  Forall (step_routed c) tr.
Proof. exact rinv_grun. Qed.

(* ---- locHash as repaired (defect 21: reduce first, then take the absolute value): in range for EVERY hash, the same
        index as before for every hash but the smallest int, hence no call of a group with a worker panics; the code
        before the repair is kept as loc_prefix and refuted: hash MinInt with three workers gave index -2 ---- *)
Theorem c15_lochash_in_range : forall h n, 0 < n -> 0 <= loc h n < n.
Proof. exact lochash_in_range. Qed.
Theorem c15_lochash_agrees_prefix : forall h n, 0 < n -> - two63 < h < two63 -> loc h n = loc_prefix h n.
Proof. exact lochash_agrees_prefix. Qed.
Theorem c15_lochash_prefix_refuted : loc_prefix (- two63) 3 = -2 /\ loc_prefix (- two63) 127 = -1 /\ loc (- two63) 3 = 2.
Proof. exact lochash_prefix_refuted. Qed.
Theorem c15_no_call_panics : forall c g o fs g' evs r, gok g -> 0 < g_n c -> do_op c g o fs = (g', evs, r) -> r <> RPanic.
Proof. exact do_op_no_panic. Qed.

(* ---- the two laws of the cache facade the coherence argument uses, for the concrete facade (map = no capacity) ---- *)
Theorem c15_facade_set_law : forall c k v k' v',
  c_peek (c_set c k v) k' = Some v' -> (k' = k /\ v' = v) \/ (k' <> k /\ c_peek c k' = Some v').
Proof. exact peek_set. Qed.
Theorem c15_facade_get_keeps_answers : forall c k k', c_peek (fst (c_get c k)) k' = c_peek c k'.
Proof. exact peek_get. Qed.

(* ---- values with sizes in the LRU facade: a write of a value bigger than the whole capacity leaves nothing cached
        (so the key is not cached: coherent), a value that fits is cached by the write ---- *)
Theorem c15_lru_oversize_write_uncached : forall c k v n, c_cap c = Some n -> (n < vsize v)%nat -> c_ents (c_set c k v) = [].
Proof. exact set_oversize. Qed.
Theorem c15_lru_fitting_write_cached : forall c k v n, c_cap c = Some n -> (vsize v <= n)%nat -> c_peek (c_set c k v) k = Some v.
Proof. exact set_fits. Qed.

(* ---- the round-0 prototype: coherence for ANY facade obeying the two laws (abstract function-map model of Mux.v) ---- *)
Theorem c15_generic_facade_coherent : forall cset cdel,
  (forall c k v k' v', cset c k v k' = Some v' -> (k' = k /\ v' = v) \/ (k' <> k /\ c k' = Some v')) ->
  (forall c k k' v', cdel c k k' = Some v' -> k' <> k /\ c k' = Some v') ->
  forall mix ops s, Mux.coh s -> Mux.coh (fold_left (fun s o => fst (Mux.handle cset cdel mix s o)) ops s).
Proof. exact mux_coherent. Qed.

(* ---- non-vacuity ---- *)
(* a schedule in which the weaker disjunct is really needed: an update has changed the store and not yet the cache *)
Definition ex_cfg := mkCfg 1 None [] [(7, 5)].
Definition ex_labels := [GCall (mkJob 0 (OGet 7) []); GStep 0; GStep 0; GStep 0;     (* load 7 into the cache *)
                         GCall (mkJob 1 (OUpdate 7 3) []); GStep 0; GStep 0].          (* peek, updFn: store written *)
Example c15_ex_stale_window :
  match grun ex_cfg 0 (minit ex_cfg) ex_labels with
  | Some (g, _) => mcache_at ex_cfg g 7 = Some (Some 5) /\ mstore_at ex_cfg g 7 = Some 1010003 /\ mcommitted_at ex_cfg g 7 = Some 5
  | None => False end.
Proof. vm_compute. repeat split. Qed.
(* and the trace of a schedule with two jobs on one key queued behind each other *)
Example c15_ex_serial :
  match grun ex_cfg 0 (minit ex_cfg) (ex_labels ++ [GCall (mkJob 2 (ODelete 7) []); GStep 0; GStep 0; GStep 0]) with
  | Some (_, tr) => queued_of 7 tr = [0; 1; 2] /\ store_calls_of 7 tr = [0; 1; 2]
  | None => False end.
Proof. vm_compute. split; reflexivity. Qed.

(* a history on 2 workers with an LRU of one entry per worker: keys 1 and 3 share worker 1, faults included *)
Definition ex_seq_cfg := mkCfg 2 (Some 1%nat) [] [(1, 10)].
Definition ex_seq_ops : list (C15_Model.op * list fault) :=
  [(OGet 1, []); (OUpdate 1 7, [FErr]); (OUpdate 1 7, []); (OUpsertLoad 3 4, []); (OAdd 2 5, []); (OAdd 2 6, [])].
Example c15_ex_seq_nontrivial :
  let g := run_ops ex_seq_cfg (ginit ex_seq_cfg) ex_seq_ops in
  cache_at ex_seq_cfg g 1 = None /\ store_at ex_seq_cfg g 1 = Some 1010007          (* evicted by key 3, store updated once *)
  /\ cache_at ex_seq_cfg g 3 = Some (Some 10004) /\ store_at ex_seq_cfg g 3 = Some 10004
  /\ cache_at ex_seq_cfg g 2 = Some (Some 10005) /\ store_at ex_seq_cfg g 2 = Some 10005.  (* the second add was a duplicate *)
Proof. vm_compute. repeat split. Qed.
(* the hypothesis of c15_add_cached_is_dup is satisfiable, and its conclusion is what happens *)
Example c15_ex_dup :
  cache_at ex_seq_cfg (run_ops ex_seq_cfg (ginit ex_seq_cfg) ex_seq_ops) 2 = Some (Some 10005)
  /\ snd (do_op ex_seq_cfg (run_ops ex_seq_cfg (ginit ex_seq_cfg) ex_seq_ops) (OAdd 2 9) []) = RErr EDupKey.
Proof. vm_compute. split; reflexivity. Qed.
(* a successful delete of a cached key *)
Example c15_ex_delete :
  let '(g', evs, r) := do_op ex_seq_cfg (run_ops ex_seq_cfg (ginit ex_seq_cfg) ex_seq_ops) (ODelete 2) [] in
  r = RNil /\ evs = [EvDelete 2 None; EvDel 2] /\ cache_at ex_seq_cfg g' 2 = None /\ store_at ex_seq_cfg g' 2 = None.
Proof. vm_compute. repeat split. Qed.
(* a delete whose callback fails changes nothing *)
Example c15_ex_delete_fails :
  let g := run_ops ex_seq_cfg (ginit ex_seq_cfg) ex_seq_ops in
  let '(g', evs, r) := do_op ex_seq_cfg g (ODelete 2) [FErr] in
  r = RErr EInj /\ cache_at ex_seq_cfg g' 2 = Some (Some 10005) /\ store_at ex_seq_cfg g' 2 = Some 10005.
Proof. vm_compute. repeat split. Qed.

(* a cached nil is a cached entry: a load that answers (nil, nil) for a missing row is cached as nil (coherent: the
   store holds nothing for the key), the next get is served from the cache, and an add for that key is a duplicate *)
Example c15_ex_cached_nil :
  let g := run_ops ex_seq_cfg (ginit ex_seq_cfg) [(OGet 9, [FNil])] in
  cache_at ex_seq_cfg g 9 = Some None /\ store_at ex_seq_cfg g 9 = None
  /\ snd (fst (do_op ex_seq_cfg g (OGet 9) [])) = [EvGet 9 (Some None)] /\ snd (do_op ex_seq_cfg g (OGet 9) []) = ROk None
  /\ snd (do_op ex_seq_cfg g (OAdd 9 4) []) = RErr EDupKey.
Proof. vm_compute. repeat split. Qed.

(* a cached key grows past the whole capacity: datum 1203 is a cache.Value of size 11, the LRU holds 10 *)
Definition ex_big_cfg := mkCfg 1 (Some 10%nat) [] [(7, 1105)].        (* the row starts with a value of size 10 *)
Example c15_ex_oversize_growth :
  let g1 := run_ops ex_big_cfg (ginit ex_big_cfg) [(OGet 7, [])] in
  let g2 := run_ops ex_big_cfg (ginit ex_big_cfg) [(OGet 7, []); (OUpdate 7 1203, [])] in
  cache_at ex_big_cfg g1 7 = Some (Some 1105) /\ vsize (Some 1105) = 10%nat
  /\ store_at ex_big_cfg g2 7 = Some 1011203 /\ vsize (Some 1011203) = 11%nat /\ cache_at ex_big_cfg g2 7 = None.
Proof. vm_compute. repeat split. Qed.

(* upsert-then-load on a cache miss for an existing row: the callback is handed nil, so what it answers (computed from
   "no row": 10009) is not the row the store keeps (computed from the current row: 1010009); the handler reloads and
   caches the stored row; when that reload fails nothing is cached *)
Definition ex_merge_cfg := mkCfg 1 None [] [(4, 6)].
Example c15_ex_upsert_miss :
  let g0 := ginit ex_merge_cfg in
  snd (fst (do_op ex_merge_cfg g0 (OUpsertLoad 4 9) []))
    = [EvPeek 4 None; EvUpsert 4 9 None (SOk (Some 10009)); EvLoad 4 (SOk (Some 1010009)); EvSet 4 (Some 1010009)]
  /\ cache_at ex_merge_cfg (fst (fst (do_op ex_merge_cfg g0 (OUpsertLoad 4 9) []))) 4 = Some (Some 1010009)
  /\ cache_at ex_merge_cfg (fst (fst (do_op ex_merge_cfg g0 (OUpsertLoad 4 9) [FOk; FErr]))) 4 = None
  /\ store_at ex_merge_cfg (fst (fst (do_op ex_merge_cfg g0 (OUpsertLoad 4 9) [FOk; FErr]))) 4 = Some 1010009.
Proof. vm_compute. repeat split. Qed.


(* a load that fails and hands back a value next to its error: nothing is cached, the caller gets the error, and the
   next get consults the store again *)
Example c15_ex_load_value_with_error :
  let g0 := ginit ex_merge_cfg in
  let '(g1, evs, r) := do_op ex_merge_cfg g0 (OGet 4) [FErrV] in
  r = RErr EInj /\ evs = [EvGet 4 None; EvGet 4 None; EvLoad 4 (SErr EInj)]
  /\ cache_at ex_merge_cfg g1 4 = None /\ store_at ex_merge_cfg g1 4 = Some 6
  /\ snd (do_op ex_merge_cfg g1 (OGet 4) []) = ROk (Some 6)
  /\ snd (do_op ex_merge_cfg g0 (OUpdOrAdd 4 9) [FNFV; FOk]) = RErr EExists.
Proof. vm_compute. repeat split. Qed.

(* a get whose caller leaves while the load is in progress still caches what it loaded under ITS key *)
Definition ex_ab_cfg := mkCfg 1 None [] [(1, 5); (2, 9)].
Example c15_ex_abandoned_get :
  match grun ex_ab_cfg 0 (minit ex_ab_cfg)
          [GCall (mkJob 0 (OGet 1) []); GStep 0; GAbandon 0; GCall (mkJob 1 (OGet 2) []); GStep 0; GStep 0; GStep 0; GStep 0; GStep 0] with
  | Some (g, tr) => mcache_at ex_ab_cfg g 1 = Some (Some 5) /\ mcache_at ex_ab_cfg g 2 = Some (Some 9)
                    /\ nth 5 (map snd tr) AStopped = AStep 0 (EvSet 1 (Some 5)) (Some (RErr ECtx))
  | None => False end.
Proof. vm_compute. repeat split. Qed.

(* the key whose hash is the smallest int (mux.Int64(MinInt64), mux.UInt64(1<<63), ...) is served like any other *)
Definition ex_min_cfg := mkCfg 3 None [] [(-9223372036854775808, 7)].
Example c15_ex_minint_key :
  loc_of ex_min_cfg (-9223372036854775808) = 2
  /\ snd (do_op ex_min_cfg (ginit ex_min_cfg) (OGet (-9223372036854775808)) []) = ROk (Some 7)
  /\ cache_at ex_min_cfg (fst (fst (do_op ex_min_cfg (ginit ex_min_cfg) (OGet (-9223372036854775808)) []))) (-9223372036854775808) = Some (Some 7).
Proof. vm_compute. repeat split. Qed.

Print Assumptions c15_case_sound.
Print Assumptions c15_seq_model_holds.
Print Assumptions c15_conc_model_holds.
Print Assumptions c15_handler_spec.
Print Assumptions c15_seq_coherent.
Print Assumptions c15_delete_evicts.
Print Assumptions c15_add_cached_is_dup.
Print Assumptions c15_add_cached_dup_any_state.
Print Assumptions c15_failed_callback_changes_nothing.
Print Assumptions c15_value_with_error_is_an_error.
Print Assumptions c15_sched_inv.
Print Assumptions c15_sched_coherent.
Print Assumptions c15_sched_coherent_idle.
Print Assumptions c15_sched_fast_get.
Print Assumptions c15_sched_delete_evicts.
Print Assumptions c15_sched_same_key_serial.
Print Assumptions c15_sched_steps_routed.
Print Assumptions c15_lochash_in_range.
Print Assumptions c15_lochash_agrees_prefix.
Print Assumptions c15_lochash_prefix_refuted.
Print Assumptions c15_no_call_panics.
Print Assumptions c15_facade_set_law.
Print Assumptions c15_facade_get_keeps_answers.
Print Assumptions c15_generic_facade_coherent.
Print Assumptions c15_ex_stale_window.
Print Assumptions c15_ex_serial.
Print Assumptions c15_ex_seq_nontrivial.
Print Assumptions c15_ex_dup.
Print Assumptions c15_ex_delete.
Print Assumptions c15_ex_delete_fails.
Print Assumptions c15_ex_cached_nil.
Print Assumptions c15_lru_oversize_write_uncached.
Print Assumptions c15_lru_fitting_write_cached.
Print Assumptions c15_ex_oversize_growth.
Print Assumptions c15_ex_upsert_miss.
Print Assumptions c15_sched_abandon_keeps_state.
Print Assumptions c15_ex_abandoned_get.
Print Assumptions c15_ex_minint_key.
Print Assumptions c15_ex_load_value_with_error.
