(* C16: the composed machine - a manager's connection count, the accept loop with its maximum, and any number of
   stcp sessions, each with its send queue, its two loops, exitOnce, the local connection, the injected faults and the
   peer.  One label per critical section / runtime event:
     external (issued by the environment): Start, Arrive, Send, LocalClose, StartAgain, PeerClose, PeerRead, PeerByte,
                                           RecvFault (read error / read timeout / handler error / handler panic),
                                           WriteFault (write error / write timeout)
     internal (the accept goroutine): Accept (takes the oldest waiting connection, compares the count with the maximum),
                                      AcceptFail (temporary error of ln.Accept: retry counter, give up at acceptMaxRetry)
     internal (the session's own goroutines): SendStep (one iteration of loopSend), SendLost (a write into a TCP
                                           connection whose peer is gone), RecvEnd (loopReceive leaves)            *)
From Coq Require Import ZArith List Bool Lia Arith.
Import ListNotations.
Open Scope Z_scope.

Inductive transport := Pipe | Tcp.
(* how the receive loop is made to end: read error, read timeout, the handler returns an error, the handler panics
   with an ordinary value / with nil (recover() answers nil under the module's go 1.19 semantics) / with an error
   value / with a value of a user type, the handler calls runtime.Goexit.  All of them run the deferred quit. *)
Inductive rkind := RErr | RTimeout | RHandlerErr | RPanic | RPanicNil | RPanicErr | RPanicCustom | RGoexit.
Inductive wkind := WErr | WTimeout.

(* Session.rh: 0 = none installed (the manager's handler is used), h > 0 = the h-th handler given to UpdateHandler *)
Record hinfo := mkHx {
  hid : nat;        (* the handler in charge now: loopReceive and quit read s.rh each time they need it *)
  exit_h : nat;     (* the handler whose OnExit was called (meaningful once the exit ran) *)
  amb : bool;       (* ghost: UpdateHandler was called when something that can end the session had already been issued *)
  picked : bool     (* quit has read s.rh and is inside (or past) the exit callback: the rest of quit follows *)
}.

Record sess := mkS {
  tr : transport;
  started : bool;                            (* false: the connection was closed on accept, no session exists *)
  q : list (list Z); qclosed : bool;         (* sendQ: queued payloads, closed flag *)
  copen : bool;                              (* conn.Close has not been called *)
  sendl : bool; recvl : bool;                (* loopSend / loopReceive still running *)
  exited : bool; onexit : nat;               (* exitOnce fired; number of OnExit calls *)
  wfail : bool;                              (* a write on the connection returns an error (error or expired deadline) *)
  rcause : bool;                             (* the pending read / handler call fails: error, timeout, EOF, handler error, panic *)
  peer_open : bool; peer_reads : bool;       (* the peer end: not yet closed; consuming what is written *)
  rcvd : nat;                                (* bytes the read handler consumed successfully *)
  inbox : list Z;                            (* bytes the peer has read, in order *)
  accepted : list (list Z);                  (* ghost: payloads for which Send returned nil, in order *)
  clean : bool;                              (* ghost: nothing but Send / local Close / peer traffic happened so far (no fault, no peer close) *)
  lclosed : bool;                            (* ghost: Session.Close was called *)
  wsend : bool;                              (* ghost: a non-empty payload was accepted after a write fault was armed *)
  hx : hinfo                                 (* which handler is installed, which one was told about the exit *)
}.

Inductive act :=
| Send (bs : list Z) (ok : bool)   (* Session.Send; ok = it returned nil *)
| LocalClose                       (* Session.Close *)
| StartAgain                       (* Session.Start once more: startOnce makes it a no-op *)
| SetHandler (h : nat)             (* Session.UpdateHandler *)
| PeerClose | PeerRead | PeerByte
| PeerPause                        (* the peer stops reading (or has not begun to): writes fill the buffers and then block *)
| RecvFault (k : rkind) | WriteFault (k : wkind)
| SendStep | SendLost | RecvEnd
| Pick.                           (* the leaving loop, inside exitOnce, reads s.rh and calls that handler's OnExit; the callback may
                                      take its time: until it returns the count, the queue and the connection are as before *)

Inductive label :=
| Start (i : nat) (t : transport) (reads : bool) (h : nat)   (* NewSession [+ UpdateHandler h when h > 0] + Start *)
| Arrive (i : nat)                                  (* a client connects: connection i waits in the listener's queue *)
| Accept (i : nat)                                  (* the accept loop takes the oldest waiting connection, i *)
| AcceptFail                                        (* ln.Accept returns a temporary error: count it, back off, or give up *)
| FdExhaust | FdRestore                             (* the environment: Accept cannot / can again obtain a descriptor *)
| SrvClose                                          (* Server.Close: Accept returns a permanent error, the loop ends *)
| On (i : nat) (a : act).

(* the accept goroutine's own state *)
Record aloopst := mkAL {
  amax : nat;       (* WithAccMaxRetry *)
  aloop : bool;     (* loopAccept still runs *)
  aretry : nat;     (* accRetryCount: temporary errors since the last successful Accept *)
  fdlim : bool;     (* environment: Accept fails with a temporary error *)
  sclosed : bool    (* ghost: Server.Close was called *)
}.
Record st := mkSt { maxc : Z; cnt : Z; ss : list sess; pend : nat; al : aloopst }.   (* pend: connections waiting to be accepted; their ids follow those of ss *)

(* ---- field setters ---- *)
Definition set_q s v := mkS (tr s) (started s) v (qclosed s) (copen s) (sendl s) (recvl s) (exited s) (onexit s) (wfail s) (rcause s) (peer_open s) (peer_reads s) (rcvd s) (inbox s) (accepted s) (clean s) (lclosed s) (wsend s) (hx s).
Definition set_qclosed s v := mkS (tr s) (started s) (q s) v (copen s) (sendl s) (recvl s) (exited s) (onexit s) (wfail s) (rcause s) (peer_open s) (peer_reads s) (rcvd s) (inbox s) (accepted s) (clean s) (lclosed s) (wsend s) (hx s).
Definition set_sendl s v := mkS (tr s) (started s) (q s) (qclosed s) (copen s) v (recvl s) (exited s) (onexit s) (wfail s) (rcause s) (peer_open s) (peer_reads s) (rcvd s) (inbox s) (accepted s) (clean s) (lclosed s) (wsend s) (hx s).
Definition set_recvl s v := mkS (tr s) (started s) (q s) (qclosed s) (copen s) (sendl s) v (exited s) (onexit s) (wfail s) (rcause s) (peer_open s) (peer_reads s) (rcvd s) (inbox s) (accepted s) (clean s) (lclosed s) (wsend s) (hx s).
Definition set_wfail s v := mkS (tr s) (started s) (q s) (qclosed s) (copen s) (sendl s) (recvl s) (exited s) (onexit s) v (rcause s) (peer_open s) (peer_reads s) (rcvd s) (inbox s) (accepted s) (clean s) (lclosed s) (wsend s) (hx s).
Definition set_rcause s v := mkS (tr s) (started s) (q s) (qclosed s) (copen s) (sendl s) (recvl s) (exited s) (onexit s) (wfail s) v (peer_open s) (peer_reads s) (rcvd s) (inbox s) (accepted s) (clean s) (lclosed s) (wsend s) (hx s).
Definition set_peer_open s v := mkS (tr s) (started s) (q s) (qclosed s) (copen s) (sendl s) (recvl s) (exited s) (onexit s) (wfail s) (rcause s) v (peer_reads s) (rcvd s) (inbox s) (accepted s) (clean s) (lclosed s) (wsend s) (hx s).
Definition set_peer_reads s v := mkS (tr s) (started s) (q s) (qclosed s) (copen s) (sendl s) (recvl s) (exited s) (onexit s) (wfail s) (rcause s) (peer_open s) v (rcvd s) (inbox s) (accepted s) (clean s) (lclosed s) (wsend s) (hx s).
Definition set_rcvd s v := mkS (tr s) (started s) (q s) (qclosed s) (copen s) (sendl s) (recvl s) (exited s) (onexit s) (wfail s) (rcause s) (peer_open s) (peer_reads s) v (inbox s) (accepted s) (clean s) (lclosed s) (wsend s) (hx s).
Definition set_inbox s v := mkS (tr s) (started s) (q s) (qclosed s) (copen s) (sendl s) (recvl s) (exited s) (onexit s) (wfail s) (rcause s) (peer_open s) (peer_reads s) (rcvd s) v (accepted s) (clean s) (lclosed s) (wsend s) (hx s).
Definition set_accepted s v := mkS (tr s) (started s) (q s) (qclosed s) (copen s) (sendl s) (recvl s) (exited s) (onexit s) (wfail s) (rcause s) (peer_open s) (peer_reads s) (rcvd s) (inbox s) v (clean s) (lclosed s) (wsend s) (hx s).
Definition set_clean s v := mkS (tr s) (started s) (q s) (qclosed s) (copen s) (sendl s) (recvl s) (exited s) (onexit s) (wfail s) (rcause s) (peer_open s) (peer_reads s) (rcvd s) (inbox s) (accepted s) v (lclosed s) (wsend s) (hx s).

Definition set_lclosed s v := mkS (tr s) (started s) (q s) (qclosed s) (copen s) (sendl s) (recvl s) (exited s) (onexit s) (wfail s) (rcause s) (peer_open s) (peer_reads s) (rcvd s) (inbox s) (accepted s) (clean s) v (wsend s) (hx s).
Definition set_wsend s v := mkS (tr s) (started s) (q s) (qclosed s) (copen s) (sendl s) (recvl s) (exited s) (onexit s) (wfail s) (rcause s) (peer_open s) (peer_reads s) (rcvd s) (inbox s) (accepted s) (clean s) (lclosed s) v (hx s).

Definition set_hx s v := mkS (tr s) (started s) (q s) (qclosed s) (copen s) (sendl s) (recvl s) (exited s) (onexit s) (wfail s) (rcause s) (peer_open s) (peer_reads s) (rcvd s) (inbox s) (accepted s) (clean s) (lclosed s) (wsend s) v.

Definition is_nil {A} (l : list A) : bool := match l with [] => true | _ => false end.
Definition is_tcp (t : transport) : bool := match t with Tcp => true | Pipe => false end.

(* quit(): exitOnce.Do { OnExit; count.Dec; sendQ.Close; conn.Close }.  The boolean says whether count.Dec ran. *)
Definition quit (s : sess) : sess * bool :=
  if exited s then (s, false)
  else (mkS (tr s) (started s) (q s) true false (sendl s) (recvl s) true (S (onexit s)) (wfail s) (rcause s)
            (peer_open s) (peer_reads s) (rcvd s) (inbox s) (accepted s) (clean s) (lclosed s) (wsend s)
            (mkHx (hid (hx s)) (if picked (hx s) then exit_h (hx s) else hid (hx s)) (amb (hx s)) true), true).

(* a loop leaves through its deferred quit *)
Definition leave_send (s : sess) : option (sess * bool) := let '(s1, d) := quit s in Some (set_sendl s1 false, d).
Definition leave_recv (s : sess) : option (sess * bool) := let '(s1, d) := quit s in Some (set_recvl s1 false, d).

(* one of the loops has reached the point where it returns (its deferred quit is next) *)
Definition can_leave (s : sess) : bool :=
  (recvl s && (rcause s || negb (copen s)))
  || (sendl s && match q s with
                 | [] => qclosed s
                 | x :: _ => negb (is_nil x) && (negb (copen s) || wfail s || negb (peer_open s))
                 end).

Definition sess_step (s : sess) (a : act) : option (sess * bool) :=
  match a with
  | Send bs ok =>                                   (* sendQ.AddReq under the queue lock *)
      if Bool.eqb ok (negb (qclosed s)) then
        if ok then Some (set_wsend (set_accepted (set_q s (q s ++ [bs])) (accepted s ++ [bs]))
                                   (wsend s || (wfail s && negb (is_nil bs))), false)
        else Some (s, false)
      else None
  | LocalClose => Some (set_lclosed (set_qclosed s true) true, false)  (* sendQ.Close *)
  | StartAgain => Some (s, false)
  | SetHandler h =>                                 (* s.rh = rh : a plain store, whatever state the session is in *)
      Some (set_hx s (mkHx h (exit_h (hx s)) (amb (hx s) || rcause s || lclosed s || wfail s) (picked (hx s))), false)
  | PeerClose => if peer_open s then Some (set_clean (set_rcause (set_peer_open s false) true) false, false) else None
  | PeerRead => if peer_open s && negb (peer_reads s) then Some (set_peer_reads s true, false) else None
  | PeerPause => if peer_open s && peer_reads s then Some (set_peer_reads s false, false) else None
  | PeerByte =>                                     (* the peer writes one ordinary byte *)
      if peer_open s then
        if recvl s && negb (rcause s) && copen s
        then Some (set_rcvd s (S (rcvd s)), false)  (* the read handler consumes it, the loop goes on *)
        else Some (s, false)                        (* nobody reads any more: the handler is not called after the exit *)
      else None
  | RecvFault k =>
      if match k with RErr | RTimeout => true | _ => peer_open s end
      then Some (set_clean (set_rcause s true) false, false) else None
  | WriteFault _ => Some (set_clean (set_wfail s true) false, false)
  | SendStep =>                                     (* one iteration of loopSend *)
      if negb (sendl s) then None else
      match q s with
      | [] => if qclosed s then leave_send s        (* PopAnyway: closed and empty *)
              else None                             (* parked in PopAnyway *)
      | x :: r =>
          if is_nil x then Some (set_q s r, false)  (* len(bs) == 0: nothing to write, continue *)
          else if negb (copen s) || wfail s || negb (peer_open s)
          then leave_send (set_q s r)               (* the write fails *)
          else if peer_reads s then Some (set_inbox (set_q s r) (inbox s ++ x), false)
          else None                                 (* blocked in Write: nobody reads *)
      end
  | SendLost =>                                     (* TCP only: the write succeeds locally, the peer is gone *)
      if negb (sendl s) then None else
      match q s with
      | x :: r => if negb (is_nil x) && copen s && negb (wfail s) && negb (peer_open s) && is_tcp (tr s)
                  then Some (set_q s r, false) else None
      | [] => None
      end
  | RecvEnd =>                                      (* loopReceive: deadline / read / handler failed or panicked *)
      if recvl s && (rcause s || negb (copen s)) then leave_recv s else None
  | Pick =>                                         (* only a loop that is about to leave gets into quit *)
      if negb (picked (hx s)) && negb (exited s) && can_leave s
      then Some (set_hx s (mkHx (hid (hx s)) (hid (hx s)) (amb (hx s)) true), false) else None
  end.

Definition fresh (t : transport) (reads : bool) (h : nat) : sess :=
  mkS t true [] false true true true false 0%nat false false true reads 0%nat [] [] true false false (mkHx h 0%nat false false).
Definition rejected : sess :=
  mkS Tcp false [] false false false false false 0%nat false false true true 0%nat [] [] true false false (mkHx 0%nat 0%nat false false).

Fixpoint upd {A} (i : nat) (x : A) (l : list A) : list A :=
  match l, i with
  | [], _ => []
  | _ :: r, O => x :: r
  | y :: r, S j => y :: upd j x r
  end.

Definition set_aloop (a : aloopst) v := mkAL (amax a) v (aretry a) (fdlim a) (sclosed a).
Definition set_aretry (a : aloopst) v := mkAL (amax a) (aloop a) v (fdlim a) (sclosed a).
Definition set_fdlim (a : aloopst) v := mkAL (amax a) (aloop a) (aretry a) v (sclosed a).

Definition step (t : st) (l : label) : option st :=
  match l with
  | Start i trp reads h =>
      if Nat.eqb i (length (ss t)) && Nat.eqb (pend t) 0
      then Some (mkSt (maxc t) (cnt t + 1) (ss t ++ [fresh trp reads h]) 0 (al t)) else None
  | Arrive i =>
      if Nat.eqb i (length (ss t) + pend t) then Some (mkSt (maxc t) (cnt t) (ss t) (S (pend t)) (al t)) else None
  | Accept i =>                                     (* conn, err = s.ln.Accept() with err == nil: the retry state is reset *)
      if Nat.eqb i (length (ss t)) && negb (Nat.eqb (pend t) 0) && aloop (al t) && negb (fdlim (al t)) then
        if maxc t <=? cnt t                         (* s.ch.ConnCount() >= cnf.maxConn : conn.Close() *)
        then Some (mkSt (maxc t) (cnt t) (ss t ++ [rejected]) (pred (pend t)) (set_aretry (al t) 0%nat))
        else Some (mkSt (maxc t) (cnt t + 1) (ss t ++ [fresh Tcp true 0%nat]) (pred (pend t)) (set_aretry (al t) 0%nat))   (* Do: NewSession, Start: count.Inc *)
      else None
  | AcceptFail =>                                   (* handleErr: temporary error; accRetryCount++; >= acceptMaxRetry: return *)
      if negb (Nat.eqb (pend t) 0) && aloop (al t) && fdlim (al t) then
        let n := S (aretry (al t)) in
        Some (mkSt (maxc t) (cnt t) (ss t) (pend t)
                   (if Nat.leb (amax (al t)) n then set_aloop (set_aretry (al t) n) false else set_aretry (al t) n))
      else None
  | FdExhaust => if fdlim (al t) then None else Some (mkSt (maxc t) (cnt t) (ss t) (pend t) (set_fdlim (al t) true))
  | FdRestore => if fdlim (al t) then Some (mkSt (maxc t) (cnt t) (ss t) (pend t) (set_fdlim (al t) false)) else None
  | SrvClose =>                                     (* only with nothing waiting: the kernel resets what a closed listener had queued *)
      if Nat.eqb (pend t) 0
      then Some (mkSt (maxc t) (cnt t) (ss t) (pend t) (mkAL (amax (al t)) false (aretry (al t)) (fdlim (al t)) true)) else None
  | On i a =>
      match nth_error (ss t) i with
      | Some s =>
          if started s then
            match sess_step s a with
            | Some (s', d) => Some (mkSt (maxc t) (if d then cnt t - 1 else cnt t) (upd i s' (ss t)) (pend t) (al t))
            | None => None
            end
          else None
      | None => None
      end
  end.

Fixpoint run (t : st) (ls : list label) : option st :=
  match ls with [] => Some t | l :: r => match step t l with Some t' => run t' r | None => None end end.

Definition init_al (r : nat) : aloopst := mkAL r true 0%nat false false.
Definition init (m c0 : Z) (r : nat) : st := mkSt m c0 [] 0 (init_al r).

Definition internal_act (a : act) : bool := match a with SendStep | SendLost | RecvEnd | Pick => true | _ => false end.
Definition internal (l : label) : bool := match l with On _ a => internal_act a | Accept _ | AcceptFail => true | _ => false end.

(* nothing the session's own goroutines could do next *)
Definition none_opt {A} (o : option A) : bool := match o with None => true | Some _ => false end.
Definition quiet (s : sess) : bool :=
  negb (started s) || (none_opt (sess_step s SendStep) && none_opt (sess_step s SendLost) && none_opt (sess_step s RecvEnd)).
(* (Pick needs can_leave, i.e. SendStep or RecvEnd enabled: a quiet session cannot Pick either, lemma quiet_no_pick) *)
(* a connection can only keep waiting when the accept loop is gone *)
Definition stable (t : st) : bool := (Nat.eqb (pend t) 0 || negb (aloop (al t))) && forallb quiet (ss t).

(* ---- the send loop before the repair 225387c (kept as a named variant; refuted in C16_Thm.v): a zero-length
   payload was treated like an invalid item and ended the loop ---- *)
Definition sess_step_prefix (s : sess) (a : act) : option (sess * bool) :=
  match a with
  | SendStep =>
      if negb (sendl s) then None else
      match q s with
      | [] => if qclosed s then leave_send s else None
      | x :: r =>
          if is_nil x || negb (copen s) || wfail s || negb (peer_open s)
          then leave_send (set_q s r)               (* !ok || len(bs) == 0 : return *)
          else if peer_reads s then Some (set_inbox (set_q s r) (inbox s ++ x), false)
          else None
      end
  | _ => sess_step s a
  end.
Definition step_prefix (t : st) (l : label) : option st :=
  match l with
  | On i a =>
      match nth_error (ss t) i with
      | Some s =>
          if started s then
            match sess_step_prefix s a with
            | Some (s', d) => Some (mkSt (maxc t) (if d then cnt t - 1 else cnt t) (upd i s' (ss t)) (pend t) (al t))
            | None => None
            end
          else None
      | None => None
      end
  | _ => step t l
  end.
Fixpoint run_prefix (t : st) (ls : list label) : option st :=
  match ls with [] => Some t | l :: r => match step_prefix t l with Some t' => run_prefix t' r | None => None end end.
