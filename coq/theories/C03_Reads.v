(* C03: the read operations (Get / Has / Min / Max) as functions of the in-order list, the independence of the
   in-order list from the model's fuel, and the bridge from the B-tree invariant to the well-formedness the scan
   theorems ask for. *)
From Coq Require Import ZArith List Lia Bool Sorting.Sorted.
Require Import C03_Model C03_Spec C03_D C03_Ins C03_Sel C03_Inv C03_InsInv C03_Up C03_Scan.
Import ListNotations.
Open Scope Z_scope.
Local Coercion key : item >-> Z.

(* ---------- fuel ---------- *)
Lemma inter_ext_in (F G : inode -> list item) : forall its ch, (forall c, In c ch -> F c = G c) -> inter F its ch = inter G its ch.
Proof.
  induction its as [|x its IH]; intros ch H.
  - destruct ch as [|c ch]; [reflexivity|]. cbn. apply H. left. reflexivity.
  - cbn [inter]. rewrite (IH (tl ch)) by (intros c Hc; apply H; destruct ch; [destruct Hc|right; exact Hc]).
    destruct ch as [|c ch]; [reflexivity|]. cbn [hd_rec]. rewrite (H c) by (left; reflexivity). reflexivity.
Qed.
Lemma iflat_fuel : forall h r k, shaped h r -> iflat (S h + k) r = iflat (S h) r.
Proof.
  induction h as [|h IH]; intros r k Hs.
  - cbn in Hs. cbn [iflat Nat.add]. rewrite Hs. rewrite !C03_D.inter_leaf. reflexivity.
  - destruct Hs as [Hl Hf]. change (iflat (S (S h) + k) r) with (inter (iflat (S h + k)) (iitems r) (ichildren r)).
    change (iflat (S (S h)) r) with (inter (iflat (S h)) (iitems r) (ichildren r)).
    apply inter_ext_in. intros c Hc. apply IH. rewrite Forall_forall in Hf. apply Hf, Hc.
Qed.
Lemma shaped_iwf : forall h r k, shaped h r -> iwf (S h + k) r.
Proof.
  induction h as [|h IH]; intros r k Hs.
  - cbn in Hs. cbn [iwf Nat.add]. left. exact Hs.
  - destruct Hs as [Hl Hf]. change (iwf (S (S h + k)) r). cbn [iwf]. right. split; [exact Hl|].
    rewrite Forall_forall in *. intros c Hc. apply (IH c k), Hf, Hc.
Qed.

(* ---------- Get ---------- *)
Lemma lookup_none_lt (k : Z) l : Forall (fun y : item => y < k) l -> s_lookup k l = None.
Proof. intros H. destruct (filter_lt_all k l H) as (_ & _ & E). exact E. Qed.
Lemma lookup_none_gt (k : Z) l : Forall (fun y : item => k < y) l -> s_lookup k l = None.
Proof. intros H. destruct (filter_gt_all k l H) as (_ & _ & E). exact E. Qed.

Theorem iget_spec : forall f h r (k : Z), shaped h r -> StronglySorted klt (iflat (S h) r) -> (h < f)%nat ->
  iget f r k = s_lookup k (iflat (S h) r).
Proof.
  induction f as [|f IH]; intros h r k Hsh Hs Hf; [lia|].
  destruct r as [its ch]. cbn [iget iitems ichildren]. rewrite flat_S in Hs |- *. cbn [iitems ichildren] in Hs |- *.
  pose proof (sorted_items _ _ _ Hs) as Hsi.
  destruct (ifind its k) as [i found] eqn:Ef.
  destruct (find_spec its k i found Hsi Ef) as (a & b & Hits & Hi & Ha & Hb).
  destruct h as [|h].
  - cbn in Hsh. subst ch. rewrite C03_D.inter_leaf in *. cbn [is_nil]. subst its.
    rewrite lookup_app, (lookup_none_lt k a Ha).
    destruct found.
    + destruct Hb as (x & b' & -> & Hx). rewrite (nth_app_len' a x b' ditem i (eq_sym Hi)).
      unfold s_lookup. cbn [find]. rewrite Hx, Z.eqb_refl. reflexivity.
    + rewrite (lookup_none_gt k b Hb). reflexivity.
  - destruct Hsh as [Hl Hfa]. cbn [iitems ichildren] in Hl, Hfa.
    assert (Hnil : is_nil ch = false) by (destruct ch; [cbn in Hl; lia|reflexivity]). rewrite Hnil.
    set (F := iflat (S h)) in *.
    destruct (node_decomp' F its ch a b Hits Hl) as (ca & c & cb & Hch & Hca & Hcb & Hdec).
    rewrite Hdec in *.
    assert (Hpre : Forall (fun y : item => y < k) (pre F a ca)) by (eapply sorted_pre_lt'; eauto; lia).
    rewrite lookup_app, (lookup_none_lt k _ Hpre).
    destruct found.
    + destruct Hb as (x & b' & -> & Hx). subst its. rewrite (nth_app_len' a x b' ditem i (eq_sym Hi)).
      destruct cb as [|c2 cb]; [cbn in Hcb; lia|]. cbn [post] in *.
      replace (pre F a ca ++ F c ++ x :: F c2 ++ post F b' cb) with ((pre F a ca ++ F c) ++ x :: F c2 ++ post F b' cb) in Hs by now rewrite <- app_assoc.
      destruct (ss_mid _ _ _ Hs) as [Hlt _]. apply Forall_app in Hlt as [_ Hlt]. rewrite Hx in Hlt.
      rewrite lookup_app, (lookup_none_lt k _ Hlt). unfold s_lookup. cbn [find]. rewrite Hx, Z.eqb_refl. reflexivity.
    + assert (Hpost : Forall (fun y : item => k < y) (post F b cb)) by (rewrite app_assoc in Hs; eapply sorted_post_gt'; eauto).
      rewrite lookup_app, (lookup_none_gt k _ Hpost).
      unfold nth_inode. assert (Hnth : nth i ch dinode = c) by (subst ch; apply nth_app_len'; lia). rewrite Hnth.
      assert (Hcsh : shaped h c) by (rewrite Forall_forall in Hfa; apply Hfa; subst ch; apply in_or_app; right; left; reflexivity).
      assert (Hcs : StronglySorted klt (F c)).
      { apply ss_app_inv_app in Hs as [_ Hs']. apply ss_app_inv_app in Hs' as [Hs' _]. exact Hs'. }
      rewrite (IH h c k Hcsh Hcs ltac:(lia)). fold F. destruct (s_lookup k (F c)); reflexivity.
Qed.

(* ---------- Min / Max ---------- *)
Lemma hd_error_app {A} (l1 l2 : list A) : l1 <> [] -> hd_error (l1 ++ l2) = hd_error l1.
Proof. destruct l1; [congruence|reflexivity]. Qed.
Lemma last_indep {A} (L : list A) a b : L <> [] -> last L a = last L b.
Proof.
  induction L as [|x L IH]; [congruence|]. intros _. destruct L as [|y L]; [reflexivity|].
  change (last (y :: L) a = last (y :: L) b). apply IH. discriminate.
Qed.
Lemma last_cons {A} (c : A) rest d : last (c :: rest) d = last rest c.
Proof. destruct rest as [|y r]; [reflexivity|]. change (last (y :: r) d = last (y :: r) c). apply last_indep. discriminate. Qed.
Lemma last_error_last {A} (L : list A) d : L <> [] -> last_error L = Some (last L d).
Proof. destruct L as [|x L]; [congruence|]. intros _. cbn [last_error]. f_equal. symmetry. apply last_cons. Qed.
Lemma last_app_ne' {A} (l1 l2 : list A) d : l2 <> [] -> last (l1 ++ l2) d = last l2 d.
Proof.
  intros H. induction l1 as [|x l1 IH]; cbn [app]; [reflexivity|]. rewrite last_cons.
  destruct (l1 ++ l2) as [|y r] eqn:E; [apply app_eq_nil in E; tauto|]. rewrite <- IH. symmetry. apply last_indep. discriminate.
Qed.
Lemma last_error_app {A} (l1 l2 : list A) : l2 <> [] -> last_error (l1 ++ l2) = last_error l2.
Proof.
  intros H. destruct l2 as [|y r] eqn:E; [congruence|]. rewrite <- E in *.
  rewrite (last_error_last (l1 ++ l2) y) by (intros E2; apply app_eq_nil in E2; tauto).
  rewrite (last_error_last l2 y H). f_equal. apply last_app_ne', H.
Qed.
Lemma inter_last F : forall its ch, length ch = S (length its) -> exists p, inter F its ch = p ++ F (last ch dinode).
Proof.
  induction its as [|x its IH]; intros ch Hl.
  - destruct ch as [|c [|c2 ch]]; cbn in Hl; try lia. exists []. reflexivity.
  - destruct ch as [|c ch]; [cbn in Hl; lia|]. cbn in Hl. destruct (IH ch ltac:(lia)) as [p Hp].
    exists (F c ++ x :: p). cbn [inter hd_rec tl]. rewrite Hp. rewrite last_cons.
    rewrite (last_indep ch c dinode) by (destruct ch; [cbn in Hl; lia|discriminate]). rewrite <- app_assoc. reflexivity.
Qed.

Section MinMax.
Variable minI : nat.
Hypothesis minI_pos : (1 <= minI)%nat.

Theorem imin_spec : forall f h r, shaped h r -> occ minI h r -> (h < f)%nat ->
  imin f r = hd_error (iflat (S h) r).
Proof.
  induction f as [|f IH]; intros h r Hsh Ho Hf; [lia|].
  destruct r as [its ch]. cbn [imin ichildren iitems]. rewrite flat_S. cbn [iitems ichildren].
  destruct h as [|h].
  - cbn in Hsh. subst ch. rewrite C03_D.inter_leaf. reflexivity.
  - destruct Hsh as [Hl Hfa]. cbn [iitems ichildren] in Hl, Hfa. cbn [occ ichildren] in Ho.
    destruct ch as [|c ch]; [cbn in Hl; lia|]. inversion Hfa as [|? ? Hc _]; subst. inversion Ho as [|? ? [Hcm Hco] _]; subst.
    rewrite (IH h c Hc Hco ltac:(lia)).
    assert (Hne : iflat (S h) c <> []) by (apply flat_nonempty; destruct (iitems c); [cbn in Hcm; lia|discriminate]).
    destruct its as [|x its]; cbn [inter hd_rec]; [reflexivity|]. symmetry. apply hd_error_app, Hne.
Qed.

Theorem imax_spec : forall f h r, shaped h r -> occ minI h r -> (h < f)%nat ->
  imax f r = last_error (iflat (S h) r).
Proof.
  induction f as [|f IH]; intros h r Hsh Ho Hf; [lia|].
  destruct r as [its ch]. cbn [imax ichildren iitems]. rewrite flat_S. cbn [iitems ichildren].
  destruct h as [|h].
  - cbn in Hsh. subst ch. rewrite C03_D.inter_leaf. reflexivity.
  - destruct Hsh as [Hl Hfa]. cbn [iitems ichildren] in Hl, Hfa. cbn [occ ichildren] in Ho.
    destruct ch as [|c ch]; [cbn in Hl; lia|].
    assert (Hin : In (last ch c) (c :: ch)).
    { rewrite <- (last_cons c ch dinode). apply C03_Up.last_in'. discriminate. }
    rewrite Forall_forall in Hfa, Ho. destruct (Ho _ Hin) as [Hcm Hco].
    rewrite (IH h _ (Hfa _ Hin) Hco ltac:(lia)).
    assert (Hne : iflat (S h) (last ch c) <> []) by (apply flat_nonempty; destruct (iitems (last ch c)); [cbn in Hcm; lia|discriminate]).
    destruct (inter_last (iflat (S h)) its (c :: ch) Hl) as [p Hp]. rewrite Hp, last_cons. symmetry. apply last_error_app, Hne.
Qed.
End MinMax.
