(* C20: proofs.  (1) exact-or-error: whatever the model decoders accept is the value the token denotes (`reads`),
   for every byte string; (2) round trips for every value of every type; (3) the SQL forms; (4) soundness of the
   case check: accept c = true -> holds c = true; (5) the pre-fix decoders refuted. *)
From Coq Require Import ZArith List Lia Bool.
Require Import Cases_Common.
Require Export C20_Spec.
Import ListNotations.
Open Scope Z_scope.

(* ---------------- equalities ---------------- *)
Lemma zlist_eqb_refl l : zlist_eqb l l = true.
Proof. apply list_eqb_refl. intros a. apply Z.eqb_refl. Qed.
Lemma val_eqb_refl v : val_eqb v v = true.
Proof. destruct v; cbn [val_eqb]; [apply Z.eqb_refl|apply zlist_eqb_refl|]. rewrite !Z.eqb_refl. reflexivity. Qed.
Lemma val_eqb_eq a b : val_eqb a b = true -> a = b.
Proof.
  destruct a, b; cbn [val_eqb]; try discriminate; intros H.
  - apply Z.eqb_eq in H. now subst.
  - apply zlist_eqb_eq in H. now subst.
  - apply andb_prop in H as [H1 H2]. apply Z.eqb_eq in H1. apply Z.eqb_eq in H2. now subst.
Qed.
Lemma res_eqb_eq {A} (e : A -> A -> bool) (He : forall a b, e a b = true -> a = b) x y : res_eqb e x y = true -> x = y.
Proof. destruct x, y; cbn [res_eqb]; try discriminate; auto. intros H. f_equal. auto. Qed.
Lemma res_val_eqb_eq x y : res_eqb val_eqb x y = true -> x = y.
Proof. apply res_eqb_eq, val_eqb_eq. Qed.
Lemma res_val_eqb_refl x : res_eqb val_eqb x x = true.
Proof. destruct x; cbn [res_eqb]; auto. apply val_eqb_refl. Qed.
Lemma sqlv_eqb_eq a b : sqlv_eqb a b = true -> a = b.
Proof.
  destruct a, b; cbn [sqlv_eqb]; try discriminate; intros H; try (apply Z.eqb_eq in H; now subst);
    try (apply zlist_eqb_eq in H; now subst); auto.
  apply andb_prop in H as [H1 H2]. apply Z.eqb_eq in H1. apply Z.eqb_eq in H2. now subst.
Qed.

(* ---------------- slicing ---------------- *)
Lemma inner_wrapq s : inner (wrapq s) = s.
Proof. unfold inner, wrapq. cbn [tl]. apply removelast_last. Qed.
Lemma last_wrapq s : last (wrapq s) 0 = QUOTE.
Proof. unfold wrapq. change (QUOTE :: s ++ [QUOTE]) with ((QUOTE :: s) ++ [QUOTE]). apply last_last. Qed.
Lemma quoted_ends_wrapq s : quoted_ends (wrapq s) = true.
Proof. unfold quoted_ends. rewrite last_wrapq. unfold wrapq. cbn [hd]. rewrite Z.eqb_refl. reflexivity. Qed.
Lemma length_wrapq s : length (wrapq s) = S (S (length s)).
Proof. unfold wrapq. cbn [length]. rewrite app_length. cbn [length]. lia. Qed.

(* ---------------- the parsers never panic; acceptance is exact ---------------- *)
Lemma parse_int_read base l v : parse_int base l = Ok v -> read_int base l = Some v.
Proof.
  unfold parse_int, read_int. destruct l as [|c r]; [discriminate|]. rewrite !parse_nat_read.
  destruct (c =? 43).
  - destruct (read_nat base r) as [w|]; [|discriminate]. destruct (w <? 2 ^ 63); [|discriminate]. intros H. inversion H. reflexivity.
  - destruct (c =? 45).
    + destruct (read_nat base r) as [w|]; [|discriminate]. destruct (w <=? 2 ^ 63); [|discriminate]. intros H. inversion H. reflexivity.
    + destruct (read_nat base (c :: r)) as [w|]; [|discriminate]. destruct (w <? 2 ^ 63); [|discriminate]. intros H. inversion H. reflexivity.
Qed.
Lemma parse_uint_read base l v : parse_uint base l = Ok v -> read_nat base l = Some v.
Proof.
  unfold parse_uint. rewrite parse_nat_read. destruct (read_nat base l) as [w|]; [|discriminate].
  destruct (w <? 2 ^ 64); [|discriminate]. intros H. inversion H. reflexivity.
Qed.
Lemma parse_int_no_panic base l : parse_int base l <> Panic.
Proof.
  unfold parse_int. destruct l as [|c r]; [discriminate|].
  destruct (c =? 43); [destruct (parse_nat base r) as [w|]; [destruct (w <? 2 ^ 63)|]; discriminate|].
  destruct (c =? 45); [destruct (parse_nat base r) as [w|]; [destruct (w <=? 2 ^ 63)|]; discriminate|].
  destruct (parse_nat base (c :: r)) as [w|]; [destruct (w <? 2 ^ 63)|]; discriminate.
Qed.
Lemma parse_uint_no_panic base l : parse_uint base l <> Panic.
Proof. unfold parse_uint. destruct (parse_nat base l) as [w|]; [destruct (w <? 2 ^ 64)|]; discriminate. Qed.

(* ---------------- instants ---------------- *)
Lemma time_unix_sec z : time_unix z 0 = (z, 0).
Proof. reflexivity. Qed.
Lemma time_unix_floor z : time_unix 0 z = (z / E9, z mod E9).
Proof.
  unfold time_unix, E9. destruct ((z <? 0) || (1000000000 <=? z)) eqn:E.
  - cbv zeta. destruct (z - Z.quot z 1000000000 * 1000000000 <? 0) eqn:E2.
    + apply Z.ltb_lt in E2. f_equal; Z.to_euclidean_division_equations; lia.
    + apply Z.ltb_ge in E2. f_equal; Z.to_euclidean_division_equations; lia.
  - apply orb_false_elim in E as [E1 E2]. apply Z.ltb_ge in E1. apply Z.leb_gt in E2.
    f_equal; Z.to_euclidean_division_equations; lia.
Qed.
Lemma vt_floor z : vt (time_unix 0 z) = floor_time z.
Proof. rewrite time_unix_floor. reflexivity. Qed.
Lemma wrap64_id x : - 2 ^ 63 <= x < 2 ^ 63 -> wrap64 x = x.
Proof. intros H. unfold wrap64. rewrite Z.mod_small by lia. lia. Qed.
Lemma floor_time_compose s n : 0 <= n < E9 -> floor_time (s * E9 + n) = VT s n.
Proof.
  intros H. unfold floor_time, E9 in *. f_equal; Z.to_euclidean_division_equations; lia.
Qed.
Lemma in_i64_spec z : in_i64 z = true <-> - 2 ^ 63 <= z < 2 ^ 63.
Proof. unfold in_i64. rewrite andb_true_iff, Z.leb_le, Z.ltb_lt. tauto. Qed.
Lemma in_u64_spec z : in_u64 z = true <-> 0 <= z < 2 ^ 64.
Proof. unfold in_u64. rewrite andb_true_iff, Z.leb_le, Z.ltb_lt. tauto. Qed.
Lemma in_ns_spec z : in_ns z = true <-> 0 <= z < E9.
Proof. unfold in_ns. rewrite andb_true_iff, Z.leb_le, Z.ltb_lt. tauto. Qed.
Lemma is_byte_spec z : is_byte z = true <-> 0 <= z <= 255.
Proof. unfold is_byte. rewrite andb_true_iff, !Z.leb_le. tauto. Qed.

(* ---------------- byte lists ---------------- *)
Lemma bytes_of_no_panic rc parts : bytes_of rc parts <> Panic.
Proof.
  induction parts as [|p r IH]; cbn [bytes_of]; [discriminate|].
  pose proof (parse_int_no_panic 10 p) as Hp. destruct (parse_int 10 p) as [t| |]; [|discriminate|congruence].
  destruct (rc && ((t <? 0) || (255 <? t))); [discriminate|]. destruct (bytes_of rc r); [discriminate|discriminate|congruence].
Qed.
Lemma bytes_of_read parts l : bytes_of true parts = Ok l -> read_bytes parts = Some l.
Proof.
  revert l. induction parts as [|p r IH]; intros l; cbn [bytes_of read_bytes].
  - intros H. inversion H. reflexivity.
  - destruct (parse_int 10 p) as [t| |] eqn:Ep; [|discriminate|discriminate]. apply parse_int_read in Ep. rewrite Ep.
    cbn [andb]. destruct ((t <? 0) || (255 <? t)) eqn:Er; [discriminate|].
    apply orb_false_elim in Er as [E1 E2]. apply Z.ltb_ge in E1. apply Z.ltb_ge in E2.
    destruct (bytes_of true r) as [l'| |]; [|discriminate|discriminate]. rewrite (IH l' eq_refl).
    replace (is_byte t) with true by (symmetry; apply is_byte_spec; lia).
    intros H. inversion H. rewrite Z.mod_small by lia. reflexivity.
Qed.
Lemma byte_from_string_read s l : byte_from_string true s = Ok l -> read_bytestr s = Some l.
Proof.
  unfold byte_from_string, read_bytestr. destruct s as [|c s]; [intros H; inversion H; reflexivity|]. apply bytes_of_read.
Qed.
Lemma byte_from_string_no_panic rc s : byte_from_string rc s <> Panic.
Proof. unfold byte_from_string. destruct s; [discriminate|apply bytes_of_no_panic]. Qed.

Definition no_slash (s : list Z) : bool := forallb (fun c => negb (c =? SLASH)) s.
Lemma split_no_slash s : no_slash s = true -> split s = [s].
Proof.
  induction s as [|c s IH]; [reflexivity|]. cbn [no_slash forallb split]. intros H. apply andb_prop in H as [H1 H2].
  apply negb_true_iff in H1. rewrite H1. fold (no_slash s) in H2. rewrite (IH H2). reflexivity.
Qed.
Lemma split_app_slash s r : no_slash s = true -> split (s ++ SLASH :: r) = s :: split r.
Proof.
  induction s as [|c s IH]; intros H.
  - cbn [app split]. unfold SLASH at 1. rewrite Z.eqb_refl. reflexivity.
  - cbn [no_slash forallb] in H. apply andb_prop in H as [H1 H2]. apply negb_true_iff in H1.
    cbn [app split]. rewrite H1. fold (no_slash s) in H2. rewrite (IH H2). reflexivity.
Qed.
Lemma all_digits_no_slash s : all_digits 10 s = true -> no_slash s = true.
Proof.
  unfold all_digits, no_slash. intros H. rewrite forallb_forall in *. intros c Hc. specialize (H c Hc).
  apply negb_true_iff. apply Z.eqb_neq. intros ->. vm_compute in H. discriminate.
Qed.
Lemma fmt_byte_props x : 0 <= x <= 255 ->
  fmt_int 10 x <> [] /\ no_slash (fmt_int 10 x) = true /\ parse_int 10 (fmt_int 10 x) = Ok x.
Proof.
  intros Hx. assert (Hp : parse_int 10 (fmt_int 10 x) = Ok x) by (apply parse_fmt_int; lia).
  split; [intros E; rewrite E in Hp; discriminate|]. split; [|exact Hp].
  unfold fmt_int. replace (x <? 0) with false by (symmetry; apply Z.ltb_ge; lia).
  pose proof (read_fmt_uint 10 x ltac:(lia) ltac:(lia)) as R. unfold read_nat in R.
  destruct (fmt_uint 10 x) as [|c r] eqn:E; [reflexivity|]. destruct (all_digits 10 (c :: r)) eqn:A; [|discriminate].
  apply all_digits_no_slash, A.
Qed.
Lemma join_cons x y l : join (x :: y :: l) = fmt_int 10 x ++ SLASH :: join (y :: l).
Proof. reflexivity. Qed.
Lemma split_join l : l <> [] -> forallb is_byte l = true -> split (join l) = map (fmt_int 10) l.
Proof.
  induction l as [|x l IH]; [congruence|]. intros _ H. cbn [forallb] in H. apply andb_prop in H as [Hx Hl].
  apply is_byte_spec in Hx. destruct (fmt_byte_props x Hx) as (_ & Hs & _).
  destruct l as [|y l].
  - cbn [join map]. apply split_no_slash, Hs.
  - rewrite join_cons, split_app_slash by exact Hs. rewrite IH by (auto; discriminate). reflexivity.
Qed.
Lemma bytes_of_fmt l : forallb is_byte l = true -> bytes_of true (map (fmt_int 10) l) = Ok l.
Proof.
  induction l as [|x l IH]; [reflexivity|]. intros H. cbn [forallb] in H. apply andb_prop in H as [Hx Hl].
  apply is_byte_spec in Hx. destruct (fmt_byte_props x Hx) as (_ & _ & Hp).
  cbn [map bytes_of]. rewrite Hp. cbn [andb].
  replace ((x <? 0) || (255 <? x)) with false
    by (symmetry; apply orb_false_intro; [apply Z.ltb_ge|apply Z.ltb_ge]; lia).
  rewrite (IH Hl). rewrite Z.mod_small by lia. reflexivity.
Qed.
Lemma join_nonempty x l : 0 <= x <= 255 -> join (x :: l) <> [].
Proof.
  intros Hx. destruct (fmt_byte_props x Hx) as (Hne & _ & _). destruct l as [|y l]; [exact Hne|].
  rewrite join_cons. intros E. apply app_eq_nil in E as [E _]. exact (Hne E).
Qed.
Theorem byte_string_roundtrip l : forallb is_byte l = true -> byte_from_string true (join l) = Ok l.
Proof.
  intros H. destruct l as [|x l]; [reflexivity|].
  assert (Hx : 0 <= x <= 255) by (cbn [forallb] in H; apply andb_prop in H as [Hx _]; apply is_byte_spec, Hx).
  unfold byte_from_string. destruct (join (x :: l)) eqn:E; [exfalso; exact (join_nonempty x l Hx E)|]. rewrite <- E.
  rewrite split_join by (auto; discriminate). apply bytes_of_fmt, H.
Qed.

(* ---------------- (1) exact or error ---------------- *)
Section ExactOrError.
  Variable P : list Z -> res Z.                       (* time.ParseDuration, whatever it is *)

  Lemma is_quoted_intro b : Nat.leb (length b) 2 = false -> quoted_ends b = true -> is_quoted b = true.
  Proof. intros H1 H2. unfold is_quoted. rewrite H2, andb_true_r. apply Nat.leb_le. apply Nat.leb_gt in H1. lia. Qed.

  (* a decoded value is the value the token denotes *)
  Theorem dec_exact t tok v : dec P true t tok = Ok v -> reads P t tok = Some v.
  Proof.
    destruct t; cbn [dec reads].
    - (* JsInt64 *)
      unfold i64_unmarshal. destruct tok as [|c r] eqn:Et; [discriminate|]. rewrite <- Et.
      destruct (quoted_ends tok) eqn:Eq.
      + destruct (Nat.eqb (length tok) 1) eqn:El; [discriminate|].
        assert (Hq : is_quoted tok = true).
        { unfold is_quoted. rewrite Eq, andb_true_r. apply Nat.leb_le. apply Nat.eqb_neq in El. subst tok. cbn [length] in *. lia. }
        rewrite Hq. destruct (inner tok) as [|d s]; [intros H; inversion H; reflexivity|].
        destruct (parse_int 10 (d :: s)) as [z| |] eqn:Ep; cbn [rmap]; [|discriminate|discriminate].
        intros H. inversion H. rewrite (parse_int_read _ _ _ Ep). reflexivity.
      + replace (is_quoted tok) with false by (unfold is_quoted; rewrite Eq; symmetry; apply andb_false_r).
        destruct (parse_int 10 tok) as [z| |] eqn:Ep; cbn [rmap]; [|discriminate|discriminate].
        intros H. inversion H. rewrite (parse_int_read _ _ _ Ep). reflexivity.
    - (* JsUInt64 *)
      unfold u64_unmarshal. destruct (Nat.leb (length tok) 2) eqn:El; [discriminate|]. cbn [andb].
      destruct (quoted_ends tok) eqn:Eq; cbn [negb]; [|discriminate]. rewrite (is_quoted_intro tok El Eq).
      destruct (parse_uint 10 (inner tok)) as [z| |] eqn:Ep; cbn [rmap]; [|discriminate|discriminate].
      intros H. inversion H. rewrite (parse_uint_read _ _ _ Ep). reflexivity.
    - (* JsUnixTime *)
      unfold qint_unmarshal. destruct (Nat.leb (length tok) 2) eqn:El; [discriminate|]. cbn [andb].
      destruct (quoted_ends tok) eqn:Eq; cbn [negb]; [|discriminate]. rewrite (is_quoted_intro tok El Eq).
      destruct (parse_int 10 (inner tok)) as [z| |] eqn:Ep; cbn [rmap]; [|discriminate|discriminate].
      intros H. inversion H. rewrite (parse_int_read _ _ _ Ep). reflexivity.
    - (* JsNanoTime *)
      unfold qint_unmarshal. destruct (Nat.leb (length tok) 2) eqn:El; [discriminate|]. cbn [andb].
      destruct (quoted_ends tok) eqn:Eq; cbn [negb]; [|discriminate]. rewrite (is_quoted_intro tok El Eq).
      destruct (parse_int 10 (inner tok)) as [z| |] eqn:Ep; cbn [rmap]; [|discriminate|discriminate].
      intros H. inversion H. rewrite (parse_int_read _ _ _ Ep). cbn [omap]. rewrite vt_floor. reflexivity.
    - (* UnixStamp *)
      unfold qint_unmarshal. destruct (Nat.leb (length tok) 2) eqn:El; [discriminate|]. cbn [andb].
      destruct (quoted_ends tok) eqn:Eq; cbn [negb]; [|discriminate]. rewrite (is_quoted_intro tok El Eq).
      destruct (parse_int 10 (inner tok)) as [z| |] eqn:Ep; cbn [rmap]; [|discriminate|discriminate].
      intros H. inversion H. rewrite (parse_int_read _ _ _ Ep). reflexivity.
    - (* Duration *)
      unfold dur_unmarshal. destruct (Nat.leb (length tok) 2) eqn:El; [discriminate|]. cbn [andb].
      destruct (quoted_ends tok) eqn:Eq; cbn [negb]; [|discriminate]. rewrite (is_quoted_intro tok El Eq).
      destruct (P (inner tok)) as [z| |] eqn:Ep; cbn [rmap]; [|discriminate|discriminate].
      intros H. inversion H. reflexivity.
    - (* JsByte *)
      unfold byte_unmarshal. destruct (Nat.ltb (length tok) 2) eqn:El; [discriminate|]. cbn [andb].
      destruct (quoted_ends tok) eqn:Eq; cbn [negb]; [|discriminate].
      assert (Hq : is_quoted tok = true).
      { unfold is_quoted. rewrite Eq, andb_true_r. apply Nat.leb_le. apply Nat.ltb_ge in El. lia. }
      rewrite Hq. destruct (byte_from_string true (inner tok)) as [l| |] eqn:Ep; cbn [rmap]; [|discriminate|discriminate].
      intros H. inversion H. rewrite (byte_from_string_read _ _ Ep). reflexivity.
    - (* FromString *)
      destruct (byte_from_string true tok) as [l| |] eqn:Ep; cbn [rmap]; [|discriminate|discriminate].
      intros H. inversion H. rewrite (byte_from_string_read _ _ Ep). reflexivity.
    - (* hex.go *)
      unfold hex_parse. destruct signed.
      + destruct (parse_int base tok) as [z| |] eqn:Ep; cbn [rmap]; [|discriminate|discriminate].
        intros H. inversion H. rewrite (parse_int_read _ _ _ Ep). reflexivity.
      + destruct (parse_uint base tok) as [z| |] eqn:Ep; cbn [rmap]; [|discriminate|discriminate].
        intros H. inversion H. rewrite (parse_uint_read _ _ _ Ep). reflexivity.
  Qed.

  (* the only panic: JsInt64 on the lone quote character *)
  Theorem dec_panic t tok : (forall s, P s <> Panic) -> dec P true t tok = Panic -> t = JI64 /\ tok = [QUOTE].
  Proof.
    intros HP. destruct t; cbn [dec].
    - unfold i64_unmarshal. destruct tok as [|c r] eqn:Et; [discriminate|]. rewrite <- Et.
      destruct (quoted_ends tok) eqn:Eq.
      + destruct (Nat.eqb (length tok) 1) eqn:El.
        * intros _. split; [reflexivity|]. apply Nat.eqb_eq in El. subst tok. destruct r; [|discriminate].
          unfold quoted_ends in Eq. cbn [hd] in Eq. apply andb_prop in Eq as [Eq _]. apply Z.eqb_eq in Eq. now subst.
        * destruct (inner tok) as [|d s]; [discriminate|].
          pose proof (parse_int_no_panic 10 (d :: s)). destruct (parse_int 10 (d :: s)); cbn [rmap]; try discriminate; congruence.
      + pose proof (parse_int_no_panic 10 tok). destruct (parse_int 10 tok); cbn [rmap]; try discriminate; congruence.
    - unfold u64_unmarshal. destruct (Nat.leb (length tok) 2); [discriminate|]. destruct (true && negb (quoted_ends tok)); [discriminate|].
      pose proof (parse_uint_no_panic 10 (inner tok)). destruct (parse_uint 10 (inner tok)); cbn [rmap]; try discriminate; congruence.
    - unfold qint_unmarshal. destruct (Nat.leb (length tok) 2); [discriminate|]. destruct (true && negb (quoted_ends tok)); [discriminate|].
      pose proof (parse_int_no_panic 10 (inner tok)). destruct (parse_int 10 (inner tok)); cbn [rmap]; try discriminate; congruence.
    - unfold qint_unmarshal. destruct (Nat.leb (length tok) 2); [discriminate|]. destruct (true && negb (quoted_ends tok)); [discriminate|].
      pose proof (parse_int_no_panic 10 (inner tok)). destruct (parse_int 10 (inner tok)); cbn [rmap]; try discriminate; congruence.
    - unfold qint_unmarshal. destruct (Nat.leb (length tok) 2); [discriminate|]. destruct (true && negb (quoted_ends tok)); [discriminate|].
      pose proof (parse_int_no_panic 10 (inner tok)). destruct (parse_int 10 (inner tok)); cbn [rmap]; try discriminate; congruence.
    - unfold dur_unmarshal. destruct (Nat.leb (length tok) 2); [discriminate|]. destruct (true && negb (quoted_ends tok)); [discriminate|].
      pose proof (HP (inner tok)). destruct (P (inner tok)); cbn [rmap]; try discriminate; congruence.
    - unfold byte_unmarshal. destruct (Nat.ltb (length tok) 2); [discriminate|]. destruct (true && negb (quoted_ends tok)); [discriminate|].
      pose proof (byte_from_string_no_panic true (inner tok)). destruct (byte_from_string true (inner tok)); cbn [rmap]; try discriminate; congruence.
    - pose proof (byte_from_string_no_panic true tok). destruct (byte_from_string true tok); cbn [rmap]; try discriminate; congruence.
    - unfold hex_parse. destruct signed.
      + pose proof (parse_int_no_panic base tok). destruct (parse_int base tok); cbn [rmap]; try discriminate; congruence.
      + pose proof (parse_uint_no_panic base tok). destruct (parse_uint base tok); cbn [rmap]; try discriminate; congruence.
  Qed.

  Theorem dec_sound t tok : (forall s, P s <> Panic) -> dec_ok P t tok (dec P true t tok) = true.
  Proof.
    intros HP. destruct (dec P true t tok) as [v| |] eqn:E; cbn [dec_ok].
    - rewrite (dec_exact _ _ _ E). cbn [opt_eqb]. apply val_eqb_refl.
    - reflexivity.
    - destruct (dec_panic _ _ HP E) as [-> ->]. reflexivity.
  Qed.
End ExactOrError.

(* ---------------- (2) round trips ---------------- *)
Lemma fmt_int_nonempty base v : 2 <= base <= 36 -> - 2 ^ 63 <= v < 2 ^ 63 -> fmt_int base v <> [].
Proof. intros Hb Hv E. pose proof (parse_fmt_int base v Hb Hv) as H. rewrite E in H. discriminate. Qed.
Lemma fmt_uint_nonempty base v : 2 <= base <= 36 -> 0 <= v < 2 ^ 64 -> fmt_uint base v <> [].
Proof. intros Hb Hv E. pose proof (parse_fmt_uint base v Hb Hv) as H. rewrite E in H. unfold parse_uint in H. cbn in H. discriminate. Qed.
Lemma leb_wrapq_nonempty s : s <> [] -> Nat.leb (length (wrapq s)) 2 = false.
Proof. intros H. rewrite length_wrapq. apply Nat.leb_gt. destruct s; [congruence|cbn [length]; lia]. Qed.

Theorem i64_roundtrip v : - 2 ^ 63 <= v < 2 ^ 63 -> i64_unmarshal (i64_marshal v) = Ok v.
Proof.
  intros Hv. unfold i64_unmarshal, i64_marshal. rewrite quoted_ends_wrapq, inner_wrapq, length_wrapq.
  unfold wrapq at 1. cbn [Nat.eqb].
  pose proof (fmt_int_nonempty 10 v ltac:(lia) Hv) as Hne.
  destruct (fmt_int 10 v) as [|c r] eqn:E; [congruence|]. rewrite <- E.
  replace (Nat.eqb (S (length (fmt_int 10 v))) 0) with false by (symmetry; apply Nat.eqb_neq; lia).
  apply parse_fmt_int; [lia|exact Hv].
Qed.
Theorem u64_roundtrip v : 0 <= v < 2 ^ 64 -> u64_unmarshal true (u64_marshal v) = Ok v.
Proof.
  intros Hv. unfold u64_unmarshal, u64_marshal.
  rewrite (leb_wrapq_nonempty _ (fmt_uint_nonempty 10 v ltac:(lia) Hv)), quoted_ends_wrapq, inner_wrapq. cbn [andb negb].
  apply parse_fmt_uint; [lia|exact Hv].
Qed.
Theorem qint_roundtrip v : - 2 ^ 63 <= v < 2 ^ 63 -> qint_unmarshal true (wrapq (fmt_int 10 v)) = Ok v.
Proof.
  intros Hv. unfold qint_unmarshal.
  rewrite (leb_wrapq_nonempty _ (fmt_int_nonempty 10 v ltac:(lia) Hv)), quoted_ends_wrapq, inner_wrapq. cbn [andb negb].
  apply parse_fmt_int; [lia|exact Hv].
Qed.
Theorem byte_roundtrip l : forallb is_byte l = true -> byte_unmarshal true true (byte_marshal l) = Ok l.
Proof.
  intros H. unfold byte_unmarshal, byte_marshal. rewrite length_wrapq, quoted_ends_wrapq, inner_wrapq. cbn [Nat.ltb Nat.leb andb negb].
  apply byte_string_roundtrip, H.
Qed.

Section RoundTrip.
  Variable P : list Z -> res Z.          (* time.ParseDuration *)
  Variable S : Z -> list Z.              (* time.Duration.String *)

  Theorem dur_roundtrip d : S d <> [] -> P (S d) = Ok d -> dur_unmarshal P true (dur_marshal S d) = Ok d.
  Proof.
    intros Hne Hp. unfold dur_unmarshal, dur_marshal. rewrite (leb_wrapq_nonempty _ Hne), quoted_ends_wrapq, inner_wrapq. exact Hp.
  Qed.

  (* decode (encode v) = v, for every value of every type (instants of the second form lose their nanoseconds) *)
  Theorem enc_dec t v out : in_dom t v = true ->
    (forall d, t = JDur -> v = VZ d -> S d <> [] /\ P (S d) = Ok d) ->
    enc S t v = Some out -> dec P true t out = Ok (canon t v).
  Proof.
    intros Hd Hstd. destruct t, v; cbn [enc in_dom canon] in *; try discriminate; intros H; inversion H; subst out; clear H; cbn [dec].
    - apply in_i64_spec in Hd. rewrite i64_roundtrip by exact Hd. reflexivity.
    - apply in_u64_spec in Hd. rewrite u64_roundtrip by exact Hd. reflexivity.
    - apply andb_prop in Hd as [Hs Hn]. apply in_i64_spec in Hs. rewrite qint_roundtrip by exact Hs. reflexivity.
    - apply andb_prop in Hd as [Hn Hs]. apply in_i64_spec in Hs. apply in_ns_spec in Hn.
      unfold unix_nano. rewrite wrap64_id by exact Hs. rewrite qint_roundtrip by exact Hs. cbn [rmap].
      rewrite vt_floor. rewrite floor_time_compose by exact Hn. reflexivity.
    - apply in_i64_spec in Hd. rewrite qint_roundtrip by exact Hd. reflexivity.
    - destruct (Hstd z eq_refl eq_refl) as [Hne Hp]. rewrite dur_roundtrip by assumption. reflexivity.
    - rewrite byte_roundtrip by exact Hd. reflexivity.
    - rewrite byte_string_roundtrip by exact Hd. reflexivity.
    - apply andb_prop in Hd as [Hb Hz]. apply andb_prop in Hb as [Hb1 Hb2]. apply Z.leb_le in Hb1. apply Z.leb_le in Hb2.
      unfold hex_parse, hex_fmt. destruct signed.
      + apply in_i64_spec in Hz. rewrite parse_fmt_int by lia. reflexivity.
      + apply in_u64_spec in Hz. rewrite parse_fmt_uint by lia. reflexivity.
  Qed.
End RoundTrip.

(* ---------------- (3) SQL forms ---------------- *)
Section Sql.
  Variable D : list Z -> res (list Z).   (* base64.RawStdEncoding.DecodeString *)
  Variable E : list Z -> list Z.         (* base64.RawStdEncoding.EncodeToString *)

  Lemma int_arg_ts v z : int_arg v = Some z -> scan_ts v = z.
  Proof.
    destruct v; cbn [int_arg scan_ts]; try discriminate; try (intros H; inversion H; reflexivity).
    - destruct ((0 <=? z0) && (z0 <? 2 ^ 63)) eqn:Ez; [|discriminate]. intros H. inversion H; subst.
      apply andb_prop in Ez as [A B]. apply Z.leb_le in A. apply Z.ltb_lt in B. apply wrap64_id. lia.
    - destruct ((0 <=? z0) && (z0 <? 2 ^ 63)) eqn:Ez; [|discriminate]. intros H. inversion H; subst.
      apply andb_prop in Ez as [A B]. apply Z.leb_le in A. apply Z.ltb_lt in B. apply wrap64_id. lia.
  Qed.

  (* Scan never mis-reads an argument it claims to understand *)
  Theorem scan_sound k old v : (forall s, D s <> Panic) -> scan_ok D k v (scan D k old v) = true.
  Proof.
    intros HD. destruct k; cbn [scan scan_ok].
    - destruct (int_arg v) as [z|] eqn:Ei; [|reflexivity]. rewrite (int_arg_ts _ _ Ei). cbn [res_eqb]. apply val_eqb_refl.
    - destruct (int_arg v) as [z|] eqn:Ei; [|reflexivity]. rewrite (int_arg_ts _ _ Ei). rewrite vt_floor. cbn [res_eqb]. apply val_eqb_refl.
    - destruct v; try reflexivity. cbn [stamp_scan res_eqb]. apply val_eqb_refl.
    - destruct v; try reflexivity. cbn [stamp_scan res_eqb]. apply val_eqb_refl.
    - destruct v; try reflexivity.
      + pose proof (HD l). destruct (D l) eqn:Ed; cbn [rmap]; [|reflexivity|congruence]. cbn [rmap res_eqb]. apply val_eqb_refl.
      + pose proof (HD l). destruct (D l) eqn:Ed; cbn [rmap]; [|reflexivity|congruence]. cbn [rmap res_eqb]. apply val_eqb_refl.
  Qed.

  (* Scan (Value v) = v *)
  Theorem value_scan k v old out : sql_dom k v = true ->
    (forall l, k = KBase64 -> v = VL l -> D (E l) = Ok l) ->
    value_of E k v = Some out -> scan D k old out = Ok (sql_canon k v).
  Proof.
    intros Hd Hstd. destruct k, v; cbn [value_of sql_dom sql_canon] in *; try discriminate; intros H; inversion H; subst out; clear H; cbn [scan scan_ts].
    - reflexivity.
    - apply andb_prop in Hd as [Hn Hs]. apply in_i64_spec in Hs. apply in_ns_spec in Hn.
      unfold unix_nano. rewrite wrap64_id by exact Hs. rewrite vt_floor, floor_time_compose by exact Hn. reflexivity.
    - reflexivity.
    - reflexivity.
    - rewrite (Hstd l eq_refl eq_refl). reflexivity.
  Qed.
End Sql.

(* ---------------- (4) the observed stdlib codecs never panic ---------------- *)
Lemma orc_dur_parse_no_panic o s : orc_dur_parse o s <> Panic.
Proof. unfold orc_dur_parse. destruct (assoc zlist_eqb s (o_parse o)) as [[[z|l|a b]| |]|]; discriminate. Qed.
Lemma orc_b64_dec_no_panic o s : orc_b64_dec o s <> Panic.
Proof. unfold orc_b64_dec. destruct (assoc zlist_eqb s (o_parse o)) as [[[z|l|a b]| |]|]; discriminate. Qed.

Theorem accept0_sound c : accept0 c = true -> holds0 c = true.
Proof.
  intros Hacc. unfold accept0 in Hacc. apply andb_prop in Hacc as [Hacc _]. revert Hacc.
  destruct c as [t tok o obs|t v o out back|v o obs|k old v o obs|k v old o out back|items]; cbn [accept_core holds0]; [| | | | |discriminate].
  - intros H. apply andb_prop in H as [_ H]. rewrite forallb_forall in *. intros r Hr. specialize (H r Hr).
    apply res_val_eqb_eq in H. subst r. apply dec_sound. apply orc_dur_parse_no_panic.
  - intros H. apply andb_prop in H as [H Hstd]. apply andb_prop in H as [He Hb].
    destruct (in_dom t v) eqn:Ed; [|reflexivity]. cbn [negb orb].
    apply (opt_eqb_eq zlist_eqb zlist_eqb_eq) in He. apply res_val_eqb_eq in Hb. subst back.
    rewrite (enc_dec (orc_dur_parse o) (orc_dur_show o) t v out Ed); [apply res_val_eqb_refl| |exact He].
    intros d -> ->. cbn [std_dur_ok] in Hstd. apply andb_prop in Hstd as [H1 H2].
    split.
    + intros E0. rewrite E0 in H1. discriminate.
    + apply (res_eqb_eq Z.eqb) in H2; [exact H2|]. intros a b Hab. apply Z.eqb_eq, Hab.
  - intros H. apply res_val_eqb_eq in H. subst obs. destruct v as [s|]; cbn [dur_toml rmap]; [|reflexivity].
    pose proof (orc_dur_parse_no_panic o s). destruct (orc_dur_parse o s) as [d| |] eqn:Ep; cbn [rmap]; [|reflexivity|congruence].
    cbn [res_eqb]. apply Z.eqb_refl.
  - intros H. apply res_val_eqb_eq in H. subst obs. apply scan_sound. apply orc_b64_dec_no_panic.
  - intros H. apply andb_prop in H as [H Hstd]. apply andb_prop in H as [He Hb].
    destruct (sql_dom k v) eqn:Ed; [|reflexivity]. cbn [negb orb].
    apply (opt_eqb_eq sqlv_eqb sqlv_eqb_eq) in He. apply res_val_eqb_eq in Hb. subst back.
    rewrite (value_scan (orc_b64_dec o) (orc_b64_enc o) k v old out Ed); [apply res_val_eqb_refl| |exact He].
    intros l -> ->. cbn [std_b64_ok] in Hstd. apply (res_eqb_eq zlist_eqb zlist_eqb_eq) in Hstd. exact Hstd.
Qed.

Theorem accept_sound c : accept c = true -> holds c = true.
Proof.
  destruct c; cbn [accept holds]; try apply accept0_sound.
  intros H. apply andb_prop in H as [_ H]. rewrite forallb_forall in *. intros i Hi. apply accept0_sound, H, Hi.
Qed.

(* Base64Bytes with the concrete codec of C20_Base64.v: Scan (Value b) = b without any hypothesis *)
Theorem base64_value_scan l old : forallb is_byte l = true ->
  exists out, value_of b64_enc KBase64 (VL l) = Some out /\ scan b64_dec KBase64 old out = Ok (VL l).
Proof.
  intros H. exists (SStr (b64_enc l)). split; [reflexivity|]. cbn [scan]. rewrite b64_roundtrip by exact H. reflexivity.
Qed.

(* ---------------- (5) no false rejection: a token that denotes a number that fits is decoded ---------------- *)
Lemma read_nat_nonempty base s v : read_nat base s = Some v -> s <> [].
Proof. intros H E. subst. discriminate. Qed.
Lemma read_int_nonempty base s v : read_int base s = Some v -> s <> [].
Proof. intros H E. subst. discriminate. Qed.

Theorem u64_complete s v : read_nat 10 s = Some v -> v < 2 ^ 64 -> u64_unmarshal true (wrapq s) = Ok v.
Proof.
  intros H Hv. unfold u64_unmarshal. rewrite (leb_wrapq_nonempty _ (read_nat_nonempty _ _ _ H)), quoted_ends_wrapq, inner_wrapq.
  cbn [andb negb]. apply parse_uint_complete; assumption.
Qed.
Theorem qint_complete s v : read_int 10 s = Some v -> - 2 ^ 63 <= v < 2 ^ 63 -> qint_unmarshal true (wrapq s) = Ok v.
Proof.
  intros H Hv. unfold qint_unmarshal. rewrite (leb_wrapq_nonempty _ (read_int_nonempty _ _ _ H)), quoted_ends_wrapq, inner_wrapq.
  cbn [andb negb]. apply parse_int_complete; [lia|assumption|assumption].
Qed.
Theorem i64_complete_quoted s v : read_int 10 s = Some v -> - 2 ^ 63 <= v < 2 ^ 63 -> i64_unmarshal (wrapq s) = Ok v.
Proof.
  intros H Hv. unfold i64_unmarshal. rewrite quoted_ends_wrapq, inner_wrapq, length_wrapq. unfold wrapq at 1.
  cbn [Nat.eqb]. pose proof (read_int_nonempty _ _ _ H) as Hne. destruct s as [|c r] eqn:E; [congruence|].
  cbn [length Nat.eqb]. apply parse_int_complete; [lia|assumption|assumption].
Qed.
Theorem i64_complete_bare b v : quoted_ends b = false -> read_int 10 b = Some v -> - 2 ^ 63 <= v < 2 ^ 63 -> i64_unmarshal b = Ok v.
Proof.
  intros Hq H Hv. unfold i64_unmarshal. pose proof (read_int_nonempty _ _ _ H) as Hne. destruct b as [|c r] eqn:E; [congruence|].
  rewrite Hq. apply parse_int_complete; [lia|assumption|assumption].
Qed.

(* the lb == 2 branch of JsUInt64.UnmarshalJSON sits behind lb <= 2: it can be deleted without changing anything *)
Definition u64_unmarshal_coded (checked : bool) (b : list Z) : res Z :=
  if Nat.leb (length b) 2 then Err
  else if Nat.eqb (length b) 2 then (if zlist_eqb b [QUOTE; QUOTE] then Ok 0 else Err)
  else if checked && negb (quoted_ends b) then Err
  else parse_uint 10 (inner b).
Theorem u64_len2_branch_unreachable c b : u64_unmarshal_coded c b = u64_unmarshal c b.
Proof.
  unfold u64_unmarshal_coded, u64_unmarshal. destruct (Nat.leb (length b) 2) eqn:E; [reflexivity|].
  apply Nat.leb_gt in E. replace (Nat.eqb (length b) 2) with false by (symmetry; apply Nat.eqb_neq; lia). reflexivity.
Qed.

(* ---------------- (6) the pinned (pre-fix) decoders violate exact-or-error ---------------- *)
Section Refuted.
  Variable P : list Z -> res Z.
  (* the bare JSON number 123 decodes to 2; 1234 to the instant 23 s *)
  Theorem prefix_u64_refuted : dec P false JU64 [49; 50; 51] = Ok (VZ 2) /\ reads P JU64 [49; 50; 51] = None.
  Proof. split; vm_compute; reflexivity. Qed.
  Theorem prefix_unixtime_refuted : dec P false JUnixTime [49; 50; 51; 52] = Ok (VT 23 0) /\ reads P JUnixTime [49; 50; 51; 52] = None.
  Proof. split; vm_compute; reflexivity. Qed.
  Theorem prefix_stamp_refuted : dec P false JStamp [45; 49; 50] = Ok (VZ 1) /\ reads P JStamp [45; 49; 50] = None.
  Proof. split; vm_compute; reflexivity. Qed.
  (* Duration: the bare number 101 decodes to 0 as soon as ParseDuration reads "0" as 0 (which it does) *)
  Theorem prefix_dur_refuted : P [48] = Ok 0 -> dec P false JDur [49; 48; 49] = Ok (VZ 0) /\ reads P JDur [49; 48; 49] = None.
  Proof. intros H. split; [|reflexivity]. cbn [dec]. unfold dur_unmarshal. cbn. rewrite H. reflexivity. Qed.
  (* JsByte: "256/-1/7" decodes to [0,255,7]; the bare number 1234 to [23] *)
  Theorem prefix_byte_range_refuted :
    dec P false XByteStr [50; 53; 54; 47; 45; 49; 47; 55] = Ok (VL [0; 255; 7]) /\ reads P XByteStr [50; 53; 54; 47; 45; 49; 47; 55] = None.
  Proof. split; vm_compute; reflexivity. Qed.
  Theorem prefix_byte_quote_refuted : dec P false JByte [49; 50; 51; 52] = Ok (VL [23]) /\ reads P JByte [49; 50; 51; 52] = None.
  Proof. split; vm_compute; reflexivity. Qed.
  (* the repaired decoders reject all of them *)
  Theorem fixed_rejects :
    dec P true JU64 [49; 50; 51] = Err /\ dec P true JUnixTime [49; 50; 51; 52] = Err /\ dec P true JStamp [45; 49; 50] = Err
    /\ dec P true JDur [49; 48; 49] = Err /\ dec P true XByteStr [50; 53; 54; 47; 45; 49; 47; 55] = Err /\ dec P true JByte [49; 50; 51; 52] = Err.
  Proof. repeat split; vm_compute; reflexivity. Qed.
End Refuted.

(* non-vacuity: the hypotheses of the round-trip theorems are satisfiable, at the extremes *)
Example roundtrip_extremes :
  in_dom JI64 (VZ (- 2 ^ 63)) = true /\ in_dom JU64 (VZ (2 ^ 64 - 1)) = true /\ in_dom JNanoTime (VT (-9223372037) 145224192) = true
  /\ in_dom JNanoTime (VT 9223372036 854775807) = true /\ in_dom JByte (VL []) = true /\ in_dom JByte (VL [255]) = true
  /\ in_dom (XHex true 32) (VZ (- 2 ^ 63)) = true /\ in_dom JDur (VZ (- 2 ^ 63)) = true
  /\ dec (fun _ => Err) true JI64 (i64_marshal (- 2 ^ 63)) = Ok (VZ (- 2 ^ 63))
  /\ dec (fun _ => Err) true JNanoTime (wrapq (fmt_int 10 (unix_nano (-9223372037) 145224192))) = Ok (VT (-9223372037) 145224192).
Proof. vm_compute. repeat split. Qed.
