(* C17: a sharded container is, shard by shard, the single container run on the sub-history routed to that
   shard (any container, any routing); if the container is key-local, every answer of the sharded container
   equals the answer of the unsharded one.  Instance: the map with Get / Set / Delete / Exist *)
From Coq Require Import List Bool Arith Lia.
Import ListNotations.

Definition upd {A} (f : nat -> A) (k : nat) (v : A) : nat -> A := fun x => if Nat.eqb x k then v else f x.

Section Shard.
Variables K S O R : Type.
Variable key : O -> K.
Variable step : S -> O -> S * R.
Variable init : S.
Variable route : K -> nat.          (* any routing: modulo, xxhash partition, ... *)

Definition run_state (s : S) (h : list O) : S := fold_left (fun s o => fst (step s o)) h s.
Definition result (h : list O) (o : O) : R := snd (step (run_state init h) o).

Definition sh_step (sh : nat -> S) (o : O) : (nat -> S) * R :=
  let i := route (key o) in (upd sh i (fst (step (sh i) o)), snd (step (sh i) o)).
Definition sh_run (sh : nat -> S) (h : list O) : nat -> S := fold_left (fun sh o => fst (sh_step sh o)) h sh.
Definition sh_result (h : list O) (o : O) : R := snd (sh_step (sh_run (fun _ => init) h) o).

(* the operations routed to shard i, in order *)
Definition sub (i : nat) (h : list O) : list O := filter (fun o => Nat.eqb (route (key o)) i) h.

Lemma projection_gen i : forall h sh, sh_run sh h i = run_state (sh i) (sub i h).
Proof.
  induction h as [|o h IH]; intros sh; [reflexivity|].
  cbn [sh_run fold_left sub filter]. change (fold_left (fun sh o => fst (sh_step sh o)) h (fst (sh_step sh o))) with (sh_run (fst (sh_step sh o)) h).
  rewrite IH. cbn [sh_step fst]. unfold upd at 1. rewrite Nat.eqb_sym.
  destruct (Nat.eqb (route (key o)) i) eqn:E.
  - apply Nat.eqb_eq in E. subst i. cbn [run_state fold_left]. reflexivity.
  - reflexivity.
Qed.

Theorem sharded_projection h i : sh_run (fun _ => init) h i = run_state init (sub i h).
Proof. apply projection_gen. Qed.

Theorem sharded_result h o : sh_result h o = result (sub (route (key o)) h) o.
Proof. unfold sh_result, sh_step, result. cbn [snd]. rewrite sharded_projection. reflexivity. Qed.

(* ---- key-local containers ---- *)
Variable keq : K -> K -> bool.
Hypothesis keq_spec : forall a b, keq a b = true <-> a = b.
Definition same (k : K) (h : list O) : list O := filter (fun o => keq (key o) k) h.
(* the answer to an operation depends only on the earlier operations on the same key *)
Hypothesis klocal : forall h o, result h o = result (same (key o) h) o.

Lemma same_sub k h : same k (sub (route k) h) = same k h.
Proof.
  unfold same, sub. induction h as [|o h IH]; [reflexivity|]. cbn [filter].
  destruct (keq (key o) k) eqn:E.
  - assert (Hr : Nat.eqb (route (key o)) (route k) = true) by (apply Nat.eqb_eq; f_equal; apply keq_spec; exact E).
    rewrite Hr. cbn [filter]. rewrite E. f_equal. exact IH.
  - destruct (Nat.eqb (route (key o)) (route k)); [cbn [filter]; rewrite E|]; exact IH.
Qed.

Theorem sharded_equals_unsharded h o : sh_result h o = result h o.
Proof. rewrite sharded_result, klocal, same_sub, <- klocal. reflexivity. Qed.
End Shard.

(* ---- instance: the map ---- *)
Section MapInst.
Variables K V : Type.
Variable keq : K -> K -> bool.
Hypothesis keq_spec : forall a b, keq a b = true <-> a = b.
Inductive mop := Get (k : K) | Set_ (k : K) (v : V) | Delete (k : K) | Exist (k : K).
Inductive mres := RVal (v : option V) | RUnit | RBool (b : bool).
Definition mkey (o : mop) : K := match o with Get k | Set_ k _ | Delete k | Exist k => k end.
Definition mstate := K -> option V.
Definition mset (s : mstate) (k : K) (v : option V) : mstate := fun x => if keq x k then v else s x.
Definition mstep (s : mstate) (o : mop) : mstate * mres :=
  match o with
  | Get k => (s, RVal (s k))
  | Set_ k v => (mset s k (Some v), RUnit)
  | Delete k => (mset s k None, RUnit)
  | Exist k => (s, RBool (match s k with Some _ => true | None => false end))
  end.
Definition mempty : mstate := fun _ => None.

Lemma keq_refl k : keq k k = true.
Proof. apply keq_spec. reflexivity. Qed.

(* the value stored under k depends only on the operations on k *)
Lemma at_key k : forall h s1 s2, s1 k = s2 k ->
  run_state _ _ _ mstep s1 h k = run_state _ _ _ mstep s2 (same _ _ mkey keq k h) k.
Proof.
  induction h as [|o h IH]; intros s1 s2 E; [exact E|].
  cbn [run_state fold_left same filter].
  change (fold_left (fun s o1 => fst (mstep s o1)) h (fst (mstep s1 o))) with (run_state _ _ _ mstep (fst (mstep s1 o)) h).
  destruct (keq (mkey o) k) eqn:Ek.
  - cbn [fold_left]. change (fold_left (fun s o1 => fst (mstep s o1)) (filter (fun o' => keq (mkey o') k) h) (fst (mstep s2 o)))
      with (run_state _ _ _ mstep (fst (mstep s2 o)) (same _ _ mkey keq k h)).
    apply IH. destruct o as [k0|k0 v|k0|k0]; cbn [mstep fst mkey] in *; try exact E; unfold mset; (destruct (keq k k0); [reflexivity|exact E]).
  - change (fold_left (fun s o1 => fst (mstep s o1)) (filter (fun o' => keq (mkey o') k) h) s2)
      with (run_state _ _ _ mstep s2 (same _ _ mkey keq k h)).
    apply IH. rewrite <- E. destruct o as [k0|k0 v|k0|k0]; cbn [mstep fst mkey] in *; try reflexivity; unfold mset.
    + destruct (keq k k0) eqn:E2; [|reflexivity]. apply keq_spec in E2. subst. rewrite keq_refl in Ek. discriminate.
    + destruct (keq k k0) eqn:E2; [|reflexivity]. apply keq_spec in E2. subst. rewrite keq_refl in Ek. discriminate.
Qed.

Lemma map_klocal h o : result _ _ _ mstep mempty h o = result _ _ _ mstep mempty (same _ _ mkey keq (mkey o) h) o.
Proof.
  unfold result. pose proof (at_key (mkey o) h mempty mempty eq_refl) as E.
  destruct o as [k|k v|k|k]; cbn [mstep snd mkey] in *; try reflexivity; rewrite E; reflexivity.
Qed.

(* a sharded map answers every Get / Set / Delete / Exist exactly as the unsharded map, for every routing *)
Theorem sharded_map_equals_map (route : K -> nat) h o :
  sh_result _ _ _ _ mkey mstep mempty route h o = result _ _ _ mstep mempty h o.
Proof. apply (sharded_equals_unsharded _ _ _ _ mkey mstep mempty route keq keq_spec map_klocal). Qed.
End MapInst.

Print Assumptions sharded_projection.
Print Assumptions sharded_map_equals_map.
