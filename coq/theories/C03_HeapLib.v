(* C03, layer H: the footprint of a tree in the store, framing, fuel, and the separation the B-tree invariant gives for
   free: a store tree whose functional value is shaped, has no empty node below the root and a strictly sorted
   in-order list visits every address once (no sharing inside one tree, no cycle). *)
From Coq Require Import ZArith List Lia Bool Sorting.Sorted.
Require Import C03_Model C03_D C03_Sel C03_Cow C03_Heap.
Import ListNotations.
Open Scope nat_scope.

(* ---------------- all_some as Forall2 ---------------- *)
Lemma all_some_F2 {A B} (g : A -> option B) : forall l cs,
  all_some (map g l) = Some cs <-> Forall2 (fun x c => g x = Some c) l cs.
Proof.
  induction l as [|x l IH]; intros cs; cbn [map all_some].
  - split; [intros H; inversion H; constructor|intros H; inversion H; reflexivity].
  - destruct (g x) as [y|] eqn:E.
    + destruct (all_some (map g l)) as [ys|] eqn:E2.
      * split; [intros H; inversion H; subst; constructor; [exact E|apply IH; reflexivity]|].
        intros H. inversion H as [|? c ? cs' Hc Hr]; subst. apply IH in Hr. rewrite E in Hc. inversion Hc; subst. congruence.
      * split; [discriminate|]. intros H. inversion H as [|? c ? cs' Hc Hr]; subst. apply IH in Hr. discriminate.
    + split; [discriminate|]. intros H. inversion H; subst. congruence.
Qed.

Lemma abs_S f h a t : abs (S f) h a = Some t <->
  exists n cs, h a = Some n /\ Forall2 (fun k c => abs f h k = Some c) (kids n) cs /\ t = INode (hits n) cs.
Proof.
  cbn [abs]. destruct (h a) as [n|].
  - destruct (all_some (map (abs f h) (kids n))) as [cs|] eqn:E.
    + split; [intros H; inversion H; subst; exists n, cs; split; [reflexivity|split; [apply all_some_F2; exact E|reflexivity]]|].
      intros (n' & cs' & Hn & HF & ->). inversion Hn; subst n'. apply all_some_F2 in HF. rewrite E in HF. inversion HF; reflexivity.
    + split; [discriminate|]. intros (n' & cs' & Hn & HF & ->). inversion Hn; subst n'. apply all_some_F2 in HF. congruence.
  - split; [discriminate|]. intros (n' & cs' & Hn & _). discriminate.
Qed.

(* ---------------- the footprint ---------------- *)
Fixpoint addrs (f : nat) (h : heap) (a : addr) : list addr :=
  match f with
  | O => []
  | S f' => match h a with None => [] | Some n => a :: flat_map (addrs f' h) (kids n) end
  end.

Lemma addrs_alloc : forall f h a x, In x (addrs f h a) -> h x <> None.
Proof.
  induction f as [|f IH]; intros h a x H; [destruct H|]. cbn [addrs] in H. destruct (h a) as [n|] eqn:E; [|destruct H].
  destruct H as [<-|H]; [congruence|]. apply in_flat_map in H. destruct H as (k & _ & H). apply (IH h k x H).
Qed.

Lemma addrs_kid f h a n k x : h a = Some n -> In k (kids n) -> In x (addrs f h k) -> In x (addrs (S f) h a).
Proof. intros Ha Hk Hx. cbn [addrs]. rewrite Ha. right. apply in_flat_map. exists k. auto. Qed.

Lemma addrs_self f h a n : h a = Some n -> In a (addrs (S f) h a).
Proof. intros Ha. cbn [addrs]. rewrite Ha. left. reflexivity. Qed.

(* what agrees on the footprint has the same tree and the same footprint *)
Lemma frame_abs : forall f h h' a t, abs f h a = Some t -> (forall x, In x (addrs f h a) -> h' x = h x) ->
  abs f h' a = Some t /\ addrs f h' a = addrs f h a.
Proof.
  induction f as [|f IH]; intros h h' a t Ha Hag; [discriminate|].
  apply abs_S in Ha. destruct Ha as (n & cs & Hn & HF & ->).
  assert (Hn' : h' a = Some n) by (rewrite (Hag a (addrs_self f h a n Hn)); exact Hn).
  assert (Hk : forall k, In k (kids n) -> forall x, In x (addrs f h k) -> h' x = h x).
  { intros k Hk x Hx. apply Hag. apply (addrs_kid f h a n k x Hn Hk Hx). }
  assert (HF' : Forall2 (fun k c => abs f h' k = Some c) (kids n) cs /\ flat_map (addrs f h') (kids n) = flat_map (addrs f h) (kids n)).
  { clear Hn Hn' Hag. revert Hk. induction HF as [|k c ks cs' Hkc _ IHF]; intros Hk; [split; [constructor|reflexivity]|].
    destruct (IH h h' k c Hkc (Hk k (or_introl eq_refl))) as [A B].
    destruct (IHF (fun k' Hk' => Hk k' (or_intror Hk'))) as [C D].
    split; [constructor; assumption|]. cbn [flat_map]. rewrite B, D. reflexivity. }
  destruct HF' as [HF' Hfm]. split.
  - apply abs_S. exists n, cs. auto.
  - cbn [addrs]. rewrite Hn, Hn', Hfm. reflexivity.
Qed.

(* more fuel changes nothing *)
Lemma abs_fuel_S : forall f h a t, abs f h a = Some t -> abs (S f) h a = Some t /\ addrs (S f) h a = addrs f h a.
Proof.
  induction f as [|f IH]; intros h a t Ha; [discriminate|].
  apply abs_S in Ha. destruct Ha as (n & cs & Hn & HF & ->).
  assert (HF' : Forall2 (fun k c => abs (S f) h k = Some c) (kids n) cs /\ flat_map (addrs (S f) h) (kids n) = flat_map (addrs f h) (kids n)).
  { clear Hn. induction HF as [|k c ks cs' Hkc _ [C D]]; [split; [constructor|reflexivity]|].
    destruct (IH h k c Hkc) as [A B]. split; [constructor; assumption|]. cbn [flat_map]. rewrite B, D. reflexivity. }
  destruct HF' as [HF' Hfm]. split.
  - apply abs_S. exists n, cs. auto.
  - change (addrs (S (S f)) h a) with (match h a with None => [] | Some n => a :: flat_map (addrs (S f) h) (kids n) end).
    rewrite Hn, Hfm. cbn [addrs]. rewrite Hn. reflexivity.
Qed.
Lemma abs_fuel_le f f' h a t : f <= f' -> abs f h a = Some t -> abs f' h a = Some t /\ addrs f' h a = addrs f h a.
Proof.
  intros Hle Ha. induction Hle as [|f' Hle IH]; [auto|]. destruct IH as [A B].
  destruct (abs_fuel_S f' h a t A) as [C D]. split; [exact C|congruence].
Qed.
Lemma abs_fuel_irrel f1 f2 h a t1 t2 : abs f1 h a = Some t1 -> abs f2 h a = Some t2 -> t1 = t2.
Proof.
  intros H1 H2. destruct (Nat.le_ge_cases f1 f2) as [Hle|Hle].
  - destruct (abs_fuel_le f1 f2 h a t1 Hle H1) as [A _]. congruence.
  - destruct (abs_fuel_le f2 f1 h a t2 Hle H2) as [A _]. congruence.
Qed.

(* ---------------- no cycle through the top node ---------------- *)
Lemma flat_map_len_in {A B} (g : A -> list B) l x : In x l -> length (g x) <= length (flat_map g l).
Proof. induction l as [|y l IH]; intros H; [destruct H|]. cbn [flat_map]. rewrite app_length. destruct H as [->|H]; [lia|specialize (IH H); lia]. Qed.

Lemma sub_fp : forall f h a t x, abs f h a = Some t -> In x (addrs f h a) ->
  exists f' t', f' <= f /\ abs f' h x = Some t' /\ length (addrs f' h x) <= length (addrs f h a).
Proof.
  induction f as [|f IH]; intros h a t x Ha Hx; [discriminate|].
  pose proof Ha as Ha0. apply abs_S in Ha. destruct Ha as (n & cs & Hn & HF & ->).
  cbn [addrs] in Hx. rewrite Hn in Hx. destruct Hx as [<-|Hx].
  - exists (S f), (INode (hits n) cs). split; [lia|split; [exact Ha0|lia]].
  - apply in_flat_map in Hx. destruct Hx as (k & Hk & Hx).
    assert (Hkc : exists c, abs f h k = Some c).
    { clear - HF Hk. induction HF as [|k' c ks cs' Hkc _ IHF]; [destruct Hk|]. destruct Hk as [->|Hk]; [eauto|auto]. }
    destruct Hkc as [c Hkc]. destruct (IH h k c x Hkc Hx) as (f' & t' & Hle & Ht' & Hlen).
    exists f', t'. split; [lia|split; [exact Ht'|]]. cbn [addrs]. rewrite Hn. cbn [length].
    pose proof (flat_map_len_in (addrs f h) (kids n) k Hk). lia.
Qed.

Lemma top_not_below f h a t n : abs (S f) h a = Some t -> h a = Some n -> ~ In a (flat_map (addrs f h) (kids n)).
Proof.
  intros Ha Hn Hin. pose proof Ha as Ha0. apply abs_S in Ha. destruct Ha as (n' & cs & Hn' & HF & ->).
  rewrite Hn in Hn'. inversion Hn'; subst n'. apply in_flat_map in Hin. destruct Hin as (k & Hk & Hx).
  assert (Hkc : exists c, abs f h k = Some c).
  { clear - HF Hk. induction HF as [|k' c ks cs' Hkc _ IHF]; [destruct Hk|]. destruct Hk as [->|Hk]; [eauto|auto]. }
  destruct Hkc as [c Hkc]. destruct (sub_fp f h k c a Hkc Hx) as (f' & t' & Hle & Ht' & Hlen).
  destruct (abs_fuel_le f' (S f) h a t' ltac:(lia) Ht') as [_ Hfp].
  assert (Hl : length (addrs (S f) h a) = S (length (flat_map (addrs f h) (kids n)))) by (cbn [addrs]; rewrite Hn; reflexivity).
  pose proof (flat_map_len_in (addrs f h) (kids n) k Hk). rewrite Hfp in Hl. lia.
Qed.

(* ---------------- separation from the B-tree invariant ---------------- *)
Lemma Forall2_In_l {A B} (R : A -> B -> Prop) l1 l2 x : Forall2 R l1 l2 -> In x l1 -> exists y, In y l2 /\ R x y.
Proof. induction 1 as [|a b l1 l2 Hab _ IH]; intros Hin; [destruct Hin|]. destruct Hin as [<-|Hin]; [exists b; split; [left; reflexivity|exact Hab]|]. destruct (IH Hin) as (y & Hy & Hr). exists y. split; [right; exact Hy|exact Hr]. Qed.
Lemma Forall2_len {A B} (R : A -> B -> Prop) l1 l2 : Forall2 R l1 l2 -> length l1 = length l2.
Proof. induction 1; cbn; congruence. Qed.

Lemma child_flat_incl (F : inode -> list item) : forall its ch c, length ch = S (length its) -> In c ch -> incl (F c) (inter F its ch).
Proof.
  induction its as [|x its IH]; intros ch c Hl Hin.
  - destruct ch as [|c0 [|c1 ch]]; cbn in Hl; try lia. destruct Hin as [<-|[]]. cbn. apply incl_refl.
  - destruct ch as [|c0 ch]; [cbn in Hl; lia|]. cbn [inter hd_rec tl]. destruct Hin as [<-|Hin].
    + apply incl_appl, incl_refl.
    + apply incl_appr, incl_tl. apply IH; [cbn in Hl; lia|exact Hin].
Qed.

Lemma NoDup_app_intro {A} (l1 l2 : list A) : NoDup l1 -> NoDup l2 -> (forall x, In x l1 -> ~ In x l2) -> NoDup (l1 ++ l2).
Proof.
  induction 1 as [|x l1 Hx _ IH]; intros H2 Hd; [exact H2|]. cbn [app]. constructor.
  - intros Hin. apply in_app_or in Hin. destruct Hin as [Hin|Hin]; [exact (Hx Hin)|]. apply (Hd x (or_introl eq_refl) Hin).
  - apply IH; [exact H2|]. intros y Hy. apply Hd. right. exact Hy.
Qed.

(* the structure of a store tree whose value is shaped *)
Lemma abs_shaped_inv hh h a t : abs (S hh) h a = Some t -> shaped hh t ->
  exists n cs, h a = Some n /\ t = INode (hits n) cs /\ Forall2 (fun k c => abs hh h k = Some c) (kids n) cs /\
    match hh with O => cs = [] /\ kids n = [] | S hh' => length cs = S (length (hits n)) /\ Forall (shaped hh') cs end.
Proof.
  intros Ha Hs. apply abs_S in Ha. destruct Ha as (n & cs & Hn & HF & ->). exists n, cs.
  split; [exact Hn|]. split; [reflexivity|]. split; [exact HF|]. destruct hh as [|hh'].
  - cbn in Hs. subst cs. inversion HF. auto.
  - destruct Hs as [Hl Hf]. cbn [iitems ichildren] in *. auto.
Qed.

(* the items of every node of the footprint occur in the in-order list *)
Lemma fp_items : forall hh h a t x n, abs (S hh) h a = Some t -> shaped hh t ->
  In x (addrs (S hh) h a) -> h x = Some n -> incl (hits n) (iflat (S hh) t).
Proof.
  induction hh as [|hh IH]; intros h a t x n Ha Hs Hx Hn;
    destruct (abs_shaped_inv _ h a t Ha Hs) as (na & cs & Hna & -> & HF & Hsh); cbn [addrs] in Hx; rewrite Hna in Hx.
  - destruct Hsh as [-> Hk]. rewrite Hk in Hx. cbn in Hx. destruct Hx as [<-|[]]. rewrite Hna in Hn. inversion Hn; subst.
    rewrite flat_S. cbn [iitems ichildren]. rewrite C03_D.inter_leaf. apply incl_refl.
  - destruct Hsh as [Hl Hf]. rewrite flat_S. cbn [iitems ichildren]. destruct Hx as [<-|Hx].
    + rewrite Hna in Hn. inversion Hn; subst. intros y Hy. apply items_in_inter, Hy.
    + apply in_flat_map in Hx. destruct Hx as (k & Hk & Hx). destruct (Forall2_In_l _ _ _ k HF Hk) as (c & Hc & Hkc).
      rewrite Forall_forall in Hf. pose proof (IH h k c x n Hkc (Hf c Hc) Hx Hn) as Hi.
      intros y Hy. apply (child_flat_incl (iflat (S hh)) (hits na) cs c Hl Hc). apply Hi, Hy.
Qed.

(* below a node whose children hold at least m items every node of the footprint holds at least m *)
Lemma fp_occ m : forall hh h a t x n, abs (S hh) h a = Some t -> shaped hh t -> occ m hh t -> m <= length (iitems t) ->
  In x (addrs (S hh) h a) -> h x = Some n -> m <= length (hits n).
Proof.
  induction hh as [|hh IH]; intros h a t x n Ha Hs Ho Hm Hx Hn;
    destruct (abs_shaped_inv _ h a t Ha Hs) as (na & cs & Hna & -> & HF & Hsh); cbn [addrs] in Hx; rewrite Hna in Hx; cbn [iitems] in Hm.
  - destruct Hsh as [-> Hk]. rewrite Hk in Hx. cbn in Hx. destruct Hx as [<-|[]]. rewrite Hna in Hn. inversion Hn; subst. exact Hm.
  - destruct Hsh as [Hl Hf]. destruct Hx as [<-|Hx]; [rewrite Hna in Hn; inversion Hn; subst; exact Hm|].
    apply in_flat_map in Hx. destruct Hx as (k & Hk & Hx). destruct (Forall2_In_l _ _ _ k HF Hk) as (c & Hc & Hkc).
    cbn [occ ichildren] in Ho. rewrite Forall_forall in Hf, Ho. destruct (Ho c Hc) as [Hcm Hco].
    apply (IH h k c x n Hkc (Hf c Hc) Hco Hcm Hx Hn).
Qed.

Lemma ss_split_lt (l1 : list item) x l2 : StronglySorted klt (l1 ++ x :: l2) ->
  forall a b, In a l1 -> In b l2 -> (key a < key b)%Z.
Proof.
  intros H a b Ha Hb. destruct (C03_D.ss_app_inv l1 x l2 H) as (_ & _ & F1 & F2 & _).
  rewrite Forall_forall in F1, F2. specialize (F1 a Ha). specialize (F2 b Hb). cbn beta in *. lia.
Qed.

(* a store tree with a shaped, sorted value and no empty node below the top visits every address once *)
Theorem fp_nodup m : 1 <= m -> forall hh h a t, abs (S hh) h a = Some t -> shaped hh t -> occ m hh t ->
  StronglySorted klt (iflat (S hh) t) -> NoDup (addrs (S hh) h a).
Proof.
  intros Hm. induction hh as [|hh IH]; intros h a t Ha Hs Ho Hsort;
    destruct (abs_shaped_inv _ h a t Ha Hs) as (na & cs & Hna & -> & HF & Hsh).
  - destruct Hsh as [-> Hk]. cbn [addrs]. rewrite Hna, Hk. cbn. constructor; [intros []|constructor].
  - destruct Hsh as [Hl Hf]. pose proof (top_not_below (S hh) h a _ na Ha Hna) as Htop.
    cbn [addrs]. rewrite Hna. constructor; [exact Htop|]. clear Htop Ha Hna Hs.
    rewrite flat_S in Hsort. cbn [iitems ichildren occ] in Hsort, Ho.
    set (its := hits na) in *. set (ks := kids na) in *. clearbody its ks. clear na.
    revert its Hl Hsort. induction HF as [|k c ks cs Hkc HF IHF]; intros its Hl Hsort; [constructor|].
    inversion Hf as [|? ? Hcs Hf']; subst. inversion Ho as [|? ? [Hcm Hco] Ho']; subst.
    cbn [flat_map]. destruct its as [|x its].
    + destruct cs; [|cbn in Hl; lia]. inversion HF; subst. cbn [flat_map]. rewrite app_nil_r.
      cbn [inter hd_rec] in Hsort. apply (IH h k c Hkc Hcs Hco Hsort).
    + cbn [inter hd_rec tl] in Hsort. destruct (C03_D.ss_app_inv _ _ _ Hsort) as (S1 & S2 & _).
      apply NoDup_app_intro.
      * apply (IH h k c Hkc Hcs Hco S1).
      * apply (IHF Ho' Hf' its); [cbn in Hl; lia|exact S2].
      * intros y Hy1 Hy2. apply in_flat_map in Hy2. destruct Hy2 as (k2 & Hk2 & Hy2).
        destruct (Forall2_In_l _ _ _ k2 HF Hk2) as (c2 & Hc2 & Hkc2).
        rewrite Forall_forall in Hf', Ho'. destruct (Ho' c2 Hc2) as [Hcm2 Hco2].
        destruct (h y) as [ny|] eqn:Ey; [|exact (addrs_alloc (S hh) h k y Hy1 Ey)].
        pose proof (fp_occ m hh h k c y ny Hkc Hcs Hco Hcm Hy1 Ey) as Hne.
        destruct (hits ny) as [|z zs] eqn:Ez; [cbn in Hne; lia|].
        assert (Hz1 : In z (iflat (S hh) c)) by (apply (fp_items hh h k c y ny Hkc Hcs Hy1 Ey); rewrite Ez; left; reflexivity).
        assert (Hz2 : In z (inter (iflat (S hh)) its cs)).
        { apply (child_flat_incl (iflat (S hh)) its cs c2 ltac:(cbn in Hl; lia) Hc2).
          apply (fp_items hh h k2 c2 y ny Hkc2 (Hf' c2 Hc2) Hy2 Ey). rewrite Ez. left. reflexivity. }
        pose proof (ss_split_lt _ _ _ Hsort z z Hz1 Hz2). lia.
Qed.

(* ---------------- the allocator ---------------- *)
Definition good_alloc (s : hst) : Prop :=
  (forall a, nxt s <= a -> hp s a = None) /\ (forall a, In a (fl s) -> hp s a = None /\ a < nxt s) /\ NoDup (fl s).

Lemma alloc_lt s a : good_alloc s -> hp s a <> None -> a < nxt s /\ ~ In a (fl s).
Proof.
  intros (H1 & H2 & _) Ha. split.
  - destruct (Nat.lt_ge_cases a (nxt s)) as [Hlt|Hge]; [exact Hlt|]. exfalso. apply Ha, H1, Hge.
  - intros Hin. apply Ha. apply (proj1 (H2 a Hin)).
Qed.
Lemma new_addr_spec s : good_alloc s ->
  hp s (fst (new_addr s)) = None /\ hp (snd (new_addr s)) = hp s /\ good_alloc (snd (new_addr s)) /\
  ~ In (fst (new_addr s)) (fl (snd (new_addr s))) /\ fst (new_addr s) < nxt (snd (new_addr s)).
Proof.
  intros (H1 & H2 & H3). unfold new_addr. destruct (fl s) as [|b r] eqn:E; unfold good_alloc; cbn [fst snd hp nxt fl].
  - split; [apply H1; lia|]. split; [reflexivity|]. split; [|split; [intros []|lia]].
    split; [intros a Ha; apply H1; lia|]. split; [intros a []|constructor].
  - destruct (H2 b (or_introl eq_refl)) as [Hb Hlt]. inversion H3 as [|? ? Hnin Hnd]; subst.
    split; [exact Hb|]. split; [reflexivity|]. split; [|split; [exact Hnin|exact Hlt]].
    split; [exact H1|]. split; [intros a Ha; apply H2; right; exact Ha|exact Hnd].
Qed.
Lemma hput_good s a n : good_alloc s -> a < nxt s -> ~ In a (fl s) -> good_alloc (hput s a n).
Proof.
  intros (H1 & H2 & H3) Hlt Hnin. unfold hput, good_alloc. cbn [hp nxt fl]. unfold hset. split; [|split; [|exact H3]].
  - intros x Hx. destruct (Nat.eqb x a) eqn:E; [apply Nat.eqb_eq in E; lia|apply H1, Hx].
  - intros x Hx. destruct (Nat.eqb x a) eqn:E; [apply Nat.eqb_eq in E; subst; contradiction|apply H2, Hx].
Qed.
Lemma hset_same h a n : hset h a n a = Some n.
Proof. unfold hset. now rewrite Nat.eqb_refl. Qed.
Lemma hset_other h a n x : x <> a -> hset h a n x = h x.
Proof. intros H. unfold hset. destruct (Nat.eqb x a) eqn:E; [apply Nat.eqb_eq in E; congruence|reflexivity]. Qed.
Lemma getn_some s a n : hp s a = Some n -> getn s a = n.
Proof. intros H. unfold getn. now rewrite H. Qed.

(* ---------------- what a write through context c may do to the store ---------------- *)
(* every address either keeps its content, or it was free or a node of A owned by c, and whatever is there now is owned by c *)
Definition wr (c : ctx) (A : list addr) (h h' : heap) : Prop :=
  forall x, h' x = h x \/
    ((h x = None \/ (In x A /\ exists n, h x = Some n /\ own n = c)) /\ (forall n', h' x = Some n' -> own n' = c)).

Lemma wr_refl c A h : wr c A h h.
Proof. intros x. left. reflexivity. Qed.
Lemma wr_mono c A A' h h' : incl A A' -> wr c A h h' -> wr c A' h h'.
Proof. intros Hi H x. destruct (H x) as [E|[[E|(Hin & Hn)] Ho]]; [left; exact E|right; split; [left; exact E|exact Ho]|right; split; [right; split; [apply Hi, Hin|exact Hn]|exact Ho]]. Qed.
Lemma wr_trans c A A1 h h1 h2 : wr c A h h1 -> wr c A1 h1 h2 -> (forall x, In x A1 -> In x A \/ h x = None) -> wr c A h h2.
Proof.
  intros H1 H2 Hi x. destruct (H2 x) as [E2|[P2 O2]].
  - destruct (H1 x) as [E1|[P1 O1]]; [left; congruence|]. right. split; [exact P1|]. intros n' Hn'. apply O1. congruence.
  - right. split; [|exact O2]. destruct (H1 x) as [E1|[P1 O1]]; [|exact P1].
    destruct P2 as [E|(Hin & n & Hn & Ho)]; [left; congruence|]. rewrite E1 in Hn.
    destruct (Hi x Hin) as [HA|HN]; [right; split; [exact HA|exists n; auto]|left; exact HN].
Qed.
Lemma wr_hset_free c A h a n : h a = None -> own n = c -> wr c A h (hset h a n).
Proof.
  intros Ha Ho x. destruct (Nat.eq_dec x a) as [->|Hne]; [|left; apply hset_other, Hne].
  right. split; [left; exact Ha|]. intros n' H. rewrite hset_same in H. injection H as <-. exact Ho.
Qed.
Lemma wr_hset_owned c A h a n0 n : h a = Some n0 -> own n0 = c -> In a A -> own n = c -> wr c A h (hset h a n).
Proof.
  intros Ha Ho0 Hin Ho x. destruct (Nat.eq_dec x a) as [->|Hne]; [|left; apply hset_other, Hne].
  right. split; [right; split; [exact Hin|exists n0; auto]|]. intros n' H. rewrite hset_same in H. injection H as <-. exact Ho.
Qed.
Lemma wr_hdel_owned c A h a n0 : h a = Some n0 -> own n0 = c -> In a A -> wr c A h (hdel h a).
Proof.
  intros Ha Ho0 Hin x. unfold hdel. destruct (Nat.eqb x a) eqn:E; [|left; reflexivity]. apply Nat.eqb_eq in E. subst x.
  right. split; [right; split; [exact Hin|exists n0; auto]|]. intros n' H. discriminate.
Qed.

(* a node that is not an owned node of A keeps its content *)
Lemma wr_keep c A h h' x n : wr c A h h' -> h x = Some n -> (~ In x A \/ own n <> c) -> h' x = Some n.
Proof.
  intros H Hx Hno. destruct (H x) as [E|[[E|(Hin & n0 & Hn0 & Ho)] _]]; [congruence|congruence|].
  rewrite Hx in Hn0. inversion Hn0; subst n0. destruct Hno as [Hn|Hn]; contradiction.
Qed.
(* a tree none of whose nodes is an owned node of A is untouched *)
Lemma wr_frame c A h h' f r t : wr c A h h' -> abs f h r = Some t ->
  (forall x n, In x (addrs f h r) -> h x = Some n -> ~ In x A \/ own n <> c) ->
  abs f h' r = Some t /\ addrs f h' r = addrs f h r.
Proof.
  intros H Ha Hno. apply frame_abs; [exact Ha|]. intros x Hx.
  destruct (h x) as [n|] eqn:E; [|exfalso; exact (addrs_alloc f h r x Hx E)].
  apply (wr_keep c A h h' x n H E (Hno x n Hx E)).
Qed.

(* in-place update of the top node of a tree whose children do not lead back to it *)
Lemma put_top f h a n1 cs1 : Forall2 (fun k c => abs f h k = Some c) (kids n1) cs1 ->
  ~ In a (flat_map (addrs f h) (kids n1)) ->
  abs (S f) (hset h a n1) a = Some (INode (hits n1) cs1) /\
  addrs (S f) (hset h a n1) a = a :: flat_map (addrs f h) (kids n1).
Proof.
  intros HF Hnin.
  assert (Hk : forall k c, In k (kids n1) -> abs f h k = Some c ->
               abs f (hset h a n1) k = Some c /\ addrs f (hset h a n1) k = addrs f h k).
  { intros k c Hk Hkc. apply frame_abs; [exact Hkc|]. intros x Hx. apply hset_other. intros ->.
    apply Hnin. apply in_flat_map. exists k. auto. }
  assert (HF' : Forall2 (fun k c => abs f (hset h a n1) k = Some c) (kids n1) cs1 /\
                flat_map (addrs f (hset h a n1)) (kids n1) = flat_map (addrs f h) (kids n1)).
  { clear Hnin. revert Hk. induction HF as [|k c ks cs Hkc _ IHF]; intros Hk; [split; [constructor|reflexivity]|].
    destruct (Hk k c (or_introl eq_refl) Hkc) as [A B]. destruct (IHF (fun k' c' Hk' => Hk k' c' (or_intror Hk'))) as [C D].
    split; [constructor; assumption|]. cbn [flat_map]. rewrite B, D. reflexivity. }
  destruct HF' as [HF' Hfm]. split.
  - apply abs_S. exists n1, cs1. split; [apply hset_same|auto].
  - cbn [addrs]. rewrite hset_same, Hfm. reflexivity.
Qed.
