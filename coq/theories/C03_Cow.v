(* C03, layer H core (items version of Cow.v): copy-on-write ownership.  Nodes live in a heap and carry the context that owns them;
   a handle is (root, context); a write through a handle changes only fresh nodes and nodes owned by its context.
   Under the ownership invariant such a write leaves the value of every other handle unchanged, the invariant is
   preserved, and Clone (two fresh contexts for one root) establishes it for the pair *)
From Coq Require Import ZArith List Lia Bool.
Require Import C03_Model.
Import ListNotations.
Open Scope nat_scope.

Definition addr := nat.
Definition ctx := nat.
Record hnode := { own : ctx; hits : list item; kids : list addr }.
Definition heap := addr -> option hnode.

(* the value tree rooted at an address, to depth f *)
Fixpoint all_some {A} (l : list (option A)) : option (list A) :=
  match l with
  | [] => Some []
  | None :: _ => None
  | Some x :: r => match all_some r with Some xs => Some (x :: xs) | None => None end
  end.
Fixpoint abs (f : nat) (h : heap) (a : addr) : option inode :=
  match f with
  | O => None
  | S f' => match h a with
            | None => None
            | Some n => match all_some (map (abs f' h) (kids n)) with Some cs => Some (INode (hits n) cs) | None => None end
            end
  end.

(* a set of addresses closed under the child relation of h *)
Definition closed (P : addr -> Prop) (h : heap) : Prop :=
  forall a n, P a -> h a = Some n -> forall k, In k (kids n) -> P k.
Definition agree_on (P : addr -> Prop) (h h' : heap) : Prop := forall a, P a -> h' a = h a.

Lemma abs_frame P h h' : closed P h -> agree_on P h h' -> forall f r, P r -> abs f h' r = abs f h r.
Proof.
  intros Hc Ha. induction f as [|f IH]; intros r Hr; [reflexivity|]. cbn [abs]. rewrite (Ha r Hr).
  destruct (h r) as [n|] eqn:E; [|reflexivity].
  assert (Hm : map (abs f h') (kids n) = map (abs f h) (kids n)).
  { apply map_ext_in. intros k Hk. apply IH. apply (Hc r n Hr E k Hk). }
  rewrite Hm. reflexivity.
Qed.

(* reachability *)
Inductive reach (h : heap) (r : addr) : addr -> Prop :=
| reach_root : reach h r r
| reach_kid a n k : reach h r a -> h a = Some n -> In k (kids n) -> reach h r k.
Lemma reach_closed h r : closed (reach h r) h.
Proof. intros a n Ha E k Hk. apply (reach_kid h r a n k Ha E Hk). Qed.
Lemma reach_agree h h' r : agree_on (reach h r) h h' -> forall a, reach h' r a -> reach h r a.
Proof.
  intros Hag a Hr. induction Hr as [|a n k Hr IH E Hk]; [constructor|].
  rewrite (Hag a IH) in E. apply (reach_kid h r a n k IH E Hk).
Qed.

(* ---------------- handles and the ownership invariant ---------------- *)
Definition handle := (addr * ctx)%type.
(* every node reachable from a handle is allocated; contexts of different handles differ;
   a node owned by a handle's context is reachable from no other handle *)
Definition Own (h : heap) (hs : list handle) : Prop :=
  (forall r c a, In (r, c) hs -> reach h r a -> h a <> None) /\
  (forall i j r c r' c', nth_error hs i = Some (r, c) -> nth_error hs j = Some (r', c') -> i <> j -> c <> c') /\
  (forall i j r c r' c' a n, nth_error hs i = Some (r, c) -> nth_error hs j = Some (r', c') -> i <> j ->
     reach h r' a -> h a = Some n -> own n <> c).

(* a write through context c: only fresh addresses and nodes owned by c change, and what it creates is owned by c *)
Definition write_by (c : ctx) (h h' : heap) : Prop :=
  forall a, h' a = h a \/ ((h a = None \/ exists n, h a = Some n /\ own n = c) /\ (forall n', h' a = Some n' -> own n' = c)).

(* isolation: a write through handle i leaves the value of every other handle unchanged *)
Theorem write_isolated h h' hs i r c : Own h hs -> nth_error hs i = Some (r, c) -> write_by c h h' ->
  forall j r' c' f, nth_error hs j = Some (r', c') -> i <> j -> abs f h' r' = abs f h r'.
Proof.
  intros (Halloc & Hctx & Hown) Hi Hw j r' c' f Hj Hne.
  apply (abs_frame (reach h r') h h' (reach_closed h r')); [|constructor].
  intros a Ha. destruct (Hw a) as [E|[[Efresh|(n & En & Eo)] _]]; [exact E| |].
  - exfalso. apply (Halloc r' c' a (nth_error_In _ _ Hj) Ha Efresh).
  - exfalso. apply (Hown i j r c r' c' a n Hi Hj Hne Ha En Eo).
Qed.

(* ... and keeps the invariant, provided the writer's new root is reachable only through nodes that exist afterwards
   and everything it reaches is allocated (the structural facts every B-tree write establishes for its own tree) *)
Theorem write_keeps_own h h' hs i r c rnew :
  Own h hs -> nth_error hs i = Some (r, c) -> write_by c h h' ->
  (forall a, reach h' rnew a -> h' a <> None) ->
  (forall a, reach h' rnew a -> reach h r a \/ h' a <> h a) ->          (* the new tree = old nodes of this tree + written nodes *)
  let hs' := firstn i hs ++ (rnew, c) :: skipn (S i) hs in
  (forall j, j <> i -> nth_error hs' j = nth_error hs j) -> nth_error hs' i = Some (rnew, c) ->
  Own h' hs'.
Proof.
  intros (Halloc & Hctx & Hown) Hi Hw Hnew Hsub hs' Hother Hself.
  assert (Hframe : forall j r' c', nth_error hs j = Some (r', c') -> j <> i -> agree_on (reach h r') h h').
  { intros j r' c' Hj Hne a Ha. destruct (Hw a) as [E|[[Efresh|(n & En & Eo)] _]]; [exact E| |].
    - exfalso. apply (Halloc r' c' a (nth_error_In _ _ Hj) Ha Efresh).
    - exfalso. apply (Hown i j r c r' c' a n Hi Hj (fun E => Hne (eq_sym E)) Ha En Eo). }
  assert (Hget : forall j r' c', nth_error hs' j = Some (r', c') -> (j = i /\ r' = rnew /\ c' = c) \/ (j <> i /\ nth_error hs j = Some (r', c'))).
  { intros j r' c' Hj. destruct (Nat.eq_dec j i) as [->|Hne]; [left; rewrite Hself in Hj; inversion Hj; auto|right; rewrite (Hother j Hne) in Hj; auto]. }
  split; [|split].
  - intros r' c' a Hin Ha. apply In_nth_error in Hin. destruct Hin as [j Hj].
    destruct (Hget j r' c' Hj) as [(-> & -> & ->)|(Hne & Hj0)]; [apply Hnew, Ha|].
    pose proof (reach_agree h h' r' (Hframe j r' c' Hj0 Hne) a Ha) as Ha0.
    rewrite (Hframe j r' c' Hj0 Hne a Ha0). apply (Halloc r' c' a (nth_error_In _ _ Hj0) Ha0).
  - intros j1 j2 r1 c1 r2 c2 H1 H2 Hne.
    destruct (Hget j1 r1 c1 H1) as [(-> & -> & ->)|(Hn1 & H10)]; destruct (Hget j2 r2 c2 H2) as [(-> & -> & ->)|(Hn2 & H20)].
    + congruence.
    + apply (Hctx i j2 r c r2 c2 Hi H20 Hne).
    + apply (Hctx j1 i r1 c1 r c H10 Hi Hne).
    + apply (Hctx j1 j2 r1 c1 r2 c2 H10 H20 Hne).
  - intros j1 j2 r1 c1 r2 c2 a n H1 H2 Hne Ha En.
    destruct (Hget j2 r2 c2 H2) as [(-> & -> & ->)|(Hn2 & H20)].
    + (* reachable from the writer's new tree: an old node of this tree (not owned by c1, as before) or a written node (owned by c) *)
      destruct (Hget j1 r1 c1 H1) as [(-> & _)|(Hn1 & H10)]; [congruence|].
      assert (Hcc : c <> c1) by (intros E; apply (Hctx j1 i r1 c1 r c H10 Hi Hn1); congruence).
      destruct (Hw a) as [E|[_ Hc]].
      * destruct (Hsub a Ha) as [Hold|Hch]; [|congruence]. rewrite E in En. apply (Hown j1 i r1 c1 r c a n H10 Hi Hn1 Hold En).
      * rewrite (Hc n En). exact Hcc.
    + pose proof (reach_agree h h' r2 (Hframe j2 r2 c2 H20 Hn2) a Ha) as Ha0. rewrite (Hframe j2 r2 c2 H20 Hn2 a Ha0) in En.
      destruct (Hget j1 r1 c1 H1) as [(-> & -> & ->)|(Hn1 & H10)].
      * apply (Hown i j2 r c r2 c2 a n Hi H20 Hne Ha0 En).
      * apply (Hown j1 j2 r1 c1 r2 c2 a n H10 H20 Hne Ha0 En).
Qed.

(* Clone: the same root under two contexts that own nothing yet *)
Theorem clone_own h hs i r c c1 c2 :
  Own h hs -> nth_error hs i = Some (r, c) -> c1 <> c2 ->
  (forall a n, h a = Some n -> own n <> c1 /\ own n <> c2) ->                 (* fresh contexts *)
  (forall j r' c', nth_error hs j = Some (r', c') -> c' <> c1 /\ c' <> c2) ->
  Own h ((r, c2) :: firstn i hs ++ (r, c1) :: skipn (S i) hs).
Proof.
  intros (Halloc & Hctx & Hown) Hi Hc12 Hfresh Hnew. unfold handle in *.
  remember (firstn i hs ++ (r, c1) :: skipn (S i) hs) as hs1 eqn:Ehs1.
  assert (Hlen : i < length hs) by (apply nth_error_Some; congruence).
  assert (Hself : nth_error hs1 i = Some (r, c1)).
  { rewrite Ehs1. rewrite nth_error_app2 by (rewrite firstn_length; lia). rewrite firstn_length, Nat.min_l by lia. rewrite Nat.sub_diag. reflexivity. }
  assert (Hother : forall j, j <> i -> nth_error hs1 j = nth_error hs j).
  { intros j Hne. rewrite Ehs1. destruct (Nat.lt_ge_cases j i) as [Hlt|Hge].
    - rewrite nth_error_app1 by (rewrite firstn_length; lia). rewrite <- (firstn_skipn i hs) at 2. rewrite nth_error_app1 by (rewrite firstn_length; lia). reflexivity.
    - rewrite nth_error_app2 by (rewrite firstn_length; lia). rewrite firstn_length, Nat.min_l by lia.
      destruct (j - i) as [|d] eqn:Ed; [lia|]. cbn [nth_error].
      rewrite <- (firstn_skipn (S i) hs) at 2. rewrite nth_error_app2 by (rewrite firstn_length; lia). rewrite firstn_length, Nat.min_l by lia. f_equal. lia. }
  (* every handle of the new list is an old handle's root, under an old context or one of the two fresh ones *)
  assert (Hget : forall j r' c', nth_error ((r, c2) :: hs1) j = Some (r', c') ->
            exists j0 c0, nth_error hs j0 = Some (r', c0) /\ ((c' = c0 /\ j = S j0 /\ j0 <> i) \/ (c' = c1 /\ j = S i /\ j0 = i) \/ (c' = c2 /\ j = 0 /\ j0 = i))).
  { intros j r' c' Hj. destruct j as [|j]; cbn [nth_error] in Hj.
    - inversion Hj; subst. exists i, c. split; [exact Hi|right; right; auto].
    - destruct (Nat.eq_dec j i) as [->|Hne].
      + rewrite Hself in Hj. inversion Hj; subst. exists i, c. split; [exact Hi|right; left; auto].
      + rewrite (Hother j Hne) in Hj. exists j, c'. split; [exact Hj|left; auto]. }
  split; [|split].
  - intros r' c' a Hin Ha. apply In_nth_error in Hin. destruct Hin as [j Hj]. destruct (Hget j r' c' Hj) as (j0 & c0 & H0 & _).
    apply (Halloc r' c0 a (nth_error_In _ _ H0) Ha).
  - intros j1 j2 r1 k1 r2 k2 H1 H2 Hne.
    destruct (Hget j1 r1 k1 H1) as (a1 & d1 & A1 & [(-> & -> & N1)|[(-> & -> & ->)|(-> & -> & ->)]]);
    destruct (Hget j2 r2 k2 H2) as (a2 & d2 & A2 & [(-> & -> & N2)|[(-> & -> & ->)|(-> & -> & ->)]]); try congruence.
    + apply (Hctx a1 a2 r1 d1 r2 d2 A1 A2). lia.
    + apply (Hnew a1 r1 d1 A1).
    + apply (Hnew a1 r1 d1 A1).
    + intros E. symmetry in E. revert E. apply (Hnew a2 r2 d2 A2).
    + intros E. symmetry in E. revert E. apply (Hnew a2 r2 d2 A2).
  - intros j1 j2 r1 k1 r2 k2 a n H1 H2 Hne Ha En.
    destruct (Hget j1 r1 k1 H1) as (a1 & d1 & A1 & [(-> & -> & N1)|[(-> & -> & ->)|(-> & -> & ->)]]).
    + destruct (Hget j2 r2 k2 H2) as (a2 & d2 & A2 & [(-> & -> & N2)|[(-> & -> & ->)|(-> & -> & ->)]]).
      * apply (Hown a1 a2 r1 d1 r2 d2 a n A1 A2 ltac:(lia) Ha En).
      * rewrite Hi in A2. inversion A2; subst. apply (Hown a1 i r1 d1 r2 d2 a n A1 Hi N1 Ha En).
      * rewrite Hi in A2. inversion A2; subst. apply (Hown a1 i r1 d1 r2 d2 a n A1 Hi N1 Ha En).
    + apply (Hfresh a n En).
    + apply (Hfresh a n En).
Qed.


(* ---------------- the first heap-level write function: node.mutableFor ---------------- *)
Definition hset (h : heap) (a : addr) (n : hnode) : heap := fun x => if Nat.eqb x a then Some n else h x.

(* if n.cow == cow { return n }; out := cow.newNode(); copy items and children; return out
   (`fresh` is the address newNode hands out: unallocated, or a node taken from the free list, which is cleared) *)
Definition mutable_for (h : heap) (c : ctx) (a fresh : addr) : heap * addr :=
  match h a with
  | Some n => if Nat.eqb (own n) c then (h, a)
              else (hset h fresh {| own := c; hits := hits n; kids := kids n |}, fresh)
  | None => (h, a)
  end.

Lemma write_by_refl c h : write_by c h h.
Proof. intros a. left. reflexivity. Qed.

(* mutableFor writes only the fresh address, and what it creates belongs to the writer's context *)
Theorem mutable_for_write_by h c a fresh : h fresh = None -> write_by c h (fst (mutable_for h c a fresh)).
Proof.
  intros Hf. unfold mutable_for. destruct (h a) as [n|]; [|apply write_by_refl].
  destruct (Nat.eqb (own n) c); [apply write_by_refl|]. cbn [fst]. intros x. unfold hset.
  destruct (Nat.eqb x fresh) eqn:E; [|left; reflexivity]. apply Nat.eqb_eq in E. subst x.
  right. split; [left; exact Hf|]. intros n' H. inversion H; subst. reflexivity.
Qed.

(* the node it returns is owned by the context and is a copy of the original *)
Theorem mutable_for_owned h c a fresh n : h a = Some n ->
  exists n', fst (mutable_for h c a fresh) (snd (mutable_for h c a fresh)) = Some n' /\
             own n' = c /\ hits n' = hits n /\ kids n' = kids n.
Proof.
  intros Ha. unfold mutable_for. rewrite Ha. destruct (Nat.eqb (own n) c) eqn:E.
  - cbn [fst snd]. exists n. apply Nat.eqb_eq in E. auto.
  - cbn [fst snd]. unfold hset. rewrite Nat.eqb_refl. eexists. split; [reflexivity|]. cbn. auto.
Qed.

(* ... and stands for the same tree *)
Theorem mutable_for_abs f h c a fresh : h fresh = None -> (forall x, reach h a x -> h x <> None) ->
  abs f (fst (mutable_for h c a fresh)) (snd (mutable_for h c a fresh)) = abs f h a.
Proof.
  intros Hf Hall. unfold mutable_for. destruct (h a) as [n|] eqn:Ha; [|reflexivity].
  destruct (Nat.eqb (own n) c); [reflexivity|]. cbn [fst snd].
  set (h' := hset h fresh {| own := c; hits := hits n; kids := kids n |}).
  assert (Hag : agree_on (reach h a) h h').
  { intros x Hx. unfold h', hset. destruct (Nat.eqb x fresh) eqn:E; [|reflexivity].
    apply Nat.eqb_eq in E. subst x. exfalso. apply (Hall fresh Hx Hf). }
  destruct f as [|f]; [reflexivity|]. cbn [abs]. unfold h' at 1, hset at 1. rewrite Nat.eqb_refl, Ha. cbn [hits kids].
  assert (Hm : map (abs f h') (kids n) = map (abs f h) (kids n)).
  { apply map_ext_in. intros k Hk. apply (abs_frame (reach h a) h h' (reach_closed h a) Hag).
    apply (reach_kid h a a n k (reach_root h a) Ha Hk). }
  rewrite Hm. reflexivity.
Qed.

(* so mutableFor through one handle is invisible through every other handle *)
Corollary mutable_for_isolated h hs i r c a fresh : Own h hs -> nth_error hs i = Some (r, c) -> h fresh = None ->
  forall j r' c' f, nth_error hs j = Some (r', c') -> i <> j ->
  abs f (fst (mutable_for h c a fresh)) r' = abs f h r'.
Proof.
  intros HO Hi Hf j r' c' f Hj Hne.
  apply (write_isolated h _ hs i r c HO Hi (mutable_for_write_by h c a fresh Hf) j r' c' f Hj Hne).
Qed.
