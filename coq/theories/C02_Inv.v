(* C02: the invariant of the complete locker (table layer inside the LTS) over every label sequence:
   the per-object RWMutex invariant of KeyLTS, the table invariant of C02_Table, and the agreement between a
   caller's own (key, object) pairs, the ghost registrations and its KeyLTS request.  Consequences: a caller
   always unlocks the object it locked (same object), the unlock section never faults, per-KEY exclusion,
   reclaim. *)
From Coq Require Import List Lia Bool Arith Permutation.
Require Import KeyLTS KeyAgree C02_Model C02_Table.
Import ListNotations.

(* ---------------- acquisition order: a stable rearrangement of the caller's list ---------------- *)
Section Order.
Variable sh : nat -> nat.
Lemma ins_perm x l : Permutation (x :: l) (ins sh x l).
Proof.
  induction l as [|y r IH]; cbn [ins]; [apply Permutation_refl|]. destruct (sh x <=? sh y); [apply Permutation_refl|].
  apply perm_trans with (y :: x :: r); [apply perm_swap|apply perm_skip, IH].
Qed.
Lemma acq_order_perm l : Permutation l (acq_order sh l).
Proof.
  induction l as [|x r IH]; cbn [acq_order]; [apply perm_nil|].
  apply perm_trans with (x :: acq_order sh r); [apply perm_skip, IH|apply ins_perm].
Qed.
Lemma chunks_head l cs : chunks sh l <> [] :: cs.
Proof.
  destruct l as [|x r]; cbn [chunks]; [discriminate|].
  destruct (chunks sh r) as [|[|y c] cs']; try discriminate. destruct (sh x =? sh y); discriminate.
Qed.
Lemma concat_chunks l : concat (chunks sh l) = l.
Proof.
  induction l as [|x r IH]; cbn [chunks]; [reflexivity|].
  destruct (chunks sh r) as [|[|y c] cs] eqn:E; cbn [concat app] in *.
  - subst r. reflexivity.
  - exfalso. exact (chunks_head r cs E).
  - destruct (sh x =? sh y); cbn [concat app]; rewrite <- IH; reflexivity.
Qed.
Lemma nodup_acq l : NoDup l -> NoDup (concat (chunks sh (acq_order sh l))).
Proof. intros H. rewrite concat_chunks. apply (Permutation_NoDup (acq_order_perm l) H). Qed.
End Order.

Lemma map_fst_combine {A B} : forall (a : list A) (b : list B), length b = length a -> map fst (combine a b) = a.
Proof. induction a as [|x a IH]; intros [|y b] H; cbn in *; try discriminate; [reflexivity|]. rewrite IH by lia. reflexivity. Qed.

(* ---------------- what one KeyLTS step does to the requests ---------------- *)
Definition internal_b (l : label) : Prop :=
  match l with Arrive _ | Announce _ _ | Grant _ | Token _ _ => True | _ => False end.

Lemma internal_step_reqs b l b' : internal_b l -> step b l = Some b' ->
  forall t, reqs b' t = reqs b t \/ (exists r n, reqs b t = Some r /\ rphase r = Acq n /\ reqs b' t = Some (with_phase r (Acq (S n)))).
Proof.
  intros Hi H x. destruct l as [t ks w|t|k i|k|k i|t|t]; try contradiction; cbn [step] in H.
  - destruct (running b t); [|discriminate]. destruct (reqs b t) as [r|] eqn:Et; [|discriminate].
    destruct (rphase r) as [n|] eqn:Ep; [|discriminate].
    destruct (nth_error (rkeys r) n) as [k|]; [|inversion H; subst; left; reflexivity].
    destruct (rwrite r); destruct (free (locks b k)); inversion H; subst; cbn [reqs set_lock set_run set_req]; try (left; reflexivity).
    destruct (Nat.eq_dec x t) as [->|Hne]; [right; exists r, n; rewrite upd_same; auto|left; apply upd_other, Hne].
  - destruct (writer (locks b k)); [discriminate|]. destruct (pending (locks b k)); [discriminate|].
    destruct (nth_error (wwait (locks b k)) i); [|discriminate]. inversion H; subst. left. reflexivity.
  - destruct (pending (locks b k)) as [w|]; [|discriminate]. destruct (writer (locks b k)); [discriminate|].
    destruct (readers (locks b k)); [|discriminate]. destruct (tokens (locks b k)); [|discriminate].
    destruct (waits_on b w k true) as [[r n]|] eqn:Ew; [|discriminate]. inversion H; subst.
    destruct (waits_on_spec _ _ _ _ _ _ Ew) as (A & B & _). cbn [reqs set_lock set_run set_req].
    destruct (Nat.eq_dec x w) as [->|Hne]; [right; exists r, n; rewrite upd_same; auto|left; apply upd_other, Hne].
  - destruct (tokens (locks b k)) as [|tk]; [discriminate|]. destruct (nth_error (rblocked (locks b k)) i) as [y|]; [|discriminate].
    destruct (waits_on b y k false) as [[r n]|] eqn:Ew; [|discriminate]. inversion H; subst.
    destruct (waits_on_spec _ _ _ _ _ _ Ew) as (A & B & _). cbn [reqs set_lock set_run set_req].
    destruct (Nat.eq_dec x y) as [->|Hne]; [right; exists r, n; rewrite upd_same; auto|left; apply upd_other, Hne].
Qed.

Lemma start_reqs b t ks w b' : step b (Start t ks w) = Some b' ->
  reqs b t = None /\ forall x, reqs b' x = upd (reqs b) t (Some {| rkeys := ks; rwrite := w; rphase := Acq 0 |}) x.
Proof.
  cbn [step]. destruct (reqs b t); [discriminate|]. destruct (nodupb ks); [|discriminate]. intros H. inversion H; subst. split; reflexivity.
Qed.
Lemma release_reqs b t b' : step b (Release t) = Some b' ->
  exists r n, reqs b t = Some r /\ rphase r = Acq n /\
              forall x, reqs b' x = upd (reqs b) t (match rkeys r with [] => None | _ => Some (with_phase r (Rel (rkeys r))) end) x.
Proof.
  cbn [step]. destruct (reqs b t) as [r|]; [|discriminate]. destruct (rphase r) as [n|] eqn:Ep; [|discriminate].
  destruct (Nat.eqb n (length (rkeys r)) && negb (running b t)); [|discriminate]. intros H. inversion H; subst. exists r, n. auto.
Qed.
Lemma unlockkey_reqs b t b' : step b (UnlockKey t) = Some b' ->
  exists r k rem, reqs b t = Some r /\ rphase r = Rel (k :: rem) /\
                  forall x, reqs b' x = upd (reqs b) t (match rem with [] => None | _ => Some (with_phase r (Rel rem)) end) x.
Proof.
  cbn [step]. destruct (reqs b t) as [r|]; [|discriminate]. destruct (rphase r) as [n|[|k rem]] eqn:Ep; try discriminate.
  intros H. inversion H; subst. exists r, k, rem. auto.
Qed.

(* ---------------- the invariant ---------------- *)
Definition todo_of (q : treq) : list (list nat) := match tstage q with SReg todo => todo | _ => [] end.
Definition link (s : fstate) (t : nat) (q : treq) : Prop :=
  match tstage q with
  | SReg _ => reqs (base s) t = None
  | SRun => exists r n, reqs (base s) t = Some r /\ rkeys r = map snd (tregd q) /\ rwrite r = tw q /\ rphase r = Acq n
  | SRel => exists r, reqs (base s) t = Some r /\ rwrite r = tw q /\ rphase r = Rel (map snd (tregd q)) /\ tregd q <> []
  end.
Definition thr_ok (s : fstate) (t : nat) (q : treq) : Prop :=
  NoDup (map fst (tregd q) ++ concat (todo_of q)) /\
  (forall k o, In (k, o) (tregd q) -> In {| gt := t; gk := k; go := o; gw := tw q |} (tregs (tb s))) /\
  link s t q.
Definition reg_ok (s : fstate) (r : reg) : Prop :=
  exists q, thr s (gt r) = Some q /\ gw r = tw q /\ In (gk r, go r) (tregd q).
Definition FInv (s : fstate) : Prop :=
  Inv (base s) /\ TInv (tb s) /\
  (forall r, In r (tregs (tb s)) -> reg_ok s r) /\
  (forall t q, thr s t = Some q -> thr_ok s t q) /\
  (forall t, thr s t = None -> reqs (base s) t = None).

Lemma finit_inv : FInv finit.
Proof.
  split; [apply init_inv|split; [apply tinv_init|split; [intros r []|split; [intros t q H; discriminate|reflexivity]]]].
Qed.

(* one caller a acts: everybody else's request, thread record and registrations stay *)
Lemma finv_frame s s' a :
  FInv s -> Inv (base s') -> TInv (tb s') ->
  (forall x, x <> a -> thr s' x = thr s x /\ reqs (base s') x = reqs (base s) x) ->
  (forall r, gt r <> a -> (In r (tregs (tb s')) <-> In r (tregs (tb s)))) ->
  (forall r, In r (tregs (tb s')) -> gt r = a -> reg_ok s' r) ->
  (forall q, thr s' a = Some q -> thr_ok s' a q) ->
  (thr s' a = None -> reqs (base s') a = None) ->
  FInv s'.
Proof.
  intros (_ & _ & HR & HT & HN) HI HTb Hoth Hregs Hra Hta Hna.
  split; [exact HI|split; [exact HTb|split; [|split]]].
  - intros r Hin. destruct (Nat.eq_dec (gt r) a) as [E|E]; [apply Hra; assumption|].
    destruct (HR r (proj1 (Hregs r E) Hin)) as (q & Q1 & Q2 & Q3). exists q. destruct (Hoth (gt r) E) as [E1 _]. rewrite E1. auto.
  - intros t q Ht. destruct (Nat.eq_dec t a) as [->|E]; [apply Hta, Ht|].
    destruct (Hoth t E) as [E1 E2]. rewrite E1 in Ht. destruct (HT t q Ht) as (A & B & C). split; [exact A|split].
    + intros k o Hin. apply (Hregs {| gt := t; gk := k; go := o; gw := tw q |} E). apply B, Hin.
    + unfold link in *. rewrite E2. exact C.
  - intros t Ht. destruct (Nat.eq_dec t a) as [->|E]; [apply Hna, Ht|].
    destruct (Hoth t E) as [E1 E2]. rewrite E2. apply HN. rewrite <- E1. exact Ht.
Qed.

Lemma start_if_done_spec s t q s' : start_if_done s t q = Some s' ->
  tb s' = tb s /\
  ((tstage q <> SReg [] /\ base s' = base s /\ thr s' = upd (thr s) t (Some q)) \/
   (tstage q = SReg [] /\ step (base s) (Start t (map snd (tregd q)) (tw q)) = Some (base s') /\
    thr s' = upd (thr s) t (Some (set_stage q SRun)))).
Proof.
  unfold start_if_done. destruct (tstage q) as [[|c todo]| |] eqn:E.
  - destruct (step (base s) (Start t (map snd (tregd q)) (tw q))) as [b|] eqn:Es; [|discriminate].
    intros H. inversion H; subst. cbn. split; [reflexivity|right; auto].
  - intros H. inversion H; subst. cbn. split; [reflexivity|left; split; [discriminate|auto]].
  - intros H. inversion H; subst. cbn. split; [reflexivity|left; split; [discriminate|auto]].
  - intros H. inversion H; subst. cbn. split; [reflexivity|left; split; [discriminate|auto]].
Qed.

(* the caller after a table section (FCall with no registration yet, or FReg): thr_ok for the new record *)
Lemma after_section s t q s' :
  Inv (base s) -> start_if_done s t q = Some s' -> (exists todo, tstage q = SReg todo) ->
  reqs (base s) t = None ->
  NoDup (map fst (tregd q) ++ concat (todo_of q)) ->
  (forall k o, In (k, o) (tregd q) -> In {| gt := t; gk := k; go := o; gw := tw q |} (tregs (tb s))) ->
  Inv (base s') /\ tb s' = tb s /\ (forall x, x <> t -> thr s' x = thr s x /\ reqs (base s') x = reqs (base s) x) /\
  (exists q', thr s' t = Some q' /\ tw q' = tw q /\ tregd q' = tregd q /\ thr_ok s' t q').
Proof.
  intros HI H (todo & Est) Hnone Hnd Hpairs.
  destruct (start_if_done_spec s t q s' H) as (Etb & [(Hne & Eb & Et)|(Heq & Hs & Et)]).
  - split; [rewrite Eb; exact HI|split; [exact Etb|split]].
    + intros x Hx. rewrite Et, Eb. split; [apply upd_other, Hx|reflexivity].
    + exists q. rewrite Et, upd_same. split; [reflexivity|split; [reflexivity|split; [reflexivity|]]].
      split; [exact Hnd|split; [rewrite Etb; exact Hpairs|]]. unfold link. rewrite Est, Eb. exact Hnone.
  - destruct (start_reqs _ _ _ _ _ Hs) as [_ Er]. split; [apply (inv_step _ _ _ HI Hs)|split; [exact Etb|split]].
    + intros x Hx. rewrite Et. split; [apply upd_other, Hx|rewrite Er; apply upd_other, Hx].
    + exists (set_stage q SRun). rewrite Et, upd_same. split; [reflexivity|split; [reflexivity|split; [reflexivity|]]].
      split; [|split; [rewrite Etb; exact Hpairs|]].
      * unfold todo_of in *. rewrite Heq in Hnd. cbn [set_stage tstage tregd concat] in *. exact Hnd.
      * unfold link. cbn [set_stage tstage tregd tw]. eexists. exists 0. rewrite Er, upd_same. cbn [rkeys rwrite rphase]. auto.
Qed.

Lemma nodup_app {A} (a b : list A) : NoDup (a ++ b) -> NoDup a /\ NoDup b /\ (forall x, In x a -> ~ In x b).
Proof.
  induction a as [|x a IH]; cbn [app]; intros H; [split; [constructor|split; [exact H|intros x []]]|].
  inversion H as [|? ? Hx Hr]; subst. destruct (IH Hr) as (A1 & A2 & A3). split; [|split; [exact A2|]].
  - constructor; [|exact A1]. intros Hin. apply Hx. apply in_or_app. left. exact Hin.
  - intros y [<-|Hy] Hb; [apply Hx; apply in_or_app; right; exact Hb|exact (A3 y Hy Hb)].
Qed.

Lemma finv_lift s l s' : FInv s -> internal_b l -> lift s l = Some s' -> FInv s'.
Proof.
  intros (HI & HTb & HR & HT & HN) Hi H. unfold lift in H. destruct (step (base s) l) as [b|] eqn:Es; [|discriminate].
  inversion H; subst s'; clear H. pose proof (internal_step_reqs _ _ _ Hi Es) as Hq.
  split; [apply (inv_step _ _ _ HI Es)|split; [exact HTb|split; [exact HR|split]]]; cbn [base tb thr].
  - intros t q Ht. destruct (HT t q Ht) as (A & B & C). split; [exact A|split; [exact B|]].
    unfold link in *. cbn [base]. destruct (tstage q).
    + destruct (Hq t) as [E|(r & n & E1 & _)]; [rewrite E; exact C|congruence].
    + destruct C as (r & n & C1 & C2 & C3 & C4). destruct (Hq t) as [E|(r' & n' & E1 & E2 & E3)].
      * exists r, n. rewrite E. auto.
      * rewrite C1 in E1. inversion E1; subst r'. exists (with_phase r (Acq (S n'))), (S n'). rewrite E3. cbn [with_phase rkeys rwrite rphase]. auto.
    + destruct C as (r & C1 & C2 & C3 & C4). destruct (Hq t) as [E|(r' & n' & E1 & E2 & E3)].
      * exists r. rewrite E. auto.
      * rewrite C1 in E1. inversion E1; subst r'. congruence.
  - intros t Ht. destruct (Hq t) as [E|(r & n & E1 & _)]; [rewrite E; apply HN, Ht|]. rewrite (HN t Ht) in E1. discriminate.
Qed.

Section Steps.
Variable sh : nat -> nat.

Theorem finv_step s l s' : FInv s -> fstep sh s l = Some s' -> FInv s'.
Proof.
  intros HF H. pose proof HF as (HI & HTb & HR & HT & HN).
  destruct l as [t ks w|t|t|o i|o|o i|t|t]; cbn [fstep] in H;
    try (refine (finv_lift s _ s' HF _ H); exact I).
  - (* FCall *)
    destruct (thr s t) eqn:Et; [discriminate|]. destruct (nodupb ks) eqn:End; [|discriminate].
    set (q := {| tw := w; tregd := []; tstage := SReg (chunks sh (acq_order sh ks)) |}) in *.
    destruct (after_section s t q s' HI H) as (HI' & Etb & Hoth & (q' & Q1 & Q2 & Q3 & Q4)).
    + eexists; reflexivity.
    + apply HN, Et.
    + cbn [q tregd map app todo_of tstage]. apply nodup_acq, nodupb_NoDup, End.
    + intros k o [].
    + apply (finv_frame s s' t HF HI'); [rewrite Etb; exact HTb|exact Hoth|intros r _; rewrite Etb; tauto| | |].
      * intros r Hin Hgt. rewrite Etb in Hin. destruct (HR r Hin) as (q0 & A & _). rewrite Hgt, Et in A. discriminate.
      * intros q0 Hq0. rewrite Q1 in Hq0. inversion Hq0; subst. exact Q4.
      * rewrite Q1. discriminate.
  - (* FReg *)
    destruct (thr s t) as [q|] eqn:Et; [|discriminate]. destruct (tstage q) as [[|c todo]| |] eqn:Est; try discriminate.
    destruct (reg_keys t (tw q) (tb s) c) as [b' os] eqn:Erk.
    destruct (HT t q Et) as (Hnd & Hpairs & Hlink). unfold todo_of in Hnd. rewrite Est in Hnd. unfold link in Hlink. rewrite Est in Hlink.
    cbn [concat] in Hnd. destruct (nodup_app _ _ Hnd) as (N1 & N2 & N3). destruct (nodup_app _ _ N2) as (Nc & _ & _).
    assert (Hfresh : forall r, In r (tregs (tb s)) -> gt r = t -> ~ In (gk r) c).
    { intros r Hin Hgt Hc. destruct (HR r Hin) as (q0 & A & _ & B). rewrite Hgt, Et in A. inversion A; subst q0.
      apply (N3 (gk r)); [apply in_map_iff; exists (gk r, go r); split; [reflexivity|exact B]|apply in_or_app; left; exact Hc]. }
    destruct (reg_keys_spec t (tw q) c (tb s) b' os HTb Nc Hfresh Erk) as (HTb' & Hlen & _ & _ & (news & Rn & An & Bn)).
    set (s1 := {| base := base s; tb := b'; thr := thr s |}) in *.
    set (q1 := {| tw := tw q; tregd := tregd q ++ combine c os; tstage := SReg todo |}) in *.
    destruct (after_section s1 t q1 s' HI H) as (HI' & Etb & Hoth & (q' & Q1 & Q2 & Q3 & Q4)).
    + eexists; reflexivity.
    + exact Hlink.
    + cbn [q1 tregd todo_of tstage]. rewrite map_app, map_fst_combine by exact Hlen. rewrite <- app_assoc. exact Hnd.
    + cbn [q1 tregd tw s1 tb]. rewrite Rn. intros k o Hin. apply in_or_app. apply in_app_or in Hin. destruct Hin as [Hin|Hin]; [right; apply Hpairs, Hin|left; apply Bn, Hin].
    + cbn [s1 base tb thr] in *. apply (finv_frame s s' t HF HI'); [rewrite Etb; exact HTb'|exact Hoth| | | |].
      * intros r Hgt. rewrite Etb, Rn. split; [|intros Hin; apply in_or_app; right; exact Hin].
        intros Hin. apply in_app_or in Hin. destruct Hin as [Hin|Hin]; [|exact Hin]. destruct (An r Hin) as (P & _). congruence.
      * intros r Hin Hgt. rewrite Etb, Rn in Hin. exists q'. rewrite Hgt. split; [exact Q1|]. rewrite Q2, Q3. cbn [q1 tw tregd].
        apply in_app_or in Hin. destruct Hin as [Hin|Hin].
        -- destruct (An r Hin) as (_ & P2 & P3). split; [exact P2|apply in_or_app; right; exact P3].
        -- destruct (HR r Hin) as (q0 & A & B & C). rewrite Hgt, Et in A. inversion A; subst q0. split; [exact B|apply in_or_app; left; exact C].
      * intros q0 Hq0. rewrite Q1 in Hq0. inversion Hq0; subst. exact Q4.
      * rewrite Q1. discriminate.
  - (* FRelease *)
    destruct (thr s t) as [q|] eqn:Et; [|discriminate]. destruct (tstage q) eqn:Est; try discriminate.
    destruct (step (base s) (Release t)) as [b|] eqn:Es; [|discriminate]. inversion H; subst s'; clear H.
    destruct (HT t q Et) as (Hnd & Hpairs & Hlink). unfold link in Hlink. rewrite Est in Hlink. destruct Hlink as (r & n & L1 & L2 & L3 & L4).
    destruct (release_reqs _ _ _ Es) as (r' & n' & R1 & R2 & R3). rewrite L1 in R1. inversion R1; subst r'; clear R1.
    apply (finv_frame s _ t HF); cbn [base tb thr].
    + apply (inv_step _ _ _ HI Es).
    + exact HTb.
    + intros x Hx. split; [apply upd_other, Hx|rewrite R3; apply upd_other, Hx].
    + tauto.
    + intros r0 Hin Hgt. destruct (HR r0 Hin) as (q0 & A & B & C). rewrite Hgt, Et in A. inversion A; subst q0.
      unfold reg_ok. cbn [thr]. rewrite Hgt, upd_same. destruct (tregd q) as [|p rest] eqn:Eq; [destruct C|].
      exists (set_stage q SRel). cbn [set_stage tw tregd]. rewrite Eq. auto.
    + intros q0 Hq0. rewrite upd_same in Hq0. destruct (tregd q) as [|p rest] eqn:Eq; [discriminate|]. inversion Hq0; subst q0; clear Hq0.
      split; [|split].
      * unfold todo_of in *. rewrite Est in Hnd. cbn [set_stage tstage tregd]. rewrite Eq. exact Hnd.
      * cbn [set_stage tregd tw tb]. rewrite Eq. exact Hpairs.
      * unfold link. cbn [set_stage tstage tregd tw base]. exists (with_phase r (Rel (rkeys r))). rewrite R3, upd_same, L2, ?Eq. cbn [map].
        cbn [with_phase rwrite rphase]. split; [reflexivity|split; [exact L3|split; [reflexivity|discriminate]]].
    + rewrite upd_same. destruct (tregd q) as [|p rest] eqn:Eq; [|discriminate]. intros _. rewrite R3, upd_same, L2. reflexivity.
  - (* FUnlock *)
    destruct (thr s t) as [q|] eqn:Et; [|discriminate]. destruct (tstage q) eqn:Est; try discriminate.
    destruct (tregd q) as [|[k o_s] rem] eqn:Eq; [discriminate|].
    destruct (unreg_key t (tw q) (tb s) k) as [[b' o]|] eqn:Eu; [|discriminate].
    destruct (next_rel_obj s t) as [o'|]; [|discriminate]. destruct (Nat.eqb o' o); [|discriminate].
    destruct (step (base s) (UnlockKey t)) as [bs|] eqn:Es; [|discriminate]. inversion H; subst s'; clear H.
    destruct (HT t q Et) as (Hnd & Hpairs & Hlink). unfold link in Hlink. rewrite Est in Hlink. destruct Hlink as (r & L1 & L2 & L3 & L4).
    unfold todo_of in Hnd. rewrite Est, Eq in Hnd. cbn [map fst concat] in Hnd. rewrite app_nil_r in Hnd. inversion Hnd as [|? ? Hk Hndr]; subst.
    rewrite Eq in Hpairs, L3. cbn [map snd] in L3.
    destruct (unreg_key_inv t (tw q) (tb s) k o_s HTb (Hpairs k o_s (or_introl eq_refl))) as (b'' & U1 & HTb' & _ & _ & _ & A).
    rewrite Eu in U1. inversion U1; subst b'' o; clear U1.
    destruct (unlockkey_reqs _ _ _ Es) as (r' & k' & rem' & V1 & V2 & V3). rewrite L1 in V1. inversion V1; subst r'; clear V1.
    rewrite L3 in V2. inversion V2; subst k' rem'; clear V2.
    apply (finv_frame s _ t HF); cbn [base tb thr].
    + apply (inv_step _ _ _ HI Es).
    + exact HTb'.
    + intros x Hx. split; [apply upd_other, Hx|rewrite V3; apply upd_other, Hx].
    + intros r0 Hgt. rewrite A. tauto.
    + intros r0 Hin Hgt. apply A in Hin. destruct Hin as [Hin [Hc|Hc]]; [congruence|].
      destruct (HR r0 Hin) as (q0 & A0 & B0 & C0). rewrite Hgt, Et in A0. inversion A0; subst q0. rewrite Eq in C0.
      destruct C0 as [C0|C0]; [inversion C0; congruence|].
      unfold reg_ok. cbn [thr]. rewrite Hgt, upd_same. destruct rem as [|p rest]; [destruct C0|].
      eexists. split; [reflexivity|]. cbn [tw tregd]. auto.
    + intros q0 Hq0. rewrite upd_same in Hq0. destruct rem as [|p rest] eqn:Er; [discriminate|]. inversion Hq0; subst q0; clear Hq0.
      split; [|split].
      * cbn [todo_of tstage tregd concat]. rewrite app_nil_r. exact Hndr.
      * cbn [tregd tw tb]. intros k1 o1 Hin. apply A. split; [apply Hpairs; right; exact Hin|]. right. cbn [gk].
        intros ->. apply Hk. apply in_map_iff. exists (k, o1). split; [reflexivity|exact Hin].
      * unfold link. cbn [tstage tregd tw base]. exists (with_phase r (Rel (map snd (p :: rest)))). rewrite V3, upd_same. cbn [map].
        cbn [with_phase rwrite rphase]. split; [reflexivity|split; [exact L2|split; [reflexivity|discriminate]]].
    + rewrite upd_same. destruct rem as [|p rest]; [|discriminate]. intros _. rewrite V3, upd_same. reflexivity.
Qed.

Theorem frun_inv ls : forall s s', FInv s -> frun sh s ls = Some s' -> FInv s'.
Proof.
  unfold frun. induction ls as [|l ls IH]; intros s s' HF H; cbn [fold_left] in H.
  - inversion H; subst. exact HF.
  - destruct (fstep sh s l) as [s1|] eqn:E; [apply (IH s1 s' (finv_step s l s1 HF E) H)|].
    exfalso. clear -H. induction ls as [|l' ls IH]; cbn [fold_left] in H; [discriminate|auto].
Qed.
Corollary reachable_finv ls s : frun sh finit ls = Some s -> FInv s.
Proof. apply frun_inv, finit_inv. Qed.

End Steps.
