(* C14 core: NormalizeSlotIndex on 64-bit ints; the repaired order of operations is in range for every hash *)
From Coq Require Import ZArith Lia.
Local Open Scope Z_scope.

Definition MinInt := - 2 ^ 63.
Definition MaxInt := 2 ^ 63 - 1.
Definition wrap64 (x : Z) : Z := (x + 2 ^ 63) mod 2 ^ 64 - 2 ^ 63.      (* Go's int arithmetic on amd64 *)
Definition in64 (x : Z) := MinInt <= x <= MaxInt.

(* pinned tree: if index < 0 { index = -index }; index %= slotSize *)
Definition slot_old (index n : Z) : Z :=
  let i := if index <? 0 then wrap64 (- index) else index in Z.rem i n.
(* repaired: index %= slotSize; if index < 0 { index = -index } *)
Definition slot_new (index n : Z) : Z :=
  let r := Z.rem index n in if r <? 0 then wrap64 (- r) else r.

Lemma wrap64_id x : in64 x -> wrap64 x = x.
Proof. unfold in64, wrap64, MinInt, MaxInt. intros H. rewrite Z.mod_small by lia. lia. Qed.

Theorem slot_in_range index n : in64 index -> 1 <= n <= MaxInt -> 0 <= slot_new index n < n.
Proof.
  intros Hi Hn. unfold slot_new.
  destruct (Z.le_gt_cases 0 index) as [Hpos|Hneg].
  - pose proof (Z.rem_bound_pos index n Hpos ltac:(lia)) as Hb.
    replace (Z.rem index n <? 0) with false by (symmetry; apply Z.ltb_ge; lia). lia.
  - pose proof (Z.rem_bound_pos_neg index n ltac:(lia) ltac:(lia)) as Hb.
    destruct (Z.rem index n <? 0) eqn:E; [apply Z.ltb_lt in E | apply Z.ltb_ge in E].
    + rewrite wrap64_id; [lia|]. unfold in64, MinInt, MaxInt in *. lia.
    + lia.
Qed.

(* on every hash but MinInt the repair computes what the pinned code computed *)
Theorem slot_same index n : in64 index -> index <> MinInt -> 1 <= n <= MaxInt -> slot_new index n = slot_old index n.
Proof.
  intros Hi Hne Hn. unfold slot_new, slot_old.
  destruct (index <? 0) eqn:E; [apply Z.ltb_lt in E | apply Z.ltb_ge in E].
  - rewrite (wrap64_id (- index)) by (unfold in64, MinInt, MaxInt in *; lia).
    rewrite Z.rem_opp_l by lia.
    pose proof (Z.rem_bound_pos_neg index n ltac:(lia) ltac:(lia)) as Hb.
    destruct (Z.rem index n <? 0) eqn:E2; [apply Z.ltb_lt in E2 | apply Z.ltb_ge in E2].
    + apply wrap64_id. unfold in64, MinInt, MaxInt in *. lia.
    + assert (Z.rem index n = 0) by lia. rewrite H. reflexivity.
  - pose proof (Z.rem_bound_pos index n ltac:(lia) ltac:(lia)) as Hb.
    replace (Z.rem index n <? 0) with false by (symmetry; apply Z.ltb_ge; lia). reflexivity.
Qed.

(* the pinned code on MinInt with 509 lanes: -MinInt wraps to MinInt, the remainder is negative *)
Example slot_minint_refuted : slot_old MinInt 509 = -151 /\ slot_new MinInt 509 = 151.
Proof. split; vm_compute; reflexivity. Qed.
Print Assumptions slot_in_range.
