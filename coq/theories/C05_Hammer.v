(* C05: any number of operations on ONE key of a fresh cache, in any order (any linearisation of callers racing on that
   key), followed by Remove of that key, leaves exactly the empty cache.  The harness class mem-remove-vs-reset relies on
   it: the unrecorded hammering + Remove(k) is replayed as Remove(k) on the empty cache. *)
From Coq Require Import ZArith List Lia Bool.
Require Import TTL TTLView C05_Hist C05_Mon.
Import ListNotations.
Open Scope Z_scope.

Definition on_key (k : Z) (o : op) : Prop :=
  match o with OSet k' _ _ | OGet k' _ | ORemove k' => k' = k | OClear => True end.
Definition only_key (k : Z) (c : cache) : Prop := forall n, In n (l c) -> key n = k.

Lemma only_key_erase k c : only_key k c -> only_key k (without c k).
Proof. intros H n Hn. cbn [without l] in Hn. apply In_erase in Hn as [Hn _]. now apply H. Qed.

Lemma only_key_step k c now o : on_key k o -> only_key k c -> only_key k (fst (step c now o)).
Proof.
  intros Ho Hc. destruct o as [k' v so|k' go|k'|]; cbn [on_key] in Ho; try subst k'; cbn [step].
  - unfold set. destruct (find_k k (l c)) as [n|] eqn:Hf.
    + destruct (dl n <? now).
      * cbn [fst]. intros m Hm. cbn [l] in Hm.
        assert (Hin : In m ({| key := k; val := v; dl := deadline (set_ttl c so) now |} :: erase k (l c))).
        { destruct (size c <? _); [now apply In_removelast|exact Hm]. }
        destruct Hin as [<-|Hin]; [reflexivity|]. apply In_erase in Hin as [Hin _]. now apply Hc.
      * destruct (mne so); cbn [fst]; [exact Hc|]. intros m [<-|Hm]; [reflexivity|]. apply In_erase in Hm as [Hm _]. now apply Hc.
    + cbn [fst]. intros m Hm. cbn [l] in Hm.
      assert (Hin : In m ({| key := k; val := v; dl := deadline (set_ttl c so) now |} :: l c)).
      { destruct (size c <? _); [now apply In_removelast|exact Hm]. }
      destruct Hin as [<-|Hin]; [reflexivity|now apply Hc].
  - unfold get. destruct (find_k k (l c)) as [n|] eqn:Hf; [|exact Hc].
    destruct (dl n <? now); [now apply only_key_erase|]. destruct (rag go); [now apply only_key_erase|].
    cbn [fst]. intros m [<-|Hm]; [reflexivity|]. apply In_erase in Hm as [Hm _]. now apply Hc.
  - now apply only_key_erase.
  - intros n [].
Qed.

Lemma only_key_run k h : (forall s, In s h -> on_key k (snd s)) -> forall c, only_key k c ->
  only_key k (fst (run c h)) /\ size (fst (run c h)) = size c /\ dttl (fst (run c h)) = dttl c.
Proof.
  induction h as [|[now o] h IH]; intros Hh c Hc; cbn [run]; [now repeat split|].
  pose proof (only_key_step k c now o (Hh (now, o) (or_introl eq_refl)) Hc) as H1. pose proof (step_cfg c now o) as [H2 H3].
  destruct (step c now o) as [c1 r]. cbn [fst] in *.
  destruct (IH (fun s Hs => Hh s (or_intror Hs)) c1 H1) as (Ha & Hb & Hd). destruct (run c1 h) as [c2 rs]. cbn [fst] in *.
  split; [exact Ha|]. split; congruence.
Qed.

Lemma erase_only_key k l0 : (forall n, In n l0 -> key n = k) -> erase k l0 = [].
Proof.
  unfold erase. induction l0 as [|n r IH]; intros H; [reflexivity|]. cbn [filter].
  rewrite (H n (or_introl eq_refl)), Z.eqb_refl. cbn [negb]. apply IH. intros m Hm. apply H. now right.
Qed.

Theorem hammer_collapses sz dt k h now : (forall s, In s h -> on_key k (snd s)) ->
  fst (run (empty sz dt) (h ++ [(now, ORemove k)])) = empty sz dt.
Proof.
  intros Hh. rewrite run_app.
  destruct (only_key_run k h Hh (empty sz dt)) as (Ha & Hb & Hd); [intros n []|].
  destruct (run (empty sz dt) h) as [c1 r1]. cbn [fst] in *. cbn [run step]. cbn [fst].
  unfold without, empty. cbn [empty size dttl] in Hb, Hd. rewrite Hb, Hd. f_equal. now apply erase_only_key.
Qed.

(* hence what the cache reports after the hammering and Remove(k) is what it reports, from empty, after Remove(k) alone *)
Corollary hammer_tail sz dt k h now rest : (forall s, In s h -> on_key k (snd s)) ->
  exists pre, snd (run (empty sz dt) (h ++ (now, ORemove k) :: rest)) = pre ++ snd (run (empty sz dt) ((now, ORemove k) :: rest))
              /\ length pre = length h.
Proof.
  intros Hh. pose proof (hammer_collapses sz dt k h now Hh) as Hc.
  replace (h ++ (now, ORemove k) :: rest) with ((h ++ [(now, ORemove k)]) ++ rest) by (now rewrite <- app_assoc).
  rewrite run_app. rewrite run_app in Hc |- *.
  pose proof (run_length h (empty sz dt)) as Hl.
  destruct (run (empty sz dt) h) as [c1 r1]. cbn [fst snd] in *.
  cbn [run step] in Hc |- *. cbn [fst] in Hc. rewrite Hc.
  change (without (empty sz dt) k) with (empty sz dt).
  destruct (run (empty sz dt) rest) as [c3 r3]. cbn [snd].
  exists r1. split; [now rewrite <- app_assoc|exact Hl].
Qed.
