(* C03, layer H: trees and their clones in one store, on one free list.  Every history of Clone / ReplaceOrInsert /
   Delete / DeleteMin / DeleteMax / Clear(true|false) on any handles and of NewWithFreeList on the shared free list,
   started from the empty tree with a free list of any size, keeps the family invariant (each handle stands for a
   functional tree satisfying the B-tree invariant; contexts distinct; a node owned by a handle's context occurs in
   no other handle's tree; freed and unallocated addresses are free), does on the functional values exactly what the
   functional model does handle by handle, and a write through one handle changes no other handle's value. *)
From Coq Require Import ZArith List Lia Bool Sorting.Sorted.
Require Import C03_Model C03_Spec C03_D C03_Tree C03_Hist C03_Cow C03_Heap C03_HeapLib C03_HeapIns C03_HeapRem C03_HeapTree C03_HeapClear.
Import ListNotations.
Open Scope nat_scope.

(* ---------------- lists by index ---------------- *)
Lemma nth_error_set_same {A} (l : list A) i x : i < length l -> nth_error (set_at l i x) i = Some x.
Proof.
  intros Hi. unfold set_at. rewrite nth_error_app2; rewrite firstn_length_le by lia; [|lia]. now rewrite Nat.sub_diag.
Qed.
Lemma nth_error_set_other {A} (l : list A) i j x : i < length l -> j <> i -> nth_error (set_at l i x) j = nth_error l j.
Proof.
  intros Hi Hne. unfold set_at. destruct (Nat.lt_ge_cases j i) as [Hlt|Hge].
  - rewrite nth_error_app1 by (rewrite firstn_length_le; lia). rewrite <- (firstn_skipn i l) at 2. rewrite nth_error_app1 by (rewrite firstn_length_le; lia). reflexivity.
  - rewrite nth_error_app2 by (rewrite firstn_length_le; lia). rewrite firstn_length_le by lia.
    destruct (j - i) as [|d] eqn:Ed; [lia|]. cbn [nth_error].
    rewrite <- (firstn_skipn (S i) l) at 2. rewrite nth_error_app2 by (rewrite firstn_length_le; lia). rewrite firstn_length_le by lia. f_equal. lia.
Qed.
Lemma set_at_length {A} (l : list A) i x : i < length l -> length (set_at l i x) = length l.
Proof. apply length_set_at. Qed.

(* ---------------- the functional family ---------------- *)
Definition f_step (deg : nat) (ts : list itree) (o : hop) : option (list itree * option item) :=
  match o with
  | HClone i => match nth_error ts i with Some t => Some (ts ++ [t], None) | None => None end
  | HIns i it => match nth_error ts i with
                 | Some t => match itree_insert deg t it with Some (t', out) => Some (set_at ts i t', out) | None => None end
                 | None => None end
  | HDel i r => match nth_error ts i with
                | Some t => match itree_delete deg t r with Some (t', out) => Some (set_at ts i t', out) | None => None end
                | None => None end
  | HClear i _ => match nth_error ts i with Some _ => Some (set_at ts i iempty, None) | None => None end
  | HNew => Some (ts ++ [iempty], None)
  end.

(* ---------------- the family invariant ---------------- *)
Definition hrel (deg : nat) (h : heap) (hd : hhandle) (t : itree) : Prop := habs h hd = Some t /\ exists L, refines deg t L.

Record winv (deg : nat) (w : world) (ts : list itree) : Prop := {
  wi_alloc : good_alloc (wst w);
  wi_len : length (whs w) = length ts;
  wi_rel : forall i hd t, nth_error (whs w) i = Some hd -> nth_error ts i = Some t -> hrel deg (hp (wst w)) hd t;
  wi_ctx : forall i hd, nth_error (whs w) i = Some hd -> hctx hd < wctx w;
  wi_distinct : forall i j hi hj, nth_error (whs w) i = Some hi -> nth_error (whs w) j = Some hj -> i <> j -> hctx hi <> hctx hj;
  wi_owner : forall x n, hp (wst w) x = Some n -> own n < wctx w;
  (* a node owned by the context of handle i occurs in the tree of no other handle *)
  wi_sep : forall i j hi hj x n, nth_error (whs w) i = Some hi -> nth_error (whs w) j = Some hj -> i <> j ->
             In x (hfp (hp (wst w)) hj) -> hp (wst w) x = Some n -> own n <> hctx hi
}.

Lemma winv_init deg k : winv deg (world_init k) [iempty].
Proof.
  constructor; cbn.
  - split; [reflexivity|]. split; [intros a []|constructor].
  - reflexivity.
  - intros [|[|i]] hd t H1 H2; cbn in *; try discriminate. inversion H1; inversion H2; subst. split; [reflexivity|]. exists []. apply refines_empty.
  - intros [|[|i]] hd H; cbn in *; try discriminate. inversion H; subst. cbn. lia.
  - intros [|[|i]] [|[|j]] hi hj H1 H2 Hne; cbn in *; try discriminate; lia.
  - discriminate.
  - discriminate.
Qed.
Lemma winv0 deg : winv deg world0 [iempty].
Proof. apply winv_init. Qed.

(* what a write through context c leaves alone *)
Lemma habs_frame c A h h' hd t : wr c A h h' -> habs h hd = Some t ->
  (forall x n, In x (hfp h hd) -> h x = Some n -> own n <> c) ->
  habs h' hd = Some t /\ hfp h' hd = hfp h hd.
Proof.
  intros Hwr Ha Hno. unfold habs, hfp in *. destruct (hroot hd) as [r|]; [|auto].
  destruct (abs IFUEL h r) as [n|] eqn:E; [|discriminate].
  destruct (wr_frame c A h h' IFUEL r n Hwr E) as [A1 A2]; [intros x m Hx Hm; right; apply (Hno x m Hx Hm)|].
  rewrite A1, A2. auto.
Qed.

(* ---------------- one write through handle i ---------------- *)
Lemma write_step deg w ts i hd t s' hd' t' :
  winv deg w ts -> nth_error (whs w) i = Some hd -> nth_error ts i = Some t ->
  habs (hp s') hd' = Some t' -> (exists L', refines deg t' L') -> hctx hd' = hctx hd -> good_alloc s' ->
  step_ok (hctx hd) (hfp (hp (wst w)) hd) (hp (wst w)) (hp s') (hfp (hp s') hd') ->
  let w' := {| wst := s'; wctx := wctx w; whs := set_h (whs w) i hd' |} in
  winv deg w' (set_at ts i t') /\
  (forall j hj, j <> i -> nth_error (whs w) j = Some hj ->
     nth_error (whs w') j = Some hj /\ habs (hp s') hj = habs (hp (wst w)) hj).
Proof.
  intros [Hal Hlen Hrel Hctx Hdis Hown Hsep] Hi Hti Hab' Href' Hc' Hg' [Hwr Hfp].
  assert (Hil : i < length (whs w)) by (apply nth_error_Some; congruence).
  change (set_h (whs w) i hd') with (set_at (whs w) i hd'). cbv zeta.
  assert (Hother : forall j hj, j <> i -> nth_error (whs w) j = Some hj ->
            habs (hp s') hj = habs (hp (wst w)) hj /\ hfp (hp s') hj = hfp (hp (wst w)) hj).
  { intros j hj Hne Hj. destruct (nth_error ts j) as [tj|] eqn:Etj.
    - destruct (Hrel j hj tj Hj Etj) as [Haj _].
      destruct (habs_frame (hctx hd) _ _ _ hj tj Hwr Haj) as [A B]; [intros x n Hx Hn; apply (Hsep i j hd hj x n Hi Hj (fun E => Hne (eq_sym E)) Hx Hn)|].
      split; [congruence|exact B].
    - exfalso. apply nth_error_None in Etj. assert (j < length (whs w)) by (apply nth_error_Some; congruence). lia. }
  split.
  - constructor; cbn [wst wctx whs].
    + exact Hg'.
    + rewrite !set_at_length by lia. exact Hlen.
    + intros j hj tj Hj Htj. destruct (Nat.eq_dec j i) as [->|Hne].
      * rewrite nth_error_set_same in Hj by lia. rewrite nth_error_set_same in Htj by lia. inversion Hj; inversion Htj; subst. split; assumption.
      * rewrite nth_error_set_other in Hj by lia. rewrite nth_error_set_other in Htj by lia.
        destruct (Hrel j hj tj Hj Htj) as [A B]. split; [rewrite (proj1 (Hother j hj Hne Hj)); exact A|exact B].
    + intros j hj Hj. destruct (Nat.eq_dec j i) as [->|Hne].
      * rewrite nth_error_set_same in Hj by lia. inversion Hj; subst. rewrite Hc'. apply (Hctx i hd Hi).
      * rewrite nth_error_set_other in Hj by lia. apply (Hctx j hj Hj).
    + intros j1 j2 h1 h2 H1 H2 Hne.
      assert (G : forall j hj, nth_error (set_at (whs w) i hd') j = Some hj -> exists hj0, nth_error (whs w) j = Some hj0 /\ hctx hj = hctx hj0).
      { intros j hj Hj. destruct (Nat.eq_dec j i) as [->|Hn]; [rewrite nth_error_set_same in Hj by lia; inversion Hj; subst; exists hd; auto|].
        rewrite nth_error_set_other in Hj by lia. exists hj. auto. }
      destruct (G j1 h1 H1) as (a1 & A1 & ->). destruct (G j2 h2 H2) as (a2 & A2 & ->). apply (Hdis j1 j2 a1 a2 A1 A2 Hne).
    + intros x n Hx. destruct (Hwr x) as [E|[_ Ho]]; [rewrite E in Hx; apply (Hown x n Hx)|]. rewrite (Ho n Hx). apply (Hctx i hd Hi).
    + intros j1 j2 h1 h2 x n H1 H2 Hne Hx Hn.
      destruct (Nat.eq_dec j2 i) as [->|Hn2].
      * (* x is in the writer's new tree *)
        rewrite nth_error_set_same in H2 by lia. inversion H2; subst h2.
        rewrite nth_error_set_other in H1 by lia.
        assert (Hcc : hctx hd <> hctx h1) by (apply (Hdis i j1 hd h1 Hi H1); congruence).
        destruct (Hwr x) as [E|[_ Ho]].
        -- rewrite E in Hn. destruct (Hfp x Hx) as [Hx0|Hx0]; [|congruence]. apply (Hsep j1 i h1 hd x n H1 Hi Hne Hx0 Hn).
        -- rewrite (Ho n Hn). exact Hcc.
      * rewrite nth_error_set_other in H2 by lia. destruct (Hother j2 h2 Hn2 H2) as [_ Hfp2]. rewrite Hfp2 in Hx.
        assert (Hn0 : hp (wst w) x = Some n).
        { destruct (hp (wst w) x) as [n0|] eqn:E0.
          - assert (Hk : hp s' x = Some n0) by (apply (wr_keep (hctx hd) _ _ _ x n0 Hwr E0); right; apply (Hsep i j2 hd h2 x n0 Hi H2 (fun E => Hn2 (eq_sym E)) Hx E0)).
            congruence.
          - exfalso. unfold hfp in Hx. destruct (hroot h2) as [a|]; [exact (addrs_alloc IFUEL (hp (wst w)) a x Hx E0)|destruct Hx]. }
        destruct (Nat.eq_dec j1 i) as [->|Hn1].
        -- rewrite nth_error_set_same in H1 by lia. inversion H1; subst h1. rewrite Hc'. apply (Hsep i j2 hd h2 x n Hi H2 Hne Hx Hn0).
        -- rewrite nth_error_set_other in H1 by lia. apply (Hsep j1 j2 h1 h2 x n H1 H2 Hne Hx Hn0).
  - intros j hj Hne Hj. cbn [whs]. split; [rewrite nth_error_set_other by lia; exact Hj|apply (Hother j hj Hne Hj)].
Qed.

(* ---------------- one operation on the family ---------------- *)
Lemma IFUEL_is : IFUEL = 64.
Proof. reflexivity. Qed.
Local Strategy opaque [IFUEL].

Definition small_t (t : itree) : Prop := (ilen t < 2147483648)%Z.
(* the handle an operation goes through *)
Definition target (o : hop) : option nat := match o with HClone i | HIns i _ | HDel i _ | HClear i _ => Some i | HNew => None end.

Lemma habs_same h hd hd' : hroot hd' = hroot hd -> hlen hd' = hlen hd -> habs h hd' = habs h hd /\ hfp h hd' = hfp h hd.
Proof. intros E1 E2. unfold habs, hfp. rewrite E1, E2. auto. Qed.

Lemma refines_of_tinv deg h t : tinv deg h t -> h <= 31 -> small_t t -> refines deg t (contents h t).
Proof.
  intros Hi Hh Hs. split; [exists h; auto|]. unfold small, small_t in *. destruct Hi as [_ Hl]. rewrite <- Hl. change (2 ^ 31)%Z with 2147483648%Z. exact Hs.
Qed.

Theorem w_step_sim deg : 2 <= deg -> forall w ts o ts' out, winv deg w ts ->
  f_step deg ts o = Some (ts', out) -> (forall t', In t' ts' -> small_t t') ->
  exists w', w_step_h deg w o = Some (w', out) /\ winv deg w' ts' /\
    (forall j hj, target o <> Some j -> nth_error (whs w) j = Some hj ->
       nth_error (whs w') j = Some hj /\ habs (hp (wst w')) hj = habs (hp (wst w)) hj).
Proof.
  intros Hd w ts o ts' out Hw Hf Hsm. pose proof Hw as [Hal Hlen Hrel Hctx Hdis Hown Hsep].
  destruct o as [i|i it|i r|i b|]; cbn [f_step w_step_h target] in *.
  - (* Clone *)
    destruct (nth_error ts i) as [t|] eqn:Et; [|discriminate]. inversion Hf; subst ts' out; clear Hf.
    assert (Hil : i < length (whs w)) by (rewrite Hlen; apply nth_error_Some; congruence).
    destruct (nth_error (whs w) i) as [hd|] eqn:Eh; [|apply nth_error_None in Eh; lia].
    set (hd1 := {| hroot := hroot hd; hctx := wctx w; hlen := hlen hd |}).
    set (hd2 := {| hroot := hroot hd; hctx := S (wctx w); hlen := hlen hd |}).
    eexists. split; [reflexivity|]. change (set_h (whs w) i hd1) with (set_at (whs w) i hd1).
    assert (Hl1 : length (set_at (whs w) i hd1) = length (whs w)) by (apply set_at_length, Hil).
    (* every handle of the new family is an old handle under an old or one of the two fresh contexts *)
    assert (G : forall j hj, nth_error (set_at (whs w) i hd1 ++ [hd2]) j = Some hj ->
              exists j0 h0, nth_error (whs w) j0 = Some h0 /\ hroot hj = hroot h0 /\ hlen hj = hlen h0 /\
                ((j = j0 /\ j0 <> i /\ hj = h0) \/ (j = i /\ j0 = i /\ hctx hj = wctx w) \/ (j = length (whs w) /\ j0 = i /\ hctx hj = S (wctx w)))).
    { intros j hj Hj. destruct (Nat.lt_ge_cases j (length (whs w))) as [Hlt|Hge].
      - rewrite nth_error_app1 in Hj by lia. destruct (Nat.eq_dec j i) as [->|Hne].
        + rewrite nth_error_set_same in Hj by lia. inversion Hj; subst hj. exists i, hd. cbn. auto 10.
        + rewrite nth_error_set_other in Hj by lia. exists j, hj. auto 10.
      - rewrite nth_error_app2 in Hj by lia. rewrite Hl1 in Hj. destruct (j - length (whs w)) as [|d] eqn:Ed; [|destruct d; discriminate].
        cbn in Hj. inversion Hj; subst hj. exists i, hd. cbn. split; [exact Eh|]. split; [reflexivity|]. split; [reflexivity|]. right. right. split; [lia|auto]. }
    split; [constructor; cbn [wst wctx whs]|].
    + exact Hal.
    + rewrite !app_length, Hl1, Hlen. reflexivity.
    + intros j hj tj Hj Htj. destruct (G j hj Hj) as (j0 & h0 & H0 & Er & El & Hcase).
      assert (Etj : nth_error ts j0 = Some tj).
      { destruct Hcase as [(-> & _ & _)|[(-> & -> & _)|(-> & -> & _)]].
        - rewrite nth_error_app1 in Htj; [exact Htj|]. rewrite <- Hlen. apply nth_error_Some. congruence.
        - rewrite nth_error_app1 in Htj by (rewrite <- Hlen; lia). exact Htj.
        - rewrite nth_error_app2 in Htj by lia. rewrite Hlen, Nat.sub_diag in Htj. cbn in Htj. congruence. }
      destruct (Hrel j0 h0 tj H0 Etj) as [A B]. split; [|exact B]. rewrite (proj1 (habs_same _ h0 hj Er El)). exact A.
    + intros j hj Hj. destruct (G j hj Hj) as (j0 & h0 & H0 & _ & _ & [(_ & _ & ->)|[(_ & _ & ->)|(_ & _ & ->)]]); [pose proof (Hctx j0 h0 H0); lia|lia|lia].
    + intros j1 j2 h1 h2 H1 H2 Hne.
      destruct (G j1 h1 H1) as (a1 & b1 & A1 & _ & _ & C1). destruct (G j2 h2 H2) as (a2 & b2 & A2 & _ & _ & C2).
      pose proof (Hctx a1 b1 A1). pose proof (Hctx a2 b2 A2).
      destruct C1 as [(-> & N1 & ->)|[(-> & -> & E1)|(-> & -> & E1)]]; destruct C2 as [(-> & N2 & ->)|[(-> & -> & E2)|(-> & -> & E2)]]; try lia.
      apply (Hdis a1 a2 b1 b2 A1 A2 Hne).
    + intros x n Hx. pose proof (Hown x n Hx). lia.
    + intros j1 j2 h1 h2 x n H1 H2 Hne Hx Hn.
      destruct (G j1 h1 H1) as (a1 & b1 & A1 & _ & _ & C1). destruct (G j2 h2 H2) as (a2 & b2 & A2 & Er2 & El2 & C2).
      rewrite (proj2 (habs_same (hp (wst w)) b2 h2 Er2 El2)) in Hx. pose proof (Hown x n Hn).
      destruct C1 as [(-> & N1 & ->)|[(-> & -> & E1)|(-> & -> & E1)]]; [|lia|lia].
      apply (Hsep a1 a2 b1 b2 x n A1 A2); [|exact Hx|exact Hn].
      destruct C2 as [(-> & _ & _)|[(_ & -> & _)|(_ & -> & _)]]; [exact Hne|exact N1|exact N1].
    + intros j hj Hne0 Hj. assert (Hne : j <> i) by congruence. cbn [whs wst]. split; [|reflexivity].
      assert (j < length (whs w)) by (apply nth_error_Some; congruence).
      rewrite nth_error_app1 by lia. rewrite nth_error_set_other by lia. exact Hj.
  - (* ReplaceOrInsert *)
    destruct (nth_error ts i) as [t|] eqn:Et; [|discriminate].
    destruct (itree_insert deg t it) as [[t' out']|] eqn:Ei; [|discriminate]. inversion Hf; subst ts' out; clear Hf.
    assert (Hil : i < length (whs w)) by (rewrite Hlen; apply nth_error_Some; congruence).
    destruct (nth_error (whs w) i) as [hd|] eqn:Eh; [|apply nth_error_None in Eh; lia].
    destruct (Hrel i hd t Eh Et) as [Hab (L & (h & Hti & Hc & Hh) & HsL)]. rewrite <- Hc in HsL.
    pose proof (height_small deg Hd h t Hti HsL) as H30.
    destruct (itree_insert_ok deg Hd h t it Hti ltac:(rewrite IFUEL_is; lia)) as (h' & t'' & E'' & Hti' & Hle & Hc').
    rewrite Ei in E''. inversion E''; subst t'' out'. clear E''.
    destruct (h_roi_sim deg Hd (wst w) hd it t h t' _ Hal Hab Hti ltac:(rewrite IFUEL_is; lia) Ei) as (s' & hd' & E & Hab' & Hcx & _ & Hg' & Hstep).
    rewrite E. eexists. split; [reflexivity|].
    assert (Hsm' : small_t t') by (apply Hsm; unfold set_at; apply in_or_app; right; left; reflexivity).
    destruct (write_step deg w ts i hd t s' hd' t' Hw Eh Et Hab') as [W1 W2]; [exists (contents h' t'); apply refines_of_tinv; [exact Hti'|lia|exact Hsm']|exact Hcx|exact Hg'|exact Hstep|].
    split; [exact W1|]. intros j hj Hne Hj. apply W2; [congruence|exact Hj].
  - (* Delete / DeleteMin / DeleteMax *)
    destruct (nth_error ts i) as [t|] eqn:Et; [|discriminate].
    destruct (itree_delete deg t r) as [[t' out']|] eqn:Ei; [|discriminate]. inversion Hf; subst ts' out; clear Hf.
    assert (Hil : i < length (whs w)) by (rewrite Hlen; apply nth_error_Some; congruence).
    destruct (nth_error (whs w) i) as [hd|] eqn:Eh; [|apply nth_error_None in Eh; lia].
    destruct (Hrel i hd t Eh Et) as [Hab (L & (h & Hti & Hc & Hh) & HsL)]. rewrite <- Hc in HsL.
    pose proof (height_small deg Hd h t Hti HsL) as H30.
    destruct (itree_delete_ok deg Hd h t r Hti ltac:(rewrite IFUEL_is; lia)) as (h' & t'' & E'' & Hti' & Hle & Hc').
    rewrite Ei in E''. inversion E''; subst t'' out'. clear E''.
    destruct (h_delete_sim deg Hd (wst w) hd r t h t' _ Hal Hab Hti ltac:(rewrite IFUEL_is; lia) Ei) as (s' & hd' & E & Hab' & Hcx & Hg' & Hstep).
    rewrite E. eexists. split; [reflexivity|].
    assert (Hsm' : small_t t') by (apply Hsm; unfold set_at; apply in_or_app; right; left; reflexivity).
    destruct (write_step deg w ts i hd t s' hd' t' Hw Eh Et Hab') as [W1 W2]; [exists (contents h' t'); apply refines_of_tinv; [exact Hti'|lia|exact Hsm']|exact Hcx|exact Hg'|exact Hstep|].
    split; [exact W1|]. intros j hj Hne Hj. apply W2; [congruence|exact Hj].
  - (* Clear *)
    destruct (nth_error ts i) as [t|] eqn:Et; [|discriminate]. inversion Hf; subst ts' out; clear Hf.
    assert (Hil : i < length (whs w)) by (rewrite Hlen; apply nth_error_Some; congruence).
    destruct (nth_error (whs w) i) as [hd|] eqn:Eh; [|apply nth_error_None in Eh; lia].
    destruct (h_clear_sim (wst w) hd b Hal) as (Hg' & Hab' & Hcx & Hstep).
    destruct (h_clear (wst w) hd b) as [s' hd'] eqn:Ec. cbn [fst snd] in *.
    eexists. split; [reflexivity|].
    destruct (write_step deg w ts i hd t s' hd' iempty Hw Eh Et Hab') as [W1 W2]; [exists []; apply refines_empty|exact Hcx|exact Hg'|exact Hstep|].
    split; [exact W1|]. intros j hj Hne Hj. apply W2; [congruence|exact Hj].
  - (* NewWithFreeList on the shared free list *)
    inversion Hf; subst ts' out; clear Hf.
    set (hn := {| hroot := None; hctx := wctx w; hlen := 0%Z |}).
    eexists. split; [reflexivity|].
    assert (G : forall j hj, nth_error (whs w ++ [hn]) j = Some hj ->
              (j < length (whs w) /\ nth_error (whs w) j = Some hj) \/ (j = length (whs w) /\ hj = hn)).
    { intros j hj Hj. destruct (Nat.lt_ge_cases j (length (whs w))) as [Hlt|Hge].
      - rewrite nth_error_app1 in Hj by lia. left. auto.
      - rewrite nth_error_app2 in Hj by lia. destruct (j - length (whs w)) as [|d] eqn:Ed; [|destruct d; discriminate].
        cbn in Hj. inversion Hj. right. split; [lia|reflexivity]. }
    split; [constructor; cbn [wst wctx whs]|].
    + exact Hal.
    + rewrite !app_length, Hlen. reflexivity.
    + intros j hj tj Hj Htj. destruct (G j hj Hj) as [(Hlt & Hj0)|(-> & ->)].
      * rewrite nth_error_app1 in Htj by lia. apply (Hrel j hj tj Hj0 Htj).
      * rewrite nth_error_app2 in Htj by lia. rewrite Hlen, Nat.sub_diag in Htj. cbn in Htj. inversion Htj; subst tj.
        split; [reflexivity|exists []; apply refines_empty].
    + intros j hj Hj. destruct (G j hj Hj) as [(_ & Hj0)|(_ & ->)]; [pose proof (Hctx j hj Hj0); lia|cbn; lia].
    + intros j1 j2 h1 h2 H1 H2 Hne.
      destruct (G j1 h1 H1) as [(L1 & A1)|(-> & ->)]; destruct (G j2 h2 H2) as [(L2 & A2)|(-> & ->)].
      * apply (Hdis j1 j2 h1 h2 A1 A2 Hne).
      * pose proof (Hctx j1 h1 A1). cbn. lia.
      * pose proof (Hctx j2 h2 A2). cbn. lia.
      * congruence.
    + intros x n Hx. pose proof (Hown x n Hx). lia.
    + intros j1 j2 h1 h2 x n H1 H2 Hne Hx Hn.
      destruct (G j2 h2 H2) as [(L2 & A2)|(-> & ->)]; [|destruct Hx].
      destruct (G j1 h1 H1) as [(L1 & A1)|(-> & ->)].
      * apply (Hsep j1 j2 h1 h2 x n A1 A2 Hne Hx Hn).
      * pose proof (Hown x n Hn). cbn. lia.
    + intros j hj _ Hj. cbn [whs wst]. split; [|reflexivity].
      assert (j < length (whs w)) by (apply nth_error_Some; congruence). rewrite nth_error_app1 by lia. exact Hj.
Qed.

(* ---------------- every history ---------------- *)
Fixpoint f_run (deg : nat) (ts : list itree) (ops : list hop) : option (list itree * list (option item)) :=
  match ops with
  | [] => Some (ts, [])
  | o :: r => match f_step deg ts o with
              | Some (ts', x) => match f_run deg ts' r with Some (ts2, xs) => Some (ts2, x :: xs) | None => None end
              | None => None end
  end.
Fixpoint h_run (deg : nat) (w : world) (ops : list hop) : option (world * list (option item)) :=
  match ops with
  | [] => Some (w, [])
  | o :: r => match w_step_h deg w o with
              | Some (w', x) => match h_run deg w' r with Some (w2, xs) => Some (w2, x :: xs) | None => None end
              | None => None end
  end.
(* every tree of the functional family stays below 2^31 items *)
Fixpoint f_small (deg : nat) (ts : list itree) (ops : list hop) : Prop :=
  match ops with
  | [] => True
  | o :: r => match f_step deg ts o with
              | Some (ts', _) => (forall t', In t' ts' -> small_t t') /\ f_small deg ts' r
              | None => True end
  end.

Theorem h_history deg : 2 <= deg -> forall ops w ts ts' outs, winv deg w ts ->
  f_run deg ts ops = Some (ts', outs) -> f_small deg ts ops ->
  exists w', h_run deg w ops = Some (w', outs) /\ winv deg w' ts'.
Proof.
  intros Hd. induction ops as [|o ops IH]; intros w ts ts' outs Hw Hf Hsm; cbn [f_run h_run f_small] in *.
  - inversion Hf; subst. exists w. auto.
  - destruct (f_step deg ts o) as [[ts1 x]|] eqn:E1; [|discriminate]. destruct Hsm as [Hs1 Hsm].
    destruct (f_run deg ts1 ops) as [[ts2 xs]|] eqn:E2; [|discriminate]. inversion Hf; subst ts' outs; clear Hf.
    destruct (w_step_sim deg Hd w ts o ts1 x Hw E1 Hs1) as (w1 & Ew1 & Hw1 & _). rewrite Ew1.
    destruct (IH w1 ts1 ts2 xs Hw1 E2 Hsm) as (w2 & Ew2 & Hw2). rewrite Ew2. exists w2. auto.
Qed.

(* from the empty tree *)
Corollary h_history_from_init deg k : 2 <= deg -> forall ops ts' outs,
  f_run deg [iempty] ops = Some (ts', outs) -> f_small deg [iempty] ops ->
  exists w', h_run deg (world_init k) ops = Some (w', outs) /\ winv deg w' ts'.
Proof. intros Hd ops ts' outs. apply (h_history deg Hd ops (world_init k) [iempty] ts' outs (winv_init deg k)). Qed.
Corollary h_history_from_empty deg : 2 <= deg -> forall ops ts' outs,
  f_run deg [iempty] ops = Some (ts', outs) -> f_small deg [iempty] ops ->
  exists w', h_run deg world0 ops = Some (w', outs) /\ winv deg w' ts'.
Proof. intros Hd. apply (h_history_from_init deg FLCAP Hd). Qed.

(* ---------------- what the invariant says ---------------- *)
(* abstraction: every handle stands for its functional tree, which satisfies the B-tree invariant *)
Theorem winv_abs deg w ts i hd : winv deg w ts -> nth_error (whs w) i = Some hd ->
  exists t L, nth_error ts i = Some t /\ habs (hp (wst w)) hd = Some t /\ refines deg t L.
Proof.
  intros Hw Hi. assert (Hl : i < length ts) by (rewrite <- (wi_len _ _ _ Hw); apply nth_error_Some; congruence).
  destruct (nth_error ts i) as [t|] eqn:Et; [|apply nth_error_None in Et; lia].
  destruct (wi_rel _ _ _ Hw i hd t Hi Et) as [A (L & B)]. exists t, L. auto.
Qed.

(* clone isolation: a write (or a Clone) through one handle leaves the value of every other handle unchanged *)
Theorem h_write_isolated deg : 2 <= deg -> forall w ts o ts' out w',
  winv deg w ts -> f_step deg ts o = Some (ts', out) -> (forall t', In t' ts' -> small_t t') ->
  w_step_h deg w o = Some (w', out) ->
  forall j hj, target o <> Some j -> nth_error (whs w) j = Some hj ->
    nth_error (whs w') j = Some hj /\ habs (hp (wst w')) hj = habs (hp (wst w)) hj.
Proof.
  intros Hd w ts o ts' out w' Hw Hf Hsm Hstep. destruct (w_step_sim deg Hd w ts o ts' out Hw Hf Hsm) as (w1 & E1 & _ & Hiso).
  rewrite Hstep in E1. inversion E1; subst w1. exact Hiso.
Qed.

(* ownership: a node owned by the context of one handle occurs in the tree of no other handle *)
Theorem winv_ownership deg w ts i j hi hj x n : winv deg w ts ->
  nth_error (whs w) i = Some hi -> nth_error (whs w) j = Some hj -> i <> j ->
  In x (hfp (hp (wst w)) hj) -> hp (wst w) x = Some n -> own n <> hctx hi.
Proof. intros Hw. apply (wi_sep _ _ _ Hw). Qed.

(* after Clone neither the original nor the copy owns any node *)
Theorem clone_owns_nothing deg w ts x n : winv deg w ts -> hp (wst w) x = Some n -> own n <> wctx w /\ own n <> S (wctx w).
Proof. intros Hw Hx. pose proof (wi_owner _ _ _ Hw x n Hx). lia. Qed.

(* the free list: what newNode hands out is in no handle's tree (recycled addresses and addresses beyond the
   allocation frontier are free, the nodes of every tree are allocated) *)
Theorem new_addr_unreachable deg w ts j hj : winv deg w ts -> nth_error (whs w) j = Some hj ->
  ~ In (fst (new_addr (wst w))) (hfp (hp (wst w)) hj).
Proof.
  intros Hw Hj Hin. destruct (new_addr_spec (wst w) (wi_alloc _ _ _ Hw)) as (Hfree & _).
  unfold hfp in Hin. destruct (hroot hj) as [r|]; [|destruct Hin]. exact (addrs_alloc IFUEL _ r _ Hin Hfree).
Qed.
Theorem free_list_unreachable deg w ts j hj a : winv deg w ts -> nth_error (whs w) j = Some hj -> In a (fl (wst w)) ->
  ~ In a (hfp (hp (wst w)) hj).
Proof.
  intros Hw Hj Ha Hin. destruct (wi_alloc _ _ _ Hw) as (_ & H2 & _). destruct (H2 a Ha) as [Hfree _].
  unfold hfp in Hin. destruct (hroot hj) as [r|]; [|destruct Hin]. exact (addrs_alloc IFUEL _ r _ Hin Hfree).
Qed.

(* ---------------- the same in terms of reachability (the vocabulary of C03_Cow.v) ---------------- *)
Lemma abs_self_in f h a t : abs f h a = Some t -> In a (addrs f h a).
Proof. destruct f as [|f]; [discriminate|]. intros H. apply abs_S in H. destruct H as (n & _ & Hn & _). apply (addrs_self f h a n Hn). Qed.

Lemma addrs_closed : forall f h r t a n k, abs f h r = Some t -> In a (addrs f h r) -> h a = Some n -> In k (kids n) -> In k (addrs f h r).
Proof.
  induction f as [|f IH]; intros h r t a n k Hr Ha Hn Hk; [discriminate|].
  pose proof Hr as Hr0. apply abs_S in Hr. destruct Hr as (nr & cs & Hnr & HF & ->).
  rewrite (addrs_unfold _ _ _ _ Hnr) in Ha |- *. destruct Ha as [<-|Ha].
  - rewrite Hnr in Hn. inversion Hn; subst n. right. apply in_flat_map. exists k. split; [exact Hk|].
    destruct (Forall2_In_l _ _ _ k HF Hk) as (ck & _ & Hck). apply (abs_self_in f h k ck Hck).
  - right. apply in_flat_map in Ha. destruct Ha as (k0 & Hk0 & Ha). apply in_flat_map. exists k0. split; [exact Hk0|].
    destruct (Forall2_In_l _ _ _ k0 HF Hk0) as (c0 & _ & Hc0). apply (IH h k0 c0 a n k Hc0 Ha Hn Hk).
Qed.

Lemma reach_in_addrs f h r t x : abs f h r = Some t -> reach h r x -> In x (addrs f h r).
Proof.
  intros Hr Hx. induction Hx as [|a n k _ IH Hn Hk]; [apply (abs_self_in f h r t Hr)|]. apply (addrs_closed f h r t a n k Hr IH Hn Hk).
Qed.

(* the three clauses of C03_Cow.Own for the handles of the family *)
Theorem winv_reach_alloc deg w ts i hd r a : winv deg w ts -> nth_error (whs w) i = Some hd -> hroot hd = Some r ->
  reach (hp (wst w)) r a -> hp (wst w) a <> None.
Proof.
  intros Hw Hi Hr Ha. destruct (winv_abs deg w ts i hd Hw Hi) as (t & L & _ & Hab & _). unfold habs in Hab. rewrite Hr in Hab.
  destruct (abs IFUEL (hp (wst w)) r) as [n|] eqn:E; [|discriminate]. apply (addrs_alloc IFUEL _ r a). apply (reach_in_addrs _ _ _ n a E Ha).
Qed.
Theorem winv_contexts_distinct deg w ts i j hi hj : winv deg w ts ->
  nth_error (whs w) i = Some hi -> nth_error (whs w) j = Some hj -> i <> j -> hctx hi <> hctx hj.
Proof. intros Hw. apply (wi_distinct _ _ _ Hw). Qed.
Theorem winv_owned_unreachable deg w ts i j hi hj r' a n : winv deg w ts ->
  nth_error (whs w) i = Some hi -> nth_error (whs w) j = Some hj -> i <> j -> hroot hj = Some r' ->
  reach (hp (wst w)) r' a -> hp (wst w) a = Some n -> own n <> hctx hi.
Proof.
  intros Hw Hi Hj Hne Hr Ha Hn. destruct (winv_abs deg w ts j hj Hw Hj) as (t & L & _ & Hab & _). unfold habs in Hab. rewrite Hr in Hab.
  destruct (abs IFUEL (hp (wst w)) r') as [nr|] eqn:E; [|discriminate].
  apply (wi_sep _ _ _ Hw i j hi hj a n Hi Hj Hne); [|exact Hn]. unfold hfp. rewrite Hr. apply (reach_in_addrs _ _ _ nr a E Ha).
Qed.
(* for a family in which every handle has a root these are exactly C03_Cow.Own *)
Theorem winv_Own deg w ts (hs : list handle) : winv deg w ts ->
  Forall2 (fun hd p => hroot hd = Some (fst p) /\ hctx hd = snd p) (whs w) hs -> Own (hp (wst w)) hs.
Proof.
  intros Hw HF.
  assert (G : forall i r c, nth_error hs i = Some (r, c) -> exists hd, nth_error (whs w) i = Some hd /\ hroot hd = Some r /\ hctx hd = c).
  { clear Hw. induction HF as [|hd p l1 l2 [A B] _ IH]; intros [|i] r c Hi; cbn in Hi; try discriminate.
    - inversion Hi; subst p. exists hd. cbn in *. auto.
    - apply (IH i r c Hi). }
  split; [|split].
  - intros r c a Hin Ha. apply In_nth_error in Hin. destruct Hin as [i Hi]. destruct (G i r c Hi) as (hd & Hd & Hr & _).
    apply (winv_reach_alloc deg w ts i hd r a Hw Hd Hr Ha).
  - intros i j r c r' c' Hi Hj Hne. destruct (G i r c Hi) as (hi & Hdi & _ & <-). destruct (G j r' c' Hj) as (hj & Hdj & _ & <-).
    apply (wi_distinct _ _ _ Hw i j hi hj Hdi Hdj Hne).
  - intros i j r c r' c' a n Hi Hj Hne Ha Hn. destruct (G i r c Hi) as (hi & Hdi & _ & <-). destruct (G j r' c' Hj) as (hj & Hdj & Hrj & _).
    apply (winv_owned_unreachable deg w ts i j hi hj r' a n Hw Hdi Hdj Hne Hrj Ha Hn).
Qed.
