(* C12: mq.MQ - the bounds over whole histories *)
From Coq Require Import ZArith List Bool Lia.
Require Import C12_Base C12_MQ.
Import ListNotations.

(* the bounds over histories: a bounded level never holds more than its capacity plus the number of accepted prior adds to it *)
Definition m_prior_c_ok (e : mop * res) : bool := match e with (MPriorCtrl _, RDone) => true | _ => false end.
Definition m_prior_r_ok (e : mop * res) : bool := match e with (MPriorReq _, RDone) => true | _ => false end.

Lemma m_step_caps s o : cmax (fst (m_step s o)) = cmax s /\ rmax (fst (m_step s o)) = rmax s.
Proof.
  destruct o as [x|x|x|x|x|x| | | | | | |]; cbn [m_step];
    unfold m_anyway, m_add_ctrl, m_add_req, m_prior_ctrl, m_prior_req, m_pop, m_pop_anyway, m_front, m_tryclose, m_tryclear, m_empty;
    destruct (mclosed s); destruct (cleared s);
    try destruct (full (cmax s) (length (ctrl s))); try destruct (full (rmax s) (length (req s)));
    try (destruct (ctrl s) as [|a c]; destruct (req s) as [|b r]); cbn; auto.
Qed.

Lemma m_step_len s o :
  ((0 < cmax s)%Z ->
   (Z.of_nat (length (ctrl (fst (m_step s o)))) <=
    (if m_prior_c_ok (o, snd (m_step s o)) then Z.of_nat (length (ctrl s)) + 1 else Z.max (Z.of_nat (length (ctrl s))) (cmax s)))%Z) /\
  ((0 < rmax s)%Z ->
   (Z.of_nat (length (req (fst (m_step s o)))) <=
    (if m_prior_r_ok (o, snd (m_step s o)) then Z.of_nat (length (req s)) + 1 else Z.max (Z.of_nat (length (req s))) (rmax s)))%Z).
Proof.
  pose proof (full_spec (cmax s) (length (ctrl s))) as Hfc. pose proof (full_spec (rmax s) (length (req s))) as Hfr.
  unfold m_prior_c_ok, m_prior_r_ok.
  destruct o as [x|x|x|x|x|x| | | | | | |]; cbn [m_step];
    unfold m_anyway, m_add_ctrl, m_add_req, m_prior_ctrl, m_prior_req, m_pop, m_pop_anyway, m_front, m_tryclose, m_tryclear, m_empty.
  - destruct (mclosed s); [cbn [fst snd]; split; intros; lia|].
    destruct (full (cmax s) (length (ctrl s))) eqn:Ef; cbn [fst snd ctrl req set_lists]; [split; intros; lia|].
    rewrite app_length. cbn [length]. split; intros Hp; [|lia].
    assert (~ (0 < cmax s /\ cmax s <= Z.of_nat (length (ctrl s)))%Z) by (intros H; apply Hfc in H; discriminate). lia.
  - destruct (mclosed s); [cbn [fst snd res_eqb]; split; intros; lia|].
    destruct (full (cmax s) (length (ctrl s))) eqn:Ef; cbn [fst snd ctrl req set_lists res_eqb]; [split; intros; lia|].
    rewrite app_length. cbn [length]. split; intros Hp; [|lia].
    assert (~ (0 < cmax s /\ cmax s <= Z.of_nat (length (ctrl s)))%Z) by (intros H; apply Hfc in H; discriminate). lia.
  - destruct (mclosed s); cbn [fst snd ctrl req set_lists length]; split; intros; lia.
  - destruct (mclosed s); [cbn [fst snd]; split; intros; lia|].
    destruct (full (rmax s) (length (req s))) eqn:Ef; cbn [fst snd ctrl req set_lists]; [split; intros; lia|].
    rewrite app_length. cbn [length]. split; intros Hp; [lia|].
    assert (~ (0 < rmax s /\ rmax s <= Z.of_nat (length (req s)))%Z) by (intros H; apply Hfr in H; discriminate). lia.
  - destruct (mclosed s); [cbn [fst snd res_eqb]; split; intros; lia|].
    destruct (full (rmax s) (length (req s))) eqn:Ef; cbn [fst snd ctrl req set_lists res_eqb]; [split; intros; lia|].
    rewrite app_length. cbn [length]. split; intros Hp; [lia|].
    assert (~ (0 < rmax s /\ rmax s <= Z.of_nat (length (req s)))%Z) by (intros H; apply Hfr in H; discriminate). lia.
  - destruct (mclosed s); cbn [fst snd ctrl req set_lists length]; split; intros; lia.
  - destruct (ctrl s) as [|a c] eqn:Ec; destruct (req s) as [|b r] eqn:Er; destruct (mclosed s);
      cbn [fst snd ctrl req set_lists]; rewrite ?Ec, ?Er; cbn [length]; split; intros; lia.
  - destruct (ctrl s) as [|a c] eqn:Ec; destruct (req s) as [|b r] eqn:Er; destruct (mclosed s);
      cbn [fst snd ctrl req set_lists]; rewrite ?Ec, ?Er; cbn [length]; split; intros; lia.
  - cbn [fst snd ctrl req set_flags]. split; intros; lia.
  - destruct (mclosed s); [cbn [fst snd]; split; intros; lia|].
    destruct (match ctrl s with [] => match req s with [] => true | _ => false end | _ => false end);
      cbn [fst snd ctrl req set_flags]; split; intros; lia.
  - destruct (cleared s); [cbn [fst snd]; split; intros; lia|]. destruct (mclosed s); [|cbn [fst snd]; split; intros; lia].
    destruct (match ctrl s with [] => match req s with [] => true | _ => false end | _ => false end);
      cbn [fst snd ctrl req set_flags]; split; intros; lia.
  - cbn [fst snd]. split; intros; lia.
  - cbn [fst snd]. split; intros; lia.
Qed.

Theorem m_bound : forall ops s kc kr,
  ((0 < cmax s)%Z -> (Z.of_nat (length (ctrl s)) <= cmax s + Z.of_nat kc)%Z) ->
  ((0 < rmax s)%Z -> (Z.of_nat (length (req s)) <= rmax s + Z.of_nat kr)%Z) ->
  let r := h_run m_step s ops in
  ((0 < cmax s)%Z -> (Z.of_nat (length (ctrl (snd r))) <= cmax s + Z.of_nat kc + Z.of_nat (length (filter m_prior_c_ok (fst r))))%Z) /\
  ((0 < rmax s)%Z -> (Z.of_nat (length (req (snd r))) <= rmax s + Z.of_nat kr + Z.of_nat (length (filter m_prior_r_ok (fst r))))%Z).
Proof.
  cbn zeta. induction ops as [|o ops IH]; intros s kc kr Hc Hr; [cbn; split; intros; [specialize (Hc H)|specialize (Hr H)]; lia|].
  cbn [h_run]. pose proof (m_step_len s o) as [L1 L2]. pose proof (m_step_caps s o) as [C1 C2].
  destruct (m_step s o) as [s' r] eqn:E. cbn [fst snd] in *.
  remember (m_prior_c_ok (o, r)) as bc eqn:Ebc. remember (m_prior_r_ok (o, r)) as br eqn:Ebr.
  specialize (IH s' (kc + (if bc then 1 else 0))%nat (kr + (if br then 1 else 0))%nat).
  destruct (h_run m_step s' ops) as [h s'']. cbn [fst snd] in *. rewrite C1, C2 in IH.
  destruct IH as [I1 I2].
  - intros Hp. specialize (Hc Hp). specialize (L1 Hp). destruct bc; lia.
  - intros Hp. specialize (Hr Hp). specialize (L2 Hp). destruct br; lia.
  - cbn [filter]. rewrite <- Ebc, <- Ebr. split; intros Hp.
    + specialize (I1 Hp). destruct bc; cbn [length]; lia.
    + specialize (I2 Hp). destruct br; cbn [length]; lia.
Qed.

Corollary m_bound_new cm rm ops :
  let r := h_run m_step (m_new cm rm) ops in
  ((0 < cm)%Z -> (Z.of_nat (length (ctrl (snd r))) <= cm + Z.of_nat (length (filter m_prior_c_ok (fst r))))%Z) /\
  ((0 < rm)%Z -> (Z.of_nat (length (req (snd r))) <= rm + Z.of_nat (length (filter m_prior_r_ok (fst r))))%Z).
Proof.
  cbn zeta. pose proof (m_bound ops (m_new cm rm) 0 0) as H. cbn zeta in H.
  assert (E1 : (0 < cm)%Z -> cmax (m_new cm rm) = cm) by (intros Hp; cbn [m_new cmax]; destruct (Z.ltb_spec 0 cm); lia).
  assert (E2 : (0 < rm)%Z -> rmax (m_new cm rm) = rm) by (intros Hp; cbn [m_new rmax]; destruct (Z.ltb_spec 0 rm); lia).
  destruct H as [H1 H2].
  - intros _. cbn [m_new ctrl length cmax]. destruct (Z.ltb_spec 0 cm); lia.
  - intros _. cbn [m_new req length rmax]. destruct (Z.ltb_spec 0 rm); lia.
  - split; intros Hp.
    + rewrite (E1 Hp) in H1. specialize (H1 Hp). lia.
    + rewrite (E2 Hp) in H2. specialize (H2 Hp). lia.
Qed.
