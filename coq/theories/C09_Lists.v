(* C09: list facts used by the proofs (take, index lists, the shared iteration loop, first-n-of-a-sorted-set) *)
From Coq Require Import ZArith List Bool Lia Sorted.
Require Import C09_Model.
Import ListNotations.
Open Scope Z_scope.

(* ------------------------------------------------------------------ take *)
Lemma zlen_nonneg {A} (l : list A) : 0 <= zlen l.
Proof. unfold zlen. lia. Qed.
Lemma zlen_app {A} (a b : list A) : zlen (a ++ b) = zlen a + zlen b.
Proof. unfold zlen. rewrite app_length. lia. Qed.
Lemma zlen_map {A B} (f : A -> B) l : zlen (map f l) = zlen l.
Proof. unfold zlen. now rewrite map_length. Qed.
Lemma zlen_rev {A} (l : list A) : zlen (rev l) = zlen l.
Proof. unfold zlen. now rewrite rev_length. Qed.
Lemma zlen_nil_inv {A} (l : list A) : zlen l = 0 -> l = [].
Proof. destruct l; [reflexivity|]. unfold zlen. cbn [length]. lia. Qed.

Lemma take_firstn {A} k (l : list A) : take k l = firstn (Z.to_nat k) l.
Proof.
  unfold take. destruct (Z.le_gt_cases k (Z.of_nat (length l))) as [H|H].
  - now rewrite Z.min_l by lia.
  - rewrite Z.min_r by lia. rewrite Nat2Z.id. rewrite firstn_all. symmetry. apply firstn_all2. lia.
Qed.
Lemma take_nonpos {A} k (l : list A) : k <= 0 -> take k l = [].
Proof. intros H. rewrite take_firstn. replace (Z.to_nat k) with O by lia. reflexivity. Qed.
Lemma take_all {A} k (l : list A) : zlen l <= k -> take k l = l.
Proof. intros H. rewrite take_firstn. apply firstn_all2. unfold zlen in H. lia. Qed.
Lemma take_nil {A} k : take k (@nil A) = [].
Proof. rewrite take_firstn. apply firstn_nil. Qed.
Lemma zlen_take {A} k (l : list A) : zlen (take k l) = Z.min (Z.max k 0) (zlen l).
Proof. rewrite take_firstn. unfold zlen. rewrite firstn_length. lia. Qed.
Lemma take_map {A B} (f : A -> B) k l : take k (map f l) = map f (take k l).
Proof. rewrite !take_firstn. apply firstn_map. Qed.
Lemma take_app {A} k (a b : list A) : take k (a ++ b) = take k a ++ take (k - zlen a) b.
Proof.
  rewrite !take_firstn. rewrite firstn_app. f_equal. unfold zlen.
  destruct (Z.le_gt_cases k (Z.of_nat (length a))) as [H|H].
  - replace (Z.to_nat k - length a)%nat with O by lia. replace (Z.to_nat (k - Z.of_nat (length a))) with O by lia. reflexivity.
  - f_equal. lia.
Qed.
Lemma take_take {A} k (l : list A) : forall m, k <= m -> take k (take m l) = take k l.
Proof.
  intros m H. rewrite !take_firstn. rewrite firstn_firstn. f_equal. lia.
Qed.
Lemma take_split {A} k (l : list A) : exists r, l = take k l ++ r /\ (r <> [] -> zlen (take k l) = k \/ k < 0).
Proof.
  exists (skipn (Z.to_nat k) l). rewrite take_firstn. split; [symmetry; apply firstn_skipn|].
  intros Hr. destruct (Z.lt_ge_cases k 0) as [Hk|Hk]; [right; exact Hk|left].
  unfold zlen. rewrite firstn_length.
  assert (Z.to_nat k < length l)%nat.
  { destruct (Nat.lt_ge_cases (Z.to_nat k) (length l)) as [Hlt|Hge]; [exact Hlt|]. exfalso. apply Hr. apply skipn_all2. exact Hge. }
  lia.
Qed.

(* ------------------------------------------------------------------ flat_map, rev, filter *)
Lemma flat_map_app' {A B} (f : A -> list B) a b : flat_map f (a ++ b) = flat_map f a ++ flat_map f b.
Proof. induction a as [|x a IH]; cbn [flat_map app]; [reflexivity|]. now rewrite IH, app_assoc. Qed.
Lemma rev_flat_map {A B} (f : A -> list B) l : rev (flat_map f l) = flat_map (fun x => rev (f x)) (rev l).
Proof.
  induction l as [|x l IH]; cbn [flat_map rev]; [reflexivity|].
  rewrite rev_app_distr, IH, flat_map_app'. cbn [flat_map]. now rewrite app_nil_r.
Qed.
Lemma flat_map_map' {A B C} (g : A -> B) (f : B -> list C) l : flat_map f (map g l) = flat_map (fun x => f (g x)) l.
Proof. induction l as [|x l IH]; cbn [flat_map map]; [reflexivity|]. now rewrite IH. Qed.
Lemma flat_map_ext_in {A B} (f g : A -> list B) l : (forall x, In x l -> f x = g x) -> flat_map f l = flat_map g l.
Proof.
  induction l as [|x l IH]; intros H; cbn [flat_map]; [reflexivity|].
  rewrite (H x (or_introl eq_refl)), IH; [reflexivity|]. intros y Hy. apply H. now right.
Qed.
Lemma filter_flat_map {A B} (p : B -> bool) (f : A -> list B) l : filter p (flat_map f l) = flat_map (fun x => filter p (f x)) l.
Proof. induction l as [|x l IH]; cbn [flat_map filter]; [reflexivity|]. now rewrite filter_app, IH. Qed.
Lemma filter_map_comm {A B} (p : B -> bool) (f : A -> B) l : filter p (map f l) = map f (filter (fun x => p (f x)) l).
Proof. induction l as [|x l IH]; cbn [map filter]; [reflexivity|]. destruct (p (f x)); cbn [map]; now rewrite IH. Qed.
Lemma filter_ext_in' {A} (p q : A -> bool) l : (forall x, In x l -> p x = q x) -> filter p l = filter q l.
Proof.
  induction l as [|x l IH]; intros H; cbn [filter]; [reflexivity|].
  rewrite (H x (or_introl eq_refl)), IH; [reflexivity|]. intros y Hy. apply H. now right.
Qed.
Lemma concat_map_flat_map {A B} (f : A -> list B) l : concat (map f l) = flat_map f l.
Proof. symmetry. apply flat_map_concat_map. Qed.
Lemma filter_length_le {A} (p : A -> bool) l : (length (filter p l) <= length l)%nat.
Proof. induction l as [|x l IH]; cbn [filter length]; [lia|]. destruct (p x); cbn [length]; lia. Qed.

(* ------------------------------------------------------------------ zseq *)
Lemma in_zseq n x : In x (zseq n) <-> 0 <= x < Z.of_nat n.
Proof.
  unfold zseq. rewrite in_map_iff. split.
  - intros (k & <- & Hk). apply in_seq in Hk. lia.
  - intros H. exists (Z.to_nat x). split; [lia|]. apply in_seq. lia.
Qed.
Lemma z16_eq : z16 = zseq 16. Proof. reflexivity. Qed.
Lemma z64_eq : z64 = zseq 64. Proof. reflexivity. Qed.
Lemma z1024_eq : z1024 = zseq 1024. Proof. vm_compute. reflexivity. Qed.
Lemma in_z16 x : In x z16 <-> 0 <= x < 16. Proof. rewrite z16_eq, in_zseq. lia. Qed.
Lemma in_z64 x : In x z64 <-> 0 <= x < 64. Proof. rewrite z64_eq, in_zseq. lia. Qed.
Lemma in_z1024 x : In x z1024 <-> 0 <= x < 1024. Proof. rewrite z1024_eq, in_zseq. lia. Qed.
Lemma z1024_chunks : z1024 = flat_map (fun k => map (fun i => i + 64 * k) z64) z16.
Proof. vm_compute. reflexivity. Qed.

Lemma zseq_sorted_from a n : StronglySorted Z.lt (map Z.of_nat (seq a n)).
Proof.
  revert a. induction n as [|n IH]; intros a; cbn [seq map]; constructor; [apply IH|].
  apply Forall_forall. intros x Hx. apply in_map_iff in Hx. destruct Hx as (k & <- & Hk). apply in_seq in Hk. lia.
Qed.
Lemma z1024_sorted : StronglySorted Z.lt z1024.
Proof. rewrite z1024_eq. apply zseq_sorted_from. Qed.

(* ------------------------------------------------------------------ sorted lists *)
Lemma sorted_filter {R : Z -> Z -> Prop} p l : StronglySorted R l -> StronglySorted R (filter p l).
Proof.
  induction 1 as [|x l Hs IH Hx]; cbn [filter]; [constructor|].
  destruct (p x); [|exact IH]. constructor; [exact IH|].
  apply Forall_forall. intros y Hy. apply filter_In in Hy. destruct Hy as [Hy _].
  rewrite Forall_forall in Hx. now apply Hx.
Qed.
Lemma sorted_map {R R' : Z -> Z -> Prop} (f : Z -> Z) l :
  (forall x y, R x y -> R' (f x) (f y)) -> StronglySorted R l -> StronglySorted R' (map f l).
Proof.
  intros Hf. induction 1 as [|x l Hs IH Hx]; cbn [map]; constructor; [exact IH|].
  apply Forall_forall. intros y Hy. apply in_map_iff in Hy. destruct Hy as (z & <- & Hz).
  rewrite Forall_forall in Hx. apply Hf. now apply Hx.
Qed.
Lemma sorted_app_inv {R : Z -> Z -> Prop} a b :
  StronglySorted R (a ++ b) -> StronglySorted R a /\ StronglySorted R b /\ (forall x y, In x a -> In y b -> R x y).
Proof.
  induction a as [|x a IH]; cbn [app]; intros H.
  - split; [constructor|]. split; [exact H|]. intros x y [].
  - inversion H as [|? ? Hs Hx]; subst. destruct (IH Hs) as (Ha & Hb & Hab).
    rewrite Forall_forall in Hx. split.
    + constructor; [exact Ha|]. apply Forall_forall. intros y Hy. apply Hx. apply in_or_app. now left.
    + split; [exact Hb|]. intros x' y [<-|Hx'] Hy; [apply Hx; apply in_or_app; now right|now apply Hab].
Qed.
Lemma sorted_app {R : Z -> Z -> Prop} a b :
  StronglySorted R a -> StronglySorted R b -> (forall x y, In x a -> In y b -> R x y) -> StronglySorted R (a ++ b).
Proof.
  induction 1 as [|x a Hs IH Hx]; cbn [app]; intros Hb Hab; [exact Hb|].
  constructor; [apply IH; [exact Hb|]; intros x' y Hx' Hy; apply Hab; [now right|exact Hy]|].
  apply Forall_forall. intros y Hy. apply in_app_or in Hy. destruct Hy as [Hy|Hy].
  - rewrite Forall_forall in Hx. now apply Hx.
  - apply Hab; [now left|exact Hy].
Qed.
Lemma sorted_rev l : StronglySorted Z.lt l -> StronglySorted Z.gt (rev l).
Proof.
  induction 1 as [|x l Hs IH Hx]; cbn [rev]; [constructor|].
  apply sorted_app; [exact IH|repeat constructor|].
  intros a b Ha [<-|[]]. apply in_rev in Ha. rewrite Forall_forall in Hx. specialize (Hx a Ha). lia.
Qed.
Lemma sorted_take {R : Z -> Z -> Prop} k l : StronglySorted R l -> StronglySorted R (take k l).
Proof.
  intros H. destruct (take_split k l) as (r & E & _). rewrite E in H. now apply sorted_app_inv in H.
Qed.
Lemma in_take {A} k (l : list A) x : In x (take k l) -> In x l.
Proof.
  intros H. destruct (take_split k l) as (r & E & _). rewrite E. apply in_or_app. now left.
Qed.

(* ------------------------------------------------------------------ the shared loop *)
Lemma iter_loop_spec {X} (it : X -> Z -> list Z) (full : X -> list Z) :
  forall xs, (forall x, In x xs -> forall k, it x k = take k (full x)) ->
  forall n iterN acc, iter_loop it xs n iterN acc = acc ++ take (n - iterN) (flat_map full xs).
Proof.
  induction xs as [|x xs IH]; intros Hit n iterN acc; cbn [iter_loop flat_map].
  - now rewrite take_nil, app_nil_r.
  - destruct (iterN >=? n) eqn:E.
    + apply Z.geb_le in E. rewrite take_nonpos by lia. now rewrite app_nil_r.
    + rewrite Z.geb_leb in E. apply Z.leb_gt in E.
      rewrite IH by (intros y Hy; apply Hit; now right).
      rewrite (Hit x (or_introl eq_refl)), take_app, <- app_assoc. f_equal. f_equal.
      rewrite zlen_take.
      destruct (Z.le_gt_cases (zlen (full x)) (n - iterN)) as [H|H].
      * f_equal. pose proof (zlen_nonneg (full x)). lia.
      * rewrite !take_nonpos by lia. reflexivity.
Qed.

