(* C02: what the driver evaluates on every observed case (definitions in C02_Case.v).

   case_accept : the labels are of the kinds each action may cause, they are a run of the model, every state reached at a
                 round boundary is quiescent and implies exactly the observation made (model_matches), and the schedule
                 was driven to the end (drained: a fact about the action list alone).
   case_holds  : the property's clauses on the actions and observations alone.
   case_sound  : every clause of case_holds FOLLOWS from the replayed run of the model (C02_Complete.v): hook counts and
                 entry count = the live callers, exclusion among returned callers, returned is live, a blocked caller
                 conflicts with another live caller, some caller has returned while ordered callers are inside, nothing
                 blocked in an unlock or hook. *)
From Coq Require Import List Bool Arith.
Require Export C02_Case.
Require Import C02_Complete.
Import ListNotations.

Definition case_accept (c : case) : bool := model_matches c && drained c.

Theorem case_sound : forall c, case_accept c = true -> case_holds c = true.
Proof. intros c H. unfold case_accept in H. apply andb_prop in H. destruct H as [H1 H2]. exact (model_matches_holds c H1 H2). Qed.
