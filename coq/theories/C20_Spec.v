(* C20: the monitor side.  The independent reading of a token (`reads`: what the text denotes, by arbitrary-precision
   arithmetic, no width cut-offs, floor division for instants), the observed stdlib codecs (`oracle`), the type of an
   observed case, `accept` (the implementation did exactly what the model does) and `holds` (the property's clauses
   on the observation alone). *)
From Coq Require Import ZArith List Lia Bool.
Require Export C20_Model C20_Base64.
Require Import Cases_Common.
Import ListNotations.
Open Scope Z_scope.

(* ---------------- decidable equalities ---------------- *)
Definition val_eqb (a b : val) : bool :=
  match a, b with
  | VZ x, VZ y => x =? y
  | VL x, VL y => zlist_eqb x y
  | VT s n, VT s' n' => (s =? s') && (n =? n')
  | _, _ => false
  end.
Definition res_eqb {A} (e : A -> A -> bool) (a b : res A) : bool :=
  match a, b with Ok x, Ok y => e x y | Err, Err => true | Panic, Panic => true | _, _ => false end.
Definition sqlv_eqb (a b : sqlv) : bool :=
  match a, b with
  | SI32 x, SI32 y | SU32 x, SU32 y | SI64 x, SI64 y | SU64 x, SU64 y | SInt x, SInt y | SUint x, SUint y => x =? y
  | STime s n, STime s' n' => (s =? s') && (n =? n')
  | SBytes x, SBytes y | SStr x, SStr y => zlist_eqb x y
  | SOther, SOther => true
  | _, _ => false
  end.

(* ---------------- the stdlib codecs as observed by the harness on this case ---------------- *)
(* o_parse: text -> what time.ParseDuration / RawStdEncoding.DecodeString returned for it;
   o_show: value -> what Duration.String / RawStdEncoding.EncodeToString returned for it *)
Record oracle := { o_parse : list (list Z * res val); o_show : list (val * list Z) }.
Fixpoint assoc {A B} (e : A -> A -> bool) (k : A) (l : list (A * B)) : option B :=
  match l with [] => None | (a, b) :: r => if e k a then Some b else assoc e k r end.
(* a text the harness did not look up counts as rejected; a value it did not show has no text *)
Definition orc_dur_parse (o : oracle) (s : list Z) : res Z :=
  match assoc zlist_eqb s (o_parse o) with Some (Ok (VZ d)) => Ok d | _ => Err end.
Definition orc_dur_show (o : oracle) (d : Z) : list Z :=
  match assoc val_eqb (VZ d) (o_show o) with Some s => s | None => [0] end.
Definition orc_b64_dec (o : oracle) (s : list Z) : res (list Z) :=
  match assoc zlist_eqb s (o_parse o) with Some (Ok (VL l)) => Ok l | _ => Err end.
Definition orc_b64_enc (o : oracle) (l : list Z) : list Z :=
  match assoc val_eqb (VL l) (o_show o) with Some s => s | None => [0] end.

(* short forms for the case files *)
Definition O0 : oracle := {| o_parse := []; o_show := [] |}.
Definition OP (s : list Z) (r : res val) : oracle := {| o_parse := [(s, r)]; o_show := [] |}.             (* parse s = r *)
Definition OSP (v : val) (s : list Z) (r : res val) : oracle := {| o_parse := [(s, r)]; o_show := [(v, s)] |}.   (* show v = s, parse s = r *)

(* ---------------- what a token denotes ---------------- *)
Definition is_quoted (b : list Z) : bool := Nat.leb 2 (length b) && quoted_ends b.
Definition omap {A B} (f : A -> B) (x : option A) : option B := match x with Some a => Some (f a) | None => None end.
Definition floor_time (n : Z) : val := VT (n / E9) (n mod E9).           (* the instant n nanoseconds after the epoch *)
Definition is_byte (z : Z) : bool := (0 <=? z) && (z <=? 255).
Fixpoint read_bytes (parts : list (list Z)) : option (list Z) :=
  match parts with
  | [] => Some []
  | p :: r => match read_int 10 p, read_bytes r with
              | Some v, Some l => if is_byte v then Some (v :: l) else None
              | _, _ => None
              end
  end.
Definition read_bytestr (s : list Z) : option (list Z) := match s with [] => Some [] | _ => read_bytes (split s) end.

(* P = the reading of a duration text (time.ParseDuration, a stdlib codec the wrapper only calls) *)
Definition reads (P : list Z -> res Z) (t : cty) (b : list Z) : option val :=
  match t with
  | JI64 => if is_quoted b then match inner b with [] => Some (VZ 0) | s => omap VZ (read_int 10 s) end     (* "" is 0: JsInt64's own rule *)
            else omap VZ (read_int 10 b)
  | JU64 => if is_quoted b then omap VZ (read_nat 10 (inner b)) else None
  | JUnixTime => if is_quoted b then omap (fun z => VT z 0) (read_int 10 (inner b)) else None
  | JNanoTime => if is_quoted b then omap floor_time (read_int 10 (inner b)) else None
  | JStamp => if is_quoted b then omap VZ (read_int 10 (inner b)) else None
  | JDur => if is_quoted b then match P (inner b) with Ok d => Some (VZ d) | _ => None end else None
  | JByte => if is_quoted b then omap VL (read_bytestr (inner b)) else None
  | XByteStr => omap VL (read_bytestr b)
  | XHex sg base => omap VZ (if sg then read_int base b else read_nat base b)
  end.

(* one observed decode result: a value must be the denoted one; an error is always admissible; the only admissible
   panic is JsInt64 on the lone quote character (not a JSON token) *)
Definition dec_ok (P : list Z -> res Z) (t : cty) (tok : list Z) (r : res val) : bool :=
  match r with
  | Ok v => opt_eqb val_eqb (reads P t tok) (Some v)
  | Err => true
  | Panic => match t with JI64 => zlist_eqb tok [QUOTE] | _ => false end
  end.

(* ---------------- value domains of the encoders ---------------- *)
Definition in_i64 (z : Z) : bool := (- 2 ^ 63 <=? z) && (z <? 2 ^ 63).
Definition in_u64 (z : Z) : bool := (0 <=? z) && (z <? 2 ^ 64).
Definition in_ns (n : Z) : bool := (0 <=? n) && (n <? E9).
Definition in_dom (t : cty) (v : val) : bool :=
  match t, v with
  | JI64, VZ z | JStamp, VZ z | JDur, VZ z => in_i64 z
  | JU64, VZ z => in_u64 z
  | JUnixTime, VT s n => in_i64 s && in_ns n
  | JNanoTime, VT s n => in_ns n && in_i64 (s * E9 + n)                     (* representable in int64 nanoseconds *)
  | JByte, VL l | XByteStr, VL l => forallb is_byte l
  | XHex sg base, VZ z => (2 <=? base) && (base <=? 36) && (if sg then in_i64 z else in_u64 z)
  | _, _ => false
  end.
(* what a round trip gives back: the second form drops the nanosecond part *)
Definition canon (t : cty) (v : val) : val := match t, v with JUnixTime, VT s n => VT s 0 | _, _ => v end.

Definition sql_dom (k : sqlk) (v : val) : bool :=
  match k, v with
  | KUnix2Time, VT s n => in_i64 s && in_ns n
  | KNano2Time, VT s n => in_ns n && in_i64 (s * E9 + n)
  | KStamp, VZ z | KSqlTime2Unix, VZ z => in_i64 z
  | KBase64, VL l => forallb is_byte l
  | _, _ => false
  end.
Definition sql_canon (k : sqlk) (v : val) : val := match k, v with KUnix2Time, VT s n => VT s 0 | _, _ => v end.

(* the integer an SQL argument carries when its type is one of the six and the value fits int64 *)
Definition int_arg (v : sqlv) : option Z :=
  match v with
  | SI32 z | SU32 z | SI64 z | SInt z => Some z
  | SU64 z | SUint z => if (0 <=? z) && (z <? 2 ^ 63) then Some z else None
  | _ => None
  end.
(* D = base64.RawStdEncoding.DecodeString *)
Definition scan_ok (D : list Z -> res (list Z)) (k : sqlk) (v : sqlv) (r : res val) : bool :=
  match k with
  | KUnix2Time => match int_arg v with Some z => res_eqb val_eqb r (Ok (VT z 0)) | None => true end
  | KNano2Time => match int_arg v with Some z => res_eqb val_eqb r (Ok (floor_time z)) | None => true end
  | KStamp | KSqlTime2Unix => match v with STime s _ => res_eqb val_eqb r (Ok (VZ s)) | _ => true end
  | KBase64 => match r with
               | Ok w => match v with SBytes l | SStr l => res_eqb val_eqb (rmap VL (D l)) (Ok w) | _ => false end
               | Err => true
               | Panic => false
               end
  end.

(* ---------------- cases ---------------- *)
(* one kept result of a history of encoder calls: the text (or SQL value) as the caller reads it at the END of the
   history, after further encoder calls were made, and what decoding it then gives *)
Inductive item :=
| IEnc (t : cty) (v : val) (o : oracle) (out : list Z) (back : res val)
| IValue (k : sqlk) (v old : val) (o : oracle) (out : sqlv) (back : res val).

Inductive case :=
| CDec (t : cty) (tok : list Z) (o : oracle) (obs : list (res val))          (* decode tok: result on every path that delivered exactly tok *)
| CEnc (t : cty) (v : val) (o : oracle) (out : list Z) (back : res val)      (* encode v = out; decode out = back *)
| CToml (v : option (list Z)) (o : oracle) (obs : res val)                   (* Duration.UnmarshalTOML *)
| CScan (k : sqlk) (old : val) (v : sqlv) (o : oracle) (obs : res val)       (* Scan(v) on a receiver holding old *)
| CValue (k : sqlk) (v old : val) (o : oracle) (out : sqlv) (back : res val)  (* Value() = out; Scan(out) on a receiver holding old = back *)
| CHist (items : list item).   (* encode many (sequentially, or each item by its own goroutine), keep the results, encode more, read and decode at the end *)
Definition to_case (i : item) : case :=
  match i with IEnc t v o out back => CEnc t v o out back | IValue k v old o out back => CValue k v old o out back end.

(* the stdlib pair round-trips on the value of this case (the Section hypothesis of the theorems, sampled) *)
Definition std_dur_ok (o : oracle) (t : cty) (v : val) : bool :=
  match t, v with
  | JDur, VZ d => negb (Nat.eqb (length (orc_dur_show o d)) 0) && res_eqb Z.eqb (orc_dur_parse o (orc_dur_show o d)) (Ok d)
  | JDur, _ => false
  | _, _ => true
  end.
Definition std_b64_ok (o : oracle) (k : sqlk) (v : val) : bool :=
  match k, v with KBase64, VL l => res_eqb zlist_eqb (orc_b64_dec o (orc_b64_enc o l)) (Ok l) | KBase64, _ => false | _, _ => true end.

(* the observed base64 codec is the concrete model of C20_Base64.v on the strings of this case *)
Definition b64_tied (c : case) : bool :=
  match c with
  | CScan KBase64 _ (SBytes l) o _ | CScan KBase64 _ (SStr l) o _ => res_eqb zlist_eqb (b64_dec l) (orc_b64_dec o l)
  | CValue KBase64 (VL l) _ o _ _ =>
      zlist_eqb (b64_enc l) (orc_b64_enc o l) && res_eqb zlist_eqb (b64_dec (b64_enc l)) (orc_b64_dec o (b64_enc l))
  | _ => true
  end.

Definition accept_core (c : case) : bool :=
  match c with
  | CDec t tok o obs => negb (Nat.eqb (length obs) 0) && forallb (res_eqb val_eqb (dec (orc_dur_parse o) true t tok)) obs
  | CEnc t v o out back =>
      opt_eqb zlist_eqb (enc (orc_dur_show o) t v) (Some out)
      && res_eqb val_eqb (dec (orc_dur_parse o) true t out) back
      && std_dur_ok o t v
  | CToml v o obs => res_eqb val_eqb (rmap VZ (dur_toml (orc_dur_parse o) v)) obs
  | CScan k old v o obs => res_eqb val_eqb (scan (orc_b64_dec o) k old v) obs
  | CValue k v old o out back =>
      opt_eqb sqlv_eqb (value_of (orc_b64_enc o) k v) (Some out)
      && res_eqb val_eqb (scan (orc_b64_dec o) k old out) back
      && std_b64_ok o k v
  | CHist _ => false
  end.

(* the single-call cases *)
Definition accept0 (c : case) : bool := accept_core c && b64_tied c.

Definition holds0 (c : case) : bool :=
  match c with
  | CDec t tok o obs => forallb (dec_ok (orc_dur_parse o) t tok) obs                                          (* exact or error *)
  | CEnc t v o out back => negb (in_dom t v) || res_eqb val_eqb back (Ok (canon t v))         (* round trip *)
  | CToml v o obs =>
      match obs with
      | Ok (VZ d) => match v with Some s => res_eqb Z.eqb (orc_dur_parse o s) (Ok d) | None => false end
      | Ok _ => false
      | Err => true
      | Panic => false
      end
  | CScan k old v o obs => scan_ok (orc_b64_dec o) k v obs
  | CValue k v old o out back => negb (sql_dom k v) || res_eqb val_eqb back (Ok (sql_canon k v))
  | CHist _ => true
  end.

(* a history: every kept result, read at the end, is the model's text for its own value (accept) and still decodes to
   its own value (holds) *)
Definition accept (c : case) : bool :=
  match c with
  | CHist items => negb (Nat.eqb (length items) 0) && forallb (fun i => accept0 (to_case i)) items
  | _ => accept0 c
  end.
Definition holds (c : case) : bool :=
  match c with
  | CHist items => forallb (fun i => holds0 (to_case i)) items
  | _ => holds0 c
  end.
