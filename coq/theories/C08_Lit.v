(* C08: how the case files spell a 64-bit word.  A number notation for N / Z costs about a millisecond per 64-bit
   numeral (the whole binary representation is type-checked node by node, 11 s for 10 000 numerals); eight
   constructors of Coq.Init.Byte.byte cost 0.07 ms.  A word is written  wb b0 ... b7  (little-endian bytes),
   a large integer  zp b0 ... b7  or  zn b0 ... b7  (minus).  Only case files use this; no theorem mentions it. *)
From Coq Require Import ZArith NArith.
Require Export Coq.Init.Byte.   (* the 256 constructors x00 .. xff *)
Require Coq.Strings.Byte.
Local Notation bN := Coq.Strings.Byte.to_N (only parsing).

Definition wb (b0 b1 b2 b3 b4 b5 b6 b7 : byte) : N :=
  (bN b0 + 256 * (bN b1 + 256 * (bN b2 + 256 * (bN b3 + 256 * (bN b4
   + 256 * (bN b5 + 256 * (bN b6 + 256 * bN b7)))))))%N.
Definition zp (b0 b1 b2 b3 b4 b5 b6 b7 : byte) : Z := Z.of_N (wb b0 b1 b2 b3 b4 b5 b6 b7).
Definition zn (b0 b1 b2 b3 b4 b5 b6 b7 : byte) : Z := (- Z.of_N (wb b0 b1 b2 b3 b4 b5 b6 b7))%Z.
(* the empty word (most words of a sparse bitmap), one node *)
Definition w0 : N := 0%N.
